// C19 (one clause) native witness: formatting a response for the CSV file never removes or replaces information in the response handed back
#[cfg(kani)]
mod verif_c19_wit {
    use super::*;
    use serde_json::{json, Value};

    #[test]
    fn c19_wit_csv_formatting_keeps_the_search_error() {
        for sorted in [false, true] {
            let mut mapping: OrderedHashMap<String, CsvMapping> = OrderedHashMap::new();
            mapping.insert(String::from("distance"), CsvMapping::Path(String::from("traversal_summary.distance")));
            mapping.insert(String::from("origin"), CsvMapping::Path(String::from("request.origin_vertex")));
            let format = ResponseOutputFormat::Csv { mapping, sorted };
            // an ERROR response: it has no traversal summary, so the `distance` column cannot be filled
            let mut response = json!({"request": {"origin_vertex": 0, "destination_vertex": 9}, "error": "no path exists between vertices 0 and 9"});
            let before = response.clone();
            let row = format.format_response(&mut response).expect("an unfillable column is not a failure of the batch");
            assert_eq!(row.split(',').count(), 2, "one cell per mapped column: {:?}", row);
            // everything the response held before is still there, unchanged
            for (k, v) in before.as_object().unwrap().iter() {
                assert_eq!(response.get(k), Some(v), "sorted={}: field `{}` of the response handed back was removed or replaced: {}", sorted, k, response);
            }
            // a successful response is not touched at all when every column can be filled
            let mut ok = json!({"request": {"origin_vertex": 0}, "traversal_summary": {"distance": 12.5}});
            let ok_before = ok.clone();
            format.format_response(&mut ok).unwrap();
            assert_eq!(ok, ok_before);
        }
    }

    /// C19: "CSV output has a single header followed by rows whose columns follow the configured mapping IN HEADER ORDER": column i of a row is the value of the
    /// column named at position i of the header -- for both orders, with column names of mixed case
    #[test]
    fn c19_wit_csv_row_cells_follow_the_header_order() {
        for sorted in [false, true] {
            let names = ["Zeta", "alpha", "Beta", "gamma", "ALPHA", "delta"];
            let mut mapping: OrderedHashMap<String, CsvMapping> = OrderedHashMap::new();
            let mut fields = serde_json::Map::new();
            for (i, n) in names.iter().enumerate() {
                mapping.insert(n.to_string(), CsvMapping::Path(format!("values.{}", n)));
                fields.insert(n.to_string(), json!(1000 + i));
            }
            let format = ResponseOutputFormat::Csv { mapping, sorted };
            let mut response = json!({ "values": fields.clone() });
            let header = format.initial_file_contents().expect("a CSV file has a header");
            assert!(header.ends_with('\n') && header.matches('\n').count() == 1, "the header is one line: {:?}", header);
            let columns: Vec<&str> = header.trim_end_matches('\n').split(',').collect();
            let row = format.format_response(&mut response).unwrap();
            let cells: Vec<&str> = row.split(',').collect();
            assert_eq!(columns.len(), names.len(), "every mapped column is in the header once: {:?}", columns);
            assert_eq!(cells.len(), columns.len(), "one cell per header column");
            for (c, cell) in columns.iter().zip(cells.iter()) {
                assert_eq!(*cell, fields[*c].to_string(), "sorted={}: the cell under header column `{}` must hold that column's value; header {:?}, row {:?}", sorted, c, columns, cells);
            }
        }
    }

    /// C19: a cell is its mapping applied to the response -- a path, a sum of paths (an optional summand that is absent counts as nothing), an optional path --
    /// and a response whose columns can all be filled is not touched
    #[test]
    fn c19_wit_csv_cells_are_the_mapping_applied_to_the_response() {
        let response = json!({"a": {"b": 2.5, "c": 4.0}, "d": 10, "n": null});
        let path = |p: &str| CsvMapping::Path(p.to_string());
        let opt = |m: CsvMapping| CsvMapping::Optional { optional: Box::new(m) };
        let sum = |ms: Vec<CsvMapping>| CsvMapping::Sum { sum: ms.into_iter().map(Box::new).collect() };
        assert_eq!(path("a.b").apply_mapping(&response), Ok(json!(2.5)));
        assert_eq!(path("d").apply_mapping(&response), Ok(json!(10)));
        assert!(path("a.x").apply_mapping(&response).is_err(), "a missing path is reported");
        assert_eq!(opt(path("a.x")).apply_mapping(&response), Ok(Value::Null), "an absent optional value is an empty cell, not an error");
        assert_eq!(opt(path("a.c")).apply_mapping(&response), Ok(json!(4.0)));
        assert_eq!(sum(vec![path("a.b"), path("a.c"), path("d")]).apply_mapping(&response), Ok(json!(16.5)));
        assert_eq!(sum(vec![path("a.b"), opt(path("a.x")), path("d")]).apply_mapping(&response), Ok(json!(12.5)), "an absent optional summand counts as nothing");
        assert_eq!(sum(vec![path("a.b"), path("n")]).apply_mapping(&response), Ok(json!(2.5)), "a null summand counts as nothing");
        assert!(sum(vec![path("a.b"), path("a.x")]).apply_mapping(&response).is_err(), "a missing mandatory summand is reported");
        // through format_response: all columns fillable => the response handed back is not touched
        let mut mapping: OrderedHashMap<String, CsvMapping> = OrderedHashMap::new();
        mapping.insert(String::from("total"), sum(vec![path("a.b"), opt(path("a.x")), path("d")]));
        mapping.insert(String::from("maybe"), opt(path("a.x")));
        let format = ResponseOutputFormat::Csv { mapping, sorted: true };
        let mut r = response.clone();
        let row = format.format_response(&mut r).unwrap();
        assert_eq!(row, "null,12.5", "columns `maybe`, `total`");
        assert_eq!(r, response, "no column failed: the response handed back must be untouched, found {}", r);
    }

    /// C19 ("rows whose columns follow the configured mapping in header order"): a row has exactly one cell per header column, also when a mapped value is an array
    /// or a text with a comma -- read with the quoting rule of CSV (a cell in double quotes may hold commas)
    #[test]
    fn c19_wit_csv_row_has_one_cell_per_column_for_any_value() {
        fn csv_cells(line: &str) -> usize {   // number of cells under CSV quoting: commas inside a double-quoted cell do not separate
            let (mut n, mut quoted) = (1, false);
            for ch in line.chars() { if ch == '"' { quoted = !quoted; } else if ch == ',' && !quoted { n += 1; } }
            n
        }
        let mut mapping: OrderedHashMap<String, CsvMapping> = OrderedHashMap::new();
        mapping.insert(String::from("path"), CsvMapping::Path(String::from("route.path")));
        mapping.insert(String::from("name"), CsvMapping::Path(String::from("request.name")));
        let format = ResponseOutputFormat::Csv { mapping, sorted: true };
        let header = format.initial_file_contents().unwrap();
        let mut response = json!({"request": {"name": "depot, north"}, "route": {"path": [0, 2, 5]}});
        let row = format.format_response(&mut response).unwrap();
        assert_eq!(csv_cells(&row), csv_cells(header.trim_end()), "header {:?} has {} columns, the row {:?} has {} cells", header.trim_end(), csv_cells(header.trim_end()), row, csv_cells(&row));
    }
}
