// C19 (one clause) native witness: formatting a response for the CSV file never removes or replaces information in the response handed back
#[cfg(kani)]
mod verif_c19_wit {
    use super::*;
    use serde_json::json;

    #[test]
    fn c19_wit_csv_formatting_keeps_the_search_error() {
        for sorted in [false, true] {
            let mut mapping: OrderedHashMap<String, CsvMapping> = OrderedHashMap::new();
            mapping.insert(String::from("distance"), CsvMapping::Path(String::from("traversal_summary.distance")));
            mapping.insert(String::from("origin"), CsvMapping::Path(String::from("request.origin_vertex")));
            let format = ResponseOutputFormat::Csv { mapping, sorted };
            // an ERROR response: it has no traversal summary, so the `distance` column cannot be filled
            let mut response = json!({"request": {"origin_vertex": 0, "destination_vertex": 9}, "error": "no path exists between vertices 0 and 9"});
            let before = response.clone();
            let row = format.format_response(&mut response).expect("an unfillable column is not a failure of the batch");
            assert_eq!(row.split(',').count(), 2, "one cell per mapped column: {:?}", row);
            // everything the response held before is still there, unchanged
            for (k, v) in before.as_object().unwrap().iter() {
                assert_eq!(response.get(k), Some(v), "sorted={}: field `{}` of the response handed back was removed or replaced: {}", sorted, k, response);
            }
            // a successful response is not touched at all when every column can be filled
            let mut ok = json!({"request": {"origin_vertex": 0}, "traversal_summary": {"distance": 12.5}});
            let ok_before = ok.clone();
            format.format_response(&mut ok).unwrap();
            assert_eq!(ok, ok_before);
        }
    }
}
