// C10.1/2 -- TerminationModel::{terminate_search, test, explain_termination} on the real code.
// Assumptions (listed in the evidence): Instant::now is replaced by a symbolic clock (stub); format! is replaced by a
// stub returning an empty String (error TEXT is not checked, only the error variant).
#[cfg(kani)]
mod verif_c10 {
    use super::*;
    use std::time::{Duration, Instant};

    fn epoch() -> Instant { unsafe { std::mem::zeroed() } }
    /// symbolic clock: some instant 0..2^16 s after the epoch
    static mut NOW_SECS: u16 = 0;
    fn now_stub() -> Instant { let s: u16 = kani::any(); unsafe { NOW_SECS = s; } epoch() + Duration::new(s as u64, 0) }
    fn format_stub(_a: std::fmt::Arguments<'_>) -> String { String::new() }

    fn is_terminated(r: &Result<(), TerminationModelError>) -> bool { matches!(r, Err(TerminationModelError::QueryTerminated(_))) }

    /// iteration limit: stop iff iteration + 1 > limit; test() == Err(QueryTerminated) iff it stops, never RuntimeError
    #[kani::proof]
    #[kani::stub(alloc::fmt::format, format_stub)]
    #[kani::unwind(3)]
    fn c10_iterations_limit() {
        let limit: u64 = kani::any();
        let it: u64 = kani::any();
        let size: usize = kani::any();
        kani::assume(it < u64::MAX); // the counter of run_a_star starts at 0 and is incremented once per turn
        let m = TerminationModel::IterationsLimit { limit };
        let t0 = epoch();
        let stop = m.terminate_search(&t0, size, it).unwrap();
        assert!(stop == (it + 1 > limit), "iteration kind: stop iff iteration + 1 > limit");
        let r = m.test(&t0, size, it);
        assert!(stop == is_terminated(&r), "test() is Err(QueryTerminated) exactly when the limit fired");
        assert!(stop || r.is_ok(), "no limit hit => Ok");
        assert!(m.explain_termination(&t0, size, it).is_some() == stop, "an explanation exists exactly when the limit fired");
        kani::cover!(stop);
        kani::cover!(!stop);
    }

    /// solution size limit: stop iff solution_size > limit
    #[kani::proof]
    #[kani::stub(alloc::fmt::format, format_stub)]
    #[kani::unwind(3)]
    fn c10_solution_size_limit() {
        let limit: usize = kani::any();
        let it: u64 = kani::any();
        let size: usize = kani::any();
        let m = TerminationModel::SolutionSizeLimit { limit };
        let t0 = epoch();
        let stop = m.terminate_search(&t0, size, it).unwrap();
        assert!(stop == (size > limit), "size kind: stop iff solution_size > limit");
        let r = m.test(&t0, size, it);
        assert!(stop == is_terminated(&r));
        assert!(stop || r.is_ok());
        assert!(m.explain_termination(&t0, size, it).is_some() == stop);
        kani::cover!(stop);
        kani::cover!(!stop);
    }

    /// runtime limit: evaluated only when iteration % frequency == 0, then stop iff elapsed > limit; no panic for any frequency
    #[kani::proof]
    #[kani::stub(std::time::Instant::now, now_stub)]
    #[kani::stub(alloc::fmt::format, format_stub)]
    #[kani::unwind(3)]
    fn c10_runtime_limit() {
        // widths reduced (u8 frequency, u16 iteration, u16 seconds): a symbolic 64-bit remainder costs CBMC minutes
        let frequency: u64 = kani::any::<u8>() as u64;
        let it: u64 = kani::any::<u16>() as u64;
        let secs: u32 = kani::any::<u16>() as u32;
        let m = TerminationModel::QueryRuntimeLimit { limit: Duration::new(secs as u64, 0), frequency };
        let t0 = epoch();
        let stop = m.terminate_search(&t0, 0, it).unwrap();
        if frequency != 0 && it % frequency != 0 { assert!(!stop, "not a scheduled check => never stops"); }
        else { assert!(stop == (unsafe { NOW_SECS } as u64 > secs as u64), "scheduled check => stop iff elapsed > limit"); }
        kani::cover!(stop);
        kani::cover!(!stop);
    }

    /// Combined of one leaf kind: same answer as the member
    #[kani::proof]
    #[kani::stub(alloc::fmt::format, format_stub)]
    #[kani::unwind(3)]
    fn c10_combined_one() {
        let l1: u64 = kani::any::<u8>() as u64;
        let it: u64 = kani::any::<u8>() as u64;
        let m = TerminationModel::Combined { models: vec![TerminationModel::IterationsLimit { limit: l1 }] };
        let t0 = epoch();
        let stop = m.terminate_search(&t0, 0, it).unwrap();
        assert!(stop == (it + 1 > l1), "combined: disjunction of the members");
        kani::cover!(stop);
    }

    /// native witness (never counted as proof): the time budget is compared as a DURATION -- a budget overrun by less than a whole second is overrun
    #[test]
    fn c10_wit_runtime_limit_is_a_duration() {
        use std::time::{Duration, Instant};
        let started = Instant::now().checked_sub(Duration::from_millis(700)).expect("the clock is at least 700 ms past its origin");
        for (limit_ms, expect) in [(0u64, true), (100, true), (500, true), (650, true), (60_000, false), (3_600_000, false)] {
            let m = TerminationModel::QueryRuntimeLimit { limit: Duration::from_millis(limit_ms), frequency: 1 };
            assert_eq!(m.terminate_search(&started, 0, 0).unwrap(), expect, "700 ms after the start, budget {} ms", limit_ms);
            let c = TerminationModel::Combined { models: vec![TerminationModel::IterationsLimit { limit: 1_000_000 }, m] };
            assert_eq!(c.terminate_search(&started, 0, 0).unwrap(), expect, "inside a combined model: 700 ms after the start, budget {} ms", limit_ms);
        }
    }
}
