// C20 (identifier clause) native witness: row i of the identifier table is the identifier of vertex i, whatever the rows hold (never counted as proof)
#[cfg(kani)]
mod verif_c20_uuid_wit {
    use super::*;

    #[test]
    fn c20_wit_identifier_table_row_i_is_vertex_i() {
        let dir = std::env::temp_dir().join(format!("verif_c20_{}", std::process::id()));
        std::fs::create_dir_all(&dir).unwrap();
        // vertex 2 has no external identifier (an empty row), vertex 4's is blank, two vertices share one
        let rows = ["a-0", "b-1", "", "d-3", "  ", "b-1", "g-6"];
        for trailing_newline in [true, false] {
            let path = dir.join(format!("uuids_{}.txt", trailing_newline));
            let mut text = rows.join("\n");
            if trailing_newline {
                text.push('\n');
            }
            std::fs::write(&path, text).unwrap();
            let plugin = UUIDOutputPlugin::from_file(&path).unwrap();
            assert_eq!(plugin.uuids.len(), rows.len(), "one identifier per vertex, blank ones included");
            for (i, row) in rows.iter().enumerate() {
                assert_eq!(plugin.uuids[i].as_str(), *row, "the identifier of vertex {} is row {} of the table", i, i);
            }
        }
        let _ = std::fs::remove_dir_all(&dir);
    }
}
