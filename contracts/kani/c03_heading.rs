// C03.1 -- EdgeHeading::bearing_to_destination: the turn angle between two edges, for every pair of compass headings.
#[cfg(kani)]
pub(crate) mod verif_c03_heading {
    use super::*;
    pub(crate) fn heading_ok(h: &EdgeHeading) -> bool {
        let a = h.arrival_heading;
        let d = match h.departure_heading { Some(x) => x, None => 0 };
        a >= 0 && a <= 360 && d >= 0 && d <= 360 // "cardinal angles [0, 360)" per the struct's documentation (360 tolerated)
    }
    /// result in -180..=180 and congruent to (destination.start - self.end) modulo 360
    pub(crate) fn bearing_post(s: &EdgeHeading, d: &EdgeHeading, r: i16) -> bool {
        let end = match s.departure_heading { Some(x) => x, None => s.arrival_heading };
        let diff = d.arrival_heading as i32 - end as i32;
        (r as i32) >= -180 && (r as i32) <= 180 && (diff - r as i32) % 360 == 0
            && (!(diff >= -180 && diff <= 180) || r as i32 == diff)
    }
    fn any_heading() -> EdgeHeading {
        EdgeHeading { arrival_heading: kani::any(), departure_heading: if kani::any() { Some(kani::any()) } else { None } }
    }
    #[kani::proof_for_contract(EdgeHeading::bearing_to_destination)]
    fn c03_bearing_contract() {
        let (s, d) = (any_heading(), any_heading());
        let r = s.bearing_to_destination(&d);
        assert!(!(heading_ok(&s) && heading_ok(&d)) || bearing_post(&s, &d, r), "bearing in -180..=180, congruent to dest.start - self.end mod 360");
        kani::cover!(true);
    }
    /// the departure heading defaults to the arrival heading
    #[kani::proof]
    fn c03_end_heading_default() {
        let a: i16 = kani::any();
        let h = EdgeHeading { arrival_heading: a, departure_heading: None };
        assert!(h.end_heading() == a && h.start_heading() == a);
        let b: i16 = kani::any();
        let g = EdgeHeading::new(a, b);
        assert!(g.start_heading() == a && g.end_heading() == b);
        kani::cover!(true);
    }
}
