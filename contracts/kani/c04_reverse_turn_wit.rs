// C04 native witness (never counted as proof): restricted turns under a REVERSE search (the direction the single-via k-shortest-path driver uses for its second tree).
#[cfg(kani)]
mod verif_c04_reverse_turn_wit {
    use super::*;
    use routee_compass_core::algorithm::search::a_star::a_star_algorithm::run_a_star;
    use routee_compass_core::algorithm::search::backtrack::vertex_oriented_route;
    use routee_compass_core::algorithm::search::direction::Direction;
    use routee_compass_core::algorithm::search::search_instance::SearchInstance;
    use routee_compass_core::model::access::default::no_access_model::NoAccessModel;
    use routee_compass_core::model::cost::cost_aggregation::CostAggregation;
    use routee_compass_core::model::cost::cost_model::CostModel;
    use routee_compass_core::model::cost::vehicle::vehicle_cost_rate::VehicleCostRate;
    use routee_compass_core::model::network::edge_id::EdgeId;
    use routee_compass_core::model::network::graph::Graph;
    use routee_compass_core::model::network::vertex_id::VertexId;
    use routee_compass_core::model::network::{Edge, Vertex};
    use routee_compass_core::model::state::state_feature::StateFeature;
    use routee_compass_core::model::termination::termination_model::TerminationModel;
    use routee_compass_core::model::traversal::default::distance_traversal_model::DistanceTraversalModel;
    use routee_compass_core::model::unit::{Distance, DistanceUnit};
    use routee_compass_core::util::compact_ordered_hash_map::CompactOrderedHashMap;
    use std::collections::{HashMap, HashSet};

    /// (0) -[0]-> (1) -[1]-> (3)   short way, 2 units;   (0) -[2]-> (2) -[3]-> (3)   long way, 10 units
    fn diamond() -> Graph {
        let vertices: Vec<Vertex> = (0..4).map(|i| Vertex::new(i, 0.0, 0.0)).collect();
        let edges = vec![Edge::new(0, 0, 1, 1.0), Edge::new(1, 1, 3, 1.0), Edge::new(2, 0, 2, 5.0), Edge::new(3, 2, 3, 5.0)];
        let mut adj = vec![CompactOrderedHashMap::empty(); vertices.len()];
        let mut rev = vec![CompactOrderedHashMap::empty(); vertices.len()];
        for e in &edges { adj[e.src_vertex_id.0].insert(e.edge_id, e.dst_vertex_id); rev[e.dst_vertex_id.0].insert(e.edge_id, e.src_vertex_id); }
        Graph { adj: adj.into_boxed_slice(), rev: rev.into_boxed_slice(), edges: edges.into_boxed_slice(), vertices: vertices.into_boxed_slice() }
    }
    fn instance(fm: Arc<dyn FrontierModel>) -> SearchInstance {
        let sm = Arc::new(StateModel::empty().extend(vec![(String::from("distance"),
            StateFeature::Distance { distance_unit: DistanceUnit::Meters, initial: Distance::new(0.0) })]).unwrap());
        let cost_model = CostModel::new(Arc::new(HashMap::from([(String::from("distance"), 1.0)])), Arc::new(HashMap::from([(String::from("distance"), VehicleCostRate::Raw)])),
            Arc::new(HashMap::new()), CostAggregation::Sum, sm.clone()).unwrap();
        SearchInstance { directed_graph: Arc::new(diamond()), state_model: sm, traversal_model: Arc::new(DistanceTraversalModel::new(DistanceUnit::Meters)),
            access_model: Arc::new(NoAccessModel {}), cost_model: Arc::new(cost_model), frontier_model: fm, termination_model: Arc::new(TerminationModel::IterationsLimit { limit: 50 }) }
    }
    fn turn_model() -> Arc<dyn FrontierModel> {
        // the turn from edge 0 onto edge 1 is forbidden
        let service = TurnRestrictionFrontierService { restricted_edge_pairs: Arc::new(HashSet::from([RestrictedEdgePair { prev_edge_id: EdgeId(0), next_edge_id: EdgeId(1) }])) };
        Arc::new(TurnRestrictionFrontierModel { service: Arc::new(service) })
    }

    /// forward search: the restricted turn sends the route the long way round
    #[test]
    fn c04_wit_forward_search_avoids_the_restricted_turn() {
        let si = instance(turn_model());
        let r = run_a_star(VertexId(0), Some(VertexId(3)), &Direction::Forward, None, &si).unwrap();
        let ids: Vec<usize> = vertex_oriented_route(VertexId(0), VertexId(3), &r.tree).unwrap().iter().map(|e| e.edge_id.0).collect();
        assert_eq!(ids, vec![2, 3], "forward route avoids the turn 0 -> 1");
    }
    /// reverse search (from the destination backwards, as the single-via driver builds its second tree): the route it stores, read in TRAVEL order, must not take the turn either
    #[test]
    fn c04_wit_reverse_search_avoids_the_restricted_turn() {
        let si = instance(turn_model());
        let r = run_a_star(VertexId(3), Some(VertexId(0)), &Direction::Reverse, None, &si).unwrap();
        let mut ids: Vec<usize> = vertex_oriented_route(VertexId(3), VertexId(0), &r.tree).unwrap().iter().map(|e| e.edge_id.0).collect();
        // the backtrack of a reverse tree lists the edges from the far end (vertex 0) towards the search origin (vertex 3) or the other way round; normalise to travel order
        if ids.first() == Some(&1) || ids.first() == Some(&3) { ids.reverse(); }
        assert!(!ids.windows(2).any(|w| w[0] == 0 && w[1] == 1), "the reverse search's route {:?} (travel order) takes the restricted turn from edge 0 onto edge 1", ids);
    }
    /// edge-oriented queries: the turn from the ORIGIN EDGE onto the next edge of the route is a turn of the route like any other
    #[test]
    fn c04_wit_edge_oriented_route_avoids_the_restricted_turn_after_the_origin_edge() {
        use routee_compass_core::algorithm::search::search_algorithm::SearchAlgorithm;
        let si = instance(turn_model());
        let q = serde_json::json!({});
        // origin edge 0 (0 -> 1), destination edge 1 (1 -> 3): the only route is the restricted turn itself -> no route may be returned
        if let Ok(r) = SearchAlgorithm::Dijkstra.run_edge_oriented(EdgeId(0), Some(EdgeId(1)), &q, &Direction::Forward, &si) {
            for route in r.routes.iter() {
                let ids: Vec<usize> = route.iter().map(|e| e.edge_id.0).collect();
                assert!(!ids.windows(2).any(|w| w[0] == 0 && w[1] == 1), "the edge-oriented route {:?} takes the restricted turn from edge 0 onto edge 1", ids);
            }
        }
    }
}
