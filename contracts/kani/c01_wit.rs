// C01 native witnesses (thorough tier): concrete runs of the real drivers checked against the statement of C01.
#[cfg(kani)]
mod verif_c01_wit {
    use super::*;
    use crate::algorithm::search::search_instance::verif_world as W;
    use crate::algorithm::search::util::route_similarity_function::RouteSimilarityFunction;
    use crate::model::frontier::default::no_restriction::NoRestriction;
    use crate::model::termination::termination_model::TerminationModel;
    use std::sync::Arc;

    /// the statement of C01 for one route: contiguous walk from `from` to `to`, no edge twice
    fn check_walk(si: &SearchInstance, route: &[EdgeTraversal], from: VertexId, to: VertexId) {
        assert!(!route.is_empty());
        let g = &si.directed_graph;
        assert_eq!(g.src_vertex_id(&route[0].edge_id).unwrap(), from, "first edge leaves the origin");
        assert_eq!(g.dst_vertex_id(&route[route.len() - 1].edge_id).unwrap(), to, "last edge arrives at the destination");
        for w in route.windows(2) {
            assert_eq!(g.dst_vertex_id(&w[0].edge_id).unwrap(), g.src_vertex_id(&w[1].edge_id).unwrap(), "every edge starts where the previous one ended");
        }
        let mut ids: Vec<usize> = route.iter().map(|e| e.edge_id.0).collect();
        ids.sort();
        ids.dedup();
        assert_eq!(ids.len(), route.len(), "no edge occurs twice");
    }
    /// the statement of C01 for one tree: each entry's edge joins parent to entry; parents lead to the origin without revisiting
    fn check_tree(si: &SearchInstance, tree: &HashMap<VertexId, SearchTreeBranch>, origin: VertexId, forward: bool) {
        let g = &si.directed_graph;
        for (k, b) in tree.iter() {
            let (s, d) = (g.src_vertex_id(&b.edge_traversal.edge_id).unwrap(), g.dst_vertex_id(&b.edge_traversal.edge_id).unwrap());
            if forward { assert!(d == *k && s == b.terminal_vertex, "entry edge joins parent to entry"); }
            else { assert!(s == *k && d == b.terminal_vertex, "entry edge joins entry to parent (reverse)"); }
            let mut v = *k;
            let mut steps = 0;
            while v != origin { v = tree.get(&v).expect("parent is an entry or the origin").terminal_vertex; steps += 1; assert!(steps <= tree.len(), "no vertex revisited"); }
        }
    }

    #[test]
    fn c01_wit_box_world_all_pairs() {
        let si = W::box_instance();
        let q = serde_json::json!({});
        for alg in [SearchAlgorithm::Dijkstra, SearchAlgorithm::AStarAlgorithm { weight_factor: None }] {
            for s in 0..4usize { for t in 0..4usize { if s != t {
                let r = alg.run_vertex_oriented(VertexId(s), Some(VertexId(t)), &q, &Direction::Forward, &si).unwrap();
                check_walk(&si, &r.routes[0], VertexId(s), VertexId(t));
                check_tree(&si, &r.trees[0], VertexId(s), true);
                let r = alg.run_vertex_oriented(VertexId(t), Some(VertexId(s)), &q, &Direction::Reverse, &si).unwrap();
                check_tree(&si, &r.trees[0], VertexId(t), false);
            } } }
        }
    }

    /// edge-oriented query whose destination edge's head vertex is reached by the vertex-oriented search BEFORE its tail vertex:
    ///   e0: 0->1 (origin edge)   e1: 1->3 (1)   e2: 3->2 (1)   e3: 2->3 (destination edge)
    #[test]
    fn c01_wit_edge_oriented_destination_head_already_in_tree() {
        let si = W::instance(W::graph(4, &[(0, 1, 1.0), (1, 3, 1.0), (3, 2, 1.0), (2, 3, 1.0)]), Arc::new(NoRestriction {}), TerminationModel::IterationsLimit { limit: 1000 });
        let q = serde_json::json!({});
        let r = SearchAlgorithm::Dijkstra.run_edge_oriented(EdgeId(0), Some(EdgeId(3)), &q, &Direction::Forward, &si).unwrap();
        let ids: Vec<usize> = r.routes[0].iter().map(|e| e.edge_id.0).collect();
        assert_eq!(ids.first(), Some(&0), "route starts with the origin edge");
        assert_eq!(ids.last(), Some(&3), "route ends with the destination edge");
        check_walk(&si, &r.routes[0], VertexId(0), VertexId(3));
    }

    /// edge-oriented query whose connecting path runs through the TAIL vertex of the origin edge (the trip starts with a trip around the block):
    ///   e0: 0->1 (origin edge)   e1: 1->0   e2: 0->2   e3: 2->3 (destination edge)       the only route is [e0, e1, e2, e3]
    #[test]
    fn c01_wit_edge_oriented_origin_tail_on_the_connecting_path() {
        let si = W::instance(W::graph(4, &[(0, 1, 1.0), (1, 0, 1.0), (0, 2, 1.0), (2, 3, 1.0)]), Arc::new(NoRestriction {}), TerminationModel::IterationsLimit { limit: 1000 });
        let q = serde_json::json!({});
        let r = SearchAlgorithm::Dijkstra.run_edge_oriented(EdgeId(0), Some(EdgeId(3)), &q, &Direction::Forward, &si).unwrap();
        let ids: Vec<usize> = r.routes[0].iter().map(|e| e.edge_id.0).collect();
        assert_eq!(ids.last(), Some(&3), "route ends with the destination edge");
        assert_eq!(ids.first(), Some(&0), "route starts with the origin edge");
    }

    /// adjacent origin / destination edges
    #[test]
    fn c01_wit_edge_oriented_adjacent() {
        let si = W::box_instance();
        let q = serde_json::json!({});
        let r = SearchAlgorithm::Dijkstra.run_edge_oriented(EdgeId(7), Some(EdgeId(5)), &q, &Direction::Forward, &si).unwrap(); // 0->3 then 3->2
        let ids: Vec<usize> = r.routes[0].iter().map(|e| e.edge_id.0).collect();
        assert_eq!(ids, vec![7, 5]);
        check_tree(&si, &r.trees[0], VertexId(0), true);
    }

    /// single-via alternatives: every returned route is a valid walk; first is the least-cost route
    #[test]
    fn c01_wit_single_via_routes_are_walks() {
        // a ladder: two parallel corridors 0-1-2-3 and 0-4-5-3 plus rungs, with a directed cycle 2->6->1
        let g = W::graph(7, &[(0, 1, 1.0), (1, 2, 1.0), (2, 3, 1.0), (0, 4, 1.5), (4, 5, 1.5), (5, 3, 1.5), (1, 5, 2.0), (4, 2, 2.0), (2, 6, 1.0), (6, 1, 1.0)]);
        let si = W::instance(g, Arc::new(NoRestriction {}), TerminationModel::IterationsLimit { limit: 10000 });
        let q = serde_json::json!({});
        let alg = SearchAlgorithm::KspSingleVia { k: 4, underlying: Box::new(SearchAlgorithm::Dijkstra),
            similarity: Some(RouteSimilarityFunction::EdgeIdCosineSimilarity { threshold: 0.95 }), termination: None };
        let r = alg.run_vertex_oriented(VertexId(0), Some(VertexId(3)), &q, &Direction::Forward, &si).unwrap();
        assert!(!r.routes.is_empty() && r.routes.len() <= 4);
        assert_eq!(r.routes[0].iter().map(|e| e.edge_id.0).collect::<Vec<_>>(), vec![0, 1, 2]);
        for route in r.routes.iter() { check_walk(&si, route, VertexId(0), VertexId(3)); }
        for i in 0..r.routes.len() { for j in 0..i {
            let (a, b): (Vec<usize>, Vec<usize>) = (r.routes[i].iter().map(|e| e.edge_id.0).collect(), r.routes[j].iter().map(|e| e.edge_id.0).collect());
            assert!(a != b, "no two routes have the same edge sequence");
        } }
        // C13 "without turning an answerable query into an error": a dead-end spur (1 -> 3) hangs off a vertex that both trees reach; vertex 3 is in the forward tree only and must
        // never be tried as a via vertex (the reverse tree cannot be backtracked from it)
        let g = W::graph(6, &[(0, 1, 1.0), (1, 2, 1.0), (2, 4, 1.0), (1, 3, 0.5), (0, 5, 2.0), (5, 4, 1.5)]);
        let si = W::instance(g, Arc::new(NoRestriction {}), TerminationModel::IterationsLimit { limit: 10000 });
        let alg = SearchAlgorithm::KspSingleVia { k: 3, underlying: Box::new(SearchAlgorithm::Dijkstra), similarity: None, termination: None };
        let r = alg.run_vertex_oriented(VertexId(0), Some(VertexId(4)), &q, &Direction::Forward, &si).expect("the destination is reachable: the query must not end in an error");
        assert!(!r.routes.is_empty() && r.routes.len() <= 3);
        assert_eq!(r.routes[0].iter().map(|e| e.edge_id.0).collect::<Vec<_>>(), vec![0, 1, 2]);
        for route in r.routes.iter() { check_walk(&si, route, VertexId(0), VertexId(4)); }
    }

    /// an access model whose effect depends on the PAIR (previous edge, next edge): it adds 1000 * previous id + next id metres
    struct PairPenalty {}
    impl crate::model::access::access_model::AccessModel for PairPenalty {
        fn state_features(&self) -> Vec<(String, crate::model::state::state_feature::StateFeature)> { vec![] }
        fn access_edge(&self, t: (&crate::model::network::Vertex, &crate::model::network::Edge, &crate::model::network::Vertex, &crate::model::network::Edge, &crate::model::network::Vertex),
                       state: &mut Vec<crate::model::traversal::state::state_variable::StateVar>, sm: &crate::model::state::state_model::StateModel)
            -> Result<(), crate::model::access::access_model_error::AccessModelError> {
            let (_, e1, _, e2, _) = t;
            let penalty = crate::model::unit::Distance::new(1000.0 * e1.edge_id.0 as f64 + e2.edge_id.0 as f64);
            sm.add_distance(state, &String::from("distance"), &penalty, &crate::model::unit::DistanceUnit::Meters)
                .map_err(|e| crate::model::access::access_model_error::AccessModelError::RuntimeError { name: String::from("pair"), error: e.to_string() })
        }
    }

    /// C03 / C13: the state and costs a k-shortest-path route reports are those of traversing ITS edges in order -- each edge accessed from the
    /// edge actually before it -- from the initial state.  Checked by re-traversing every returned route from scratch with the real
    /// EdgeTraversal::forward_traversal under an access model that depends on the (previous, next) edge pair.
    #[test]
    fn c03_wit_ksp_routes_report_their_own_retraversal() {
        use crate::algorithm::search::edge_traversal::EdgeTraversal;
        use crate::model::unit::as_f64::AsF64;
        let g = W::graph(7, &[(0, 1, 1.0), (1, 2, 1.0), (2, 3, 1.0), (0, 4, 1.5), (4, 5, 1.5), (5, 3, 1.5), (1, 5, 2.0), (4, 2, 2.0), (2, 6, 1.0), (6, 1, 1.0)]);
        let mut si = W::instance(g, Arc::new(NoRestriction {}), TerminationModel::IterationsLimit { limit: 10000 });
        si.access_model = Arc::new(PairPenalty {});
        let q = serde_json::json!({});
        for alg in [SearchAlgorithm::KspSingleVia { k: 4, underlying: Box::new(SearchAlgorithm::Dijkstra), similarity: None, termination: None },
                    SearchAlgorithm::Yens { k: 3, underlying: Box::new(SearchAlgorithm::Dijkstra), similarity: None, termination: None }] {
            let r = alg.run_vertex_oriented(VertexId(0), Some(VertexId(3)), &q, &Direction::Forward, &si).unwrap();
            assert!(r.routes.len() >= 2, "the ladder has alternatives");
            for route in r.routes.iter() {
                let mut state = si.state_model.initial_state().unwrap();
                let mut prev = None;
                for et in route.iter() {
                    let again = EdgeTraversal::forward_traversal(et.edge_id, prev, &state, &si).unwrap();
                    let ids: Vec<usize> = route.iter().map(|e| e.edge_id.0).collect();
                    assert_eq!(again.result_state.iter().map(|v| v.0).collect::<Vec<_>>(), et.result_state.iter().map(|v| v.0).collect::<Vec<_>>(),
                               "route {:?}, edge {}: the reported state is the state of re-traversing the route", ids, et.edge_id.0);
                    assert!((again.total_cost().as_f64() - et.total_cost().as_f64()).abs() < 1e-9, "route {:?}, edge {}: the reported cost is the cost of re-traversing the route", ids, et.edge_id.0);
                    state = again.result_state.clone();
                    prev = Some(et.edge_id);
                }
            }
        }
    }

    /// C05: "no path" exactly when the destination is unreachable -- on worlds with dead ends, a one-way bridge and an isolated vertex, for both algorithms and both
    /// directions; a destination-less search labels exactly the reachable vertices
    #[test]
    fn c05_wit_no_path_exactly_when_unreachable() {
        // 0 -> 1 -> 2 -> 0 (a cycle), 2 -> 3 (one-way bridge), 3 -> 4, 5 isolated, 6 -> 0 (only leaves)
        let edges = [(0, 1, 1.0), (1, 2, 1.0), (2, 0, 1.0), (2, 3, 5.0), (3, 4, 1.0), (6, 0, 2.0)];
        let n = 7usize;
        let si = W::instance(W::graph(n, &edges), Arc::new(NoRestriction {}), TerminationModel::IterationsLimit { limit: 1000 });
        // reachability by an independent closure
        let mut reach = vec![vec![false; n]; n];
        for v in 0..n { reach[v][v] = true; }
        for _ in 0..n { for (a, b, _) in edges.iter() { for s in 0..n { if reach[s][*a] { reach[s][*b] = true; } } } }
        let q = serde_json::json!({});
        for alg in [SearchAlgorithm::Dijkstra, SearchAlgorithm::AStarAlgorithm { weight_factor: None }] {
            for s in 0..n { for t in 0..n { if s != t {
                let fwd = alg.run_vertex_oriented(VertexId(s), Some(VertexId(t)), &q, &Direction::Forward, &si);
                match fwd {
                    Ok(r) => { assert!(reach[s][t], "{} -> {}: a route was returned although {} is not reachable", s, t, t); check_walk(&si, &r.routes[0], VertexId(s), VertexId(t)); }
                    Err(SearchError::NoPathExistsBetweenVertices(a, b)) => { assert!(!reach[s][t], "{} -> {}: 'no path' although a path exists", s, t); assert_eq!((a, b), (VertexId(s), VertexId(t))); }
                    Err(e) => panic!("{} -> {}: neither a route nor 'no path': {:?}", s, t, e),
                }
                // reverse direction: from t backwards to s
                let rev = alg.run_vertex_oriented(VertexId(t), Some(VertexId(s)), &q, &Direction::Reverse, &si);
                match rev {
                    Ok(_) => assert!(reach[s][t], "reverse {} <- {}: a route was returned although there is no path", t, s),
                    Err(SearchError::NoPathExistsBetweenVertices(_, _)) => assert!(!reach[s][t], "reverse {} <- {}: 'no path' although a path exists", t, s),
                    Err(e) => panic!("reverse {} <- {}: neither a route nor 'no path': {:?}", t, s, e),
                }
            } } }
            // without a destination: the tree labels exactly the vertices reachable from the origin (the origin itself has no entry)
            for s in 0..n {
                let r = alg.run_vertex_oriented(VertexId(s), None, &q, &Direction::Forward, &si).unwrap();
                let mut labelled: Vec<usize> = r.trees[0].keys().map(|v| v.0).collect();
                labelled.sort();
                let want: Vec<usize> = (0..n).filter(|t| *t != s && reach[s][*t]).collect();
                assert_eq!(labelled, want, "tree search from {}: the tree holds exactly the reachable vertices", s);
            }
        }
    }

    /// C01 (edge-oriented k-shortest-path queries): every returned route starts with the origin edge, ends with the destination edge and is a contiguous walk --
    /// for every ordered pair of distinct edges of a one-way ring with a chord (pairs that are consecutive, "around the block", or far apart)
    #[test]
    fn c01_wit_ksp_edge_oriented_routes_are_walks() {
        // one-way ring 0 -> 1 -> 2 -> 3 -> 0 with a chord 1 -> 3 and a spur 2 -> 4 -> 0
        let edges = [(0, 1, 1.0), (1, 2, 1.0), (2, 3, 1.0), (3, 0, 1.0), (1, 3, 3.0), (2, 4, 1.0), (4, 0, 1.0)];
        let si = W::instance(W::graph(5, &edges), Arc::new(NoRestriction {}), TerminationModel::IterationsLimit { limit: 10000 });
        let q = serde_json::json!({});
        let algs = [
            SearchAlgorithm::Yens { k: 2, underlying: Box::new(SearchAlgorithm::Dijkstra), similarity: None, termination: None },
            SearchAlgorithm::KspSingleVia { k: 2, underlying: Box::new(SearchAlgorithm::Dijkstra), similarity: None, termination: None },
        ];
        let mut checked = 0;
        for alg in algs.iter() {
            for o in 0..edges.len() { for d in 0..edges.len() { if o != d {
                let r = match alg.run_edge_oriented(EdgeId(o), Some(EdgeId(d)), &q, &Direction::Forward, &si) { Ok(r) => r, Err(_) => continue };
                for route in r.routes.iter() {
                    let ids: Vec<usize> = route.iter().map(|e| e.edge_id.0).collect();
                    assert_eq!(ids.first(), Some(&o), "edge {} -> edge {}: the route {:?} must start with the origin edge", o, d, ids);
                    assert_eq!(ids.last(), Some(&d), "edge {} -> edge {}: the route {:?} must end with the destination edge", o, d, ids);
                    for w in ids.windows(2) {
                        assert_eq!(edges[w[0]].1, edges[w[1]].0, "edge {} -> edge {}: the route {:?} has a gap between edges {} and {}", o, d, ids, w[0], w[1]);
                    }
                    // C03: the destination edge's record carries the state after the last edge of THIS route (by design it adds nothing), and the distance never decreases along the route
                    let n = route.len();
                    if n >= 3 {
                        let (last, before) = (&route[n - 1].result_state, &route[n - 2].result_state);
                        assert!(last.iter().zip(before.iter()).all(|(a, b)| a.0 == b.0), "edge {} -> edge {}: route {:?}: the destination edge's record holds {:?}, the state after the route's last edge is {:?}", o, d, ids, last, before);
                    }
                    for w in route.windows(2) { assert!(w[1].result_state[0].0 >= w[0].result_state[0].0, "edge {} -> edge {}: route {:?}: the distance decreases along the route", o, d, ids); }
                    checked += 1;
                }
            } } }
        }
        assert!(checked >= 40, "only {} routes were returned and checked", checked);
    }

    /// C02 / C05 (least cost): on a world where the FIRST label a vertex gets is not its least one (relabelling and re-queueing are needed), a tree search labels every
    /// reachable vertex with its least cost -- the cost accumulated along the tree's own chain of parent links equals the shortest distance computed by an independent
    /// all-pairs closure -- for both algorithms and both directions; and a search towards a destination reports that same least cost
    #[test]
    fn c02_wit_tree_labels_are_least_costs() {
        use crate::model::unit::as_f64::AsF64;
        // 0 -> 2 directly is long (10) but found first; 0 -> 1 -> 2 is short (2): vertex 2 is relabelled after it was queued; 2 -> 3 -> 4 hang behind it;
        // 0 -> 5 (3) and 1 -> 5 (1): 5 relabelled; 5 -> 4 (1) competes with 3 -> 4; 4 -> 0 closes a cycle; 6 only leaves
        let edges = [(0, 2, 10.0), (0, 1, 1.0), (1, 2, 1.0), (2, 3, 1.0), (3, 4, 4.0), (0, 5, 3.0), (1, 5, 1.0), (5, 4, 1.5), (4, 0, 1.0), (6, 0, 2.0), (2, 5, 0.25)];
        let n = 7usize;
        let si = W::instance(W::graph(n, &edges), Arc::new(NoRestriction {}), TerminationModel::IterationsLimit { limit: 1000 });
        let inf = f64::INFINITY;
        let mut dist = vec![vec![inf; n]; n];
        for v in 0..n { dist[v][v] = 0.0; }
        for (a, b, l) in edges.iter() { if *l < dist[*a][*b] { dist[*a][*b] = *l; } }
        for k in 0..n { for i in 0..n { for j in 0..n { if dist[i][k] + dist[k][j] < dist[i][j] { dist[i][j] = dist[i][k] + dist[k][j]; } } } }
        let q = serde_json::json!({});
        let chain_cost = |tree: &HashMap<VertexId, SearchTreeBranch>, origin: usize, v: usize| -> f64 {
            let (mut cur, mut c, mut steps) = (VertexId(v), 0.0, 0);
            while cur.0 != origin { let b = tree.get(&cur).expect("parent is an entry"); c += b.edge_traversal.total_cost().as_f64(); cur = b.terminal_vertex; steps += 1; assert!(steps <= n); }
            c
        };
        for alg in [SearchAlgorithm::Dijkstra, SearchAlgorithm::AStarAlgorithm { weight_factor: None }] {
            for s in 0..n {
                let r = alg.run_vertex_oriented(VertexId(s), None, &q, &Direction::Forward, &si).unwrap();
                for t in 0..n { if t != s && dist[s][t] < inf {
                    let c = chain_cost(&r.trees[0], s, t);
                    assert!((c - dist[s][t]).abs() < 1e-9, "forward tree from {}: vertex {} is labelled through a chain of cost {} but its least cost is {}", s, t, c, dist[s][t]);
                } }
                let r = alg.run_vertex_oriented(VertexId(s), None, &q, &Direction::Reverse, &si).unwrap();
                for t in 0..n { if t != s && dist[t][s] < inf {
                    let c = chain_cost(&r.trees[0], s, t);
                    assert!((c - dist[t][s]).abs() < 1e-9, "reverse tree into {}: vertex {} is labelled through a chain of cost {} but its least cost is {}", s, t, c, dist[t][s]);
                } }
                for t in 0..n { if t != s && dist[s][t] < inf {
                    let r = alg.run_vertex_oriented(VertexId(s), Some(VertexId(t)), &q, &Direction::Forward, &si).unwrap();
                    let c: f64 = r.routes[0].iter().map(|e| e.total_cost().as_f64()).sum();
                    assert!((c - dist[s][t]).abs() < 1e-9, "route {} -> {} costs {} but the least cost is {}", s, t, c, dist[s][t]);
                } }
            }
        }
    }
}
