// C07.2-4 -- CostModel::{traversal_cost, access_cost, cost_estimate}, cost_ops::calculate_*,
// VehicleCostRate::map_value, NetworkCostRate::{traversal_cost, access_cost} on the real code.
// Child module of cost_model.rs so that the private fields of CostModel can be set directly.
#[cfg(kani)]
mod verif_c07_cm {
    use super::*;
    use crate::model::network::{Edge, EdgeId, VertexId};
    use crate::model::unit::as_f64::AsF64;
    use crate::model::unit::Distance;

    const B: f64 = 1.0e6;
    fn fin(x: f64) -> bool { x.is_finite() && x.abs() <= B }
    fn any_fin() -> f64 { let x: f64 = kani::any(); kani::assume(fin(x)); x }

    fn any_leaf() -> VehicleCostRate {
        match kani::any::<u8>() % 4 {
            0 => VehicleCostRate::Zero,
            1 => VehicleCostRate::Raw,
            2 => VehicleCostRate::Factor { factor: any_fin() },
            _ => VehicleCostRate::Offset { offset: any_fin() },
        }
    }
    fn any_rate() -> VehicleCostRate {
        if kani::any() { any_leaf() } else {
            match kani::any::<u8>() % 3 {
                0 => VehicleCostRate::Combined(vec![]),
                1 => VehicleCostRate::Combined(vec![any_leaf()]),
                _ => VehicleCostRate::Combined(vec![any_leaf(), any_leaf()]),
            }
        }
    }
    /// the definition of a rate, written from the documentation (oracle, independent of map_value)
    fn rate_def(r: &VehicleCostRate, x: f64) -> f64 {
        match r {
            VehicleCostRate::Zero => 0.0,
            VehicleCostRate::Raw => x,
            VehicleCostRate::Factor { factor } => x * factor,
            VehicleCostRate::Offset { offset } => x + offset,
            VehicleCostRate::Combined(v) => { let mut acc = x; for f in v.iter() { acc = rate_def(f, acc); } acc }
        }
    }

    /// C07.2 map_value == definition, bit for bit; finite in => finite out under the magnitude bound
    #[kani::proof]
    #[kani::unwind(4)]
    fn c07_map_value() {
        let r = any_rate();
        let x = any_fin();
        let got = r.map_value(StateVar(x)).as_f64();
        let want = rate_def(&r, x);
        assert!(got == want || (got.is_nan() && want.is_nan()), "map_value equals the rate definition");
        assert!(got.is_finite(), "finite in, finite out");
        kani::cover!(true);
    }

    fn edge(id: usize) -> Edge { Edge::new(id, 0, 1, 1.0) }

    /// network rate over the two concrete edge ids 0/1 with symbolic surcharges
    fn any_net() -> (NetworkCostRate, f64, f64) {
        // returns (rate, its traversal surcharge on edge 1, its access surcharge on the pair (0,1))
        match kani::any::<u8>() % 3 {
            0 => (NetworkCostRate::Zero, 0.0, 0.0),
            1 => { let c = any_fin(); let mut m = std::collections::HashMap::new(); m.insert(EdgeId(1), Cost::new(c));
                   (NetworkCostRate::EdgeLookup { lookup: m }, c, 0.0) }
            _ => { let c = any_fin(); let mut m = std::collections::HashMap::new(); m.insert((EdgeId(0), EdgeId(1)), Cost::new(c));
                   (NetworkCostRate::EdgeEdgeLookup { lookup: m }, 0.0, c) }
        }
    }

    /// C07.3 NetworkCostRate: edge lookup only for traversal, pair lookup only for access, missing key -> 0
    #[kani::proof]
    #[kani::unwind(4)]
    fn c07_network_rate() {
        let (r, t1, a01) = any_net();
        let (e0, e1, e2) = (edge(0), edge(1), edge(2));
        let s = StateVar(any_fin());
        assert!(r.traversal_cost(s, s, &e1).unwrap().as_f64() == t1);
        assert!(r.traversal_cost(s, s, &e2).unwrap().as_f64() == 0.0, "missing edge -> 0");
        assert!(r.access_cost(s, s, &e0, &e1).unwrap().as_f64() == a01);
        assert!(r.access_cost(s, s, &e1, &e0).unwrap().as_f64() == 0.0, "missing pair -> 0");
        // Combined sums its members
        let (r2, t2, a2) = any_net();
        let c = NetworkCostRate::Combined(vec![r, r2]);
        assert!(c.traversal_cost(s, s, &e1).unwrap().as_f64() == 0.0 + t1 + t2);
        assert!(c.access_cost(s, s, &e0, &e1).unwrap().as_f64() == 0.0 + a01 + a2);
        kani::cover!(true);
    }

    fn model(n: usize, w: [f64; 2], vr: [VehicleCostRate; 2], nr: [NetworkCostRate; 2], agg: CostAggregation) -> CostModel {
        let names = ["a", "b"];
        let [v0, v1] = vr; let [n0, n1] = nr;
        let mut m = CostModel { feature_indices: vec![], weights: vec![], vehicle_rates: vec![], network_rates: vec![], cost_aggregation: agg };
        m.feature_indices.push((names[0].to_string(), 0)); m.weights.push(w[0]); m.vehicle_rates.push(v0); m.network_rates.push(n0);
        if n == 2 { m.feature_indices.push((names[1].to_string(), 1)); m.weights.push(w[1]); m.vehicle_rates.push(v1); m.network_rates.push(n1); }
        m
    }
    fn floor_pos(x: f64) -> f64 { if x <= 0.0 { Cost::MIN_COST.as_f64() } else { x } }

    /// C07.4 (Sum): traversal_cost == floor( sum_i w_i*rate_i(delta_i) + sum_i w_i*net_i(edge) ), > 0, finite;
    /// a zero-weight feature contributes nothing.  1..=2 features, leaf rates, weights/deltas of either sign.
    #[kani::proof]
    #[kani::unwind(4)]
    fn c07_traversal_cost_sum() {
        let n: usize = if kani::any() { 1 } else { 2 };
        let w = [any_fin(), any_fin()];
        let (r0, r1) = (any_leaf(), any_leaf());
        let (n0, t0, _) = any_net();
        let (p, q) = ([StateVar(any_fin()), StateVar(any_fin())], [StateVar(any_fin()), StateVar(any_fin())]);
        let d = [q[0].0 - p[0].0, q[1].0 - p[1].0];
        let veh0 = rate_def(&r0, d[0]) * w[0];
        let veh1 = rate_def(&r1, d[1]) * w[1];
        let m = model(n, w, [r0, r1], [n0, NetworkCostRate::Zero], CostAggregation::Sum);
        let got = m.traversal_cost(&edge(1), &p, &q).unwrap().as_f64();
        let veh = if n == 2 { 0.0 + veh0 + veh1 } else { 0.0 + veh0 };
        let net = if n == 2 { 0.0 + t0 * w[0] + 0.0 * w[1] } else { 0.0 + t0 * w[0] };
        let want = floor_pos(veh + net);
        assert!(got == want, "traversal_cost equals the floored weighted sum");
        assert!(got > 0.0 && got.is_finite(), "strictly positive and finite");
        if n == 2 && w[1] == 0.0 && veh1.is_finite() {
            assert!(got == floor_pos((0.0 + veh0 + 0.0) + net) || got == floor_pos((0.0 + veh0 - 0.0) + net), "zero-weight feature ignored");
        }
        kani::cover!(true);
    }

    /// C07.4 access_cost: same with the edge-pair surcharge; cost_estimate: clip at zero, vehicle costs only
    #[kani::proof]
    #[kani::unwind(4)]
    fn c07_access_cost_and_estimate_sum() {
        let n: usize = if kani::any() { 1 } else { 2 };
        let w = [any_fin(), any_fin()];
        let (r0, r1) = (any_leaf(), any_leaf());
        let (n0, _, a0) = any_net();
        let (p, q) = ([StateVar(any_fin()), StateVar(any_fin())], [StateVar(any_fin()), StateVar(any_fin())]);
        let d = [q[0].0 - p[0].0, q[1].0 - p[1].0];
        let veh0 = rate_def(&r0, d[0]) * w[0];
        let veh1 = rate_def(&r1, d[1]) * w[1];
        let m = model(n, w, [r0, r1], [n0, NetworkCostRate::Zero], CostAggregation::Sum);
        let veh = if n == 2 { 0.0 + veh0 + veh1 } else { 0.0 + veh0 };
        let net = if n == 2 { 0.0 + a0 * w[0] + 0.0 * w[1] } else { 0.0 + a0 * w[0] };
        let acc = m.access_cost(&edge(0), &edge(1), &p, &q).unwrap().as_f64();
        assert!(acc == floor_pos(veh + net), "access_cost equals the floored weighted sum incl. the per-turn surcharge");
        assert!(acc > 0.0 && acc.is_finite());
        let est = m.cost_estimate(&p, &q).unwrap().as_f64();
        assert!(est == if veh < 0.0 { 0.0 } else { veh }, "estimate is the clipped vehicle cost");
        assert!(est >= 0.0 && est.is_finite(), "estimate never negative, finite");
        kani::cover!(true);
    }

    /// C07.4 (Mul): positive and finite, and equal to the floored product of the per-feature costs
    #[kani::proof]
    #[kani::unwind(4)]
    fn c07_traversal_cost_mul() {
        let w = [any_fin(), any_fin()];
        let (r0, r1) = (any_leaf(), any_leaf());
        let (p, q) = ([StateVar(any_fin()), StateVar(any_fin())], [StateVar(any_fin()), StateVar(any_fin())]);
        let d = [q[0].0 - p[0].0, q[1].0 - p[1].0];
        let veh = 1.0 * (rate_def(&r0, d[0]) * w[0]) * (rate_def(&r1, d[1]) * w[1]);
        kani::assume(veh.is_finite());
        let m = model(2, w, [r0, r1], [NetworkCostRate::Zero, NetworkCostRate::Zero], CostAggregation::Mul);
        let got = m.traversal_cost(&edge(1), &p, &q).unwrap().as_f64();
        let net = 1.0 * (0.0 * w[0]) * (0.0 * w[1]);
        assert!(got == floor_pos(veh + net));
        assert!(got > 0.0 && got.is_finite());
        let est = m.cost_estimate(&p, &q).unwrap().as_f64();
        assert!(est >= 0.0 && est.is_finite());
        kani::cover!(true);
    }

    /// error discipline: a state vector shorter than the model => Err, never a panic
    #[kani::proof]
    #[kani::unwind(4)]
    fn c07_short_state_is_err() {
        let m = model(2, [1.0, 1.0], [VehicleCostRate::Raw, VehicleCostRate::Raw], [NetworkCostRate::Zero, NetworkCostRate::Zero], CostAggregation::Sum);
        let p = [StateVar(any_fin())];
        let q = [StateVar(any_fin()), StateVar(any_fin())];
        assert!(m.traversal_cost(&edge(1), &p, &q).is_err());
        assert!(m.cost_estimate(&q, &p).is_err());
        kani::cover!(true);
    }
}
