// C19 (header / appending runs) native witness: the header is written once, when the file is created; a later run appends and keeps every
// earlier record (never counted as proof)
#[cfg(kani)]
mod verif_c19_write_mode_wit {
    use super::*;
    use crate::app::compass::response::csv::csv_mapping::CsvMapping;
    use ordered_hash_map::OrderedHashMap;
    use std::io::Write;

    fn formats() -> Vec<(&'static str, ResponseOutputFormat)> {
        let mut mapping: OrderedHashMap<String, CsvMapping> = OrderedHashMap::new();
        mapping.insert(String::from("distance"), CsvMapping::Path(String::from("traversal_summary.distance")));
        mapping.insert(String::from("origin"), CsvMapping::Path(String::from("request.origin_vertex")));
        vec![
            ("jsonl", ResponseOutputFormat::Json { newline_delimited: true }),
            ("csv", ResponseOutputFormat::Csv { mapping: mapping.clone(), sorted: false }),
            ("csv_sorted", ResponseOutputFormat::Csv { mapping, sorted: true }),
        ]
    }

    fn one_run(mode: &WriteMode, path: &Path, format: &ResponseOutputFormat, record: &str) -> Result<(), CompassAppError> {
        let mut f = mode.open_file(path, format)?;
        writeln!(f, "{}", record).unwrap();
        f.flush().unwrap();
        Ok(())
    }

    #[test]
    fn c19_wit_header_once_and_appending_runs_keep_earlier_records() {
        let dir = std::env::temp_dir().join(format!("verif_c19_wm_{}", std::process::id()));
        std::fs::create_dir_all(&dir).unwrap();
        for (name, format) in formats() {
            let header = format.initial_file_contents().unwrap_or_default();
            // append: three runs on the same file
            let path = dir.join(format!("append_{}.out", name));
            for run in 1..=3 {
                one_run(&WriteMode::Append, &path, &format, &format!("record-of-run-{}", run)).unwrap();
                let text = std::fs::read_to_string(&path).unwrap();
                let mut expected = header.clone();
                for r in 1..=run {
                    expected.push_str(&format!("record-of-run-{}\n", r));
                }
                assert_eq!(text, expected, "{}: after run {} in append mode the file is the header ONCE followed by every record written so far", name, run);
            }
            // overwrite: a fresh file with its header, nothing of the earlier run
            one_run(&WriteMode::Overwrite, &path, &format, "fresh").unwrap();
            assert_eq!(std::fs::read_to_string(&path).unwrap(), format!("{}fresh\n", header), "{}: overwrite mode", name);
            // error: an existing file is refused and left as it is; a new one gets the header
            assert!(one_run(&WriteMode::Error, &path, &format, "never").is_err(), "{}: error mode must refuse an existing file", name);
            assert_eq!(std::fs::read_to_string(&path).unwrap(), format!("{}fresh\n", header), "{}: a refused run leaves the file untouched", name);
            let new_path = dir.join(format!("new_{}.out", name));
            one_run(&WriteMode::Error, &new_path, &format, "first").unwrap();
            assert_eq!(std::fs::read_to_string(&new_path).unwrap(), format!("{}first\n", header));
        }
        let _ = std::fs::remove_dir_all(&dir);
    }
}
