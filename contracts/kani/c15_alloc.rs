// C15 -- expression-level obligations (rule R10) in EdgeLoader::try_from: the forward and the reverse adjacency are allocated with one
// slot per VERTEX (the length expressions of the two `vec![CompactOrderedHashMap::empty(); <len>]` are copied verbatim).
#[cfg(kani)]
mod verif_c15_alloc {
    use super::*;
    #[kani::proof]
    fn c15_adjacency_sized_by_vertices() {
        let c = EdgeLoaderConfig { edge_list_csv: PathBuf::new(), n_edges: kani::any(), n_vertices: kani::any() };
        assert!(c15_adj_len(&c) == c.n_vertices, "adj has one slot per vertex");
        assert!(c15_rev_len(&c) == c.n_vertices, "rev has one slot per vertex");
        kani::cover!(c.n_edges < c.n_vertices);
    }
}
