// C13.7 -- expression-level obligation (rule R10) in yens_algorithm::run: the spur range
// `0..prev_accepted_path.len() - 2` is copied verbatim by the overlay into `c13_yen_spur_range(len)`.
// The only fact the driver has at that point is len >= 1 (get_first_route returned a stored route;
// SearchAlgorithm stores a route for every reachable target, one edge or more).
#[cfg(kani)]
mod verif_c13_yen {
    use super::*;
    #[kani::proof]
    fn c13_yen_spur_range_no_underflow() {
        let len: usize = kani::any();
        kani::assume(len >= 1);
        let r = c13_yen_spur_range(len);
        assert!(r.end <= len, "the spur indices stay inside the previous path");
        kani::cover!(true);
    }
}

// native witnesses for the k-shortest-path drivers (thorough tier; concrete runs of the real drivers)
#[cfg(kani)]
mod verif_c13_wit {
    use super::*;
    use crate::algorithm::search::search_instance::verif_world as W;
    use crate::model::network::vertex_id::VertexId;

    /// Yen's, k = 2, on the box world, query 0 -> 3 whose least-cost route is the single edge 7.
    /// Property: the query is answerable, so the driver returns between one and k routes (no panic, no error).
    #[test]
    fn c13_wit_yen_one_edge_route() {
        let si = W::box_instance();
        let q = serde_json::json!({});
        let query = KspQuery { source: VertexId(0), target: VertexId(3), user_query: &q, k: 2 };
        let r = run(&query, &KspTerminationCriteria::Exact, &RouteSimilarityFunction::AcceptAll, &si, &SearchAlgorithm::Dijkstra);
        let r = r.expect("an answerable query is not turned into an error");
        assert!(!r.routes.is_empty() && r.routes.len() <= 2, "between one and k routes");
        assert_eq!(r.routes[0].iter().map(|e| e.edge_id.0).collect::<Vec<_>>(), vec![7], "the first route is the least-cost route");
    }

    /// Yen's, k = 2, on the box world, query 0 -> 2 whose least-cost route has exactly TWO edges (0->3, 3->2).
    /// Property (C13 "always terminates", C12 "never runs without bound"): the call returns.
    #[test]
    fn c13_wit_yen_two_edge_route_returns() {
        let (tx, rx) = std::sync::mpsc::channel();
        std::thread::spawn(move || {
            let si = W::box_instance();
            let q = serde_json::json!({});
            let query = KspQuery { source: VertexId(0), target: VertexId(2), user_query: &q, k: 2 };
            let r = run(&query, &KspTerminationCriteria::Exact, &RouteSimilarityFunction::AcceptAll, &si, &SearchAlgorithm::Dijkstra);
            let _ = tx.send(r.map(|x| x.routes.len()).map_err(|e| e.to_string()));
        });
        let got = rx.recv_timeout(std::time::Duration::from_secs(20))
            .expect("yens_algorithm::run did not return within 20 s (two-edge least-cost route, k = 2): no spur index, no candidate, the while loop makes no progress");
        let n = got.expect("an answerable query is not turned into an error");
        assert!(n >= 1 && n <= 2, "between one and k routes");
    }

    fn yen(g: crate::model::network::graph::Graph, src: usize, dst: usize, k: usize) -> Result<Vec<Vec<usize>>, String> {
        use crate::model::frontier::default::no_restriction::NoRestriction;
        use crate::model::termination::termination_model::TerminationModel;
        let si = W::instance(g, std::sync::Arc::new(NoRestriction {}), TerminationModel::IterationsLimit { limit: 10_000 });
        let q = serde_json::json!({});
        let query = KspQuery { source: VertexId(src), target: VertexId(dst), user_query: &q, k };
        run(&query, &KspTerminationCriteria::Exact, &RouteSimilarityFunction::AcceptAll, &si, &SearchAlgorithm::Dijkstra)
            .map(|r| r.routes.iter().map(|p| p.iter().map(|e| e.edge_id.0).collect()).collect()).map_err(|e| e.to_string())
    }

    /// Yen's, k = 2: the least-cost route 0->1->2->3 (three edges) has ONE spur index (spur vertex 1); vertex 1 has a detour 1->4->3.
    /// A second spur vertex does not exist, so nothing can fail: the driver must return the least-cost route and the detour.
    #[test]
    fn c13_wit_yen_three_edge_route_with_detour() {
        let g = W::graph(5, &[(0, 1, 1.0), (1, 2, 1.0), (2, 3, 1.0), (1, 4, 3.0), (4, 3, 3.0)]);
        let routes = yen(g, 0, 3, 2).expect("an answerable query is not turned into an error");
        assert_eq!(routes, vec![vec![0, 1, 2], vec![0, 3, 4]], "the least-cost route first, then the detour; at most k routes, no duplicates");
    }

    /// Yen's, k = 2: the least-cost route 0->1->2->3->4 (four edges) has two spur indices (spur vertices 1 and 2). Vertex 1 has a detour
    /// (1->5->4); vertex 2 has NONE once its route edge is cut.  Property: "without turning an answerable query into an error because
    /// one alternative search failed" -- the query is answerable (two routes exist), so the result is Ok with 1..=2 routes.
    #[test]
    fn c13_wit_yen_spur_vertex_without_alternative() {
        let g = W::graph(6, &[(0, 1, 1.0), (1, 2, 1.0), (2, 3, 1.0), (3, 4, 1.0), (1, 5, 3.0), (5, 4, 3.0)]);
        let routes = yen(g, 0, 4, 2).expect("an answerable query is not turned into an error because one spur search found no path");
        assert!(!routes.is_empty() && routes.len() <= 2, "between one and k routes, found {:?}", routes);
        assert_eq!(routes[0], vec![0, 1, 2, 3]);
    }

    /// Yen's, k = 2: the least-cost route 0->1->2->3->4 (four edges); BOTH spur vertices have a detour (1->5->4 and 2->6->4).
    /// Property: between one and k routes, no two with the same edge sequence.
    #[test]
    fn c13_wit_yen_at_most_k_distinct_routes() {
        let g = W::graph(7, &[(0, 1, 1.0), (1, 2, 1.0), (2, 3, 1.0), (3, 4, 1.0), (1, 5, 3.0), (5, 4, 3.0), (2, 6, 3.0), (6, 4, 3.0)]);
        let routes = yen(g, 0, 4, 2).expect("an answerable query is not turned into an error");
        assert!(!routes.is_empty() && routes.len() <= 2, "between one and k = 2 routes, found {} : {:?}", routes.len(), routes);
        for i in 0..routes.len() { for j in 0..i { assert_ne!(routes[i], routes[j], "no two routes have the same edge sequence: {:?}", routes); } }
    }

    /// Yen's, k = 2: least-cost route 0->1->2->3; the only way on from spur vertex 1 once 1->2 is cut leads BACK through the origin
    /// (1->0, 0->3).  Property: every route is loop-free -- the looping candidate 0->1->0->3 must not be returned.
    #[test]
    fn c13_wit_yen_routes_are_loop_free() {
        let g = W::graph(4, &[(0, 1, 1.0), (1, 2, 1.0), (2, 3, 1.0), (1, 0, 1.0), (0, 3, 10.0)]);
        let src_of = [0usize, 1, 2, 1, 0];
        let routes = yen(g, 0, 3, 2).expect("an answerable query is not turned into an error");
        assert_eq!(routes[0], vec![0, 1, 2]);
        for r in routes.iter() {
            let mut seen = std::collections::HashSet::new();
            for e in r.iter() { assert!(seen.insert(src_of[*e]), "route {:?} leaves vertex {} twice: it contains a loop", r, src_of[*e]); }
        }
    }

    /// C13 "no two are more similar than the configured threshold": Yen's, k = 3, edge-id cosine similarity with threshold 0.5.
    ///   P0 = [f, a2, a3, a4] (cost 4);  P1 = [f, b1, b2, b3, b4] (cost 7, similarity 0.22 to P0);
    ///   P2 = [f, b1, x, a3, a4] (cost 14.5): similarity 3/sqrt(20) = 0.67 to P0 (TOO similar), 2/5 = 0.4 to P1 -- the only candidate of the third pass.
    /// Whatever is returned, every pair of returned routes must be below the threshold.
    #[test]
    fn c13_wit_yen_no_two_routes_too_similar() {
        use crate::model::frontier::default::no_restriction::NoRestriction;
        use crate::model::termination::termination_model::TerminationModel;
        //            f          a2         a3         a4         b1         b2         b3         b4         x
        let edges = [(0, 1, 1.0), (1, 2, 1.0), (2, 3, 1.0), (3, 4, 1.0), (1, 5, 1.5), (5, 6, 1.5), (6, 7, 1.5), (7, 4, 1.5), (5, 2, 10.0)];
        let si = W::instance(W::graph(8, &edges), std::sync::Arc::new(NoRestriction {}), TerminationModel::IterationsLimit { limit: 10_000 });
        let q = serde_json::json!({});
        let query = KspQuery { source: VertexId(0), target: VertexId(4), user_query: &q, k: 3 };
        let sim = RouteSimilarityFunction::EdgeIdCosineSimilarity { threshold: 0.5 };
        let r = run(&query, &KspTerminationCriteria::Exact, &sim, &si, &SearchAlgorithm::Dijkstra).expect("an answerable query is not turned into an error");
        let ids: Vec<Vec<usize>> = r.routes.iter().map(|p| p.iter().map(|e| e.edge_id.0).collect()).collect();
        assert_eq!(ids[0], vec![0, 1, 2, 3], "the first route is the least-cost route");
        assert!(ids.contains(&vec![0, 4, 5, 6, 7]), "the dissimilar alternative is offered: {:?}", ids);
        for i in 0..r.routes.len() { for j in (i + 1)..r.routes.len() {
            let (a, b): (Vec<&EdgeTraversal>, Vec<&EdgeTraversal>) = (r.routes[i].iter().collect(), r.routes[j].iter().collect());
            let rank = sim.rank_similarity(&a, &b, &si).unwrap();
            assert!(rank < 0.5, "routes {:?} and {:?} are returned together although their similarity {} reaches the threshold 0.5", ids[i], ids[j], rank);
        } }
    }
}
