// C13.7 -- expression-level obligation (rule R10) in yens_algorithm::run: the spur range
// `0..prev_accepted_path.len() - 2` is copied verbatim by the overlay into `c13_yen_spur_range(len)`.
// The only fact the driver has at that point is len >= 1 (get_first_route returned a stored route;
// SearchAlgorithm stores a route for every reachable target, one edge or more).
#[cfg(kani)]
mod verif_c13_yen {
    use super::*;
    #[kani::proof]
    fn c13_yen_spur_range_no_underflow() {
        let len: usize = kani::any();
        kani::assume(len >= 1);
        let r = c13_yen_spur_range(len);
        assert!(r.end <= len, "the spur indices stay inside the previous path");
        kani::cover!(true);
    }
}

// native witnesses for the k-shortest-path drivers (thorough tier; concrete runs of the real drivers)
#[cfg(kani)]
mod verif_c13_wit {
    use super::*;
    use crate::algorithm::search::search_instance::verif_world as W;
    use crate::model::network::vertex_id::VertexId;

    /// Yen's, k = 2, on the box world, query 0 -> 3 whose least-cost route is the single edge 7.
    /// Property: the query is answerable, so the driver returns between one and k routes (no panic, no error).
    #[test]
    fn c13_wit_yen_one_edge_route() {
        let si = W::box_instance();
        let q = serde_json::json!({});
        let query = KspQuery { source: VertexId(0), target: VertexId(3), user_query: &q, k: 2 };
        let r = run(&query, &KspTerminationCriteria::Exact, &RouteSimilarityFunction::AcceptAll, &si, &SearchAlgorithm::Dijkstra);
        let r = r.expect("an answerable query is not turned into an error");
        assert!(!r.routes.is_empty() && r.routes.len() <= 2, "between one and k routes");
        assert_eq!(r.routes[0].iter().map(|e| e.edge_id.0).collect::<Vec<_>>(), vec![7], "the first route is the least-cost route");
    }

    /// Yen's, k = 2, on the box world, query 0 -> 2 whose least-cost route has exactly TWO edges (0->3, 3->2).
    /// Property (C13 "always terminates", C12 "never runs without bound"): the call returns.
    #[test]
    fn c13_wit_yen_two_edge_route_returns() {
        let (tx, rx) = std::sync::mpsc::channel();
        std::thread::spawn(move || {
            let si = W::box_instance();
            let q = serde_json::json!({});
            let query = KspQuery { source: VertexId(0), target: VertexId(2), user_query: &q, k: 2 };
            let r = run(&query, &KspTerminationCriteria::Exact, &RouteSimilarityFunction::AcceptAll, &si, &SearchAlgorithm::Dijkstra);
            let _ = tx.send(r.map(|x| x.routes.len()).map_err(|e| e.to_string()));
        });
        let got = rx.recv_timeout(std::time::Duration::from_secs(20))
            .expect("yens_algorithm::run did not return within 20 s (two-edge least-cost route, k = 2): no spur index, no candidate, the while loop makes no progress");
        let n = got.expect("an answerable query is not turned into an error");
        assert!(n >= 1 && n <= 2, "between one and k routes");
    }
}
