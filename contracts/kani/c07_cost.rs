// C07.1 -- contracts of Cost::enforce_strictly_positive / enforce_non_negative.
// The contract predicates live here; the overlay puts `kani::requires/ensures` attributes that
// call them on the real functions, and the harnesses assert them again explicitly so that a
// recorded counterexample also fails when replayed natively (contracts are erased outside Kani).
#[cfg(kani)]
pub(crate) mod verif_c07_cost {
    use super::*;

    pub(crate) fn esp_pre(cost: &Cost) -> bool {
        !cost.as_f64().is_nan()
    }
    /// r > 0; identity on positive input; MIN_COST on non-positive input; finite in => finite out
    pub(crate) fn esp_post(cost: &Cost, r: &Cost) -> bool {
        let (c, r) = (cost.as_f64(), r.as_f64());
        r > 0.0 && (!(c > 0.0) || r == c) && (!(c <= 0.0) || r == Cost::MIN_COST.as_f64()) && (!c.is_finite() || r.is_finite())
    }
    /// r >= 0; identity on non-negative input; 0 on negative input
    pub(crate) fn enn_post(cost: &Cost, r: &Cost) -> bool {
        let (c, r) = (cost.as_f64(), r.as_f64());
        r >= 0.0 && (!(c >= 0.0) || r == c) && (!(c < 0.0) || r == 0.0) && (!c.is_finite() || r.is_finite())
    }

    #[kani::proof_for_contract(Cost::enforce_strictly_positive)]
    fn c07_esp_contract() {
        let c = Cost::new(kani::any());
        let r = Cost::enforce_strictly_positive(c);
        assert!(!esp_pre(&c) || esp_post(&c, &r), "enforce_strictly_positive postcondition");
        kani::cover!(true);
    }

    #[kani::proof_for_contract(Cost::enforce_non_negative)]
    fn c07_enn_contract() {
        let c = Cost::new(kani::any());
        let r = Cost::enforce_non_negative(c);
        assert!(!esp_pre(&c) || enn_post(&c, &r), "enforce_non_negative postcondition");
        kani::cover!(true);
    }

    /// the floor itself: a finite, strictly positive constant below every "ordinary" cost
    #[kani::proof]
    fn c07_min_cost_const() {
        let m = Cost::MIN_COST.as_f64();
        assert!(m > 0.0 && m.is_finite() && m <= 1e-6);
        assert!(Cost::ZERO.as_f64() == 0.0);
        kani::cover!(true);
    }

    /// C02.1 (queue discipline): ReverseCost reverses the order of Cost, for all non-NaN costs
    #[kani::proof]
    fn c02_reverse_cost_order() {
        let a: f64 = kani::any();
        let b: f64 = kani::any();
        kani::assume(!a.is_nan() && !b.is_nan());
        let (ca, cb) = (Cost::new(a), Cost::new(b));
        let (ra, rb) = (ReverseCost::from(ca), ReverseCost::from(cb));
        assert!((ra > rb) == (a < b));
        assert!((ca < cb) == (a < b));
        assert!((ca == cb) == (a == b));
        kani::cover!(true);
    }
}
