// C08 native witness: "the best-case energy used to order the search is the ideal rate times distance" -- in the units the state is kept in, also when the battery is
// configured in another energy unit than the prediction model's (never counted as proof)
#[cfg(kani)]
mod verif_c08_best_case_wit {
    use super::*;
    use crate::routee::prediction::{model_type::ModelType, prediction_model::PredictionModel};
    use routee_compass_core::model::unit::{EnergyRate, EnergyRateUnit};

    struct Flat;
    impl PredictionModel for Flat {
        fn predict(&self, _speed: (Speed, SpeedUnit), _grade: (Grade, GradeUnit)) -> Result<(EnergyRate, EnergyRateUnit), TraversalModelError> {
            Ok((EnergyRate::new(0.25), EnergyRateUnit::KilowattHoursPerMile))
        }
    }
    fn record() -> PredictionModelRecord {
        PredictionModelRecord {
            name: String::from("flat"), prediction_model: Arc::new(Flat), model_type: ModelType::Smartcore,
            speed_unit: SpeedUnit::MilesPerHour, grade_unit: GradeUnit::Decimal, energy_rate_unit: EnergyRateUnit::KilowattHoursPerMile,
            ideal_energy_rate: EnergyRate::new(0.2), real_world_energy_adjustment: 1.0, cache: None,
        }
    }

    #[test]
    fn c08_wit_best_case_energy_state_is_ideal_rate_times_distance_in_the_state_units() {
        for battery_unit in [EnergyUnit::KilowattHours, EnergyUnit::GallonsGasoline] {
            // a battery of 64.52 kWh, given in the configured unit, half full
            let capacity = EnergyUnit::KilowattHours.convert(&Energy::new(64.52), &battery_unit);
            let bev = BEV::new(String::from("bev"), record(), capacity, Energy::new(capacity.as_f64() / 2.0), battery_unit);
            let sm = StateModel::empty().extend(bev.state_features()).unwrap();
            let name = String::from("energy_electric");
            // ten miles at the ideal rate of 0.2 kWh/mile: 2 kWh, i.e. 3.1 % of the battery
            let mut best = sm.initial_state().unwrap();
            bev.best_case_energy_state((Distance::new(10.0), DistanceUnit::Miles), &mut best, &sm).unwrap();
            let e_best = sm.get_energy(&best, &name, &EnergyUnit::KilowattHours).unwrap().as_f64();
            assert!((e_best - 2.0).abs() < 0.05, "battery in {:?}: the best case for 10 miles is 0.2 kWh/mile x 10 miles = 2 kWh, the state holds {} kWh", battery_unit, e_best);
            let soc_best = best[1].0;
            assert!((soc_best - (50.0 - 3.1)).abs() < 0.1, "battery in {:?}: 2 kWh of 64.52 kWh is 3.1 %: state of charge 46.9 expected, got {}", battery_unit, soc_best);
            // ... and it never exceeds what actually driving the same distance consumes (0.25 kWh/mile): the estimate is a lower bound
            let mut real = sm.initial_state().unwrap();
            bev.consume_energy((Speed::new(30.0), SpeedUnit::MilesPerHour), (Grade::new(0.0), GradeUnit::Decimal), (Distance::new(10.0), DistanceUnit::Miles), &mut real, &sm).unwrap();
            let e_real = sm.get_energy(&real, &name, &EnergyUnit::KilowattHours).unwrap().as_f64();
            assert!((e_real - 2.5).abs() < 0.05, "battery in {:?}: driving 10 miles at 0.25 kWh/mile is 2.5 kWh, the state holds {}", battery_unit, e_real);
            assert!(e_best <= e_real + 1e-9, "battery in {:?}: the best case ({} kWh) exceeds the real consumption ({} kWh)", battery_unit, e_best, e_real);
        }
    }

    /// C08: "a battery vehicle's state of charge starts at the query's starting value ... and a starting charge outside 0-100 is rejected"
    #[test]
    fn c08_wit_state_of_charge_starts_at_the_querys_value() {
        use crate::routee::vehicle::default::phev::PHEV;
        let bev = BEV::new(String::from("bev"), record(), Energy::new(60.0), Energy::new(60.0), EnergyUnit::KilowattHours);
        let phev = PHEV::new(String::from("phev"), record(), record(), Energy::new(12.0), Energy::new(12.0), EnergyUnit::KilowattHours, None).unwrap();
        let vehicles: Vec<(&str, &dyn VehicleType)> = vec![("bev", &bev), ("phev", &phev)];
        for (name, v) in vehicles {
            for soc in [0.0, 12.5, 50.0, 99.9, 100.0] {
                let q = serde_json::json!({"starting_soc_percent": soc});
                let updated = v.update_from_query(&q).unwrap_or_else(|e| panic!("{}: a starting charge of {} % is legal: {:?}", name, soc, e));
                let sm = StateModel::empty().extend(updated.state_features()).unwrap();
                let state = sm.initial_state().unwrap();
                let names: Vec<String> = sm.indexed_iter().map(|(_, (n, _))| n.clone()).collect();
                let i = names.iter().position(|n| n == "battery_state").expect("a battery vehicle has a state-of-charge feature");
                assert!((state[i].0 - soc).abs() < 1e-9, "{}: the search must start at the query's state of charge {} %, it starts at {}", name, soc, state[i].0);
            }
            for bad in [serde_json::json!(-0.1), serde_json::json!(100.1), serde_json::json!(1e9), serde_json::json!("50"), serde_json::json!(null)] {
                let q = serde_json::json!({"starting_soc_percent": bad.clone()});
                assert!(v.update_from_query(&q).is_err(), "{}: a starting charge of {} must be rejected", name, bad);
            }
        }
    }
}
