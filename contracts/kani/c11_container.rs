// C11.2 -- CompactOrderedHashMap on the real code: bounded harnesses over the enum variants (sizes 0..4)
// and concrete native witnesses at sizes 5..7 (the HashMap-backed representation).
#[cfg(kani)]
mod verif_c11 {
    use super::*;

    /// insertion-ordered oracle
    fn oracle_insert(o: &mut Vec<(u8, u8)>, k: u8, v: u8) -> Option<u8> {
        for e in o.iter_mut() { if e.0 == k { let old = e.1; e.1 = v; return Some(old); } }
        o.push((k, v));
        None
    }
    fn agrees(m: &CompactOrderedHashMap<u8, u8>, o: &Vec<(u8, u8)>) {
        assert!(m.len() == o.len(), "len equals the number of distinct keys");
        let mut i = 0;
        while i < o.len() {
            let (k, v) = o[i];
            assert!(m.get(&k) == Some(&v), "get returns the last value written");
            assert!(m.get_index(&k) == Some(i), "get_index is the insertion rank");
            assert!(m.get_pair(i) == Some((&k, &v)), "get_pair(i) is the i-th inserted entry");
            i += 1;
        }
        assert!(m.get_pair(o.len()).is_none(), "no entry beyond len");
    }

    /// all insert / overwrite sequences of length <= 4 over a 2-bit key alphabet (enum variants only)
    #[kani::proof]
    #[kani::unwind(6)]
    fn c11_small_sequences() {
        let mut m: CompactOrderedHashMap<u8, u8> = CompactOrderedHashMap::empty();
        let mut o: Vec<(u8, u8)> = Vec::new();
        let n: u8 = kani::any();
        kani::assume(n <= 4);
        let mut i = 0;
        while i < n {
            let k: u8 = kani::any::<u8>() & 3;
            let v: u8 = kani::any();
            let r = m.insert(k, v);
            let ro = oracle_insert(&mut o, k, v);
            assert!(r == ro, "insert returns the previous value");
            i += 1;
        }
        agrees(&m, &o);
        kani::cover!(o.len() == 4);
    }

    /// native witness (also run under Kani's playback as the replay of a failing Verus obligation):
    /// seven distinct keys, one overwrite -- every key keeps one slot, slots are 0..len-1, iteration sees all entries
    #[test]
    fn c11_wit_seven_keys() {
        let keys = [10u8, 3, 7, 1, 42, 5, 9];
        let mut m: CompactOrderedHashMap<u8, u8> = CompactOrderedHashMap::empty();
        let mut o: Vec<(u8, u8)> = Vec::new();
        for (i, k) in keys.iter().enumerate() {
            assert_eq!(m.insert(*k, i as u8), oracle_insert(&mut o, *k, i as u8));
            agrees(&m, &o);
            assert_eq!(m.iter().count(), o.len(), "iter() yields every entry");
            assert_eq!(m.keys().count(), o.len(), "keys() yields every key");
            assert_eq!(m.to_vec().len(), o.len(), "to_vec() yields every entry");
        }
        assert_eq!(m.insert(42, 99), oracle_insert(&mut o, 42, 99));
        agrees(&m, &o);
        let ks: Vec<u8> = m.keys().cloned().collect();
        assert_eq!(ks, keys.to_vec(), "keys() in insertion order");
        let it: Vec<(u8, u8)> = m.iter().map(|(k, v)| (*k, *v)).collect();
        assert_eq!(it, o, "iter() in insertion order with current values");
    }

    /// native witness: `new` on unique keys at sizes 0..6 agrees with successive inserts
    #[test]
    fn c11_wit_new_unique() {
        for n in 0..7usize {
            let entries: Vec<(u8, u8)> = (0..n).map(|i| ((i * 7 + 3) as u8, i as u8)).collect();
            let m = CompactOrderedHashMap::new(entries.clone());
            agrees(&m, &entries);
            assert_eq!(m.iter().count(), n);
        }
    }

    /// native witness: a map COLLECTED from a sequence of pairs (FromIterator) is the map obtained by inserting them one after the other -- also with
    /// repeated keys (the later value wins, the key keeps its first slot), at sizes across the representation switches
    #[test]
    fn c11_wit_collect_is_successive_insertion() {
        let seqs: Vec<Vec<(u8, u8)>> = vec![
            vec![],
            vec![(1, 1), (2, 2), (1, 3)],
            vec![(5, 0), (5, 1), (5, 2)],
            vec![(1, 1), (2, 2), (3, 3), (4, 4), (2, 9), (5, 5), (1, 8), (6, 6), (7, 7), (6, 0)],
            (0..12u8).map(|i| (i % 7, i)).collect(),
        ];
        for pairs in seqs {
            let m: CompactOrderedHashMap<u8, u8> = pairs.iter().cloned().collect();
            let mut o: Vec<(u8, u8)> = Vec::new();
            for (k, v) in pairs.iter() { oracle_insert(&mut o, *k, *v); }
            agrees(&m, &o);
            let it: Vec<(u8, u8)> = m.iter().map(|(k, v)| (*k, *v)).collect();
            assert_eq!(it, o, "collect({:?}): iter() in first-insertion order with the latest values", pairs);
        }
    }
}
