// C07 / C02 native witness: a combined vehicle rate applies its member rates ONE AFTER THE OTHER, in the configured order (never counted as proof)
#[cfg(kani)]
mod verif_c07_rate_wit {
    use super::*;

    #[test]
    fn c07_wit_combined_rate_applies_members_in_order() {
        let x = StateVar(5.0);
        let f = |k: f64| VehicleCostRate::Factor { factor: k };
        let o = |k: f64| VehicleCostRate::Offset { offset: k };
        let c = |v: Vec<VehicleCostRate>| VehicleCostRate::Combined(v);
        assert_eq!(VehicleCostRate::Zero.map_value(x), Cost::new(0.0));
        assert_eq!(VehicleCostRate::Raw.map_value(x), Cost::new(5.0));
        assert_eq!(f(2.0).map_value(x), Cost::new(10.0));
        assert_eq!(o(1.5).map_value(x), Cost::new(6.5));
        // factor then factor: the product of the factors, not their sum
        assert_eq!(c(vec![f(2.0), f(3.0)]).map_value(x), Cost::new(30.0), "Combined[Factor 2, Factor 3] of 5 is 2*3*5");
        // the order matters
        assert_eq!(c(vec![f(2.0), o(1.0)]).map_value(x), Cost::new(11.0), "Combined[Factor 2, Offset 1] of 5 is 2*5 + 1");
        assert_eq!(c(vec![o(1.0), f(2.0)]).map_value(x), Cost::new(12.0), "Combined[Offset 1, Factor 2] of 5 is (5 + 1)*2");
        // nesting, the empty combination (identity) and a zero member
        assert_eq!(c(vec![c(vec![f(2.0), o(1.0)]), f(10.0)]).map_value(x), Cost::new(110.0));
        assert_eq!(c(vec![]).map_value(x), Cost::new(5.0), "an empty combination leaves the value as it is");
        assert_eq!(c(vec![f(2.0), VehicleCostRate::Zero, o(4.0)]).map_value(x), Cost::new(4.0));
    }
}
