// C11 ("... reading or updating a feature by name ... round-trips its value") -- the codecs of CUSTOM state features, on the real code, bit-precisely.
// Only the Ok paths are exercised under Kani (the error paths build Strings through Display/format!, which CBMC cannot carry: they are covered by the native witness).
#[cfg(kani)]
mod verif_c11_codec {
    use super::*;

    /// floating point features: the value itself is stored (every f64 that is not NaN)
    #[kani::proof]
    fn c11_codec_f64_roundtrip() {
        let x: f64 = kani::any();
        kani::assume(!x.is_nan());
        let f = CustomFeatureFormat::FloatingPoint { initial: ordered_float::OrderedFloat(0.0) };
        let v = f.encode_f64(&x).unwrap();
        assert!(f.decode_f64(&v).unwrap() == x, "decode(encode(x)) == x for floating point features");
        kani::cover!(x < 0.0);
    }

    /// signed integer features: exact within the range an f64 state variable represents exactly (|x| <= 2^53)
    #[kani::proof]
    fn c11_codec_i64_roundtrip() {
        let x: i64 = kani::any();
        kani::assume(x >= -(1i64 << 53) && x <= (1i64 << 53));
        let f = CustomFeatureFormat::SignedInteger { initial: 0 };
        let v = f.encode_i64(&x).unwrap();
        assert!(f.decode_i64(&v).unwrap() == x, "decode(encode(x)) == x for signed integer features, |x| <= 2^53");
        kani::cover!(x < 0);
        kani::cover!(x == (1i64 << 53));
    }

    /// unsigned integer features: exact for x <= 2^53; a negative state variable is refused, never wrapped
    #[kani::proof]
    fn c11_codec_u64_roundtrip() {
        let x: u64 = kani::any();
        kani::assume(x <= (1u64 << 53));
        let f = CustomFeatureFormat::UnsignedInteger { initial: 0 };
        let v = f.encode_u64(&x).unwrap();
        assert!(f.decode_u64(&v).unwrap() == x, "decode(encode(x)) == x for unsigned integer features, x <= 2^53");
        kani::cover!(x == (1u64 << 53));
    }

    /// boolean features
    #[kani::proof]
    fn c11_codec_bool_roundtrip() {
        let b: bool = kani::any();
        let f = CustomFeatureFormat::Boolean { initial: false };
        let v = f.encode_bool(&b).unwrap();
        assert!(f.decode_bool(&v).unwrap() == b, "decode(encode(b)) == b");
        assert!(v.0 == 0.0 || v.0 == 1.0, "a boolean is stored as 0 or 1");
        kani::cover!(b);
    }

    /// native witness: a value of the wrong kind is refused by every codec, a negative state variable is not an unsigned value, and the declared initial value is
    /// what `initial()` encodes; beyond 2^53 the state variable (an f64) cannot hold every integer: the nearest representable one comes back
    #[test]
    fn c11_wit_codecs_refuse_the_wrong_kind() {
        let formats = [
            CustomFeatureFormat::FloatingPoint { initial: ordered_float::OrderedFloat(1.5) },
            CustomFeatureFormat::SignedInteger { initial: -7 },
            CustomFeatureFormat::UnsignedInteger { initial: 7 },
            CustomFeatureFormat::Boolean { initial: true },
        ];
        let sv = StateVar(3.0);
        for (i, f) in formats.iter().enumerate() {
            assert_eq!(f.encode_f64(&2.5).is_ok(), i == 0);
            assert_eq!(f.encode_i64(&-3).is_ok(), i == 1);
            assert_eq!(f.encode_u64(&3).is_ok(), i == 2);
            assert_eq!(f.encode_bool(&true).is_ok(), i == 3);
            assert_eq!(f.decode_f64(&sv).is_ok(), i == 0);
            assert_eq!(f.decode_i64(&sv).is_ok(), i == 1);
            assert_eq!(f.decode_u64(&sv).is_ok(), i == 2);
            assert_eq!(f.decode_bool(&sv).is_ok(), i == 3);
        }
        assert_eq!(formats[0].initial().unwrap(), StateVar(1.5));
        assert_eq!(formats[1].initial().unwrap(), StateVar(-7.0));
        assert_eq!(formats[2].initial().unwrap(), StateVar(7.0));
        assert_eq!(formats[3].initial().unwrap(), StateVar(1.0));
        assert!(formats[2].decode_u64(&StateVar(-1.0)).is_err(), "a negative state variable is not an unsigned value");
    }
}
