// C16 (vertex plugin) native witness: a configured tolerance is in force whether or not a unit is given (metres by default), and the matched vertex is the nearest one
// (never counted as proof)
#[cfg(kani)]
mod verif_c16_vertex_wit {
    use super::*;
    use serde_json::json;

    #[test]
    fn c16_wit_vertex_tolerance_is_in_force_with_and_without_a_unit() {
        let dir = std::env::temp_dir().join(format!("verif_c16_v_{}", std::process::id()));
        std::fs::create_dir_all(&dir).unwrap();
        let file = dir.join("vertices.csv");
        std::fs::write(&file, "vertex_id,x,y\n0,-105.000,39.700\n1,-105.010,39.700\n2,-105.000,39.800\n").unwrap();
        for (tol, unit, label) in [
            (Some(Distance::new(100.0)), None, "100 (no unit: metres)"),
            (Some(Distance::new(100.0)), Some(DistanceUnit::Meters), "100 m"),
            (Some(Distance::new(0.1)), Some(DistanceUnit::Kilometers), "0.1 km"),
        ] {
            let plugin = RTreePlugin::new(&file, tol, unit).unwrap();
            // 12 m from vertex 1: matched to vertex 1 (the nearest), nothing else of the query changes
            let mut near = json!({"origin_x": -105.0101, "origin_y": 39.7001, "note": "kept"});
            plugin.process(&mut near).unwrap_or_else(|e| panic!("tolerance {}: a coordinate 12 m from vertex 1 must match: {:?}", label, e));
            assert_eq!(near, json!({"origin_x": -105.0101, "origin_y": 39.7001, "note": "kept", "origin_vertex": 1}), "tolerance {}", label);
            // 1.1 km from the nearest vertex: an error, never a match
            let mut far = json!({"origin_x": -105.000, "origin_y": 39.710});
            assert!(plugin.process(&mut far).is_err(), "tolerance {}: a coordinate 1.1 km from the nearest vertex must not be matched, got {}", label, far);
            // a destination beyond the tolerance fails the query too
            let mut far_dest = json!({"origin_x": -105.0101, "origin_y": 39.7001, "destination_x": -104.5, "destination_y": 39.7});
            assert!(plugin.process(&mut far_dest).is_err(), "tolerance {}: a destination 43 km from the nearest vertex must not be matched", label);
        }
        // without a tolerance the nearest vertex is matched however far it is
        let plugin = RTreePlugin::new(&file, None, Some(DistanceUnit::Meters)).unwrap();
        let mut q = json!({"origin_x": -100.0, "origin_y": 39.7, "destination_x": -105.0, "destination_y": 39.79});
        plugin.process(&mut q).unwrap();
        assert_eq!(q["origin_vertex"], json!(0));
        assert_eq!(q["destination_vertex"], json!(2));
        let _ = std::fs::remove_dir_all(&dir);
    }
}
