// C04 native witness (never counted as proof): the vehicle-restriction table read from a file keeps EVERY row of an edge (a vehicle must satisfy all of them)
#[cfg(kani)]
mod verif_c04_restriction_file_wit {
    use super::*;
    #[test]
    fn c04_wit_every_restriction_row_of_an_edge_is_kept() {
        let dir = std::env::temp_dir().join(format!("verif_c04r_{}", std::process::id()));
        std::fs::create_dir_all(&dir).unwrap();
        let file = dir.join("vehicle_restrictions.csv");
        std::fs::write(&file, "edge_id,restriction_name,restriction_value,restriction_unit\n3,maximum_total_weight,40.0,tons\n1,maximum_height,3.5,meters\n1,maximum_total_weight,40.0,tons\n7,maximum_width,2.0,meters\n1,maximum_width,2.5,meters\n").unwrap();
        let lookup = vehicle_restriction_lookup_from_file(&file).unwrap();
        let _ = std::fs::remove_dir_all(&dir);
        let n = |e: usize| lookup.get(&EdgeId(e)).map(|v| v.len()).unwrap_or(0);
        assert_eq!((n(1), n(3), n(7), n(0)), (3, 1, 1, 0), "rows kept per edge (edge 1 has three rows, not adjacent in the file)");
        let e1 = lookup.get(&EdgeId(1)).unwrap();
        assert!(e1.iter().any(|r| matches!(r, VehicleRestriction::MaximumHeight(_))), "edge 1 keeps its height limit");
        assert!(e1.iter().any(|r| matches!(r, VehicleRestriction::MaximumTotalWeight(_))), "edge 1 keeps its weight limit");
        assert!(e1.iter().any(|r| matches!(r, VehicleRestriction::MaximumWidth(_))), "edge 1 keeps its width limit");
    }
}
