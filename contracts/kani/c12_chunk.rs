// C12.2 -- expression-level obligation (rule R10) in CompassApp::run: the chunk size handed to rayon's par_chunks, copied verbatim into
// c12_plugin_chunk_size(len, parallelism).  Assumed contract of the dependency: `par_chunks(chunk_size)` panics iff chunk_size == 0.
#[cfg(kani)]
mod verif_c12_chunk {
    use super::*;
    #[kani::proof]
    fn c12_chunk_size_nonzero() {
        let len: usize = kani::any::<u32>() as usize;          // batch size, including the empty batch
        let parallelism: usize = kani::any::<u16>() as usize;  // configured parallelism
        kani::assume(parallelism >= 1);
        let c = c12_plugin_chunk_size(len, parallelism);
        assert!(c != 0, "par_chunks(0) panics: the chunk size must be non-zero for every batch size");
        kani::cover!(len == 0);
    }
}
