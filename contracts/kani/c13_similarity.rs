// C13.1 -- RouteSimilarityFunction::is_similar: "is_similar == true" means TOO SIMILAR (the candidate is rejected by both
// k-shortest-path drivers).  The property: threshold variants reject iff similarity >= threshold; the default AcceptAll
// rejects no alternative, whatever the similarity value.
#[cfg(kani)]
pub(crate) mod verif_c13_sim {
    use super::*;

    pub(crate) fn is_similar_post(f: &RouteSimilarityFunction, similarity: f64, r: bool) -> bool {
        match f {
            RouteSimilarityFunction::AcceptAll => !r,
            RouteSimilarityFunction::EdgeIdCosineSimilarity { threshold } => r == (similarity >= *threshold),
            RouteSimilarityFunction::DistanceWeightedCosineSimilarity { threshold } => r == (similarity >= *threshold),
        }
    }
    fn any_fn() -> RouteSimilarityFunction {
        match kani::any::<u8>() % 3 {
            0 => RouteSimilarityFunction::AcceptAll,
            1 => RouteSimilarityFunction::EdgeIdCosineSimilarity { threshold: kani::any() },
            _ => RouteSimilarityFunction::DistanceWeightedCosineSimilarity { threshold: kani::any() },
        }
    }

    #[kani::proof_for_contract(RouteSimilarityFunction::is_similar)]
    fn c13_is_similar_contract() {
        let f = any_fn();
        let s: f64 = kani::any();
        let r = f.is_similar(s);
        assert!(is_similar_post(&f, s, r), "is_similar: AcceptAll rejects nothing; thresholds reject iff similarity >= threshold");
        kani::cover!(true);
    }

    /// consequence used by the drivers: AcceptAll never marks a candidate as too similar, so it accepts at least
    /// what any threshold accepts for the same similarity value
    #[kani::proof]
    fn c13_accept_all_dominates() {
        let s: f64 = kani::any();
        let t = any_fn();
        assert!(!RouteSimilarityFunction::AcceptAll.is_similar(s) || t.is_similar(s));
        assert!(!RouteSimilarityFunction::AcceptAll.is_similar(s));
        kani::cover!(true);
    }
}
