// C03.4 native witnesses: the distance / time / energy slots accumulate the SUM of the increments, whatever unit the increments arrive in.
#[cfg(kani)]
mod verif_c03_sm_wit {
    use super::*;
    use crate::model::state::state_feature::StateFeature;
    use crate::model::unit::{Distance, DistanceUnit, Energy, EnergyUnit, Time, TimeUnit};
    use crate::model::unit::as_f64::AsF64;

    #[test]
    fn c03_wit_distance_accumulates_the_sum_across_units() {
        // a route of 1000 edges of 1 km each, reported in miles, traversal model working in metres
        let name = String::from("distance");
        let sm = StateModel::empty().extend(vec![(name.clone(), StateFeature::Distance { distance_unit: DistanceUnit::Miles, initial: Distance::new(0.0) })]).unwrap();
        let mut state = sm.initial_state().unwrap();
        let mut last = 0.0;
        for _ in 0..1000 {
            sm.add_distance(&mut state, &name, &Distance::new(1000.0), &DistanceUnit::Meters).unwrap();
            let now = sm.get_distance(&state, &name, &DistanceUnit::Miles).unwrap().as_f64();
            assert!(now >= last, "distance never decreases along the route");
            last = now;
        }
        let expected_miles = 1_000_000.0 / 1609.344;
        assert!((last - expected_miles).abs() <= 0.002 * expected_miles,
                "distance is the sum of the edge lengths: expected {} miles (+-0.2 %), reported {}", expected_miles, last);
    }
    #[test]
    fn c03_wit_energy_and_time_accumulate_the_sum_across_units() {
        let (e, t) = (String::from("energy"), String::from("time"));
        let sm = StateModel::empty().extend(vec![
            (e.clone(), StateFeature::Energy { energy_unit: EnergyUnit::KilowattHours, initial: Energy::new(0.0) }),
            (t.clone(), StateFeature::Time { time_unit: TimeUnit::Hours, initial: Time::new(0.0) })]).unwrap();
        let mut state = sm.initial_state().unwrap();
        for _ in 0..2000 {
            sm.add_energy(&mut state, &e, &Energy::new(0.01), &EnergyUnit::GallonsGasoline).unwrap();
            sm.add_time(&mut state, &t, &Time::new(30.0), &TimeUnit::Seconds).unwrap();
        }
        let kwh = sm.get_energy(&state, &e, &EnergyUnit::KilowattHours).unwrap().as_f64();
        let hours = sm.get_time(&state, &t, &TimeUnit::Hours).unwrap().as_f64();
        assert!((kwh - 20.0 * 32.26).abs() <= 0.002 * 20.0 * 32.26, "energy is the sum: expected {} kWh, reported {}", 20.0 * 32.26, kwh);
        assert!((hours - 60000.0 / 3600.0).abs() <= 0.002 * 60000.0 / 3600.0, "time is the sum: expected {} h, reported {}", 60000.0 / 3600.0, hours);
    }
}
