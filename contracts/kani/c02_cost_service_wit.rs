// C02 native witness: the cost model built for a query uses the rates / weights / aggregation the QUERY carries (never counted as proof)
#[cfg(kani)]
mod verif_c02_cost_service_wit {
    use super::*;
    use routee_compass_core::model::state::state_feature::StateFeature;
    use routee_compass_core::model::unit::{Distance, DistanceUnit, Time, TimeUnit};
    use serde_json::json;

    fn service() -> (CostModelService, Arc<StateModel>) {
        let sm = Arc::new(StateModel::new(vec![
            (String::from("distance"), StateFeature::Distance { distance_unit: DistanceUnit::Kilometers, initial: Distance::new(0.0) }),
            (String::from("time"), StateFeature::Time { time_unit: TimeUnit::Minutes, initial: Time::new(0.0) }),
        ]));
        let svc = CostModelService {
            vehicle_rates: Arc::new(HashMap::from([(String::from("distance"), VehicleCostRate::Raw), (String::from("time"), VehicleCostRate::Raw)])),
            network_rates: Arc::new(HashMap::new()),
            weights: Arc::new(HashMap::from([(String::from("distance"), 1.0), (String::from("time"), 1.0)])),
            cost_aggregation: CostAggregation::Sum,
            ignore_unknown_weights: false,
        };
        (svc, sm)
    }

    #[test]
    fn c02_wit_query_rates_and_weights_are_the_ones_in_force() {
        let (svc, sm) = service();
        // a query that rates both features itself: ITS rates are in force, not the configured ones
        let q = json!({
            "vehicle_rates": {"distance": {"type": "factor", "factor": 200.0}, "time": {"type": "offset", "offset": 3.0}},
            "weights": {"distance": 2.0, "time": 5.0},
            "cost_aggregation": "mul"
        });
        let info = svc.build(&q, sm.clone()).unwrap().serialize_cost_info().unwrap();
        assert_eq!(info["distance"]["vehicle_rate"], json!({"type": "factor", "factor": 200.0}), "the query's distance rate must be in force: {}", info);
        assert_eq!(info["time"]["vehicle_rate"], json!({"type": "offset", "offset": 3.0}), "the query's time rate must be in force: {}", info);
        assert_eq!(info["distance"]["weight"], json!(2.0));
        assert_eq!(info["time"]["weight"], json!(5.0));
        assert_eq!(info["cost_aggregation"], json!("mul"));
        // a query that rates ONE feature: that rate is in force for it
        let q1 = json!({"vehicle_rates": {"distance": {"type": "factor", "factor": 7.0}}});
        let info1 = svc.build(&q1, sm.clone()).unwrap().serialize_cost_info().unwrap();
        assert_eq!(info1["distance"]["vehicle_rate"], json!({"type": "factor", "factor": 7.0}), "the query's distance rate must be in force: {}", info1);
        assert_eq!(info1["distance"]["weight"], json!(1.0), "configured weight when the query has none");
        // a query without a cost section: everything as configured
        let info0 = svc.build(&json!({"origin_vertex": 0}), sm.clone()).unwrap().serialize_cost_info().unwrap();
        assert_eq!(info0["distance"]["vehicle_rate"], json!({"type": "raw"}));
        assert_eq!(info0["time"]["vehicle_rate"], json!({"type": "raw"}));
        assert_eq!(info0["time"]["weight"], json!(1.0));
        assert_eq!(info0["cost_aggregation"], json!("sum"));
        // a weight for a feature the state model does not have is refused (unless told to ignore it), never silently dropped
        assert!(svc.build(&json!({"weights": {"distance": 1.0, "energy": 1.0}}), sm.clone()).is_err());
        // unreadable rates are an error of that query, not a fallback to the configured ones
        assert!(svc.build(&json!({"vehicle_rates": {"distance": {"type": "nonsense"}}}), sm.clone()).is_err());
    }
}
