// C08.1 -- vehicle_ops::{soc_from_battery_and_delta, as_soc_percent} bit-precisely on the real code
#[cfg(kani)]
mod verif_c08_soc {
    use super::*;
    #[kani::proof]
    fn c08_soc_in_range() {
        let (s, u, m): (f64, f64, f64) = (kani::any(), kani::any(), kani::any());
        kani::assume(s.is_finite() && u.is_finite() && m.is_finite() && m > 0.0);
        let r = soc_from_battery_and_delta(&Energy::new(s), &Energy::new(u), &Energy::new(m));
        assert!(r >= 0.0 && r <= 100.0 && !r.is_nan(), "state of charge stays within 0..100 percent");
        // (the exact unclamped value is proved over the reals by the Verus unit; recomputing it here makes CBMC prove the equivalence of
        //  two floating-point divider circuits, which exceeds the time cap)
        if s <= u { assert!(r == 0.0, "nothing left => 0 percent"); }
        let a = as_soc_percent(&Energy::new(s), &Energy::new(m));
        assert!(a >= 0.0 && a <= 100.0 && !a.is_nan());
        kani::cover!(r > 0.0 && r < 100.0);
    }
}
