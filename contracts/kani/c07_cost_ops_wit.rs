// C07 / C03 native witness: the aggregated cost is the sum (product) over the features of weight x RATED CHANGE OF STATE, plus the weighted network surcharges
// (never counted as proof)
#[cfg(kani)]
mod verif_c07_cost_ops_wit {
    use super::*;
    use crate::model::network::EdgeId;
    use std::collections::HashMap;

    fn close(a: Cost, b: f64) -> bool { (a.as_f64() - b).abs() < 1e-9 }
    use crate::model::unit::as_f64::AsF64;

    #[test]
    fn c07_wit_cost_is_weight_times_rated_state_change() {
        let prev = [StateVar(1.0), StateVar(10.0), StateVar(7.0)];
        let next = [StateVar(4.0), StateVar(12.0), StateVar(5.0)];
        let indices = vec![(String::from("a"), 0usize), (String::from("b"), 1usize), (String::from("c"), 2usize)];
        let weights = [2.0, 0.5, 1.0];
        let rates = [
            VehicleCostRate::Offset { offset: 1.0 },
            VehicleCostRate::Combined(vec![VehicleCostRate::Factor { factor: 3.0 }, VehicleCostRate::Offset { offset: 2.0 }]),
            VehicleCostRate::Raw,
        ];
        // a: 2 * ((4-1) + 1) = 8;  b: 0.5 * ((12-10)*3 + 2) = 4;  c: 1 * (5-7) = -2 (a negative change of state stays negative here; the floor is applied later)
        let sum = calculate_vehicle_costs((&prev, &next), &indices, &weights, &rates, &CostAggregation::Sum).unwrap();
        assert!(close(sum, 10.0), "sum aggregation: 8 + 4 - 2 = 10, got {:?}", sum);
        let mul = calculate_vehicle_costs((&prev, &next), &indices, &weights, &rates, &CostAggregation::Mul).unwrap();
        assert!(close(mul, -64.0), "mul aggregation: 8 * 4 * -2 = -64, got {:?}", mul);
        // a zero weight switches its feature off; no feature at all costs nothing
        let w0 = [0.0, 0.5, 0.0];
        assert!(close(calculate_vehicle_costs((&prev, &next), &indices, &w0, &rates, &CostAggregation::Sum).unwrap(), 4.0));
        assert!(close(calculate_vehicle_costs((&prev, &next), &[], &weights, &rates, &CostAggregation::Sum).unwrap(), 0.0));
        assert!(close(calculate_vehicle_costs((&prev, &next), &[], &weights, &rates, &CostAggregation::Mul).unwrap(), 0.0));
        // a slot beyond the state vector is an error, never a skipped feature
        let short = [StateVar(1.0)];
        assert!(calculate_vehicle_costs((&short, &short), &indices, &weights, &rates, &CostAggregation::Sum).is_err());
        // network surcharges: per edge on traversal, per pair of edges on access, each times the feature's weight
        let (e3, e7, e9) = (Edge::new(3, 0, 1, 100.0), Edge::new(7, 1, 2, 100.0), Edge::new(9, 2, 3, 100.0));
        let nrates = [
            NetworkCostRate::EdgeLookup { lookup: HashMap::from([(EdgeId(7), Cost::new(5.0))]) },
            NetworkCostRate::EdgeEdgeLookup { lookup: HashMap::from([((EdgeId(3), EdgeId(7)), Cost::new(4.0))]) },
            NetworkCostRate::Combined(vec![
                NetworkCostRate::EdgeLookup { lookup: HashMap::from([(EdgeId(7), Cost::new(1.0))]) },
                NetworkCostRate::EdgeLookup { lookup: HashMap::from([(EdgeId(7), Cost::new(0.5)), (EdgeId(9), Cost::new(6.0))]) },
            ]),
        ];
        // traversal of edge 7: a: 2*5 = 10; b: 0 (a pair table does not charge traversals); c: 1*(1 + 0.5) = 1.5
        let t7 = calculate_network_traversal_costs((&prev, &next), &e7, &indices, &weights, &nrates, &CostAggregation::Sum).unwrap();
        assert!(close(t7, 11.5), "traversal surcharge of edge 7: 10 + 0 + 1.5, got {:?}", t7);
        let t9 = calculate_network_traversal_costs((&prev, &next), &e9, &indices, &weights, &nrates, &CostAggregation::Sum).unwrap();
        assert!(close(t9, 6.0), "traversal surcharge of edge 9: 0 + 0 + 6, got {:?}", t9);
        // access 3 -> 7: b: 0.5 * 4 = 2; the per-edge tables do not charge accesses
        let a37 = calculate_network_access_costs((&prev, &next), (&e3, &e7), &indices, &weights, &nrates, &CostAggregation::Sum).unwrap();
        assert!(close(a37, 2.0), "access surcharge 3 -> 7: 0.5 * 4, got {:?}", a37);
        let a79 = calculate_network_access_costs((&prev, &next), (&e7, &e9), &indices, &weights, &nrates, &CostAggregation::Sum).unwrap();
        assert!(close(a79, 0.0), "no surcharge listed for 7 -> 9, got {:?}", a79);
    }
}
