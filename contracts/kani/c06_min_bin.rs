// C06.1 -- compass_app_ops::min_bin on the real code (the contract assumed by the Verus unit c06_balance)
#[cfg(kani)]
mod verif_c06_min_bin {
    use super::*;
    #[kani::proof]
    #[kani::unwind(5)]
    fn c06_min_bin_contract() {
        let n: usize = kani::any();
        kani::assume(n <= 3);
        let mut bins: Vec<f64> = Vec::new();
        let mut i = 0;
        while i < n { let w: f64 = kani::any(); kani::assume(w.is_finite() && w >= 0.0); bins.push(w); i += 1; }
        match min_bin(&bins) {
            Err(_) => assert!(n == 0, "Err only on the empty slice"),
            Ok(k) => { assert!(k < n, "an index into the slice"); let mut j = 0; while j < n { assert!(bins[k] <= bins[j], "a least total"); j += 1; } }
        }
        kani::cover!(n == 3);
    }
}
