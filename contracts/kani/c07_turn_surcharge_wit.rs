// C07 native witness: "the cost charged for accessing plus traversing the edge ... equals the sum over features of weight times rated state change PLUS the configured
// per-edge AND PER-TURN surcharges" (never counted as proof)
#[cfg(kani)]
mod verif_c07_turn_wit {
    use super::*;
    use crate::algorithm::search::direction::Direction;
    use crate::algorithm::search::search_instance::verif_world as W;
    use crate::model::network::vertex_id::VertexId;
    use crate::model::access::default::no_access_model::NoAccessModel;
    use crate::model::cost::cost_aggregation::CostAggregation;
    use crate::model::cost::cost_model::CostModel;
    use crate::model::cost::network::network_cost_rate::NetworkCostRate;
    use crate::model::cost::vehicle::vehicle_cost_rate::VehicleCostRate;
    use crate::model::frontier::default::no_restriction::NoRestriction;
    use crate::model::state::state_feature::StateFeature;
    use crate::model::state::state_model::StateModel;
    use crate::model::termination::termination_model::TerminationModel;
    use crate::model::traversal::default::distance_traversal_model::DistanceTraversalModel;
    use crate::model::unit::as_f64::AsF64;
    use crate::model::unit::{Distance, DistanceUnit};
    use std::collections::HashMap;
    use std::sync::Arc;

    fn instance(rate: NetworkCostRate) -> SearchInstance {
        // 0 -(e0: 10)-> 1 -(e1: 2)-> 2 -(e2: 3)-> 3
        let g = W::graph(4, &[(0, 1, 10.0), (1, 2, 2.0), (2, 3, 3.0)]);
        let state_model = Arc::new(StateModel::empty().extend(vec![(String::from("distance"),
            StateFeature::Distance { distance_unit: DistanceUnit::Meters, initial: Distance::new(0.0) })]).unwrap());
        let cost_model = CostModel::new(
            Arc::new(HashMap::from([(String::from("distance"), 1.0)])),
            Arc::new(HashMap::from([(String::from("distance"), VehicleCostRate::Raw)])),
            Arc::new(HashMap::from([(String::from("distance"), rate)])), CostAggregation::Sum, state_model.clone()).unwrap();
        SearchInstance {
            directed_graph: Arc::new(g), state_model: state_model.clone(),
            traversal_model: Arc::new(DistanceTraversalModel::new(DistanceUnit::Meters)),
            access_model: Arc::new(NoAccessModel {}), cost_model: Arc::new(cost_model),
            frontier_model: Arc::new(NoRestriction {}), termination_model: Arc::new(TerminationModel::IterationsLimit { limit: 1000 }),
        }
    }

    #[test]
    fn c07_wit_turn_surcharge_is_part_of_the_charged_cost() {
        // a surcharge of 7 for the turn e0 -> e1, and of 5 for traversing e2
        let si = instance(NetworkCostRate::Combined(vec![
            NetworkCostRate::EdgeEdgeLookup { lookup: HashMap::from([((EdgeId(0), EdgeId(1)), Cost::new(7.0))]) },
            NetworkCostRate::EdgeLookup { lookup: HashMap::from([(EdgeId(2), Cost::new(5.0))]) },
        ]));
        let init = si.state_model.initial_state().unwrap();
        let e0 = EdgeTraversal::forward_traversal(EdgeId(0), None, &init, &si).unwrap();
        assert!((e0.total_cost().as_f64() - 10.0).abs() < 1e-6, "e0 from the origin: its length, got {:?}", e0.total_cost());
        // forward: entering e1 from e0 costs the length of e1 (2) plus the turn surcharge (7)
        let e1 = EdgeTraversal::forward_traversal(EdgeId(1), Some(EdgeId(0)), &e0.result_state, &si).unwrap();
        assert!((e1.total_cost().as_f64() - 9.0).abs() < 1e-6, "forward e0 -> e1: length 2 + turn surcharge 7 = 9 must be charged, got {:?} (access {:?}, traversal {:?})", e1.total_cost(), e1.access_cost, e1.traversal_cost);
        // e1 -> e2: no turn surcharge listed, the per-edge surcharge of e2 counts: 3 + 5
        let e2 = EdgeTraversal::forward_traversal(EdgeId(2), Some(EdgeId(1)), &e1.result_state, &si).unwrap();
        assert!((e2.total_cost().as_f64() - 8.0).abs() < 1e-6, "forward e1 -> e2: length 3 + edge surcharge 5 = 8, got {:?}", e2.total_cost());
        // reverse search: traversing e0 knowing that e1 follows is charged the same turn surcharge
        let r0 = EdgeTraversal::reverse_traversal(EdgeId(0), Some(EdgeId(1)), &init, &si).unwrap();
        assert!((r0.total_cost().as_f64() - 17.0).abs() < 1e-6, "reverse e0 before e1: length 10 + turn surcharge 7 = 17 must be charged, got {:?}", r0.total_cost());
        // the shares: never negative
        for et in [&e1, &e2, &r0] { assert!(et.access_cost.as_f64() >= 0.0 && et.traversal_cost.as_f64() >= 0.0, "a share of the cost is negative: {:?} / {:?}", et.access_cost, et.traversal_cost); }
        // and the search minimises it: a route that avoids the expensive turn wins when it is cheaper -- here there is only one route, its cost is the sum
        let r = crate::algorithm::search::search_algorithm::SearchAlgorithm::Dijkstra.run_vertex_oriented(VertexId(0), Some(VertexId(3)), &serde_json::json!({}), &Direction::Forward, &si).unwrap();
        let total: f64 = r.routes[0].iter().map(|e| e.total_cost().as_f64()).sum();
        assert!((total - 27.0).abs() < 1e-6, "route 0 -> 3: 10 + (2 + 7) + (3 + 5) = 27, got {}", total);
    }
}
