// C06 / C08 native witness: the prediction cache never serves one input the value cached for a DIFFERENT (rounded) input -- negative components included
// (never counted as proof)
#[cfg(kani)]
mod verif_c06_cache_wit {
    use super::*;

    #[test]
    fn c06_wit_cache_keys_separate_different_inputs() {
        let policy = FloatCachePolicy::from_config(FloatCachePolicyConfig { cache_size: 100, key_precisions: vec![1, 2] }).unwrap();
        // (speed, grade): same speed, grades -0.04, -0.02, 0.0, 0.02 -- each gets its own value
        let grades = [-0.04, -0.02, 0.0, 0.02, -1.5, 1.5];
        for (i, g) in grades.iter().enumerate() {
            assert_eq!(policy.get(&[30.0, *g]).unwrap(), None, "grade {} was never cached: a hit here would be another input's value", g);
            policy.update(&[30.0, *g], 100.0 + i as f64).unwrap();
        }
        for (i, g) in grades.iter().enumerate() {
            assert_eq!(policy.get(&[30.0, *g]).unwrap(), Some(100.0 + i as f64), "grade {} must get ITS value back", g);
        }
        // negative speeds-like first components too, and rounding is symmetric around zero
        assert_eq!(policy.get(&[-30.0, 0.0]).unwrap(), None);
        assert_eq!(to_precision(-1.26, 1) as i128, -13);
        assert_eq!(to_precision(1.26, 1) as i128, 13);
        assert_eq!(to_precision(-0.004, 2) as i128, 0);
        assert_eq!(to_precision(-0.006, 2) as i128, -1);
        assert_eq!(policy.float_key_to_int_key(&[-12.34, -0.056]).iter().map(|k| *k as i128).collect::<Vec<i128>>(), vec![-123, -6]);
        // inputs that round to the same key share the value (that is the cache's stated precision), others do not
        assert_eq!(policy.get(&[30.04, -0.021]).unwrap(), Some(101.0));
        assert_eq!(policy.get(&[30.06, -0.02]).unwrap(), None);
    }
}
