// C20 native witness (never counted as proof): every route output format describes the same route, a missing geometry is an error in every geometry format
#[cfg(kani)]
mod verif_c20_wit {
    use super::*;
    use geo::coord;
    use routee_compass_core::model::network::edge_id::EdgeId;
    use routee_compass_core::model::traversal::state::state_variable::StateVar;
    use routee_compass_core::model::unit::Cost;

    fn et(id: usize) -> EdgeTraversal { EdgeTraversal { edge_id: EdgeId(id), access_cost: Cost::ZERO, traversal_cost: Cost::ONE, result_state: vec![StateVar(id as f64)] } }

    #[test]
    fn c20_wit_every_route_format_follows_the_edge_sequence() {
        // four stored geometries of different lengths (2, 3, 2, 4 points); the route uses them OUT of table order and one of them twice is not allowed, so: 2, 0, 3
        let geoms: Vec<LineString<f32>> = vec![
            LineString::from(vec![coord! {x: 0.0f32, y: 0.0f32}, coord! {x: 1.0, y: 0.0}]),
            LineString::from(vec![coord! {x: 9.0f32, y: 9.0f32}, coord! {x: 9.5, y: 9.5}, coord! {x: 10.0, y: 10.0}]),
            LineString::from(vec![coord! {x: -1.0f32, y: -1.0f32}, coord! {x: 0.0, y: 0.0}]),
            LineString::from(vec![coord! {x: 1.0f32, y: 0.0f32}, coord! {x: 2.0, y: 0.5}, coord! {x: 3.0, y: 0.5}, coord! {x: 4.0, y: 1.0}]),
        ];
        let route = vec![et(2), et(0), et(3)];
        let expected_points: Vec<(f32, f32)> = route.iter().flat_map(|e| geoms[e.edge_id.0].points().map(|p| (p.x(), p.y())).collect::<Vec<_>>()).collect();
        // edge ids
        let ids = TraversalOutputFormat::EdgeId.generate_route_output(&route, &geoms).unwrap();
        assert_eq!(ids, serde_json::json!([2, 0, 3]));
        // per-edge JSON records
        let js = TraversalOutputFormat::Json.generate_route_output(&route, &geoms).unwrap();
        assert_eq!(js.as_array().unwrap().iter().map(|r| r["edge_id"].as_u64().unwrap()).collect::<Vec<_>>(), vec![2, 0, 3]);
        // GeoJSON: one feature per edge, in order, id = edge id, geometry = that edge's stored geometry
        let gj = TraversalOutputFormat::GeoJson.generate_route_output(&route, &geoms).unwrap();
        let feats = gj["features"].as_array().unwrap();
        assert_eq!(feats.len(), 3);
        for (f, e) in feats.iter().zip(route.iter()) {
            assert_eq!(f["id"].as_u64().unwrap() as usize, e.edge_id.0, "feature ids follow the route");
            let coords: Vec<(f32, f32)> = f["geometry"]["coordinates"].as_array().unwrap().iter().map(|c| (c[0].as_f64().unwrap() as f32, c[1].as_f64().unwrap() as f32)).collect();
            assert_eq!(coords, geoms[e.edge_id.0].points().map(|p| (p.x(), p.y())).collect::<Vec<_>>(), "feature geometry is the stored geometry of edge {}", e.edge_id.0);
            assert_eq!(f["properties"]["edge_id"].as_u64().unwrap() as usize, e.edge_id.0);
        }
        // WKT: the concatenation in route order
        let wkt = TraversalOutputFormat::Wkt.generate_route_output(&route, &geoms).unwrap();
        let parsed: LineString<f32> = { use wkt::TryFromWkt; LineString::try_from_wkt_str(wkt.as_str().unwrap()).unwrap() };
        assert_eq!(parsed.points().map(|p| (p.x(), p.y())).collect::<Vec<_>>(), expected_points, "WKT geometry is the concatenation in route order");
        // WKB exists and is hex
        let wkb = TraversalOutputFormat::Wkb.generate_route_output(&route, &geoms).unwrap();
        assert!(wkb.as_str().unwrap().len() > 20 && wkb.as_str().unwrap().chars().all(|c| c.is_ascii_hexdigit()));
        // a route through an edge whose geometry is missing: an error in every geometry format, never a shortened geometry
        let bad = vec![et(2), et(7), et(3)];
        for f in [TraversalOutputFormat::Wkt, TraversalOutputFormat::Wkb, TraversalOutputFormat::GeoJson] {
            assert!(f.generate_route_output(&bad, &geoms).is_err(), "{:?}: a missing geometry is an error", f);
        }
    }

    /// C20 "tree outputs contain exactly one entry per tree branch" and "a missing geometry yields an error": the tree geometry has one member per branch, and a branch whose
    /// edge has no stored geometry is an error in every geometry format -- never a collection with fewer members
    #[test]
    fn c20_wit_tree_outputs_have_one_entry_per_branch() {
        use routee_compass_core::algorithm::search::search_tree_branch::SearchTreeBranch;
        use routee_compass_core::model::network::vertex_id::VertexId;
        use std::collections::HashMap;
        let geoms: Vec<LineString<f32>> = (0..3).map(|i| LineString::from(vec![coord! {x: i as f32, y: 0.0f32}, coord! {x: i as f32 + 1.0, y: 1.0}])).collect();
        let tree_of = |ids: &[usize]| -> HashMap<VertexId, SearchTreeBranch> {
            ids.iter().enumerate().map(|(v, id)| (VertexId(v + 1), SearchTreeBranch { terminal_vertex: VertexId(0), edge_traversal: et(*id) })).collect()
        };
        let full = tree_of(&[0, 1, 2]);
        let ml = ops::create_tree_multilinestring(&full, &geoms).unwrap();
        assert_eq!(ml.0.len(), 3, "one member per branch");
        let ids = TraversalOutputFormat::EdgeId.generate_tree_output(&full, &geoms).unwrap();
        assert_eq!(ids.as_array().unwrap().len(), 3, "one edge id per branch");
        // edge 7 has no row in the geometry table
        let broken = tree_of(&[0, 7, 2]);
        assert!(ops::create_tree_multilinestring(&broken, &geoms).is_err(), "a branch without a stored geometry is an error, not a shorter collection");
        assert!(TraversalOutputFormat::Wkt.generate_tree_output(&broken, &geoms).is_err(), "wkt tree output: missing geometry is an error");
    }
}
