// C11.2 native witnesses for StateModel::extend (replay material for unit c11_extend; never counted as proof)
#[cfg(kani)]
mod verif_c11_extend_wit {
    use super::*;
    use crate::model::state::state_feature::StateFeature;
    use crate::model::unit::{Distance, DistanceUnit, Time, TimeUnit};
    use crate::model::unit::as_f64::AsF64;

    fn base(n: usize) -> StateModel {
        let feats: Vec<(String, StateFeature)> = (0..n).map(|i| (format!("f{}", i), StateFeature::Distance { distance_unit: DistanceUnit::Meters, initial: Distance::new(i as f64) })).collect();
        StateModel::empty().extend(feats).unwrap()
    }
    fn slots(m: &StateModel) -> Vec<(String, usize)> { m.indexed_iter().map(|(i, (k, _))| (k.clone(), i)).collect() }

    /// a declaration for an existing name (same kind, other unit and initial value) replaces the feature IN PLACE; a new name is appended;
    /// at every container size from 1 to 7
    #[test]
    fn c11_wit_extend_overrides_in_place() {
        for n in 1..8usize {
            let m0 = base(n);
            let before = slots(&m0);
            let target = format!("f{}", n / 2);
            let m1 = m0.extend(vec![
                (target.clone(), StateFeature::Distance { distance_unit: DistanceUnit::Miles, initial: Distance::new(77.0) }),
                (String::from("extra"), StateFeature::Time { time_unit: TimeUnit::Hours, initial: Time::new(5.0) }),
            ]).unwrap();
            let after = slots(&m1);
            assert_eq!(after.len(), n + 1, "n={}: one slot per feature name, new names appended", n);
            assert_eq!(&after[..n], &before[..], "n={}: existing names keep their slots", n);
            assert_eq!(after[n], (String::from("extra"), n), "n={}: the new name takes the next free slot", n);
            let init = m1.initial_state().unwrap();
            assert_eq!(init.len(), n + 1);
            assert_eq!(init[n / 2].0, 77.0, "n={}: the declared initial value is in force", n);
            let mut st = init.clone();
            m1.add_distance(&mut st, &target, &Distance::new(1609.344), &DistanceUnit::Meters).unwrap();
            let miles = m1.get_distance(&st, &target, &DistanceUnit::Miles).unwrap().as_f64();
            assert!((miles - 78.0).abs() < 0.01, "n={}: the declared unit (miles) is in force: 77 mi + 1609.344 m = {} mi", n, miles);
            for i in 0..n { if i != n / 2 { assert_eq!(init[i].0, i as f64, "n={}: other features untouched", n); } }
        }
    }
    /// rule R-collect's assumption: extending by nothing gives an equal model (clone pipeline keeps names, slots and features), sizes 0..7
    #[test]
    fn c11_wit_extend_by_nothing_is_identity() {
        for n in 0..8usize {
            let m0 = base(n);
            let m1 = m0.extend(vec![]).unwrap();
            assert_eq!(slots(&m0), slots(&m1), "n={}", n);
            assert_eq!(m0.initial_state().unwrap().iter().map(|v| v.0).collect::<Vec<_>>(), m1.initial_state().unwrap().iter().map(|v| v.0).collect::<Vec<_>>(), "n={}", n);
        }
    }
}
