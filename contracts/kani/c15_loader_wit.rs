// C15 native witnesses for the FILE side of the loader (concrete files in a temp directory; never counted as proof):
// the loaded network is the listed one -- plain and gzip, with and without a trailing newline, scanned and explicit counts, a vertex of degree 7
#[cfg(kani)]
mod verif_c15_loader_wit {
    use super::*;
    use std::io::Write;

    fn write_plain(p: &std::path::Path, text: &str) { std::fs::write(p, text).unwrap(); }
    fn write_gz(p: &std::path::Path, text: &str) {
        let f = std::fs::File::create(p).unwrap();
        let mut e = flate2::write::GzEncoder::new(f, flate2::Compression::default());
        e.write_all(text.as_bytes()).unwrap();
        e.finish().unwrap();
    }

    #[test]
    fn c15_wit_loaded_network_is_the_listed_one() {
        // hub 0 with seven out-edges (beyond the four-entry representations), a parallel edge, a self loop, an isolated vertex 8, edges into and out of the LAST vertex 9
        let edges: Vec<(usize, usize, f64)> = vec![(0, 1, 10.0), (0, 2, 11.0), (0, 3, 12.0), (0, 4, 13.0), (0, 5, 14.0), (0, 6, 15.0), (0, 7, 16.0),
                                                   (1, 0, 20.0), (1, 0, 21.0), (2, 2, 5.0), (7, 9, 30.0), (9, 0, 31.0), (3, 9, 32.0)];
        let n_v = 10usize;
        let mut e_txt = String::from("edge_id,src_vertex_id,dst_vertex_id,distance");
        for (i, (s, d, l)) in edges.iter().enumerate() { e_txt.push_str(&format!("\n{},{},{},{}", i, s, d, l)); }
        let mut v_txt = String::from("vertex_id,x,y");
        for v in 0..n_v { v_txt.push_str(&format!("\n{},{},{}", v, -105.0 + v as f64 * 0.01, 39.0 + v as f64 * 0.02)); }
        let dir = std::env::temp_dir().join(format!("verif_c15_{}", std::process::id()));
        std::fs::create_dir_all(&dir).unwrap();
        for gz in [false, true] { for trailing_newline in [false, true] { for explicit in [false, true] {
            let (e_t, v_t) = if trailing_newline { (format!("{}\n", e_txt), format!("{}\n", v_txt)) } else { (e_txt.clone(), v_txt.clone()) };
            let (ep, vp) = if gz { (dir.join("e.csv.gz"), dir.join("v.csv.gz")) } else { (dir.join("e.csv"), dir.join("v.csv")) };
            if gz { write_gz(&ep, &e_t); write_gz(&vp, &v_t); } else { write_plain(&ep, &e_t); write_plain(&vp, &v_t); }
            let (ne, nv) = if explicit { (Some(edges.len()), Some(n_v)) } else { (None, None) };
            let tag = format!("gzip={} trailing_newline={} explicit_counts={}", gz, trailing_newline, explicit);
            let g = graph_from_files(&ep, &vp, ne, nv, None).unwrap_or_else(|e| panic!("{}: load failed: {}", tag, e));
            assert_eq!(g.n_edges(), edges.len(), "{}: number of edges", tag);
            assert_eq!(g.n_vertices(), n_v, "{}: number of vertices", tag);
            for (i, (s, d, l)) in edges.iter().enumerate() {
                let e = g.get_edge(&crate::model::network::EdgeId(i)).unwrap();
                assert_eq!((e.src_vertex_id.0, e.dst_vertex_id.0), (*s, *d), "{}: edge {} end points", tag, i);
                assert!(({ use crate::model::unit::as_f64::AsF64; e.distance.as_f64() } - *l).abs() < 1e-9, "{}: edge {} length", tag, i);
            }
            for v in 0..n_v {
                let vid = crate::model::network::VertexId(v);
                let mut out: Vec<usize> = g.out_edges(&vid).iter().map(|e| e.0).collect(); out.sort();
                let mut inn: Vec<usize> = g.in_edges(&vid).iter().map(|e| e.0).collect(); inn.sort();
                let exp_out: Vec<usize> = edges.iter().enumerate().filter(|(_, e)| e.0 == v).map(|(i, _)| i).collect();
                let exp_in: Vec<usize> = edges.iter().enumerate().filter(|(_, e)| e.1 == v).map(|(i, _)| i).collect();
                assert_eq!(out, exp_out, "{}: out-edges of vertex {}", tag, v);
                assert_eq!(inn, exp_in, "{}: in-edges of vertex {}", tag, v);
                let vx = g.get_vertex(&vid).unwrap();
                assert!((vx.x() as f64 - (-105.0 + v as f64 * 0.01)).abs() < 1e-4 && (vx.y() as f64 - (39.0 + v as f64 * 0.02)).abs() < 1e-4, "{}: coordinates of vertex {}", tag, v);
            }
        } } }
        let _ = std::fs::remove_dir_all(&dir);
    }

    /// C15 ("the forward and reverse adjacency views always describe the same edge set", "every listed edge ... the outgoing edges of a vertex are precisely the
    /// listed edges that leave it and the incoming edges precisely those that enter it"): an edge list that names a vertex beyond the vertex list (a truncated
    /// vertex file, or a configured vertex count that is too small) does not describe a network.  Either the load is refused, or -- if it succeeds -- every listed
    /// edge must be in the out-list of its source AND in the in-list of its destination.
    #[test]
    fn c15_wit_edge_naming_a_vertex_beyond_the_vertex_list() {
        // vertices 0..=3; edge 2 enters vertex 7, edge 3 leaves vertex 9
        let edges: Vec<(usize, usize)> = vec![(0, 1), (1, 2), (2, 7), (9, 3), (3, 0)];
        let mut e_txt = String::from("edge_id,src_vertex_id,dst_vertex_id,distance");
        for (i, (s, d)) in edges.iter().enumerate() { e_txt.push_str(&format!("\n{},{},{},{}", i, s, d, 10.0)); }
        let mut v_txt = String::from("vertex_id,x,y");
        for v in 0..4 { v_txt.push_str(&format!("\n{},{},{}", v, -105.0 + v as f64 * 0.01, 39.0)); }
        let dir = std::env::temp_dir().join(format!("verif_c15b_{}", std::process::id()));
        std::fs::create_dir_all(&dir).unwrap();
        let (ep, vp) = (dir.join("e.csv"), dir.join("v.csv"));
        write_plain(&ep, &e_txt); write_plain(&vp, &v_txt);
        for explicit in [false, true] {
            let (ne, nv) = if explicit { (Some(edges.len()), Some(4)) } else { (None, None) };
            match graph_from_files(&ep, &vp, ne, nv, None) {
                Err(_) => {}   // refused: fine
                Ok(g) => {
                    for (i, (s, d)) in edges.iter().enumerate() {
                        let id = crate::model::network::EdgeId(i);
                        let out: Vec<usize> = g.out_edges(&crate::model::network::VertexId(*s)).iter().map(|e| e.0).collect();
                        let inn: Vec<usize> = g.in_edges(&crate::model::network::VertexId(*d)).iter().map(|e| e.0).collect();
                        assert!(g.get_edge(&id).is_ok(), "explicit_counts={}: listed edge {} is retrievable", explicit, i);
                        assert!(out.contains(&i), "explicit_counts={}: the load succeeded but listed edge {} ({} -> {}) is not among the out-edges of vertex {}: {:?}", explicit, i, s, d, s, out);
                        assert!(inn.contains(&i), "explicit_counts={}: the load succeeded but listed edge {} ({} -> {}) is not among the in-edges of vertex {}: {:?} (forward and reverse views disagree)", explicit, i, s, d, d, inn);
                    }
                }
            }
        }
        let _ = std::fs::remove_dir_all(&dir);
    }

    /// C15 ("each vertex has the listed coordinates"): the vertex file's columns are found by NAME, whatever their order
    #[test]
    fn c15_wit_vertex_columns_in_any_order() {
        let dir = std::env::temp_dir().join(format!("verif_c15c_{}", std::process::id()));
        std::fs::create_dir_all(&dir).unwrap();
        let e_txt = "edge_id,src_vertex_id,dst_vertex_id,distance\n0,0,1,10.0\n1,1,2,10.0";
        for (k, header) in ["vertex_id,x,y", "vertex_id,y,x", "y,vertex_id,x", "x,y,vertex_id"].iter().enumerate() {
            let cols: Vec<&str> = header.split(',').collect();
            let mut v_txt = String::from(*header);
            for v in 0..3 {
                let (x, y) = (-105.0 + v as f64 * 0.5, 39.0 + v as f64 * 0.25);
                let row: Vec<String> = cols.iter().map(|c| match *c { "vertex_id" => format!("{}", v), "x" => format!("{}", x), _ => format!("{}", y) }).collect();
                v_txt.push_str(&format!("\n{}", row.join(",")));
            }
            let (ep, vp) = (dir.join(format!("e{}.csv", k)), dir.join(format!("v{}.csv", k)));
            write_plain(&ep, e_txt); write_plain(&vp, &v_txt);
            let g = graph_from_files(&ep, &vp, None, None, None).unwrap_or_else(|e| panic!("header `{}`: load failed: {}", header, e));
            for v in 0..3 {
                let vx = g.get_vertex(&crate::model::network::VertexId(v)).unwrap();
                let (x, y) = (-105.0 + v as f64 * 0.5, 39.0 + v as f64 * 0.25);
                assert!((vx.x() as f64 - x).abs() < 1e-4 && (vx.y() as f64 - y).abs() < 1e-4, "header `{}`: vertex {} has coordinates ({}, {}), listed ({}, {})", header, v, vx.x(), vx.y(), x, y);
            }
        }
        let _ = std::fs::remove_dir_all(&dir);
    }
}
