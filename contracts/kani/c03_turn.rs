// C03.2 -- Turn::from_angle: total on -180..=180, Err outside, the eight classes are the documented intervals, mirror symmetric.
#[cfg(kani)]
mod verif_c03_turn {
    use super::*;
    fn format_stub(_a: std::fmt::Arguments<'_>) -> String { String::new() }
    /// the documented classification, written independently as |angle| thresholds
    fn class_def(angle: i16) -> Option<Turn> {
        let m = if angle < 0 { -(angle as i32) } else { angle as i32 };
        if m > 180 { return None; }
        let right = angle > 0;
        Some(if m <= 19 { Turn::NoTurn } else if m <= 44 { if right { Turn::SlightRight } else { Turn::SlightLeft } }
             else if m <= 134 { if right { Turn::Right } else { Turn::Left } }
             else if m <= 159 { if right { Turn::SharpRight } else { Turn::SharpLeft } } else { Turn::UTurn })
    }
    #[kani::proof]
    #[kani::stub(alloc::fmt::format, format_stub)]
    fn c03_turn_from_angle() {
        let a: i16 = kani::any();
        let r = Turn::from_angle(a);
        match class_def(a) {
            None => assert!(r.is_err(), "outside -180..=180 is an error, not a class"),
            Some(t) => assert!(r.is_ok() && r.unwrap() == t, "class equals the documented interval"),
        }
        kani::cover!(a == 180);
        kani::cover!(a == -181);
    }
}
