// shared fixture for NATIVE WITNESSES only (concrete executions of the real code, never counted as proof):
// small worlds with a distance objective, built exactly like the crate's own test fixture.
#[cfg(kani)]
pub(crate) mod verif_world {
    use super::*;
    use crate::model::access::default::no_access_model::NoAccessModel;
    use crate::model::cost::cost_aggregation::CostAggregation;
    use crate::model::cost::cost_model::CostModel;
    use crate::model::cost::vehicle::vehicle_cost_rate::VehicleCostRate;
    use crate::model::frontier::default::no_restriction::NoRestriction;
    use crate::model::frontier::frontier_model::FrontierModel;
    use crate::model::network::graph::Graph;
    use crate::model::network::{Edge, Vertex};
    use crate::model::state::state_feature::StateFeature;
    use crate::model::state::state_model::StateModel;
    use crate::model::termination::termination_model::TerminationModel;
    use crate::model::traversal::default::distance_traversal_model::DistanceTraversalModel;
    use crate::model::unit::{Distance, DistanceUnit};
    use crate::util::compact_ordered_hash_map::CompactOrderedHashMap;
    use std::collections::HashMap;
    use std::sync::Arc;

    /// graph from (src, dst, length) triples; edge ids are the positions in the slice; all vertices at (0,0)
    pub(crate) fn graph(n_vertices: usize, edges: &[(usize, usize, f64)]) -> Graph {
        let vertices: Vec<Vertex> = (0..n_vertices).map(|i| Vertex::new(i, 0.0, 0.0)).collect();
        let es: Vec<Edge> = edges.iter().enumerate().map(|(i, (s, d, l))| Edge::new(i, *s, *d, *l)).collect();
        let mut adj = vec![CompactOrderedHashMap::empty(); n_vertices];
        let mut rev = vec![CompactOrderedHashMap::empty(); n_vertices];
        for e in &es {
            adj[e.src_vertex_id.0].insert(e.edge_id, e.dst_vertex_id);
            rev[e.dst_vertex_id.0].insert(e.edge_id, e.src_vertex_id);
        }
        Graph { adj: adj.into_boxed_slice(), rev: rev.into_boxed_slice(), edges: es.into_boxed_slice(), vertices: vertices.into_boxed_slice() }
    }

    pub(crate) fn instance(g: Graph, frontier: Arc<dyn FrontierModel>, termination: TerminationModel) -> SearchInstance {
        let state_model = Arc::new(StateModel::empty().extend(vec![(String::from("distance"),
            StateFeature::Distance { distance_unit: DistanceUnit::Meters, initial: Distance::new(0.0) })]).unwrap());
        let cost_model = CostModel::new(
            Arc::new(HashMap::from([(String::from("distance"), 1.0)])),
            Arc::new(HashMap::from([(String::from("distance"), VehicleCostRate::Raw)])),
            Arc::new(HashMap::new()), CostAggregation::Sum, state_model.clone()).unwrap();
        SearchInstance {
            directed_graph: Arc::new(g), state_model: state_model.clone(),
            traversal_model: Arc::new(DistanceTraversalModel::new(DistanceUnit::Meters)),
            access_model: Arc::new(NoAccessModel {}), cost_model: Arc::new(cost_model),
            frontier_model: frontier, termination_model: Arc::new(termination),
        }
    }

    /// the crate's own 4-vertex box world: 0<->1 (10), 1<->2 (2), 2<->3 (1), 3<->0 (2)
    pub(crate) fn box_world() -> Graph {
        graph(4, &[(0, 1, 10.0), (1, 0, 10.0), (1, 2, 2.0), (2, 1, 2.0), (2, 3, 1.0), (3, 2, 1.0), (3, 0, 2.0), (0, 3, 2.0)])
    }
    pub(crate) fn box_instance() -> SearchInstance {
        instance(box_world(), Arc::new(NoRestriction {}), TerminationModel::IterationsLimit { limit: 1000 })
    }
}
