// C16 / C02 native witness: the great-circle distance used by the tolerance checks and by the A* estimate (never counted as proof)
#[cfg(kani)]
mod verif_c16_haversine_wit {
    use super::*;
    use crate::model::unit::as_f64::AsF64;

    /// independent formula (spherical law of cosines, in f64) with the same earth radius
    fn reference_m(lon1: f64, lat1: f64, lon2: f64, lat2: f64) -> f64 {
        let (p1, p2, dl) = (lat1.to_radians(), lat2.to_radians(), (lon2 - lon1).to_radians());
        let c = (p1.sin() * p2.sin() + p1.cos() * p2.cos() * dl.cos()).clamp(-1.0, 1.0);
        (APPROX_EARTH_RADIUS_M as f64) * c.acos()
    }

    #[test]
    fn c16_wit_great_circle_distance_agrees_with_an_independent_formula() {
        let mut n = 0;
        for lat1 in [-70.0f32, -45.0, -10.0, 0.0, 30.0, 45.0, 60.0, 75.0] {
            for lon1 in [-170.0f32, -105.0, 0.0, 10.0, 120.0] {
                for dlat in [-10.0f32, -2.0, 0.0, 0.5, 2.0, 10.0] {
                    for dlon in [-20.0f32, -1.0, 0.0, 1.0, 5.0, 20.0, 50.0] {
                        let (lat2, lon2) = (lat1 + dlat, lon1 + dlon);
                        if !(-89.0..=89.0).contains(&lat2) || !(-180.0..=180.0).contains(&lon2) { continue; }
                        let want = reference_m(lon1 as f64, lat1 as f64, lon2 as f64, lat2 as f64);
                        if want < 20_000.0 { continue; }   // below 20 km the f32 arithmetic of the function under test dominates
                        let got = haversine_distance_meters(lon1, lat1, lon2, lat2).unwrap().as_f64();
                        let back = haversine_distance_meters(lon2, lat2, lon1, lat1).unwrap().as_f64();
                        assert!((got - want).abs() <= 2e-3 * want, "({},{}) -> ({},{}): {} m, the spherical law of cosines gives {} m", lon1, lat1, lon2, lat2, got, want);
                        assert!((got - back).abs() <= 1e-4 * want, "the distance is symmetric: ({},{}) <-> ({},{}): {} vs {}", lon1, lat1, lon2, lat2, got, back);
                        n += 1;
                    }
                }
            }
        }
        assert!(n > 500, "the sweep compared {} pairs", n);
        // known values: one degree of latitude, a quarter of the equator; out-of-range coordinates are refused
        let one_deg = haversine_distance_meters(0.0, 0.0, 0.0, 1.0).unwrap().as_f64();
        assert!((one_deg - 111_194.9).abs() < 50.0, "one degree of latitude is about 111.19 km, got {}", one_deg);
        let quarter = haversine_distance_meters(0.0, 0.0, 90.0, 0.0).unwrap().as_f64();
        assert!((quarter - 10_007_543.0).abs() < 5_000.0, "a quarter of the equator is about 10 007.5 km, got {}", quarter);
        assert!(haversine_distance_meters(181.0, 0.0, 0.0, 0.0).is_err() && haversine_distance_meters(0.0, 91.0, 0.0, 0.0).is_err());
    }
}
