// C10 native witness: the termination model built from the configuration holds the configured limits, each under its own kind (never counted as proof)
#[cfg(kani)]
mod verif_c10_builder_wit {
    use super::*;
    use serde_json::json;
    use std::time::Duration;

    /// the kind named in the configuration (matched case-insensitively, as the builder does) is the kind of limit in force, with the configured value
    #[test]
    fn c10_wit_configured_limits_are_the_limits_in_force() {
        for name in ["iterations", "Iterations", "ITERATIONS"] {
            let m = TerminationModelBuilder::build(&json!({"type": name, "limit": 7}), None).unwrap();
            assert!(matches!(m, TerminationModel::IterationsLimit { limit: 7 }), "type {:?} limit 7 must bound the ITERATIONS by 7, built {:?}", name, m);
        }
        for name in ["solution_size", "Solution_Size", "SOLUTION_SIZE"] {
            let m = TerminationModelBuilder::build(&json!({"type": name, "limit": 9}), None).unwrap();
            assert!(matches!(m, TerminationModel::SolutionSizeLimit { limit: 9 }), "type {:?} limit 9 must bound the SOLUTION SIZE by 9, built {:?}", name, m);
        }
        for name in ["query_runtime", "Query_Runtime"] {
            let m = TerminationModelBuilder::build(&json!({"type": name, "limit": "01:02:03", "frequency": 50}), None).unwrap();
            match m {
                TerminationModel::QueryRuntimeLimit { limit, frequency } => {
                    assert_eq!(limit, Duration::from_secs(3723), "01:02:03 is 3723 seconds");
                    assert_eq!(frequency, 50);
                }
                other => panic!("type {:?} must build a runtime limit, built {:?}", name, other),
            }
        }
        // a combined model keeps every member, in order, each under its own kind
        let c = json!({"type": "Combined", "models": [
            {"type": "Iterations", "limit": 3},
            {"type": "solution_size", "limit": 4},
            {"type": "combined", "models": [{"type": "query_runtime", "limit": "00:00:05", "frequency": 2}, {"type": "iterations", "limit": 6}]}
        ]});
        match TerminationModelBuilder::build(&c, None).unwrap() {
            TerminationModel::Combined { models } => {
                assert_eq!(models.len(), 3);
                assert!(matches!(models[0], TerminationModel::IterationsLimit { limit: 3 }), "member 0: {:?}", models[0]);
                assert!(matches!(models[1], TerminationModel::SolutionSizeLimit { limit: 4 }), "member 1: {:?}", models[1]);
                match &models[2] {
                    TerminationModel::Combined { models: inner } => {
                        assert_eq!(inner.len(), 2);
                        assert!(matches!(inner[0], TerminationModel::QueryRuntimeLimit { frequency: 2, .. }), "inner 0: {:?}", inner[0]);
                        assert!(matches!(inner[1], TerminationModel::IterationsLimit { limit: 6 }), "inner 1: {:?}", inner[1]);
                    }
                    other => panic!("member 2 must be a combined model, built {:?}", other),
                }
            }
            other => panic!("must build a combined model, built {:?}", other),
        }
        // an unknown kind, a missing limit and a missing member list are refused, never replaced by "no limit"
        assert!(TerminationModelBuilder::build(&json!({"type": "steps", "limit": 3}), None).is_err());
        assert!(TerminationModelBuilder::build(&json!({"type": "iterations"}), None).is_err());
        assert!(TerminationModelBuilder::build(&json!({"type": "combined"}), None).is_err());
        assert!(TerminationModelBuilder::build(&json!({"type": "combined", "models": [{"type": "iterations"}]}), None).is_err());
    }
}
