// native witnesses at application level (thorough tier): concrete batches through the real CompassApp::run on the crate's own
// speeds_test fixture.  Concrete executions, never counted as proof.
#[cfg(kani)]
mod verif_app_wit {
    use super::*;
    use serde_json::{json, Value};
    use std::path::PathBuf;

    fn load_app() -> CompassApp {
        let base = PathBuf::from(env!("CARGO_MANIFEST_DIR")).join("src").join("app").join("compass").join("test").join("speeds_test");
        match CompassApp::try_from(base.join("speeds_test.toml").as_path()) {
            Ok(a) => a,
            Err(_) => CompassApp::try_from(base.join("speeds_debug.toml").as_path()).unwrap(),
        }
    }
    fn query(i: usize) -> Value {
        match i % 5 {
            0 => json!({"id": i, "origin_vertex": 0, "destination_vertex": 2}),
            1 => json!({"id": i, "origin_vertex": 0, "destination_vertex": 1}),
            2 => json!({"id": i, "origin_vertex": 1, "destination_vertex": 2}),
            3 => json!({"id": i, "origin_vertex": 2, "destination_vertex": 0}),
            _ => json!({"id": i, "destination_vertex": 2}), // malformed: no origin
        }
    }

    /// C12: the empty batch is answered with an empty list of responses (no panic)
    #[test]
    fn c12_wit_empty_batch() {
        let app = load_app();
        let r = app.run(vec![], None).expect("an empty batch is not an error");
        assert!(r.is_empty());
    }

    /// C06: exactly one response per query, carrying its request, for every batch size 1..=9 and parallelism 1..=4
    #[test]
    fn c06_wit_one_response_per_query() {
        let mut app = load_app();
        for parallelism in 1..=4usize {
            app.parallelism = parallelism;
            for n in 1..=9usize {
                let batch: Vec<Value> = (0..n).map(query).collect();
                let responses = app.run(batch, None).unwrap();
                let mut ids: Vec<u64> = responses.iter().map(|r| r.get("request").and_then(|q| q.get("id")).and_then(|i| i.as_u64())
                    .unwrap_or_else(|| panic!("response without its request: {}", r))).collect();
                ids.sort();
                assert_eq!(ids, (0..n as u64).collect::<Vec<_>>(), "batch of {} at parallelism {}: one response per query", n, parallelism);
                for r in responses.iter() {
                    let id = r["request"]["id"].as_u64().unwrap() as usize;
                    assert_eq!(r.get("error").is_some(), id % 5 >= 3, "query {} classified as when run alone", id);
                }
            }
        }
    }
}
