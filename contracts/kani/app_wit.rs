// native witnesses at application level (thorough tier): concrete batches through the real CompassApp::run on the crate's own
// speeds_test fixture.  Concrete executions, never counted as proof.
#[cfg(kani)]
mod verif_app_wit {
    use super::*;
    use serde_json::{json, Value};
    use std::path::PathBuf;

    fn load_app() -> CompassApp {
        let base = PathBuf::from(env!("CARGO_MANIFEST_DIR")).join("src").join("app").join("compass").join("test").join("speeds_test");
        match CompassApp::try_from(base.join("speeds_test.toml").as_path()) {
            Ok(a) => a,
            Err(_) => CompassApp::try_from(base.join("speeds_debug.toml").as_path()).unwrap(),
        }
    }
    fn query(i: usize) -> Value {
        match i % 5 {
            0 => json!({"id": i, "origin_vertex": 0, "destination_vertex": 2}),
            1 => json!({"id": i, "origin_vertex": 0, "destination_vertex": 1}),
            2 => json!({"id": i, "origin_vertex": 1, "destination_vertex": 2}),
            3 => json!({"id": i, "origin_vertex": 2, "destination_vertex": 0}),
            _ => json!({"id": i, "destination_vertex": 2}), // malformed: no origin
        }
    }

    /// C12: the empty batch is answered with an empty list of responses (no panic)
    #[test]
    fn c12_wit_empty_batch() {
        let app = load_app();
        let r = app.run(vec![], None).expect("an empty batch is not an error");
        assert!(r.is_empty());
    }

    /// C06: exactly one response per query, carrying its request, for every batch size 1..=9 and parallelism 1..=4
    #[test]
    fn c06_wit_one_response_per_query() {
        let mut app = load_app();
        for parallelism in 1..=4usize {
            app.parallelism = parallelism;
            for n in 1..=9usize {
                let batch: Vec<Value> = (0..n).map(query).collect();
                let responses = app.run(batch, None).unwrap();
                let mut ids: Vec<u64> = responses.iter().map(|r| r.get("request").and_then(|q| q.get("id")).and_then(|i| i.as_u64())
                    .unwrap_or_else(|| panic!("response without its request: {}", r))).collect();
                ids.sort();
                assert_eq!(ids, (0..n as u64).collect::<Vec<_>>(), "batch of {} at parallelism {}: one response per query", n, parallelism);
                for r in responses.iter() {
                    let id = r["request"]["id"].as_u64().unwrap() as usize;
                    assert_eq!(r.get("error").is_some(), id % 5 >= 3, "query {} classified as when run alone", id);
                }
            }
        }
    }

    fn load_app_with_grid_search() -> CompassApp {
        let mut app = load_app();
        app.input_plugins.push(std::sync::Arc::new(crate::plugin::input::default::grid_search::plugin::GridSearchPlugin {}));
        app
    }

    /// C12 / C06: batches in which some or ALL queries are rejected during input processing (ill-typed grid section, a query that is not an
    /// object) -- every query is answered with an error response that echoes its request, at every batch size 1..=4
    #[test]
    fn c12_wit_rejected_only_batches() {
        let app = load_app_with_grid_search();
        let bad_grid = |i: usize| json!({"id": i, "origin_vertex": 0, "destination_vertex": 2, "grid_search": "not-an-object"});
        for n in 1..=4usize {
            for n_good in 0..=1usize {
                let mut batch: Vec<Value> = (0..n).map(|i| if i % 2 == 0 { bad_grid(i) } else { json!(7) }).collect();
                if n_good == 1 { batch.push(json!({"id": 99, "origin_vertex": 0, "destination_vertex": 2})); }
                let responses = app.run(batch.clone(), None).expect("user-level errors are responses, not a failed run");
                assert_eq!(responses.len(), batch.len(), "{} rejected + {} good: one response per query, found {}", n, n_good, serde_json::to_string(&responses).unwrap());
                assert_eq!(responses.iter().filter(|r| r.get("error").is_some()).count(), n, "every rejected query is an error response");
                for r in responses.iter() { assert!(r.get("request").is_some(), "the response echoes its request: {}", r); }
                for q in batch.iter().filter(|q| q.get("grid_search").is_some()) {
                    assert!(responses.iter().any(|r| r.get("request") == Some(q)), "the rejected query {} is echoed", q);
                }
            }
        }
    }

    /// C17: object-valued grid choices with DIFFERENT key sets -- each generated query is the original minus the grid section overlaid with
    /// exactly its own combination (no key leaks from one generated query into another); one and two axes
    #[test]
    fn c17_wit_grid_object_choices_do_not_leak() {
        use crate::plugin::input::default::grid_search::plugin::GridSearchPlugin;
        use crate::plugin::input::input_plugin::InputPlugin;
        let mut q1 = json!({"origin_vertex": 3, "grid_search": {"test_cases": [
            {"name": "fastest", "weights": {"time": 1, "distance": 0}}, {"name": "ev", "model_name": "bolt", "starting_soc_percent": 80}, {"name": "plain"}]}});
        GridSearchPlugin {}.process(&mut q1).unwrap();
        assert_eq!(q1, json!([{"origin_vertex": 3, "name": "fastest", "weights": {"time": 1, "distance": 0}},
                              {"origin_vertex": 3, "name": "ev", "model_name": "bolt", "starting_soc_percent": 80}, {"origin_vertex": 3, "name": "plain"}]));
        let mut q2 = json!({"keep": "me", "grid_search": {"a": [1, 2], "_case": [{"x": 0}, {"y": 1}]}});
        GridSearchPlugin {}.process(&mut q2).unwrap();
        let got = q2.as_array().expect("an array of generated queries").clone();
        let mut expected = vec![json!({"keep": "me", "a": 1, "x": 0}), json!({"keep": "me", "a": 2, "x": 0}), json!({"keep": "me", "a": 1, "y": 1}), json!({"keep": "me", "a": 2, "y": 1})];
        assert_eq!(got.len(), 4, "2 x 2 combinations");
        for g in got.iter() {
            let i = expected.iter().position(|e| e == g).unwrap_or_else(|| panic!("unexpected generated query {}", g));
            expected.remove(i);
        }
        // an axis that MIXES scalar and object options: each option is treated by its own kind -- the scalar goes under the axis' name, the object is merged into the top level
        for opts in [json!(["camry", {"model_name": "bolt", "starting_soc_percent": 80}]), json!([{"model_name": "bolt", "starting_soc_percent": 80}, "camry"])] {
            let mut q4 = json!({"keep": "me", "grid_search": {"model_name": opts}});
            GridSearchPlugin {}.process(&mut q4).unwrap();
            let got = q4.as_array().expect("an array of generated queries").clone();
            assert_eq!(got.len(), 2, "one query per option");
            assert!(got.contains(&json!({"keep": "me", "model_name": "camry"})), "the scalar option goes under the axis' name: {:?}", got);
            assert!(got.contains(&json!({"keep": "me", "model_name": "bolt", "starting_soc_percent": 80})), "the object option is merged into the top level: {:?}", got);
        }
        // a query without a grid section passes through unchanged
        let mut q3 = json!({"origin_vertex": 1, "destination_vertex": 2});
        GridSearchPlugin {}.process(&mut q3).unwrap();
        assert_eq!(q3, json!({"origin_vertex": 1, "destination_vertex": 2}));
    }

    /// C17: nested arrays produced by a plugin are flattened into the query list also when only SOME queries of the list were expanded
    #[test]
    fn c17_wit_flatten_partial_expansion() {
        use crate::plugin::input::default::grid_search::plugin::GridSearchPlugin;
        use crate::plugin::input::input_plugin::InputPlugin;
        use crate::plugin::input::input_plugin_ops::{json_array_op, InputArrayOp};
        let mut state = json!([{"id": "with_grid", "grid_search": {"a": [1, 2]}}, {"id": "no_grid", "a": 7}]);
        let plugin = GridSearchPlugin {};
        let op: InputArrayOp = std::rc::Rc::new(|q| plugin.process(q));
        let mut errors: Vec<Value> = vec![];
        json_array_op(&mut state, op, &mut errors).unwrap();
        assert_eq!(state, json!([{"id": "with_grid", "a": 1}, {"id": "with_grid", "a": 2}, {"id": "no_grid", "a": 7}]));
        assert!(errors.is_empty());
        // a query for which the operation fails leaves the list with its own error response; the others are processed all the same
        let mut state = json!([{"id": "bad", "grid_search": {"a": []}}, {"id": "good", "grid_search": {"a": [3]}}]);
        let op: InputArrayOp = std::rc::Rc::new(|q| plugin.process(q));
        json_array_op(&mut state, op, &mut errors).unwrap();
        assert_eq!(state, json!([{"id": "good", "a": 3}]));
        assert_eq!(errors.len(), 1);
        assert_eq!(errors[0]["request"]["id"], json!("bad"));
    }

    /// C12: identical origin and destination (the search returns one EMPTY route) -- answered with one response that echoes the request, no panic,
    /// and the other queries of the batch are served
    #[test]
    fn c12_wit_same_origin_and_destination() {
        let app = load_app();
        for v in 0..3usize {
            let batch = vec![json!({"id": 0, "origin_vertex": v, "destination_vertex": v}), json!({"id": 1, "origin_vertex": 0, "destination_vertex": 2})];
            let responses = app.run(batch, None).expect("user-level oddities are responses, not a failed run");
            assert_eq!(responses.len(), 2, "vertex {}: one response per query", v);
            for r in responses.iter() { assert!(r.get("request").is_some(), "the response echoes its request: {}", r); }
            assert!(responses.iter().any(|r| r["request"]["id"] == 1 && r.get("error").is_none()), "the ordinary query of the batch is served");
        }
    }

    /// C12: queries of the wrong JSON type under the INJECT plugin (default overwrite policy) -- each is answered with an error response, no panic,
    /// and the ordinary query of the batch is served
    #[test]
    fn c12_wit_inject_plugin_on_non_object_queries() {
        let mut app = load_app();
        app.input_plugins.push(std::sync::Arc::new(crate::plugin::input::default::inject::inject_plugin::InjectInputPlugin::new(String::from("injected"), json!(1), None)));
        for bad in [json!(5), json!("text"), json!(true), json!([1, 2])] {
            let batch = vec![bad.clone(), json!({"id": 1, "origin_vertex": 0, "destination_vertex": 2})];
            let responses = app.run(batch, None).expect("user-level errors are responses, not a failed run");
            assert_eq!(responses.iter().filter(|r| r.get("error").is_some()).count(), 1, "query {} is answered with an error response: {}", bad, serde_json::to_string(&responses).unwrap());
            assert!(responses.iter().any(|r| r["request"]["id"] == 1 && r.get("error").is_none() && r["request"]["injected"] == 1), "the ordinary query is served, with the injected field");
        }
    }

    /// C12 / C17: an EMPTY array in the grid-search section (a degenerate grid) -- the query is answered with an error response that echoes it
    /// (it does not vanish from the batch), alone and next to an ordinary query
    #[test]
    fn c12_wit_grid_search_empty_array() {
        let app = load_app_with_grid_search();
        let degenerate = json!({"id": 0, "origin_vertex": 0, "destination_vertex": 2, "grid_search": {"a": [], "b": [1, 2]}});
        for with_good in [false, true] {
            let mut batch = vec![degenerate.clone()];
            if with_good { batch.push(json!({"id": 1, "origin_vertex": 0, "destination_vertex": 2})); }
            let responses = app.run(batch.clone(), None).expect("user-level errors are responses, not a failed run");
            assert_eq!(responses.len(), batch.len(), "one response per query, found {}", serde_json::to_string(&responses).unwrap());
            assert!(responses.iter().any(|r| r.get("error").is_some() && r.get("request") == Some(&degenerate)), "the degenerate query is echoed in an error response");
        }
    }

    /// C06 / C12: an ill-typed `query_weight_estimate` (a load-balancing hint) on ONE query must not fail the whole batch
    #[test]
    fn c06_wit_malformed_weight_estimate_does_not_fail_the_batch() {
        let app = load_app();
        let batch = vec![json!({"id": 0, "origin_vertex": 0, "destination_vertex": 2, "query_weight_estimate": "heavy"}), json!({"id": 1, "origin_vertex": 0, "destination_vertex": 2})];
        let responses = app.run(batch, None).unwrap_or_else(|e| panic!("one malformed query failed the whole batch: {}", e));
        assert_eq!(responses.len(), 2, "one response per query");
        assert!(responses.iter().any(|r| r["request"]["id"] == 1 && r.get("error").is_none()), "the ordinary query is served");
    }

    /// C06: a query that fails in an input plugin AFTER grid-search expansion becomes one error response; its sibling queries are still answered
    #[test]
    fn c06_wit_failing_child_of_an_expansion_does_not_take_its_siblings() {
        let mut app = load_app_with_grid_search();
        // no-overwrite inject: fails for a query that already has the key, succeeds otherwise
        app.input_plugins.push(std::sync::Arc::new(crate::plugin::input::default::inject::inject_plugin::InjectInputPlugin::new(String::from("tag"), json!("x"), Some(false))));
        let q = json!({"origin_vertex": 0, "destination_vertex": 2, "grid_search": {"_case": [{"tag": "already"}, {"other": 1}, {"other": 2}]}});
        let responses = app.run(vec![q], None).expect("user-level errors are responses, not a failed run");
        assert_eq!(responses.len(), 3, "three queries after expansion, one response each; found {}", serde_json::to_string(&responses).unwrap());
        assert_eq!(responses.iter().filter(|r| r.get("error").is_some()).count(), 1, "only the child that fails is an error response");
        // the surviving children go through the REMAINING input plugins like any other query (no panic, nothing skipped): a third plugin marks them
        app.input_plugins.push(std::sync::Arc::new(crate::plugin::input::default::inject::inject_plugin::InjectInputPlugin::new(String::from("marker"), json!("seen"), Some(true))));
        for failing_position in 0..3usize {
            let mut cases = vec![json!({"other": 1}), json!({"other": 2}), json!({"other": 3})];
            cases[failing_position] = json!({"tag": "already"});
            let q = json!({"origin_vertex": 0, "destination_vertex": 2, "grid_search": {"_case": cases}});
            let responses = app.run(vec![q], None).expect("user-level errors are responses, not a failed run");
            assert_eq!(responses.len(), 3, "failing member at position {}: one response per member", failing_position);
            let ok: Vec<&Value> = responses.iter().filter(|r| r.get("error").is_none()).collect();
            assert_eq!(ok.len(), 2, "failing member at position {}: the two other members are served", failing_position);
            for r in ok { assert_eq!(r["request"]["marker"], json!("seen"), "failing member at position {}: a surviving member skipped an input plugin: {}", failing_position, r["request"]); }
        }
    }

    /// C12: ill-typed or out-of-range vertex fields -- each query is answered with an ERROR response that echoes it (it is not run as some other query)
    #[test]
    fn c12_wit_ill_typed_vertex_fields() {
        let app = load_app();
        let bad = vec![
            json!({"id": 0, "origin_vertex": 0, "destination_vertex": "2"}), json!({"id": 1, "origin_vertex": 0, "destination_vertex": -1}),
            json!({"id": 2, "origin_vertex": 0, "destination_vertex": 2.5}), json!({"id": 3, "origin_vertex": 0, "destination_vertex": [2]}),
            json!({"id": 4, "origin_vertex": "0", "destination_vertex": 2}), json!({"id": 5, "origin_vertex": 0, "destination_vertex": 999999}),
            json!({"id": 6, "origin_vertex": 999999, "destination_vertex": 2}), json!({"id": 7, "origin_vertex": 999999}),
        ];
        let mut batch = bad.clone();
        batch.push(json!({"id": 100, "origin_vertex": 0, "destination_vertex": 2}));
        let responses = app.run(batch, None).expect("user-level errors are responses, not a failed run");
        assert_eq!(responses.len(), bad.len() + 1, "one response per query");
        for q in bad.iter() {
            let r = responses.iter().find(|r| r.get("request") == Some(q)).unwrap_or_else(|| panic!("query {} is echoed in a response", q));
            assert!(r.get("error").is_some(), "ill-typed / out-of-range query {} is answered with an error response, found {}", q, r);
        }
        assert!(responses.iter().any(|r| r["request"]["id"] == 100 && r.get("error").is_none()), "the ordinary query is served");
    }

    /// C12: a query of the wrong JSON type (no input plugin configured) is answered with an error response that ECHOES it
    #[test]
    fn c12_wit_wrong_type_query_is_echoed() {
        let app = load_app();
        for bad in [json!(7), json!("text"), json!(null), json!(true)] {
            let responses = app.run(vec![bad.clone(), json!({"id": 1, "origin_vertex": 0, "destination_vertex": 2})], None).expect("user-level errors are responses, not a failed run");
            assert_eq!(responses.len(), 2, "one response per query");
            let r = responses.iter().find(|r| r.get("error").is_some()).expect("the wrong-type query is an error response");
            assert_eq!(r.get("request"), Some(&bad), "the error response echoes the request it answers, found {}", r);
        }
    }

    /// C19: with file output enabled, the file holds exactly ONE complete record per response of the batch -- for successes, failed searches AND queries rejected
    /// during input processing -- each parsing back to a response that was returned; at parallelism 1..=3, both persistence policies
    #[test]
    fn c19_wit_one_record_per_response_in_the_file() {
        use crate::app::compass::response::response_output_format::ResponseOutputFormat;
        use crate::app::compass::response::response_output_policy::ResponseOutputPolicy;
        use crate::app::compass::response::response_persistence_policy::ResponsePersistencePolicy;
        let mut app = load_app();
        let dir = std::env::temp_dir().join(format!("verif_c19_{}", std::process::id()));
        std::fs::create_dir_all(&dir).unwrap();
        let mut case = 0;
        for parallelism in 1..=3usize { for keep in [true, false] {
            case += 1;
            let file = dir.join(format!("out_{}.json", case));
            app.parallelism = parallelism;
            app.response_persistence_policy = if keep { ResponsePersistencePolicy::PersistResponseInMemory } else { ResponsePersistencePolicy::DiscardResponseFromMemory };
            app.response_output_policy = ResponseOutputPolicy::File { filename: file.to_str().unwrap().to_string(), format: ResponseOutputFormat::Json { newline_delimited: true }, file_flush_rate: None };
            // 0,1,2: ordinary; 3: unreachable; 4: malformed (no origin); then two queries of the wrong JSON type, rejected during input processing
            let mut batch: Vec<Value> = (0..5).map(query).collect();
            batch.push(json!(7)); batch.push(json!("text"));
            let n = batch.len();
            let responses = app.run(batch, None).expect("user-level errors are responses, not a failed run");
            let text = std::fs::read_to_string(&file).unwrap();
            let records: Vec<Value> = text.lines().filter(|l| !l.trim().is_empty()).map(|l| serde_json::from_str(l).unwrap_or_else(|e| panic!("parallelism {} keep {}: a line of the file is not one complete JSON record ({}): {:?}", parallelism, keep, e, l))).collect();
            assert_eq!(records.len(), n, "parallelism {} keep {}: one record per response in the file, found {} for {} queries", parallelism, keep, records.len(), n);
            for q in [json!(7), json!("text"), query(0), query(3), query(4)] {
                assert_eq!(records.iter().filter(|r| r.get("request") == Some(&q)).count(), 1, "parallelism {} keep {}: exactly one record for request {}", parallelism, keep, q);
            }
            if keep {
                assert_eq!(responses.len(), n);
                for r in responses.iter() { assert!(records.iter().any(|x| x.get("request") == r.get("request") && x.get("error").is_some() == r.get("error").is_some()), "the record of response {} is in the file", r["request"]); }
            }
            // a batch in which EVERY query is rejected during input processing: still one record per response
            let rejected_file = dir.join(format!("rejected_{}.json", case));
            app.response_output_policy = ResponseOutputPolicy::File { filename: rejected_file.to_str().unwrap().to_string(), format: ResponseOutputFormat::Json { newline_delimited: true }, file_flush_rate: None };
            let rejected = vec![json!(1), json!("two"), json!([3])];
            let rr = app.run(rejected.clone(), None).expect("user-level errors are responses, not a failed run");
            assert_eq!(rr.len(), rejected.len(), "rejected queries are answered (and kept in memory under both persistence policies)");
            let rtext = std::fs::read_to_string(&rejected_file).unwrap();
            let rrecords: Vec<Value> = rtext.lines().filter(|l| !l.trim().is_empty()).map(|l| serde_json::from_str(l).expect("one complete JSON record per line")).collect();
            assert_eq!(rrecords.len(), rejected.len(), "parallelism {} keep {}: a batch of rejected queries only: one record per response in the file, found {} for {}", parallelism, keep, rrecords.len(), rejected.len());
        } }
        let _ = std::fs::remove_dir_all(&dir);
    }

    fn load_app_with_outputs(tag: &str, algorithm: &str, plugins: &str) -> (CompassApp, PathBuf) {
        let base = PathBuf::from(env!("CARGO_MANIFEST_DIR")).join("src").join("app").join("compass").join("test").join("speeds_test");
        let fx = |n: &str| base.join(n).to_str().unwrap().to_string();
        let dir = std::env::temp_dir().join(format!("verif_c20_app_{}_{}", tag, std::process::id()));
        std::fs::create_dir_all(&dir).unwrap();
        let uuid_file = dir.join("uuids.txt");
        std::fs::write(&uuid_file, "uuid-a\nuuid-b\nuuid-c\n").unwrap();
        let plugins = plugins.replace("{UUID}", uuid_file.to_str().unwrap()).replace("{GEOM}", &fx("edge_geometries.txt"));
        let toml = format!("parallelism = 1\n[graph]\nedge_list_input_file = \"{}\"\nvertex_list_input_file = \"{}\"\nverbose = false\n{}\n[traversal]\ntype = \"speed_table\"\nspeed_table_input_file = \"{}\"\nspeed_unit = \"kilometers_per_hour\"\noutput_time_unit = \"hours\"\n[access]\ntype = \"no_access_model\"\n[cost]\ncost_aggregation = \"sum\"\n[cost.weights]\ndistance = 0\ntime = 1\n[cost.vehicle_rates.time]\ntype = \"raw\"\n[cost.vehicle_rates.distance]\ntype = \"raw\"\n[plugin]\ninput_plugins = []\noutput_plugins = [\n{}\n]\n",
            fx("test_edges.csv"), fx("test_vertices.csv"), algorithm, fx("test_edge_speeds.csv"), plugins);
        let conf = dir.join("conf.toml");
        std::fs::write(&conf, toml).unwrap();
        (CompassApp::try_from(conf.as_path()).unwrap(), dir)
    }
    fn tree_entries(tree: &Value) -> usize {
        let arr = tree.as_array().unwrap_or_else(|| panic!("the tree output is not an array: {}", tree));
        if !arr.is_empty() && arr.iter().all(|x| x.is_array()) { arr.iter().map(|t| t.as_array().unwrap().len()).sum() } else { arr.len() }
    }
    fn route_edges(route: &Value) -> usize {
        match route {
            Value::Null => 0,
            Value::Array(routes) => routes.iter().map(|r| r["path"].as_array().unwrap().len()).sum(),
            one => one["path"].as_array().unwrap().len(),
        }
    }

    /// C20: the outputs of the traversal, summary and identifier plugins describe the SAME result: a tree output is there whenever a tree format is configured (one entry
    /// per branch, also for a query without destination), the summary counters count the routes' edges and ALL trees' branches, and no destination identifier is
    /// attached when no destination vertex was matched
    #[test]
    fn c20_wit_outputs_of_all_plugins_describe_the_same_result() {
        let plugins = r#"{ type = "summary" }, { type = "traversal", route = "edge_id", tree = "edge_id", geometry_input_file = "{GEOM}" }"#;
        for (tag, algorithm) in [("astar", ""), ("ksp", "[algorithm]\ntype = \"ksp_single_via\"\nk = 2\nunderlying = { type = \"a*\" }\n")] {
            let (app, dir) = load_app_with_outputs(tag, algorithm, plugins);
            for q in [json!({"origin_vertex": 0, "destination_vertex": 2}), json!({"origin_vertex": 0}), json!({"origin_vertex": 1, "destination_vertex": 2})] {
                let r = app.run(vec![q.clone()], None).unwrap().remove(0);
                if r.get("error").is_some() { continue; }   // (a k-shortest-path search needs a destination)
                let tree = r.get("tree").unwrap_or_else(|| panic!("{}: a tree format is configured, the response to {} must carry a tree: {}", tag, q, r));
                assert!(r.get("route").is_some(), "{}: a route format is configured, the response to {} must carry the route key", tag, q);
                assert_eq!(r["tree_size_count"].as_u64().unwrap() as usize, tree_entries(tree), "{}: query {}: tree_size_count counts the branches of ALL trees: {}", tag, q, tree);
                assert_eq!(r["route_edges"].as_u64().unwrap() as usize, route_edges(&r["route"]), "{}: query {}: route_edges counts the edges of the routes", tag, q);
                if q.get("destination_vertex").is_none() {
                    assert_eq!(r["route"], Value::Null, "no destination: no route");
                    assert!(tree_entries(tree) > 0, "a tree search from vertex 0 reaches other vertices");
                }
            }
            let _ = std::fs::remove_dir_all(&dir);
        }
        // identifiers: the matched vertices' rows; without a matched destination no destination identifier is attached
        let (app, dir) = load_app_with_outputs("uuid", "", r#"{ type = "uuid", uuid_input_file = "{UUID}" }"#);
        let r = app.run(vec![json!({"origin_vertex": 1, "destination_vertex": 2})], None).unwrap().remove(0);
        assert!(r.get("error").is_none(), "unexpected error: {}", r);
        assert_eq!(r["origin_vertex_uuid"], json!("uuid-b"));
        assert_eq!(r["destination_vertex_uuid"], json!("uuid-c"));
        let r = app.run(vec![json!({"origin_vertex": 1})], None).unwrap().remove(0);
        assert!(r.get("destination_vertex_uuid").is_none(), "no destination vertex was matched: no destination identifier may be attached, found {}", r);
        let _ = std::fs::remove_dir_all(&dir);
    }
}
