// C16 (tolerance clause) native witness: concrete calls of the real `search` of the edge map-matching plugin (never counted as proof)
#[cfg(kani)]
mod verif_c16_wit {
    use super::*;
    use geo::{coord, LineString};

    /// a coordinate whose nearest edge lies beyond the tolerance is NOT matched; one within the tolerance is
    #[test]
    fn c16_wit_edge_tolerance_is_a_distance_on_the_ground() {
        let records = vec![
            EdgeRtreeRecord::new(EdgeId(0), LineString::from(vec![coord! {x: -105.000f32, y: 39.700f32}, coord! {x: -105.001f32, y: 39.700f32}])),
            EdgeRtreeRecord::new(EdgeId(1), LineString::from(vec![coord! {x: -105.010f32, y: 39.710f32}, coord! {x: -105.011f32, y: 39.710f32}])),
        ];
        let rtree = RTree::bulk_load(records);
        for (tol, unit) in [(100.0, DistanceUnit::Meters), (0.1, DistanceUnit::Kilometers), (328.0, DistanceUnit::Feet)] {
            let tolerance = Some((Distance::new(tol), unit));
            // about 12 m from the middle of edge 0
            let near = search(coord! {x: -105.0005f32, y: 39.7001f32}, &rtree, tolerance, &None, &None, &None, &None).unwrap();
            assert_eq!(near, Some(EdgeId(0)), "tolerance {} {:?}: a coordinate 12 m from edge 0 matches it", tol, unit);
            // about 1.1 km north of edge 0, about 85 km east, about 1100 km south: all far beyond 100 m
            for far in [coord! {x: -105.0005f32, y: 39.710f32 + 0.01}, coord! {x: -104.0f32, y: 39.7f32}, coord! {x: -105.0f32, y: 29.7f32}] {
                let m = search(far, &rtree, tolerance, &None, &None, &None, &None).unwrap();
                assert_eq!(m, None, "tolerance {} {:?}: coordinate {:?} is far beyond the tolerance from every edge and must not be matched", tol, unit, far);
            }
        }
        // without a tolerance the nearest edge is matched however far it is
        assert_eq!(search(coord! {x: -104.0f32, y: 39.7f32}, &rtree, None, &None, &None, &None, &None).unwrap(), Some(EdgeId(0)));
    }

    /// the measure the r-tree orders its records by is taken to the SAME location the tolerance is measured to (the centroid of the record's geometry)
    #[test]
    fn c16_wit_tree_measure_and_tolerance_use_the_same_location() {
        use geo::Centroid;
        use rstar::PointDistance;
        // an L-shaped road: one long leg east, a short leg north -- its centroid is NOT the middle of its bounding box, of its end points, or a vertex
        let rec = EdgeRtreeRecord::new(
            EdgeId(0),
            LineString::from(vec![coord! {x: -105.000f32, y: 39.700f32}, coord! {x: -104.990f32, y: 39.700f32}, coord! {x: -104.990f32, y: 39.702f32}]),
        );
        let c = rec.geometry.centroid().unwrap();
        assert!(rec.distance_2(&c) < 1e-9, "the tree's measure from the record's own location must be zero, got {}", rec.distance_2(&c));
        // and that location is within a one-metre tolerance of the record
        assert!(within_tolerance(Some((Distance::new(1.0), DistanceUnit::Meters)), &c.0, &rec).unwrap());
        // moving away from it grows the tree's measure
        let off = geo::Point::new(c.x() + 0.001, c.y());
        assert!(rec.distance_2(&off) > rec.distance_2(&c));
    }

    /// a coordinate inside the bounding box of a long edge is matched only if it is within the tolerance of the record's LOCATION (its centroid)
    #[test]
    fn c16_wit_inside_the_bounding_box_is_not_within_tolerance() {
        // one long diagonal edge: its bounding box is about 86 km x 111 km
        let rec = EdgeRtreeRecord::new(EdgeId(0), LineString::from(vec![coord! {x: -105.0f32, y: 39.0f32}, coord! {x: -104.0f32, y: 40.0f32}]));
        let rtree = RTree::bulk_load(vec![EdgeRtreeRecord::new(EdgeId(0), rec.geometry.clone())]);
        let tolerance = Some((Distance::new(10.0), DistanceUnit::Kilometers));
        // in a corner of the box, about 70 km from the centroid (-104.5, 39.5)
        let corner = coord! {x: -104.05f32, y: 39.05f32};
        assert_eq!(within_tolerance(tolerance, &corner, &rec).unwrap(), false, "70 km from the record's location is not within 10 km");
        assert_eq!(search(corner, &rtree, tolerance, &None, &None, &None, &None).unwrap(), None, "a coordinate beyond the tolerance yields no match");
        // 3 km from the centroid: matched
        let near = coord! {x: -104.52f32, y: 39.52f32};
        assert_eq!(search(near, &rtree, tolerance, &None, &None, &None, &None).unwrap(), Some(EdgeId(0)));
    }
}
