// C11 native witness: the features collected for a query are the models' features followed by the query's own declarations, so that
// StateModel::extend lets the QUERY's unit and initial value win (never counted as proof)
#[cfg(kani)]
mod verif_c11_collect_wit {
    use super::*;
    use routee_compass_core::model::access::default::no_access_model::NoAccessModel;
    use routee_compass_core::model::network::{Edge, Vertex};
    use routee_compass_core::model::state::state_model::StateModel;
    use routee_compass_core::model::traversal::state::state_variable::StateVar;
    use routee_compass_core::model::traversal::traversal_model_error::TraversalModelError;
    use routee_compass_core::model::unit::{Distance, DistanceUnit, Time, TimeUnit};
    use serde_json::json;

    struct TwoFeatures;
    impl TraversalModel for TwoFeatures {
        fn state_features(&self) -> Vec<(String, StateFeature)> {
            vec![
                (String::from("time"), StateFeature::Time { time_unit: TimeUnit::Minutes, initial: Time::new(0.0) }),
                (String::from("distance"), StateFeature::Distance { distance_unit: DistanceUnit::Kilometers, initial: Distance::new(0.0) }),
            ]
        }
        fn traverse_edge(&self, _: (&Vertex, &Edge, &Vertex), _: &mut Vec<StateVar>, _: &StateModel) -> Result<(), TraversalModelError> {
            Ok(())
        }
        fn estimate_traversal(&self, _: (&Vertex, &Vertex), _: &mut Vec<StateVar>, _: &StateModel) -> Result<(), TraversalModelError> {
            Ok(())
        }
    }

    #[test]
    fn c11_wit_query_declarations_come_after_the_models_features() {
        let tm: Arc<dyn TraversalModel> = Arc::new(TwoFeatures);
        let am: Arc<dyn AccessModel> = Arc::new(NoAccessModel {});
        // a query that starts 5 miles into its trip
        let q = json!({"state_features": {"distance": {"distance_unit": "miles", "initial": 5.0}}});
        let features = collect_features(&q, tm.clone(), am.clone()).unwrap();
        // every name once from the models, then the query's declaration
        let positions: Vec<usize> = features.iter().enumerate().filter(|(_, (n, _))| n == "distance").map(|(i, _)| i).collect();
        assert_eq!(positions.len(), 2, "the model's distance feature and the query's: {:?}", features);
        assert_eq!(features.len(), 3);
        match &features[*positions.last().unwrap()].1 {
            StateFeature::Distance { distance_unit, initial } => {
                assert_eq!(*distance_unit, DistanceUnit::Miles, "the LAST declaration of `distance` must be the query's");
                assert_eq!(*initial, Distance::new(5.0));
            }
            other => panic!("unexpected feature {:?}", other),
        }
        // through the real StateModel::extend: one slot per feature, and the query's unit / initial value are in force
        let model = StateModel::empty().extend(features).unwrap();
        assert_eq!(model.len(), 2, "one slot per feature name");
        let state = model.initial_state().unwrap();
        assert_eq!(model.get_distance(&state, &String::from("distance"), &DistanceUnit::Miles).unwrap(), Distance::new(5.0), "the query's initial distance (5 miles) must be the initial state");
        assert_eq!(model.get_time(&state, &String::from("time"), &TimeUnit::Minutes).unwrap(), Time::new(0.0));
        // a query without declarations: the models' features, each once
        let plain = collect_features(&json!({}), tm.clone(), am.clone()).unwrap();
        assert_eq!(plain.len(), 2);
        // a declaration for a feature no model has, or of another kind, is refused -- never silently dropped
        assert!(collect_features(&json!({"state_features": {"energy": {"energy_unit": "kilowatt_hours", "initial": 1.0}}}), tm.clone(), am.clone()).is_err());
        assert!(collect_features(&json!({"state_features": {"distance": {"time_unit": "hours", "initial": 1.0}}}), tm, am).is_err());
    }
}
