// C12.1 -- expression-level obligation (rule R10) in MultiSet::from: `v.len() - 1` per axis, copied verbatim into c12_final_pos_of(len);
// and native witnesses for the degenerate grids (zero axes, an empty axis).
#[cfg(kani)]
mod verif_c12_ms {
    use super::*;
    #[kani::proof]
    fn c12_multiset_final_pos_no_underflow() {
        let len: usize = kani::any();   // an axis of any length, including the empty array of a grid_search field
        let _ = c12_final_pos_of(len);
        kani::cover!(true);
    }
    /// zero axes (grid section `{}` or without array-valued fields): the Cartesian product has exactly one (empty) combination, then None
    #[test]
    fn c12_wit_multiset_zero_axes_terminates() {
        let sets: Vec<Vec<usize>> = vec![];
        let n = MultiSet::from(&sets).take(5).count();
        assert_eq!(n, 1, "the product of zero sets has exactly one element; the iterator must stop (it fed an unbounded collect() in GridSearchPlugin)");
    }
    /// an empty axis: the Cartesian product is empty; no panic
    #[test]
    fn c12_wit_multiset_empty_axis_is_empty_product() {
        let sets: Vec<Vec<usize>> = vec![vec![0, 1], vec![], vec![0]];
        let n = MultiSet::from(&sets).take(5).count();
        assert_eq!(n, 0, "a product with an empty factor is empty");
    }
    /// sweep of small shapes: exactly prod(len) items, all distinct, in mixed-radix order (first axis fastest)
    #[test]
    fn c17_wit_multiset_shape_sweep() {
        for a in 1..4usize { for b in 1..4usize { for c in 1..4usize { for m in 1..4usize {
            let shape: Vec<usize> = vec![a, b, c][..m.min(3)].to_vec();
            let sets: Vec<Vec<usize>> = shape.iter().map(|n| (0..*n).collect()).collect();
            let items: Vec<Vec<usize>> = MultiSet::from(&sets).take(100).collect();
            let total: usize = shape.iter().product();
            assert_eq!(items.len(), total);
            for (t, item) in items.iter().enumerate() {
                let mut rem = t;
                for (ax, n) in shape.iter().enumerate() { assert_eq!(item[ax], rem % n); rem /= n; }
            }
        } } } }
    }
}
