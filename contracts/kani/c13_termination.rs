// C13.2 -- KspTerminationCriteria::terminate_search: never fires before k routes were found; Exact fires exactly at k.
#[cfg(kani)]
pub(crate) mod verif_c13_term {
    use super::*;
    fn any_crit() -> KspTerminationCriteria {
        match kani::any::<u8>() % 3 {
            0 => KspTerminationCriteria::Exact,
            1 => KspTerminationCriteria::MaxIteration { max: kani::any() },
            _ => KspTerminationCriteria::Factor { factor: kani::any() },
        }
    }
    #[kani::proof]
    #[kani::unwind(3)]
    fn c13_ksp_terminate_search() {
        let c = any_crit();
        let k: usize = kani::any();
        let n: usize = kani::any();
        // recorded precondition: factor <= 2^16 and solution_size <= 2^32, so `factor as usize * solution_size` cannot overflow
        // (beyond usize it is a panic in debug builds; a 64x64-bit multiplier also costs CBMC ~50 s)
        if let KspTerminationCriteria::Factor { factor } = &c { kani::assume(*factor <= (1 << 16) && n <= (1 << 32)); }
        let r = c.terminate_search(k, n);
        assert!(!r || n == k, "the criterion never stops the driver before (or after) exactly k routes");
        if let KspTerminationCriteria::Exact = &c { assert!(r == (n == k)); }
        if let KspTerminationCriteria::MaxIteration { max } = &c { assert!(r == (n == k && *max as usize >= k)); }
        if let KspTerminationCriteria::Factor { factor } = &c { assert!(r == (n == k && (*factor as usize) * n >= k)); }
        kani::cover!(r);
        kani::cover!(!r);
    }
}
