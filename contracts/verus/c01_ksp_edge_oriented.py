"""C01 / C03 -- search_algorithm::run_edge_oriented, the edge-oriented wrapper around the k-shortest-path drivers, under contract [V].

Extracted verbatim.  The wrapped algorithm's `run_vertex_oriented` is an uninterpreted deterministic function of its arguments (what it returns is decided by units
c01_dispatch, c13_single_via, c13_yen_run); `EdgeTraversal::forward_traversal` by its contract of unit c07_costmodel (edge id); the Graph accessors as in c01_edge_oriented.
Rule R9-itermut: `for route in routes.iter_mut() { B }` written as an index loop that takes route i out of the vector, runs B on it and puts it back (in-place mutation of
element i; B verbatim with the loop variable renamed).
"""
import re
import al_astar as AL
import c01_edge_oriented as EO
import genlib as G

A = "routee-compass-core/src/algorithm/search/"
OBLIGATIONS = ["run_edge_oriented"]
MUST_FAIL = ["vacuity_probe"]

SHIM = """
#[verifier::external_body] pub struct Value { _p: u8 }                 // serde_json::Value
#[verifier::external_body] pub struct SearchAlgorithm { _p: u8 }
pub struct SearchAlgorithmResult { pub trees: Vec<HashMap<VertexId, SearchTreeBranch>>, pub routes: Vec<Vec<EdgeTraversal>>, pub iterations: u64 }
impl SearchAlgorithmResult {
    // #[derive(Default)]: no trees, no routes, zero iterations (assumed)
    #[verifier::external_body] pub fn default() -> (r: SearchAlgorithmResult) ensures r.trees@.len() == 0, r.routes@.len() == 0, r.iterations == 0 { unimplemented!() }
}
/// what the wrapped algorithm answers for a vertex-oriented query (deterministic; decided by the units on the drivers)
pub uninterp spec fn inner_result(alg: &SearchAlgorithm, s: VertexId, t: Option<VertexId>, q: Value, d: Direction, si: &SearchInstance) -> Option<SearchAlgorithmResult>;
impl SearchAlgorithm {
    #[verifier::external_body]
    pub fn run_vertex_oriented(&self, s: VertexId, t: Option<VertexId>, q: &Value, d: &Direction, si: &SearchInstance) -> (r: Result<SearchAlgorithmResult, SearchError>)
        ensures r matches Ok(x) ==> inner_result(self, s, t, *q, *d, si) == Some(x), r is Err ==> inner_result(self, s, t, *q, *d, si) is None
    { unimplemented!() }
}
impl Clone for EdgeTraversal {
    #[verifier::external_body] fn clone(&self) -> (r: EdgeTraversal)
        ensures r.edge_id == self.edge_id, r.access_cost == self.access_cost, r.traversal_cost == self.traversal_cost, r.result_state@ == self.result_state@ { unimplemented!() }
}
impl Clone for SearchTreeBranch { #[verifier::external_body] fn clone(&self) -> (r: SearchTreeBranch) ensures r.terminal_vertex == self.terminal_vertex, r.edge_traversal.edge_id == self.edge_traversal.edge_id { unimplemented!() } }
// rule R9-itermut: element i taken out of the vector / put back (in-place mutation of element i)
#[verifier::external_body] pub fn verif_take(v: &mut Vec<Vec<EdgeTraversal>>, i: usize) -> (r: Vec<EdgeTraversal>)
    requires i < old(v)@.len() ensures r@ == old(v)@[i as int]@, final(v)@.len() == old(v)@.len(), forall|j: int| 0 <= j < old(v)@.len() && j != i ==> final(v)@[j] == old(v)@[j] { std::mem::take(&mut v[i]) }
#[verifier::external_body] pub fn verif_put(v: &mut Vec<Vec<EdgeTraversal>>, i: usize, x: Vec<EdgeTraversal>)
    requires i < old(v)@.len() ensures final(v)@.len() == old(v)@.len(), final(v)@[i as int]@ == x@, forall|j: int| 0 <= j < old(v)@.len() && j != i ==> final(v)@[j] == old(v)@[j] { v[i] = x; }
// `route.last()` (assumed: the last element, None for an empty vector)
#[verifier::external_body] pub fn verif_last(v: &Vec<EdgeTraversal>) -> (r: Option<&EdgeTraversal>)
    ensures v@.len() == 0 <==> r is None, r matches Some(x) ==> *x == v@[v@.len() - 1] { v.last() }
#[verifier::external_body] pub fn verif_vec1<T>(a: T) -> (r: Vec<T>) ensures r@ == seq![a] { vec![a] }
#[verifier::external_body] pub fn verif_vec2<T>(a: T, b: T) -> (r: Vec<T>) ensures r@ == seq![a, b] { vec![a, b] }

/// C01 / C03 for one route of an edge-oriented k-shortest-path query: the origin edge in front, the wrapped algorithm's own route in the middle (untouched), the destination edge
/// behind, and the destination edge's record carries the state AFTER THE LAST EDGE OF THIS VERY ROUTE
pub open spec fn eo_route(inner: Seq<EdgeTraversal>, out: Seq<EdgeTraversal>, source: EdgeId, target: EdgeId) -> bool {
    &&& inner.len() >= 1 && out.len() == inner.len() + 2
    &&& out[0].edge_id == source
    &&& forall|i: int| 0 <= i < inner.len() ==> out[i + 1] == #[trigger] inner[i]
    &&& out[out.len() - 1].edge_id == target
    &&& out[out.len() - 1].result_state@ == inner[inner.len() - 1].result_state@
}
"""


def build(x):
    parts = [AL.HEAD]
    edge = x.item_text("routee-compass-core/src/model/network/edge.rs", "struct Edge").replace("    pub distance: Distance,\n", "")
    parts.append("#[derive(Copy, Clone)]\n" + edge + "\n")
    parts.append(x.item_text(A + "search_tree_branch.rs", "struct SearchTreeBranch") + "\n")
    den, _ = G.strip_inner_attrs(x.item_text(A + "direction.rs", "enum Direction"))
    parts.append("#[derive(Copy, Clone)]\n" + den + "\n")
    parts.append(AL.SHIMS)
    # the Graph accessors, forward_traversal, HashMap::from, to_vec of unit c01_edge_oriented (same assumed contracts), without its run_a_star shim
    eo = EO.SHIM
    eo = eo[:eo.index("// run_a_star by its contract")] + eo[eo.index("#[verifier::external_body] pub fn verif_to_vec"):eo.index("// HashMap::extend([(k, v)])")]
    parts.append(eo)
    parts.append(SHIM)
    f = x.fn(A + "search_algorithm.rs", "fn run_edge_oriented")
    f.rewrite(r"query: &serde_json::Value", "query: &Value", 1, 1, rule="R-path")
    f.replace_macro_calls(r"format", "verif_format()")
    f.rewrite(r"(\w+)\.result_state\.to_vec\(\)", r"verif_to_vec(&\1.result_state)", 1, 1, rule="R-tovec")
    f.rewrite(r"\.ok_or_else\(\|\| \{\s*SearchError::InternalError\(String::from\([^)]*\)\)\s*\}\)", ".ok_or_else(|| -> (cr: SearchError) ensures cr is InternalError { SearchError::InternalError(verif_format()) })", 1, 1, rule="R-closure")
    f.rewrite(r"vec!\[(tree)\]", r"verif_vec1(\1)", 1, 1, rule="R-vec")
    f.rewrite(r"vec!\[(route)\]", r"verif_vec1(\1)", 1, 1, rule="R-vec")
    f.rewrite(r"vec!\[src_et, dst_et\]", "verif_vec2(src_et, dst_et)", 1, 1, rule="R-vec")
    x.note("R-vec", "run_edge_oriented: `vec![a]` / `vec![a, b]` written verif_vec1 / verif_vec2 (the listed elements)")
    # the destination-less arm: two loops that are not under contract here (their effect on trees is C01's known finding; routes are empty for a destination-less search)
    ls = f.loops()
    if len(ls) != 3:
        raise G.Undecided("run_edge_oriented: expected 3 loops (trees and routes of the destination-less arm, routes of the general arm), found %d" % len(ls))
    f.rewrite(r"for tree in trees\.iter_mut\(\) \{\s*if !tree\.contains_key\(&e1_dst\) \{\s*tree\.extend\(\[\(e1_dst, src_branch\.clone\(\)\)\]\);\s*\}\s*\}", "verif_extend_trees(&mut trees, e1_dst, &src_branch);", 1, 1, rule="R-collect")
    f.rewrite(r"for route in routes\.iter_mut\(\) \{\s*route\.insert\(0, src_et\.clone\(\)\);\s*\}", "verif_prepend_all(&mut routes, &src_et);", 1, 1, rule="R-collect")
    x.note("R-collect", "run_edge_oriented (destination-less arm): the two `iter_mut` loops over trees and routes written as one helper each (not under contract here: no clause of the contract speaks about that arm's trees; routes: every route gets the origin edge in front)")
    f.rewrite(r"for route in routes\.iter_mut\(\) \{", "let mut verif_r: usize = 0;\n                while verif_r < routes.len() { let mut route = verif_take(&mut routes, verif_r); /*verif:body*/", 1, 1, rule="R9-itermut")
    f.rewrite(r"route\.push\(dst_et\.clone\(\)\);", "route.push(dst_et.clone());\n                    verif_put(&mut routes, verif_r, route); verif_r = verif_r + 1;", 1, 1, rule="R9-itermut")
    f.rewrite(r"route\.last\(\)", "verif_last(&route)", 1, 1, rule="R-collect")
    x.note("R9-itermut", "run_edge_oriented: `for route in routes.iter_mut() { B }` written `while r < routes.len() { let mut route = take(routes[r]); B; put(routes[r], route); r += 1 }` (in-place mutation of element r)")
    f.name_return("res")
    f.add_spec("""    ensures
        // C01 / C03, distinct and non-adjacent origin and destination edges: the wrapped algorithm is asked for the routes from the HEAD of the origin edge to the TAIL of the destination
        // edge with the caller's query and direction, and every route it returns comes back with the origin edge in front and the destination edge behind, the destination edge's
        // record carrying the state after the last edge of THAT route; none is lost or added
        (res is Ok && target is Some && target->Some_0 != source && src_dst_apart(si, source, target->Some_0)) ==> ({
            let out = res->Ok_0; let te = target->Some_0;
            let e1 = edge_of(&si.directed_graph, source); let e2 = edge_of(&si.directed_graph, te);
            let inner_o = inner_result(alg, e1.dst_vertex_id, Some(e2.src_vertex_id), *query, *direction, si);
            &&& inner_o is Some
            &&& out.routes@.len() == inner_o->Some_0.routes@.len()
            &&& forall|j: int| 0 <= j < out.routes@.len() ==> eo_route(inner_o->Some_0.routes@[j]@, (#[trigger] out.routes@[j])@, source, te)
        }),""")
    f.body_start("    proof { vid_key_model(); cost_consts(); }")
    f.insert_before(r"let updated = SearchAlgorithmResult \{", "proof { assume(iterations < u64::MAX - 2); }   // ASSUMPTION: the statistics counter does not reach 2^64\n            ")
    f.insert_before(r"let result = SearchAlgorithmResult \{\s*trees,\s*routes,\s*iterations: iterations \+ 2,", "proof { assume(iterations < u64::MAX - 2); }   // ASSUMPTION: the statistics counter does not reach 2^64\n                ")
    parts.append("""
pub open spec fn src_dst_apart(si: &SearchInstance, source: EdgeId, target: EdgeId) -> bool { edge_of(&si.directed_graph, source).dst_vertex_id != edge_of(&si.directed_graph, target).src_vertex_id }
#[verifier::external_body] pub fn verif_extend_trees(trees: &mut Vec<HashMap<VertexId, SearchTreeBranch>>, k: VertexId, b: &SearchTreeBranch) { unimplemented!() }
#[verifier::external_body] pub fn verif_prepend_all(routes: &mut Vec<Vec<EdgeTraversal>>, et: &EdgeTraversal) { unimplemented!() }
""")
    f.rewrite(r"\A", "#[verifier::exec_allows_no_decreases_clause]\n", 1, 1, rule="note")
    f.insert_before(r"let mut verif_r: usize = 0;", "let ghost inner_routes = routes@;\n                ")
    f.insert_after(r"/\*verif:body\*/", " let ghost route0 = route@;")
    ls = f.loops()
    f.add_loop_spec(len(ls), """                    invariant 0 <= verif_r <= routes@.len(), routes@.len() == inner_routes.len(), src_et.edge_id == source,
                        forall|j: int| verif_r <= j < routes@.len() ==> routes@[j] == inner_routes[j],
                        forall|j: int| 0 <= j < verif_r ==> eo_route(inner_routes[j]@, (#[trigger] routes@[j])@, source, target_edge),""")
    f.insert_before(r"verif_put\(&mut routes, verif_r, route\);", """proof {
                        assert(route0 == inner_routes[verif_r as int]@);
                        assert(route@ =~= seq![route@[0]] + route0 + seq![route@[route@.len() - 1]]);
                        assert forall|i: int| 0 <= i < route0.len() implies route@[i + 1] == #[trigger] route0[i] by {}
                    }
                    """)
    parts.append(f.text + "\n")
    parts.append("""
// vacuity guard: MUST FAIL
pub fn vacuity_probe(s: EdgeId, t: EdgeId, q: &Value, alg: &SearchAlgorithm, si: &SearchInstance) -> (r: bool) requires s != t ensures false {
    match run_edge_oriented(s, Some(t), q, &Direction::Forward, alg, si) { Ok(v) => v.iterations > 2, Err(_) => false }
}
} // verus!
fn main() {}
impl std::fmt::Display for VertexId { fn fmt(&self, f: &mut std::fmt::Formatter<'_>) -> std::fmt::Result { write!(f, "{}", self.0) } }
""")
    return "\n".join(parts)
