"""C04.1-6 -- the frontier models under contract [V / V-real].

Extracted verbatim: enum VehicleRestriction, struct VehicleParameters, VehicleRestriction::valid,
DistanceUnit / WeightUnit (+ convert, spec tables generated as in C09), and the valid_frontier
methods of CombinedFrontierModel, RoadClassFrontierModel, TurnRestrictionFrontierModel,
VehicleRestrictionFrontierModel, EdgeCutFrontierModel (trait impl methods written as inherent
methods, `Arc<..>` / `dyn` removed: the inner models are opaque shims with an uninterpreted answer).
"""
import prelude as P
import genlib as G

APP = "routee-compass/src/app/compass/config/frontier_model/"
CORE = "routee-compass-core/src/"
U = CORE + "model/unit/"
OBLIGATIONS = ["valid", "valid_frontier", "convert", "WeightUnit_physical", "DistanceUnit_physical", "lemma_combined_all", "lemma_restriction_physical"]
MUST_FAIL = ["vacuity_probe"]

PHYS = """
pub open spec fn phys_DistanceUnit(u: DistanceUnit) -> real { match u {   // metres
    DistanceUnit::Meters => 1real, DistanceUnit::Kilometers => 1000real, DistanceUnit::Miles => 1609.344real,
    DistanceUnit::Inches => 0.0254real, DistanceUnit::Feet => 0.3048real } }
pub open spec fn phys_WeightUnit(u: WeightUnit) -> real { match u {       // kilograms (short ton = 2000 lb)
    WeightUnit::Pounds => 0.45359237real, WeightUnit::Tons => 907.18474real, WeightUnit::Kg => 1real } }
"""
SHIMS = """
use std::collections::{HashMap, HashSet};
#[derive(Copy, Clone, Eq, Hash)] pub struct EdgeId(pub usize);
#[derive(Copy, Clone, Eq, Hash)] pub struct VertexId(pub usize);
impl vstd::std_specs::cmp::PartialEqSpecImpl for EdgeId { open spec fn obeys_eq_spec() -> bool { true } open spec fn eq_spec(&self, o: &EdgeId) -> bool { self.0 == o.0 } }
impl core::cmp::PartialEq for EdgeId { fn eq(&self, o: &EdgeId) -> bool { self.0 == o.0 } }
impl vstd::std_specs::cmp::PartialEqSpecImpl for VertexId { open spec fn obeys_eq_spec() -> bool { true } open spec fn eq_spec(&self, o: &VertexId) -> bool { self.0 == o.0 } }
impl core::cmp::PartialEq for VertexId { fn eq(&self, o: &VertexId) -> bool { self.0 == o.0 } }
#[verifier::external_body] pub proof fn eid_key_model() ensures vstd::std_specs::hash::obeys_key_model::<EdgeId>() {}
#[verifier::external_body] pub proof fn pair_key_model() ensures vstd::std_specs::hash::obeys_key_model::<RestrictedEdgePair>() {}
pub struct StateVar(pub f64);
#[verifier::external_body] pub struct StateModel { _p: u8 }
#[verifier::external_body] pub struct FrontierModelError { _p: u8 }
#[verifier::external_body] pub fn verif_frontier_error() -> FrontierModelError { unimplemented!() }
// an inner / underlying frontier model (Arc<dyn FrontierModel> in the real code): opaque, with an uninterpreted answer
#[verifier::external_body] pub struct InnerModel { _p: u8 }
pub uninterp spec fn inner_answer(m: &InnerModel, e: Edge, s: Seq<StateVar>, prev: Option<Edge>) -> Result<bool, FrontierModelError>;
impl InnerModel {
    #[verifier::external_body]
    pub fn valid_frontier(&self, edge: &Edge, state: &[StateVar], previous_edge: Option<&Edge>, state_model: &StateModel) -> (r: Result<bool, FrontierModelError>)
        ensures r == inner_answer(self, *edge, state@, match previous_edge { Some(x) => Some(*x), None => None })
    { unimplemented!() }
}
pub open spec fn opt_edge(p: Option<&Edge>) -> Option<Edge> { match p { Some(x) => Some(*x), None => None } }
"""

MODELS = """
pub struct CombinedFrontierModel { pub inner_models: Vec<InnerModel> }
pub struct RoadClassFrontierService { pub road_class_lookup: Vec<u8> }
pub struct RoadClassFrontierModel { pub service: RoadClassFrontierService, pub road_classes: Option<HashSet<u8>> }
#[derive(Copy, Clone, Eq, Hash)] pub struct RestrictedEdgePair { pub prev_edge_id: EdgeId, pub next_edge_id: EdgeId }
impl vstd::std_specs::cmp::PartialEqSpecImpl for RestrictedEdgePair { open spec fn obeys_eq_spec() -> bool { true }
    open spec fn eq_spec(&self, o: &RestrictedEdgePair) -> bool { self.prev_edge_id == o.prev_edge_id && self.next_edge_id == o.next_edge_id } }
impl core::cmp::PartialEq for RestrictedEdgePair { fn eq(&self, o: &RestrictedEdgePair) -> bool { self.prev_edge_id == o.prev_edge_id && self.next_edge_id == o.next_edge_id } }
pub struct TurnRestrictionFrontierService { pub restricted_edge_pairs: HashSet<RestrictedEdgePair> }
pub struct TurnRestrictionFrontierModel { pub service: TurnRestrictionFrontierService }
pub struct VehicleRestrictionFrontierService { pub vehicle_restriction_lookup: HashMap<EdgeId, Vec<VehicleRestriction>> }
pub struct VehicleRestrictionFrontierModel { pub service: VehicleRestrictionFrontierService, pub vehicle_parameters: VehicleParameters }
pub struct EdgeCutFrontierModel { pub underlying: InnerModel, pub cut_edges: HashSet<EdgeId> }
"""

VALID_SPEC = """
/// C04: a vehicle satisfies a restriction iff its dimension, converted to the restriction's unit, does not exceed the limit
pub open spec fn restriction_ok(r: VehicleRestriction, p: &VehicleParameters) -> bool {
    match r {
        VehicleRestriction::MaximumTotalWeight((w, u)) => conv_WeightUnit(p.total_weight.1, u, p.total_weight.0@) <= w@,
        VehicleRestriction::MaximumWeightPerAxle((w, u)) => conv_WeightUnit(p.total_weight.1, u, p.total_weight.0@) / (p.number_of_axles as real) <= w@,
        VehicleRestriction::MaximumLength((l, u)) => conv_DistanceUnit(p.total_length.1, u, p.total_length.0@) <= l@,
        VehicleRestriction::MaximumWidth((l, u)) => conv_DistanceUnit(p.width.1, u, p.width.0@) <= l@,
        VehicleRestriction::MaximumHeight((l, u)) => conv_DistanceUnit(p.height.1, u, p.height.0@) <= l@,
        VehicleRestriction::MaximumTrailerLength((l, u)) => conv_DistanceUnit(p.trailer_length.1, u, p.trailer_length.0@) <= l@,
    }
}
// u8 -> f64 cast of the axle count (assumed exact)
#[verifier::external_body] pub fn verif_u8_as_f64(n: u8) -> (r: f64) ensures f64_real(r) == n as real { n as f64 }
"""

LEMMAS = """
/// C04 (physical reading of "compared after unit conversion"): a vehicle whose true length exceeds the true limit by more than 0.1 %% is refused
pub proof fn lemma_restriction_physical(l: Distance, u: DistanceUnit, p: &VehicleParameters)
    requires p.total_length.0@ >= 0real, l@ >= 0real,
             p.total_length.0@ * phys_DistanceUnit(p.total_length.1) * 0.999real > l@ * phys_DistanceUnit(u)
    ensures !restriction_ok(VehicleRestriction::MaximumLength((l, u)), p)
{
    DistanceUnit_physical(p.total_length.1, u, p.total_length.0@);
    let c = conv_DistanceUnit(p.total_length.1, u, p.total_length.0@);
    assert(phys_DistanceUnit(u) > 0real);
    assert(c * phys_DistanceUnit(u) > l@ * phys_DistanceUnit(u));
    assert(c > l@) by (nonlinear_arith) requires c * phys_DistanceUnit(u) > l@ * phys_DistanceUnit(u), phys_DistanceUnit(u) > 0real;
}
/// C04: "an edge is usable only if every one of them permits it" (consequence of the contract of CombinedFrontierModel::valid_frontier)
pub proof fn lemma_combined_all(m: &CombinedFrontierModel, e: Edge, s: Seq<StateVar>, prev: Option<Edge>, r: Result<bool, FrontierModelError>)
    requires combined_post(m, e, s, prev, r), r == Ok::<bool, FrontierModelError>(true)
    ensures forall|i: int| 0 <= i < m.inner_models@.len() ==> #[trigger] c_ans(m, i, e, s, prev) == Ok::<bool, FrontierModelError>(true)
{}
"""

COMBINED_SPEC = """
pub open spec fn c_ans(m: &CombinedFrontierModel, i: int, e: Edge, s: Seq<StateVar>, prev: Option<Edge>) -> Result<bool, FrontierModelError> {
    inner_answer(&m.inner_models@[i], e, s, prev)
}
pub open spec fn all_true_before(m: &CombinedFrontierModel, j: int, e: Edge, s: Seq<StateVar>, prev: Option<Edge>) -> bool {
    forall|i: int| 0 <= i < j ==> #[trigger] c_ans(m, i, e, s, prev) == Ok::<bool, FrontierModelError>(true)
}
/// the first inner model that does not answer Ok(true) decides (its answer is returned and later models are not consulted);
/// Ok(true) iff every inner model answers Ok(true)
pub open spec fn combined_post(m: &CombinedFrontierModel, e: Edge, s: Seq<StateVar>, prev: Option<Edge>, r: Result<bool, FrontierModelError>) -> bool {
    ||| (r == Ok::<bool, FrontierModelError>(true) && all_true_before(m, m.inner_models@.len() as int, e, s, prev))
    ||| exists|j: int| 0 <= j < m.inner_models@.len() && #[trigger] all_true_before(m, j, e, s, prev)
            && c_ans(m, j, e, s, prev) != Ok::<bool, FrontierModelError>(true)
            && (c_ans(m, j, e, s, prev) is Err ==> r == c_ans(m, j, e, s, prev)) && (c_ans(m, j, e, s, prev) is Ok ==> r == Ok::<bool, FrontierModelError>(false))
}
"""


def family(x, enum, val, fname):
    et = x.item_text(U + fname, "enum " + enum)
    et, _ = G.strip_inner_attrs(et)
    fn = x.fn(U + fname, "impl %s :: fn convert" % enum)
    arms = G.match_arms(fn.text, enum)
    vs = G.enum_variants(et)
    if len(arms) != len(vs) ** 2:
        raise G.Undecided("%s::convert: %d arms for %d variants" % (enum, len(arms), len(vs)))
    spec = G.conv_spec("conv_" + enum, enum, arms)
    fn.name_return("r")
    fn.add_spec("    ensures r@ == conv_%s(*self, *target, value@)," % enum)
    fn.body_start("        broadcast use areal, lits; proof { areal_obeys(); }")
    split = "match (a, b) { " + " ".join("(%s::%s, %s::%s) => {}" % (enum, f, enum, t) for f in vs for t in vs) + " }"
    return et, spec, fn.text, split


def method(x, rel, impl_sel, name="valid_frontier"):
    f = x.fn(rel, impl_sel + " :: fn " + name)
    f.replace_macro_calls(r"format", "verif_format()")
    f.rewrite(r"\A(\s*)fn ", r"\1pub fn ", 0, 1, rule="R3")
    # rule R-param: a parameter written with a leading underscore (`_previous_edge`: "unused") is the same parameter; the contract names it without the underscore
    f.rewrite(r"\b_(edge|state|previous_edge|state_model)\b", r"\1", 0, None, rule="R-param")
    return f


def build(x):
    parts, texts = [], []
    parts.append(P.numtype("Distance"))
    parts.append(P.numtype("Weight"))
    fam = {}
    for enum, val, fname in [("DistanceUnit", "Distance", "distance_unit.rs"), ("WeightUnit", "Weight", "weight_unit.rs")]:
        fam[enum] = family(x, enum, val, fname)
        texts.append(fam[enum][2])
        parts.append("#[derive(Clone, Copy, PartialEq, Eq)]\n" + fam[enum][0] + "\n")
        parts.append(fam[enum][1])
        parts.append("impl %s {\n    %s\n}\n" % (enum, fam[enum][2]))
    edge = x.item_text(CORE + "model/network/edge.rs", "struct Edge")
    parts.append(SHIMS)
    parts.append("#[verifier::external_body] pub fn verif_format() -> String { String::new() }\n")
    parts.append("#[derive(Copy, Clone)]\n" + edge + "\n")
    vr = x.item_text(APP + "vehicle_restrictions/vehicle_restriction.rs", "enum VehicleRestriction")
    vr, _ = G.strip_inner_attrs(vr)
    parts.append("#[derive(Copy, Clone)]\n" + vr + "\n")
    parts.append(x.item_text(APP + "vehicle_restrictions/vehicle_parameters.rs", "struct VehicleParameters") + "\n")
    parts.append(MODELS)
    parts.append(VALID_SPEC)
    # ---- VehicleRestriction::valid ----
    v = x.fn(APP + "vehicle_restrictions/vehicle_restriction.rs", "impl VehicleRestriction :: fn valid")
    v.rewrite(r"vehicle_parameters::VehicleParameters", "VehicleParameters", 1, 1, rule="R-path")
    v.rewrite(r"vehicle_parameters\.number_of_axles as f64", "verif_u8_as_f64(vehicle_parameters.number_of_axles)", 1, 1, rule="R-cast")
    x.note("R-cast", "VehicleRestriction::valid: `number_of_axles as f64` written as verif_u8_as_f64(..) (assumed exact)")
    v.name_return("r")
    v.add_spec("        requires vehicle_parameters.number_of_axles > 0,\n        ensures r == restriction_ok(*self, vehicle_parameters),")
    v.body_start("        broadcast use areal, lits; proof { areal_obeys(); }")
    texts.append(v.text)
    parts.append("impl VehicleRestriction {\n" + v.text + "\n}\n")
    parts.append(COMBINED_SPEC)
    # ---- Combined ----
    c = method(x, APP + "combined/combined_model.rs", "impl FrontierModel for CombinedFrontierModel")
    c.name_return("r")
    c.add_spec("        ensures combined_post(self, *edge, state@, opt_edge(previous_edge), r),")
    c.desugar_for(1, itname="verif_it")
    c.rewrite(r"let mut verif_it = \(self\.inner_models\.iter\(\)\)\.into_iter\(\);\s*loop", "let mut verif_i: usize = 0;\n loop", 1, 1, rule="R9")
    c.rewrite(r"let frontier_model = match verif_it\.next\(\) \{ Some\(verif_x\) => verif_x, None => break \};",
              "if verif_i >= self.inner_models.len() { break; } let frontier_model = &self.inner_models[verif_i]; verif_i += 1;", 1, 1, rule="R9")
    x.note("R9", "CombinedFrontierModel::valid_frontier: `for m in self.inner_models.iter()` written as an index loop over the same Vec (slice iteration order)")
    c.add_loop_spec(1, """            invariant
                0 <= verif_i <= self.inner_models@.len(),
                all_true_before(self, verif_i as int, *edge, state@, opt_edge(previous_edge)),
            ensures verif_i >= self.inner_models@.len(),""")
    c.insert_after(r"let frontier_model = &self\.inner_models\[verif_i\]; verif_i \+= 1;", """
            proof {
                let j = verif_i as int - 1;
                assert(all_true_before(self, j, *edge, state@, opt_edge(previous_edge)));
                assert(c_ans(self, j, *edge, state@, opt_edge(previous_edge)) == inner_answer(frontier_model, *edge, state@, opt_edge(previous_edge)));
            }""")
    c.rewrite(r"\A", "#[verifier::exec_allows_no_decreases_clause]\n", 1, 1, rule="note")
    parts.append("impl CombinedFrontierModel {\n" + c.text + "\n}\n")
    # ---- RoadClass ----
    rc = method(x, APP + "road_class/road_class_model.rs", "impl FrontierModel for RoadClassFrontierModel")
    rc.rewrite(r"\.ok_or_else\(\|\| \{\s*FrontierModelError::FrontierModelError\(verif_format\(\)\)\s*\}\)", ".ok_or_else(|| -> (cr: FrontierModelError) { verif_frontier_error() })", 1, 1, rule="R-closure")
    rc.rewrite(r"\.map\(\|road_class\| road_classes\.contains\(road_class\)\)", ".map(|road_class: &u8| -> (cr: bool) ensures cr == road_classes@.contains(*road_class) { road_classes.contains(road_class) })", 1, 1, rule="R-closure")
    rc.name_return("r")
    rc.add_spec("""        ensures
            self.road_classes is None ==> r == Ok::<bool, FrontierModelError>(true),
            (self.road_classes is Some && edge.edge_id.0 < self.service.road_class_lookup@.len()) ==>
                r == Ok::<bool, FrontierModelError>(self.road_classes->Some_0@.contains(self.service.road_class_lookup@[edge.edge_id.0 as int])),
            (self.road_classes is Some && edge.edge_id.0 >= self.service.road_class_lookup@.len()) ==> r is Err,""")
    parts.append("impl RoadClassFrontierModel {\n" + rc.text + "\n}\n")
    # ---- TurnRestriction ----
    tr = method(x, APP + "turn_restrictions/turn_restriction_model.rs", "impl FrontierModel for TurnRestrictionFrontierModel")
    tr.name_return("r")
    tr.add_spec("""        ensures
            previous_edge is None ==> r == Ok::<bool, FrontierModelError>(true),
            previous_edge is Some ==> r == Ok::<bool, FrontierModelError>(!self.service.restricted_edge_pairs@.contains(
                RestrictedEdgePair { prev_edge_id: previous_edge->Some_0.edge_id, next_edge_id: edge.edge_id })),""")
    tr.body_start("        proof { pair_key_model(); }")
    parts.append("impl TurnRestrictionFrontierModel {\n" + tr.text + "\n}\n")
    # ---- VehicleRestriction model ----
    vm = method(x, APP + "vehicle_restrictions/vehicle_restriction_model.rs", "impl FrontierModel for VehicleRestrictionFrontierModel")
    vm.name_return("r")
    vm.add_spec("""        requires self.vehicle_parameters.number_of_axles > 0,
        ensures
            !self.service.vehicle_restriction_lookup@.contains_key(edge.edge_id) ==> r == Ok::<bool, FrontierModelError>(true),
            self.service.vehicle_restriction_lookup@.contains_key(edge.edge_id) ==> r == Ok::<bool, FrontierModelError>(
                forall|i: int| 0 <= i < self.service.vehicle_restriction_lookup@[edge.edge_id]@.len() ==>
                    restriction_ok(#[trigger] self.service.vehicle_restriction_lookup@[edge.edge_id]@[i], &self.vehicle_parameters)),""")
    vm.body_start("        proof { eid_key_model(); }")
    vm.desugar_for(1, itname="verif_it")
    vm.rewrite(r"let mut verif_it = \(vehicle_restrictions\.iter\(\)\)\.into_iter\(\);\s*loop", "let mut verif_i: usize = 0;\n loop", 1, 1, rule="R9")
    vm.rewrite(r"let restriction = match verif_it\.next\(\) \{ Some\(verif_x\) => verif_x, None => break \};",
               "if verif_i >= vehicle_restrictions.len() { break; } let restriction = &vehicle_restrictions[verif_i]; verif_i += 1;", 1, 1, rule="R9")
    vm.add_loop_spec(1, """                    invariant
                        self.vehicle_parameters.number_of_axles > 0,
                        self.service.vehicle_restriction_lookup@.contains_key(edge.edge_id),
                        *vehicle_restrictions == self.service.vehicle_restriction_lookup@[edge.edge_id],
                        0 <= verif_i <= vehicle_restrictions@.len(),
                        forall|i: int| 0 <= i < verif_i ==> restriction_ok(#[trigger] vehicle_restrictions@[i], &self.vehicle_parameters),
                    ensures verif_i >= vehicle_restrictions@.len(),""")
    vm.insert_after(r"let restriction = &vehicle_restrictions\[verif_i\]; verif_i \+= 1;", """
                    proof { assert(*restriction == vehicle_restrictions@[verif_i as int - 1]); }""")
    vm.rewrite(r"\A", "#[verifier::exec_allows_no_decreases_clause]\n", 1, 1, rule="note")
    parts.append("impl VehicleRestrictionFrontierModel {\n" + vm.text + "\n}\n")
    # ---- EdgeCut ----
    ec = method(x, CORE + "algorithm/search/util/edge_cut_frontier_model.rs", "impl FrontierModel for EdgeCutFrontierModel")
    ec.rewrite(r"&\[crate::model::traversal::state::state_variable::StateVar\]", "&[StateVar]", 1, 1, rule="R-path")
    ec.rewrite(r"&crate::model::state::state_model::StateModel", "&StateModel", 1, 1, rule="R-path")
    ec.rewrite(r"crate::model::frontier::frontier_model_error::FrontierModelError", "FrontierModelError", 1, 1, rule="R-path")
    ec.name_return("r")
    ec.add_spec("""        ensures
            // a cut edge is refused without consulting the underlying model; otherwise the underlying answer is returned unchanged
            self.cut_edges@.contains(edge.edge_id) ==> r == Ok::<bool, FrontierModelError>(false),
            !self.cut_edges@.contains(edge.edge_id) ==> r == inner_answer(&self.underlying, *edge, state@, opt_edge(previous_edge)),""")
    ec.body_start("        proof { eid_key_model(); }")
    parts.append("impl EdgeCutFrontierModel {\n" + ec.text + "\n}\n")
    x.note("R3", "trait impl methods `impl FrontierModel for X { fn valid_frontier }` written as inherent `pub fn` of X; Arc<..>/dyn removed in the shim structs")
    parts.append(PHYS)
    for enum in ("DistanceUnit", "WeightUnit"):
        import c09_units as C9
        parts.append(C9.PHYS_LEMMA % C9.lemma_args(enum, G.enum_variants(fam[enum][0])))
    parts.append(LEMMAS)
    parts.append("""
// vacuity guard: MUST FAIL
pub fn vacuity_probe(r: &VehicleRestriction, p: &VehicleParameters) -> (b: bool) requires p.number_of_axles > 0 ensures false { r.valid(p) }
""")
    parts.insert(0, P.literal_axioms(texts, extra=("0.0", "1.0")))
    parts.insert(0, P.f64_real())
    return P.wrap("\n".join(parts))
