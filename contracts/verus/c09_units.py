"""C09.1 / C09.3 -- unit conversion tables and the time/speed/energy constructors, [V-real].

Extracted verbatim every run: the six unit enums, their `convert` functions, the
`associated_*` accessors, the three `From<(..)>` impls, the BASE_* constants and
create_time / create_speed / create_energy.  For each `convert` a spec function
conv_<U>(a, b, v) is GENERATED from the match arms of the extracted text; the function
is verified to compute it (under A-REAL), and the property lemmas are proved about it
against physical definitions written here independently of the code.
"""
import prelude as P
import genlib as G

U = "routee-compass-core/src/model/unit/"
FAMILIES = [  # (enum, value type, file)
    ("DistanceUnit", "Distance", "distance_unit.rs"),
    ("TimeUnit", "Time", "time_unit.rs"),
    ("SpeedUnit", "Speed", "speed_unit.rs"),
    ("EnergyUnit", "Energy", "energy_unit.rs"),
    ("GradeUnit", "Grade", "grade_unit.rs"),
    ("WeightUnit", "Weight", "weight_unit.rs"),
]

# physical size of one unit in the family's SI base unit -- written from the definitions, NOT from the code
PHYS = """
pub open spec fn phys_DistanceUnit(u: DistanceUnit) -> real { match u {   // metres
    DistanceUnit::Meters => 1real, DistanceUnit::Kilometers => 1000real, DistanceUnit::Miles => 1609.344real,
    DistanceUnit::Inches => 0.0254real, DistanceUnit::Feet => 0.3048real } }
pub open spec fn phys_TimeUnit(u: TimeUnit) -> real { match u {           // seconds
    TimeUnit::Hours => 3600real, TimeUnit::Minutes => 60real, TimeUnit::Seconds => 1real, TimeUnit::Milliseconds => 0.001real } }
pub open spec fn phys_SpeedUnit(u: SpeedUnit) -> real { match u {         // metres per second
    SpeedUnit::KilometersPerHour => 1000real / 3600real, SpeedUnit::MilesPerHour => 1609.344real / 3600real,
    SpeedUnit::MetersPerSecond => 1real } }
pub open spec fn phys_GradeUnit(u: GradeUnit) -> real { match u {         // rise over run
    GradeUnit::Percent => 0.01real, GradeUnit::Decimal => 1real, GradeUnit::Millis => 0.001real } }
pub open spec fn phys_WeightUnit(u: WeightUnit) -> real { match u {       // kilograms (short ton = 2000 lb)
    WeightUnit::Pounds => 0.45359237real, WeightUnit::Tons => 907.18474real, WeightUnit::Kg => 1real } }
"""

# Each lemma's statement is a predicate; the proof splits on the unit pair and discharges the predicate for the two concrete
# units in an isolated nonlinear-arithmetic query.  (With Verus' default linear mode a product of two non-constant terms such as
# conv(a, b, 1) * x is opaque to the solver, and whether the case split happened early enough to fold it was a matter of luck:
# the lemma flipped to "not satisfied" when unrelated text was added to the file.)
LEMMAS = """
// ---- property lemmas for %(E)s (all ordered unit pairs, every magnitude and sign) ----
pub open spec fn %(E)s_identity_post(a: %(E)s, v: real) -> bool { conv_%(E)s(a, a, v) == v }
pub proof fn %(E)s_identity(a: %(E)s, v: real)
    ensures conv_%(E)s(a, a, v) == v
{ %(SPLIT1)s }
pub open spec fn %(E)s_linear_post(a: %(E)s, b: %(E)s, x: real, y: real) -> bool {
    &&& conv_%(E)s(a, b, x + y) == conv_%(E)s(a, b, x) + conv_%(E)s(a, b, y)
    &&& conv_%(E)s(a, b, x) == conv_%(E)s(a, b, 1real) * x
    &&& conv_%(E)s(a, b, 0real) == 0real
    &&& conv_%(E)s(a, b, 1real) > 0real
    &&& (x <= y ==> conv_%(E)s(a, b, x) <= conv_%(E)s(a, b, y))
    &&& (x < y ==> conv_%(E)s(a, b, x) < conv_%(E)s(a, b, y))
    &&& (x > 0real ==> conv_%(E)s(a, b, x) > 0real)
}
pub proof fn %(E)s_linear(a: %(E)s, b: %(E)s, x: real, y: real)
    ensures %(E)s_linear_post(a, b, x, y)
{ %(SPLIT_linear)s }
pub open spec fn %(E)s_round_trip_post(a: %(E)s, b: %(E)s, v: real) -> bool {
    &&& (v >= 0real ==> 0.999real * v <= conv_%(E)s(b, a, conv_%(E)s(a, b, v)) <= 1.001real * v)
    &&& (v <= 0real ==> 1.001real * v <= conv_%(E)s(b, a, conv_%(E)s(a, b, v)) <= 0.999real * v)
}
pub proof fn %(E)s_round_trip(a: %(E)s, b: %(E)s, v: real)
    ensures %(E)s_round_trip_post(a, b, v)
{ %(SPLIT_round_trip)s }
"""
PHYS_LEMMA = """
pub open spec fn %(E)s_physical_post(a: %(E)s, b: %(E)s, v: real) -> bool {
    &&& (v >= 0real ==> 0.999real * (v * phys_%(E)s(a)) <= conv_%(E)s(a, b, v) * phys_%(E)s(b) <= 1.001real * (v * phys_%(E)s(a)))
    &&& (v <= 0real ==> 1.001real * (v * phys_%(E)s(a)) <= conv_%(E)s(a, b, v) * phys_%(E)s(b) <= 0.999real * (v * phys_%(E)s(a)))
    &&& phys_%(E)s(a) > 0real
}
pub proof fn %(E)s_physical(a: %(E)s, b: %(E)s, v: real)
    ensures %(E)s_physical_post(a, b, v)
{ %(SPLIT_physical)s }
"""


MODE = "single"


def lemma_args(enum, vs):
    """template arguments: per-pair case splits whose arms prove the lemma's predicate for the two concrete units"""
    def split(name, extra):
        if MODE == "single":
            return "assert(%s_%s_post(a, b, %s)) by (nonlinear_arith);" % (enum, name, extra)
        return "match (a, b) { " + " ".join("(%s::%s, %s::%s) => { assert(%s_%s_post(%s::%s, %s::%s, %s)) by (nonlinear_arith); }"
                                             % (enum, f, enum, t, enum, name, enum, f, enum, t, extra) for f in vs for t in vs) + " }"
    split1 = "match a { " + " ".join("%s::%s => {}" % (enum, f) for f in vs) + " }"
    return dict(E=enum, SPLIT1=split1, SPLIT_linear=split("linear", "x, y"), SPLIT_round_trip=split("round_trip", "v"), SPLIT_physical=split("physical", "v"))


BUILDER_LEMMAS = """
// ---- derived quantities agree with their definitions (C09.3) ----
// time = distance / speed, in every unit triple; non-positive speed or distance is rejected
pub open spec fn time_def(s: real, su: SpeedUnit, d: real, du: DistanceUnit, tu: TimeUnit) -> real {
    ((d * phys_DistanceUnit(du)) / (s * phys_SpeedUnit(su))) / phys_TimeUnit(tu)
}
pub open spec fn speed_def(t: real, tu: TimeUnit, d: real, du: DistanceUnit, su: SpeedUnit) -> real {
    ((d * phys_DistanceUnit(du)) / (t * phys_TimeUnit(tu))) / phys_SpeedUnit(su)
}
"""

OBLIGATIONS = ["convert", "create_time", "create_speed", "create_energy", "from", "associated_distance_unit", "associated_energy_unit",
               "create_time_physical"] + [e + s for e in ("DistanceUnit", "TimeUnit", "SpeedUnit", "EnergyUnit", "GradeUnit", "WeightUnit")
                                          for s in ("_identity", "_linear", "_round_trip")] + [
               e + "_physical" for e in ("DistanceUnit", "TimeUnit", "SpeedUnit", "GradeUnit", "WeightUnit")]
MUST_FAIL = ["vacuity_probe"]


def build(x):
    parts = []
    texts = []
    enums = {}
    fns = []
    for enum, val, f in FAMILIES:
        et = x.item_text(U + f, "enum " + enum)
        et, n = G.strip_inner_attrs(et)
        if n:
            x.note("R1", "%s: dropped %d inner attributes/doc comments of enum %s" % (f, n, enum))
        enums[enum] = et
        fn = x.fn(U + f, "impl %s :: fn convert" % enum)
        arms = G.match_arms(fn.text, enum)
        vs = G.enum_variants(et)
        if len(arms) != len(vs) ** 2:
            # rustc would reject a non-exhaustive match; a wildcard arm is not supported by the generator
            raise G.Undecided("%s::convert: %d arms for %d variants" % (enum, len(arms), len(vs)))
        spec = G.conv_spec("conv_" + enum, enum, arms)
        fn.name_return("r")
        fn.add_spec("    ensures r@ == conv_%s(*self, *target, value@)," % enum)
        fn.body_start("        broadcast use areal, lits; proof { areal_obeys(); }")
        texts.append(fn.text)
        fns.append((enum, val, spec, fn.text))
    # numeric shims
    for _, val, _ in FAMILIES:
        parts.append(P.numtype(val))
    parts.append(P.numtype("EnergyRate"))
    parts.insert(0, P.f64_real())
    # accessors + From impls + builders
    acc = []
    for sel in ["impl SpeedUnit :: fn associated_time_unit", "impl SpeedUnit :: fn associated_distance_unit"]:
        acc.append(("SpeedUnit", x.fn(U + "speed_unit.rs", sel, under_contract=False).text))
    eru = x.item_text(U + "energy_rate_unit.rs", "enum EnergyRateUnit")
    eru, _ = G.strip_inner_attrs(eru)
    eru_fns = []
    for sel in ["associated_distance_unit", "associated_energy_unit"]:
        f = x.fn(U + "energy_rate_unit.rs", "impl EnergyRateUnit :: fn " + sel)
        f.name_return("r")
        eru_fns.append(f)
    eru_fns[0].add_spec("    ensures r == eru_distance(*self),")
    eru_fns[1].add_spec("    ensures r == eru_energy(*self),")
    froms = []
    for f, sel, spec in [
        ("time.rs", "impl From<(Distance, Speed)> for Time", "ensures f64_real(value.1.0) != 0real ==> r@ == value.0@ / value.1@,"),
        ("speed.rs", "impl From<(Distance, Time)> for Speed", "ensures f64_real(value.1.0) != 0real ==> r@ == value.0@ / value.1@,"),
        ("energy.rs", "impl From<(EnergyRate, Distance)> for Energy", "ensures r@ == value.0@ * value.1@,"),
    ]:
        ff = x.fn(U + f, sel + " :: fn from")
        ff.name_return("r")
        ff.add_spec("    " + spec)
        ff.body_start("        broadcast use areal; proof { areal_obeys(); }")
        hdr = sel + " {\n    "
        m = __import__("re").fullmatch(r"impl From<(.*)> for (\w+)", sel)
        fs = ("impl vstd::std_specs::convert::FromSpecImpl<%s> for %s {\n    open spec fn obeys_from_spec() -> bool { false }\n"
              "    open spec fn from_spec(v: %s) -> %s { arbitrary() }\n}\n") % (m.group(1), m.group(2), m.group(1), m.group(2))
        froms.append(fs + hdr + ff.text + "\n}\n")
        texts.append(ff.text)
    consts = [x.item_text(U + "builders.rs", "const " + c) for c in ("BASE_DISTANCE_UNIT", "BASE_TIME_UNIT", "BASE_SPEED_UNIT")]
    ue = x.item_text(U + "unit_error.rs", "enum UnitError")
    ue, n = G.strip_inner_attrs(ue)
    x.note("R1", "unit_error.rs: dropped %d #[error(..)] attributes of enum UnitError (thiserror Display text)" % n)
    ct = x.fn(U + "builders.rs", "fn create_time")
    ct.name_return("r")
    ct.add_spec("""    ensures
        // a non-positive speed or distance (after conversion to base units) is rejected, never turned into a time
        (conv_SpeedUnit(*speed_unit, SpeedUnit::MetersPerSecond, speed@) <= 0real
            || conv_DistanceUnit(*distance_unit, DistanceUnit::Meters, distance@) <= 0real) <==> r is Err,
        r is Ok ==> r->Ok_0@ == conv_TimeUnit(TimeUnit::Seconds, *time_unit,
              conv_DistanceUnit(*distance_unit, DistanceUnit::Meters, distance@)
            / conv_SpeedUnit(*speed_unit, SpeedUnit::MetersPerSecond, speed@)),""")
    ct.body_start("    broadcast use areal, lits; proof { areal_obeys(); }")
    ct.rewrite(r"let time = \(d, s\)\.into\(\);", "let time = Time::from((d, s));", 1, 1)
    x.note("R-into", "create_time: `(d, s).into()` written as the `From` impl it resolves to, `Time::from((d, s))` (extracted verbatim above)")
    cs = x.fn(U + "builders.rs", "fn create_speed")
    cs.name_return("r")
    cs.add_spec("""    ensures
        conv_TimeUnit(*time_unit, TimeUnit::Seconds, time@) <= 0real <==> r is Err,
        r is Ok ==> r->Ok_0@ == conv_SpeedUnit(SpeedUnit::MetersPerSecond, *speed_unit,
              conv_DistanceUnit(*distance_unit, DistanceUnit::Meters, distance@)
            / conv_TimeUnit(*time_unit, TimeUnit::Seconds, time@)),""")
    cs.body_start("    broadcast use areal, lits; proof { areal_obeys(); }")
    cs.rewrite(r"let speed = \(d, t\)\.into\(\);", "let speed = Speed::from((d, t));", 1, 1)
    x.note("R-into", "create_speed: `(d, t).into()` written as `Speed::from((d, t))`")
    ce = x.fn(U + "builders.rs", "fn create_energy")
    ce.name_return("r")
    ce.add_spec("""    ensures
        r is Ok,
        r->Ok_0.1 == eru_energy(*energy_rate_unit),
        r->Ok_0.0@ == energy_rate@ * conv_DistanceUnit(*distance_unit, eru_distance(*energy_rate_unit), distance@),""")
    ce.body_start("    broadcast use areal, lits; proof { areal_obeys(); }")
    ce.rewrite(r"let energy = \(\*energy_rate, calc_distance\)\.into\(\);", "let energy = Energy::from((*energy_rate, calc_distance));", 1, 1)
    x.note("R-into", "create_energy: `(*energy_rate, calc_distance).into()` written as `Energy::from((..))`")
    texts += [ct.text, cs.text, ce.text]
    x.note("R1", "derives replaced by #[derive(Clone, Copy, PartialEq, Eq)] on the unit enums (serde/Debug/Default derives dropped)")

    parts.append(P.literal_axioms(texts, extra=("0.0", "1.0")))
    for enum, val, spec, ft in fns:
        parts.append("#[derive(Clone, Copy, PartialEq, Eq)]\n" + enums[enum] + "\n")
    parts.append("#[derive(Clone, Copy, PartialEq, Eq)]\n" + eru + "\n")
    parts.append(ue + "\n")
    for enum, val, spec, ft in fns:
        parts.append("// generated from the match arms of %s::convert\n" % enum + spec)
        parts.append("impl %s {\n    %s\n}\n" % (enum, ft))
    parts.append("impl SpeedUnit {\n" + "\n".join(t for _, t in acc) + "\n}\n")
    parts.append("""
// what an energy rate is per: written from the unit names, independent of the code
pub open spec fn eru_distance(u: EnergyRateUnit) -> DistanceUnit { match u {
    EnergyRateUnit::GallonsGasolinePerMile => DistanceUnit::Miles, EnergyRateUnit::GallonsDieselPerMile => DistanceUnit::Miles,
    EnergyRateUnit::KilowattHoursPerMile => DistanceUnit::Miles, EnergyRateUnit::KilowattHoursPerKilometer => DistanceUnit::Kilometers,
    EnergyRateUnit::KilowattHoursPerMeter => DistanceUnit::Meters } }
pub open spec fn eru_energy(u: EnergyRateUnit) -> EnergyUnit { match u {
    EnergyRateUnit::GallonsGasolinePerMile => EnergyUnit::GallonsGasoline, EnergyRateUnit::GallonsDieselPerMile => EnergyUnit::GallonsDiesel,
    EnergyRateUnit::KilowattHoursPerMile => EnergyUnit::KilowattHours, EnergyRateUnit::KilowattHoursPerKilometer => EnergyUnit::KilowattHours,
    EnergyRateUnit::KilowattHoursPerMeter => EnergyUnit::KilowattHours } }
""")
    parts.append("impl EnergyRateUnit {\n" + "\n".join(f.text for f in eru_fns) + "\n}\n")
    parts += froms
    parts += [c + "\n" for c in consts]
    parts += [ct.text, cs.text, ce.text]
    parts.append(PHYS)
    for enum, val, _, _ in fns:
        vs = G.enum_variants(enums[enum])
        parts.append(LEMMAS % lemma_args(enum, vs))
        if enum != "EnergyUnit":
            parts.append(PHYS_LEMMA % lemma_args(enum, vs))
    parts.append(BUILDER_LEMMAS)
    parts.append("""
// time = distance over speed within 0.31 %% (three table factors of <= 0.1 %% each), every unit triple
pub proof fn create_time_physical(s: real, su: SpeedUnit, d: real, du: DistanceUnit, tu: TimeUnit)
    requires s > 0real, d > 0real
    ensures ({
        let t = conv_TimeUnit(TimeUnit::Seconds, tu, conv_DistanceUnit(du, DistanceUnit::Meters, d) / conv_SpeedUnit(su, SpeedUnit::MetersPerSecond, s));
        0.9969real * time_def(s, su, d, du, tu) <= t <= 1.0031real * time_def(s, su, d, du, tu) })
{
    let dm = conv_DistanceUnit(du, DistanceUnit::Meters, d);
    let sm = conv_SpeedUnit(su, SpeedUnit::MetersPerSecond, s);
    DistanceUnit_physical(du, DistanceUnit::Meters, d);
    SpeedUnit_physical(su, SpeedUnit::MetersPerSecond, s);
    DistanceUnit_linear(du, DistanceUnit::Meters, d, 0real);
    SpeedUnit_linear(su, SpeedUnit::MetersPerSecond, s, 0real);
    let pd = d * phys_DistanceUnit(du);
    let ps = s * phys_SpeedUnit(su);
    assert(pd > 0real && ps > 0real) by (nonlinear_arith) requires d > 0real, s > 0real, pd == d * phys_DistanceUnit(du), ps == s * phys_SpeedUnit(su), phys_DistanceUnit(du) > 0real, phys_SpeedUnit(su) > 0real;
    assert(dm * phys_DistanceUnit(DistanceUnit::Meters) == dm) by (nonlinear_arith) requires phys_DistanceUnit(DistanceUnit::Meters) == 1real;
    assert(sm * phys_SpeedUnit(SpeedUnit::MetersPerSecond) == sm) by (nonlinear_arith) requires phys_SpeedUnit(SpeedUnit::MetersPerSecond) == 1real;
    assert(0.999real * pd <= dm <= 1.001real * pd);
    assert(0.999real * ps <= sm <= 1.001real * ps);
    assert(sm > 0real && dm > 0real);
    let q = dm / sm;
    let pp = pd / ps;
    assert(pp > 0real) by (nonlinear_arith) requires pd > 0real, ps > 0real, pp == pd / ps;
    assert(q * sm == dm && pp * ps == pd) by (nonlinear_arith) requires sm > 0real, ps > 0real, q == dm / sm, pp == pd / ps;
    assert(q > 0real) by (nonlinear_arith) requires dm > 0real, sm > 0real, q * sm == dm;
    // q*sm == dm <= 1.001 pd == 1.001 pp ps <= 1.001 pp sm / 0.999
    assert(q <= 1.00201real * pp) by (nonlinear_arith)
        requires pp > 0real, ps > 0real, sm > 0real, q > 0real, q * sm == dm, pp * ps == pd, dm <= 1.001real * pd, 0.999real * ps <= sm;
    assert(0.998real * pp <= q) by (nonlinear_arith)
        requires pp > 0real, ps > 0real, sm > 0real, q > 0real, q * sm == dm, pp * ps == pd, 0.999real * pd <= dm, sm <= 1.001real * ps;
    TimeUnit_physical(TimeUnit::Seconds, tu, q);
    let t = conv_TimeUnit(TimeUnit::Seconds, tu, q);
    let pt = phys_TimeUnit(tu);
    assert(pt > 0real);
    assert(q * phys_TimeUnit(TimeUnit::Seconds) == q) by (nonlinear_arith) requires phys_TimeUnit(TimeUnit::Seconds) == 1real;
    assert(0.999real * q <= t * pt <= 1.001real * q);
    let dd = pp / pt;
    assert(dd * pt == pp) by (nonlinear_arith) requires pt > 0real, dd == pp / pt;
    assert(dd == time_def(s, su, d, du, tu));
    assert(0.9969real * dd <= t <= 1.0031real * dd) by (nonlinear_arith)
        requires pt > 0real, pp > 0real, q > 0real, dd * pt == pp, 0.999real * q <= t * pt <= 1.001real * q, 0.998real * pp <= q <= 1.00201real * pp;
}
""")
    parts.append("""
// vacuity guard: this obligation MUST FAIL (if it verifies, the axioms are contradictory)
pub fn vacuity_probe(v: &Distance, u: &DistanceUnit) -> (r: Distance) ensures false {
    broadcast use areal, lits; proof { areal_obeys(); }
    let a = u.convert(v, &DistanceUnit::Miles);
    let b = *v * 0.001 + a;
    if b <= Distance::ZERO { b } else { a }
}
""")
    return P.wrap("\n".join(parts))
