"""C11 ("the initial state has exactly n entries holding the declared initial values") -- StateFeature::get_initial, StateModel::initial_state [V].

Extracted verbatim: enum StateFeature, StateFeature::get_initial, StateModel::initial_state.  Distance / Time / Energy / StateVar are one-field newtypes (R4, no arithmetic
here: the value is only moved), the unit enums and CustomFeatureFormat are opaque; the container's iterator is an opaque iterator over the model's features in slot
order (R3-dyn; that the real iterator yields slot order is the container's business: unit c11_container and its witnesses); the `.iter().map(|(_, feature)| { B })
.collect::<Result<Vec<_>, _>>()` pipeline of initial_state is written as the loop it denotes (R-trycollect, B verbatim).
"""
import re
import genlib as G

SF = "routee-compass-core/src/model/state/state_feature.rs"
SM = "routee-compass-core/src/model/state/state_model.rs"
OBLIGATIONS = ["get_initial", "get_feature_format", "initial_state"]
MUST_FAIL = ["vacuity_probe"]

HEAD = """#![allow(unused_imports, unused_variables, dead_code, unused_mut, unused_parens, unused_assignments, non_camel_case_types)]
use vstd::prelude::*;
verus! {
#[derive(Clone, Copy)] pub struct StateVar(pub f64);
#[derive(Clone, Copy)] pub struct Distance(pub f64);
#[derive(Clone, Copy)] pub struct Time(pub f64);
#[derive(Clone, Copy)] pub struct Energy(pub f64);
pub mod unit { pub use super::{Distance, Time, Energy, DistanceUnit, TimeUnit, EnergyUnit}; }
#[verifier::external_body] #[derive(Clone, Copy)] pub struct DistanceUnit { _p: u8 }
#[verifier::external_body] #[derive(Clone, Copy)] pub struct TimeUnit { _p: u8 }
#[verifier::external_body] #[derive(Clone, Copy)] pub struct EnergyUnit { _p: u8 }
#[verifier::external_body] #[derive(Clone, Copy)] pub struct CustomFeatureFormat { _p: u8 }
#[verifier::external_body] pub struct StateModelError { _p: u8 }
macro_rules! conv_sv { ($t:ident) => { verus! {
    impl vstd::std_specs::convert::FromSpecImpl<$t> for StateVar { open spec fn obeys_from_spec() -> bool { true } open spec fn from_spec(v: $t) -> StateVar { StateVar(v.0) } }
    impl From<$t> for StateVar { fn from(value: $t) -> StateVar { StateVar(value.0) } }
} } }
conv_sv!(Distance); conv_sv!(Time); conv_sv!(Energy);
/// CustomFeatureFormat::initial: the format's own declared initial value, encoded (None: the encoding fails)
pub uninterp spec fn custom_initial(f: &CustomFeatureFormat) -> Option<StateVar>;
impl CustomFeatureFormat {
    #[verifier::external_body] pub fn initial(&self) -> (r: Result<StateVar, StateModelError>)
        ensures r is Ok <==> custom_initial(self) is Some, r matches Ok(v) ==> Some(v) == custom_initial(self) { unimplemented!() }
    pub uninterp spec fn default_format() -> CustomFeatureFormat;
    #[verifier::external_body] pub fn default() -> (r: CustomFeatureFormat) ensures r == Self::default_format() { unimplemented!() }
}
"""

SPEC = """
/// the initial value a feature DECLARES, as a state variable
pub open spec fn declared_initial(f: StateFeature) -> Option<StateVar> {
    match f {
        StateFeature::Distance { initial, .. } => Some(StateVar(initial.0)),
        StateFeature::Time { initial, .. } => Some(StateVar(initial.0)),
        StateFeature::Energy { initial, .. } => Some(StateVar(initial.0)),
        StateFeature::Custom { format, .. } => custom_initial(&format),
    }
}
// ---- the model's features in slot order (R3-dyn) ----
#[verifier::external_body] pub struct FeatureMap { _p: u8 }            // CompactOrderedHashMap<String, StateFeature>
#[verifier::external_body] pub struct FeatureIter<'a> { _p: core::marker::PhantomData<&'a u8> }
impl FeatureMap {
    /// the features, by slot
    pub uninterp spec fn features(&self) -> Seq<StateFeature>;
    #[verifier::external_body] pub fn iter<'a>(&'a self) -> (r: FeatureIter<'a>) ensures r.seq() == self.features(), r.pos() == 0 { unimplemented!() }
}
impl<'a> FeatureIter<'a> {
    pub uninterp spec fn seq(&self) -> Seq<StateFeature>;
    pub uninterp spec fn pos(&self) -> int;
    /// ASSUMED: yields (name, feature) of slot 0, 1, 2, ..
    #[verifier::external_body]
    pub fn next(&mut self) -> (r: Option<(&'a String, &'a StateFeature)>)
        ensures final(self).seq() == old(self).seq(), 0 <= old(self).pos() <= old(self).seq().len(),
                old(self).pos() < old(self).seq().len() ==> r is Some && *r->Some_0.1 == old(self).seq()[old(self).pos()] && final(self).pos() == old(self).pos() + 1,
                old(self).pos() >= old(self).seq().len() ==> r is None && final(self).pos() == old(self).pos(),
    { unimplemented!() }
}
pub struct StateModel(pub FeatureMap);
"""


def build(x):
    parts = [HEAD]
    en, n = G.strip_inner_attrs(x.item_text(SF, "enum StateFeature"))
    en = en.replace("r#type", "type_")
    x.note("R-raw", "enum StateFeature / get_initial: the raw-identifier field `r#type` is written `type_` (this Verus build rejects raw identifiers as field names)")
    parts.append("#[allow(inconsistent_fields)]\n" + en + "\n")
    parts.append(SPEC)
    gi = x.fn(SF, "impl StateFeature :: fn get_initial")
    gi.rewrite(r"r#type", "type_", 0, 2, rule="R-raw")
    gi.name_return("r")
    gi.add_spec("""        ensures
            // C11: the initial value of a feature is the one it DECLARES -- for every kind
            r is Ok <==> declared_initial(*self) is Some,
            r matches Ok(v) ==> Some(v) == declared_initial(*self),""")
    gf = x.fn(SF, "impl StateFeature :: fn get_feature_format")
    gf.rewrite(r"r#type", "type_", 0, 2, rule="R-raw")
    gf.name_return("r")
    gf.add_spec("""        ensures r == (match *self { StateFeature::Custom { format, .. } => format, _ => CustomFeatureFormat::default_format() }),""")
    parts.append("impl StateFeature {\n" + gf.text + "\n" + gi.text + "\n}\n")
    ist = x.fn(SM, "impl StateModel :: fn initial_state")
    pat = re.compile(r"self\.0\s*\.iter\(\)\s*\.map\(\|\(_, feature\)\| \{(.*?)\}\)\s*\.collect::<Result<Vec<_>, _>>\(\)", re.S)
    if len(pat.findall(ist.text)) != 1:
        raise G.Undecided("lost anchor: the pipeline of StateModel::initial_state")
    ist.rewrite(pat.pattern, r"let mut verif_out: Vec<StateVar> = Vec::new();\n        let mut verif_it = self.0.iter();\n        loop\n            invariant verif_it.seq() == self.0.features(), 0 <= verif_it.pos() <= verif_it.seq().len(), verif_out@.len() == verif_it.pos(),\n                forall|i: int| 0 <= i < verif_it.pos() ==> Some(#[trigger] verif_out@[i]) == declared_initial(self.0.features()[i]),\n            ensures verif_it.pos() == verif_it.seq().len(),\n        {\n            let (_, feature) = match verif_it.next() { Some(verif_x) => verif_x, None => break };\n            let verif_r: Result<StateVar, StateModelError> = {\1};\n            let verif_v = verif_r?;\n            verif_out.push(verif_v);\n        }\n        proof { assert forall|i: int| 0 <= i < self.0.features().len() implies declared_initial(#[trigger] self.0.features()[i]) is Some by { assert(Some(verif_out@[i]) == declared_initial(self.0.features()[i])); } }\n        Ok(verif_out)", 1, 1, rule="R-trycollect", flags=re.S)
    x.note("R-trycollect", "StateModel::initial_state: `self.0.iter().map(|(_, feature)| { B }).collect::<Result<Vec<_>, _>>()` written as a loop over the same iterator pushing `{ B }?` (B verbatim)")
    ist.rewrite(r"\A", "#[verifier::exec_allows_no_decreases_clause]\n", 1, 1, rule="note")
    x.note("termination", "StateModel::initial_state: the loop over the container's iterator is accepted without a termination proof (the iterator is opaque)")
    ist.name_return("r")
    ist.add_spec("""        ensures
            // C11: the initial state has exactly n entries, entry i holding the declared initial value of the feature at slot i
            r matches Ok(v) ==> v@.len() == self.0.features().len() && forall|i: int| 0 <= i < v@.len() ==> Some(#[trigger] v@[i]) == declared_initial(self.0.features()[i]),
            // a feature whose initial value cannot be encoded is an error, never a shorter or shifted vector
            (exists|i: int| 0 <= i < self.0.features().len() && declared_initial(#[trigger] self.0.features()[i]) is None) ==> r is Err,""")
    parts.append("impl StateModel {\n" + ist.text + "\n}\n")
    parts.append("""
// vacuity guard: MUST FAIL
pub fn vacuity_probe(m: &StateModel) -> (b: bool) ensures false { m.initial_state().is_ok() }
} // verus!
fn main() {}
""")
    return "\n".join(parts)
