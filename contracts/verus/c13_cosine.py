"""C13 (one kernel) -- route_similarity_function::cos_similarity: which quantities the cosine is made of [V-real].

Extracted verbatim: cos_similarity.  Its five iterator pipelines over HashMap / HashSet are each replaced by ONE helper with an ASSUMED contract
(rule R-collect; the receiver variables are taken from the text, so a pipeline applied to the wrong map is seen): the (edge id -> length)
map of a route, the dot product over the union of the keys, the sum of squares of a map's values; `f64::sqrt` is an assumed real square root.
What is verified is the composition: cosine = dot(a, b) / (sqrt(sumsq(a)) * sqrt(sumsq(b))), hence symmetric in its two routes.
"""
import re
import prelude as P
import genlib as G

F = "routee-compass-core/src/algorithm/search/util/route_similarity_function.rs"
OBLIGATIONS = ["cos_similarity", "lemma_cosine_symmetric"]
MUST_FAIL = ["vacuity_probe"]

HEAD = """
#[verifier::external_body] pub struct EdgeTraversal { _p: u8 }
#[verifier::external_body] pub struct SearchError { _p: u8 }
#[verifier::external_body] pub struct DistanceFunction<'a> { _p: core::marker::PhantomData<&'a u8> }     // Box<dyn Fn(&EdgeId) -> Result<f64, SearchError>>
#[verifier::external_body] pub struct LenMap { _p: u8 }                                                   // HashMap<EdgeId, f64>
pub uninterp spec fn len_map(route: Seq<&EdgeTraversal>, f: &DistanceFunction) -> LenMap;   // edge id -> length of that edge, for the edges of the route
pub uninterp spec fn dot(a: LenMap, b: LenMap) -> real;                                    // sum over the union of the keys of a[k] * b[k] (0 where absent)
pub uninterp spec fn sumsq(a: LenMap) -> real;                                             // sum of the squares of the values
pub uninterp spec fn rsqrt(x: real) -> real;
pub axiom fn dot_symmetric(a: LenMap, b: LenMap) ensures dot(a, b) == dot(b, a);
// ---- rule R-collect: the five pipelines (every contract below is ASSUMED) ----
#[verifier::external_body] pub fn verif_len_map(route: &[&EdgeTraversal], f: &DistanceFunction) -> (r: Result<LenMap, SearchError>) ensures r matches Ok(m) ==> m == len_map(route@, f) { unimplemented!() }
#[verifier::external_body] pub fn verif_union_dot(a: &LenMap, b: &LenMap) -> (r: f64) ensures f64_real(r) == dot(*a, *b) { unimplemented!() }
#[verifier::external_body] pub fn verif_sum_sq(a: &LenMap) -> (r: f64) ensures f64_real(r) == sumsq(*a) { unimplemented!() }
#[verifier::external_body] pub fn verif_sqrt(x: f64) -> (r: f64) ensures f64_real(r) == rsqrt(f64_real(x)) { x.sqrt() }
/// C13: the cosine similarity of two (edge -> length) maps
pub open spec fn cosine(a: LenMap, b: LenMap) -> real { dot(a, b) / (rsqrt(sumsq(a)) * rsqrt(sumsq(b))) }
pub proof fn lemma_cosine_symmetric(a: LenMap, b: LenMap) ensures cosine(a, b) == cosine(b, a)
{
    dot_symmetric(a, b);
    assert(rsqrt(sumsq(a)) * rsqrt(sumsq(b)) == rsqrt(sumsq(b)) * rsqrt(sumsq(a))) by (nonlinear_arith);
}
"""


def build(x):
    parts = [P.f64_real(), HEAD]
    f = x.fn(F, "fn cos_similarity")
    f.rewrite(r"dist_fn: DistanceFunction<'_>,", "dist_fn: DistanceFunction<'_>,", 1, 1, rule="note")
    pat_map = r"let (\w+) = (\w+)\s*\.iter\(\)\s*\.map\(\|e\| dist_fn\(&e\.edge_id\)\.map\(\|dist\| \(e\.edge_id, dist\)\)\)\s*\.collect::<Result<HashMap<_, _>, _>>\(\)\?;"
    f.rewrite(pat_map, r"let \1 = verif_len_map(\2, &dist_fn)?;", 2, 2, rule="R-collect")
    pat_dot = (r"let numer: f64 = (\w+)\s*\.keys\(\)\s*\.collect::<HashSet<_>>\(\)\s*\.union\(&(\w+)\.keys\(\)\.collect::<HashSet<_>>\(\)\)\s*\.map\(\|edge_id\| \{\s*"
               r"let a_dist = (\w+)\.get\(edge_id\)\.cloned\(\)\.unwrap_or_default\(\);\s*let b_dist = (\w+)\.get\(edge_id\)\.cloned\(\)\.unwrap_or_default\(\);\s*a_dist \* b_dist\s*\}\)\s*\.sum\(\);")
    m = re.search(pat_dot, f.text)
    if not m:
        raise G.Undecided("lost anchor: the dot-product pipeline of cos_similarity")
    k1, k2, g1, g2 = m.groups()
    if {k1, k2} != {g1, g2}:
        raise G.Undecided("cos_similarity: the dot-product pipeline unions the keys of (%s, %s) but reads (%s, %s)" % (k1, k2, g1, g2))
    f.rewrite(pat_dot, lambda _m: "let numer: f64 = verif_union_dot(&%s, &%s);" % (g1, g2), 1, 1, rule="R-collect")
    f.rewrite(r"let (\w+): f64 = (\w+)\.values\(\)\.map\(\|d\| d \* d\)\.sum\(\);", r"let \1: f64 = verif_sum_sq(&\2);", 2, 2, rule="R-collect")
    f.rewrite(r"(\w+)\.sqrt\(\)", r"verif_sqrt(\1)", 2, 2, rule="R-clamp")
    x.note("R-collect", "cos_similarity: route -> HashMap pipelines written verif_len_map(route, &dist_fn)?; the union/dot pipeline written verif_union_dot(&A, &B); `M.values().map(|d| d * d).sum()` written verif_sum_sq(&M); `x.sqrt()` written verif_sqrt(x) (all assumed; receivers taken from the text)")
    f.rewrite(r"\A(\s*)fn ", r"\1pub fn ", 0, 1, rule="R2")
    f.name_return("r")
    f.add_spec("""    ensures r matches Ok(c) ==> rsqrt(sumsq(len_map(a@, &dist_fn))) * rsqrt(sumsq(len_map(b@, &dist_fn))) != 0real
        ==> f64_real(c) == cosine(len_map(a@, &dist_fn), len_map(b@, &dist_fn)),""")
    f.body_start("    broadcast use areal; proof { areal_obeys(); }")
    parts.append(f.text)
    parts.append("""
// vacuity guard: MUST FAIL
pub fn vacuity_probe(a: &[&EdgeTraversal], b: &[&EdgeTraversal], d: DistanceFunction<'_>) -> (r: bool) ensures false { cos_similarity(a, b, d).is_ok() }
""")
    return P.wrap("\n".join(parts))
