"""C15 (in-memory half) -- the adjacency built per edge row and the Graph lookups [V].

Extracted verbatim: the row callback of EdgeLoader::try_from (rule R5: the closure literal
`|edge: &Edge| { .. }` becomes `fn edge_row(adj, rev, missing_vertices, edge)` whose parameters are the
captured variables; the progress-bar update `let _ = pb.update(1);` is dropped), Graph::{get_edge,
get_vertex, src_vertex_id, dst_vertex_id, edge_triplet}, struct Edge.
CompactOrderedHashMap is represented by its contract of unit c11_container (insert on the abstract maps).
"""
import re
import genlib as G
import sys, os
sys.path.insert(0, os.path.join(os.path.dirname(os.path.abspath(__file__)), "..", "..", "lib"))
import rsx

N = "routee-compass-core/src/model/network/"
OBLIGATIONS = ["edge_row", "get_edge", "get_vertex", "src_vertex_id", "dst_vertex_id", "edge_triplet", "out_edges_iter", "in_edges_iter", "lemma_all_rows_out", "lemma_all_rows_in"]
MUST_FAIL = ["vacuity_probe"]

HEAD = """#![allow(unused_imports, unused_variables, dead_code, unused_mut, unused_parens, unused_assignments)]
use vstd::prelude::*;
use std::collections::HashSet;
verus! {
#[derive(Copy, Clone, Eq, Hash, Debug)] pub struct VertexId(pub usize);
#[derive(Copy, Clone, Eq, Hash, Debug)] pub struct EdgeId(pub usize);
impl vstd::std_specs::cmp::PartialEqSpecImpl for VertexId { open spec fn obeys_eq_spec() -> bool { true } open spec fn eq_spec(&self, o: &VertexId) -> bool { self.0 == o.0 } }
impl core::cmp::PartialEq for VertexId { fn eq(&self, o: &VertexId) -> bool { self.0 == o.0 } }
impl vstd::std_specs::cmp::PartialEqSpecImpl for EdgeId { open spec fn obeys_eq_spec() -> bool { true } open spec fn eq_spec(&self, o: &EdgeId) -> bool { self.0 == o.0 } }
impl core::cmp::PartialEq for EdgeId { fn eq(&self, o: &EdgeId) -> bool { self.0 == o.0 } }
#[verifier::external_body] pub proof fn vid_key_model() ensures vstd::std_specs::hash::obeys_key_model::<VertexId>() {}
#[derive(Copy, Clone)] pub struct Distance(pub f64);
#[verifier::external_body] pub struct Vertex { _p: u8 }
pub enum NetworkError { EdgeNotFound(EdgeId), VertexNotFound(VertexId), Other }
// CompactOrderedHashMap<EdgeId, VertexId> by its contract (unit c11_container): abstract value map; insert adds / overwrites one key
#[verifier::external_body] pub struct AdjMap { _p: u8 }
impl AdjMap {
    pub uninterp spec fn view(&self) -> Map<EdgeId, VertexId>;
    #[verifier::external_body] pub fn insert(&mut self, k: EdgeId, v: VertexId) -> (r: Option<VertexId>) ensures final(self)@ == old(self)@.insert(k, v) { unimplemented!() }
}
"""

SPEC = """
/// C15: after processing one row, the out-list of the edge's source holds (edge -> destination), the in-list of its destination holds
/// (edge -> source), every other list is unchanged; an endpoint beyond the vertex count is recorded as missing and touches no list
pub open spec fn row_post(adj0: Seq<AdjMap>, adj1: Seq<AdjMap>, rev0: Seq<AdjMap>, rev1: Seq<AdjMap>, miss0: Set<VertexId>, miss1: Set<VertexId>, e: Edge) -> bool {
    let (s, d) = (e.src_vertex_id.0 as int, e.dst_vertex_id.0 as int);
    &&& adj1.len() == adj0.len() && rev1.len() == rev0.len()
    &&& forall|i: int| 0 <= i < adj0.len() && i != s ==> (#[trigger] adj1[i])@ == adj0[i]@
    &&& forall|i: int| 0 <= i < rev0.len() && i != d ==> (#[trigger] rev1[i])@ == rev0[i]@
    &&& (s < adj0.len() ==> adj1[s]@ == adj0[s]@.insert(e.edge_id, e.dst_vertex_id))
    &&& (d < rev0.len() ==> rev1[d]@ == rev0[d]@.insert(e.edge_id, e.src_vertex_id))
    &&& miss1 =~= miss0 + (if s >= adj0.len() { set![e.src_vertex_id] } else { Set::<VertexId>::empty() }) + (if d >= rev0.len() { set![e.dst_vertex_id] } else { Set::<VertexId>::empty() })
}
/// the forward and the reverse adjacency describe the same edge set (one step: holds after a row if it held before and the edge id is new)
pub open spec fn adj_rev_agree(adj: Seq<AdjMap>, rev: Seq<AdjMap>) -> bool {
    &&& forall|s: int, e: EdgeId| 0 <= s < adj.len() && (#[trigger] adj[s])@.contains_key(e) && adj[s]@[e].0 < rev.len() ==> #[trigger] rev[adj[s]@[e].0 as int]@.contains_key(e) && rev[adj[s]@[e].0 as int]@[e].0 == s
}
"""

ROWS = """
/// the adjacency lists after the rows es[0..n) have been processed one after the other, each as the row callback's contract says
pub open spec fn row_step(adjs: Seq<Seq<AdjMap>>, revs: Seq<Seq<AdjMap>>, es: Seq<Edge>, i: int) -> bool {
    exists|m0: Set<VertexId>, m1: Set<VertexId>| #[trigger] row_post(adjs[i], adjs[i + 1], revs[i], revs[i + 1], m0, m1, es[i])
}
pub open spec fn rows_ok(adjs: Seq<Seq<AdjMap>>, revs: Seq<Seq<AdjMap>>, es: Seq<Edge>, n_v: int) -> bool {
    &&& adjs.len() == es.len() + 1 && revs.len() == es.len() + 1
    &&& adjs[0].len() == n_v && revs[0].len() == n_v
    &&& (forall|v: int| 0 <= v < n_v ==> (#[trigger] adjs[0][v])@ == Map::<EdgeId, VertexId>::empty() && revs[0][v]@ == Map::<EdgeId, VertexId>::empty())
    &&& forall|i: int| 0 <= i < es.len() ==> #[trigger] row_step(adjs, revs, es, i)
}
/// C15: after all rows, the out-list of a vertex holds exactly the listed edges that LEAVE it, each with its listed destination
pub proof fn lemma_all_rows_out(adjs: Seq<Seq<AdjMap>>, revs: Seq<Seq<AdjMap>>, es: Seq<Edge>, n_v: int, n: int, v: int, e: EdgeId)
    requires rows_ok(adjs, revs, es, n_v), 0 <= n <= es.len(), 0 <= v < n_v
    ensures adjs[n].len() == n_v,
            adjs[n][v]@.contains_key(e) <==> exists|i: int| 0 <= i < n && #[trigger] es[i].edge_id == e && es[i].src_vertex_id.0 == v,
    decreases n
{
    if n > 0 {
        lemma_all_rows_out(adjs, revs, es, n_v, n - 1, v, e);
        assert(row_step(adjs, revs, es, n - 1));
        let (m0, m1) = choose|m0: Set<VertexId>, m1: Set<VertexId>| #[trigger] row_post(adjs[n - 1], adjs[n], revs[n - 1], revs[n], m0, m1, es[n - 1]);
        let r = es[n - 1];
        assert(adjs[n - 1].len() == n_v && adjs[n].len() == n_v);
        if r.src_vertex_id.0 as int == v { assert(adjs[n][v]@ == adjs[n - 1][v]@.insert(r.edge_id, r.dst_vertex_id)); } else { assert(adjs[n][v]@ == adjs[n - 1][v]@); }
        if adjs[n][v]@.contains_key(e) {
            if r.src_vertex_id.0 == v && r.edge_id == e { assert(es[n - 1].edge_id == e); }
            else { assert(adjs[n - 1][v]@.contains_key(e)); let i = choose|i: int| 0 <= i < n - 1 && #[trigger] es[i].edge_id == e && es[i].src_vertex_id.0 == v; assert(es[i].edge_id == e); }
        }
        if exists|i: int| 0 <= i < n && #[trigger] es[i].edge_id == e && es[i].src_vertex_id.0 == v {
            let i = choose|i: int| 0 <= i < n && #[trigger] es[i].edge_id == e && es[i].src_vertex_id.0 == v;
            if i < n - 1 { assert(adjs[n - 1][v]@.contains_key(e)); }
        }
    }
}
/// C15: ... and the in-list exactly the listed edges that ENTER it
pub proof fn lemma_all_rows_in(adjs: Seq<Seq<AdjMap>>, revs: Seq<Seq<AdjMap>>, es: Seq<Edge>, n_v: int, n: int, v: int, e: EdgeId)
    requires rows_ok(adjs, revs, es, n_v), 0 <= n <= es.len(), 0 <= v < n_v
    ensures revs[n].len() == n_v,
            revs[n][v]@.contains_key(e) <==> exists|i: int| 0 <= i < n && #[trigger] es[i].edge_id == e && es[i].dst_vertex_id.0 == v,
    decreases n
{
    assert(adjs[0][v]@ == Map::<EdgeId, VertexId>::empty());   // (instantiates the clause of rows_ok about the empty start)
    if n > 0 {
        lemma_all_rows_in(adjs, revs, es, n_v, n - 1, v, e);
        assert(row_step(adjs, revs, es, n - 1));
        let (m0, m1) = choose|m0: Set<VertexId>, m1: Set<VertexId>| #[trigger] row_post(adjs[n - 1], adjs[n], revs[n - 1], revs[n], m0, m1, es[n - 1]);
        let r = es[n - 1];
        assert(revs[n - 1].len() == n_v && revs[n].len() == n_v);
        if r.dst_vertex_id.0 as int == v { assert(revs[n][v]@ == revs[n - 1][v]@.insert(r.edge_id, r.src_vertex_id)); } else { assert(revs[n][v]@ == revs[n - 1][v]@); }
        if revs[n][v]@.contains_key(e) {
            if r.dst_vertex_id.0 == v && r.edge_id == e { assert(es[n - 1].edge_id == e); }
            else { assert(revs[n - 1][v]@.contains_key(e)); let i = choose|i: int| 0 <= i < n - 1 && #[trigger] es[i].edge_id == e && es[i].dst_vertex_id.0 == v; assert(es[i].edge_id == e); }
        }
        if exists|i: int| 0 <= i < n && #[trigger] es[i].edge_id == e && es[i].dst_vertex_id.0 == v {
            let i = choose|i: int| 0 <= i < n && #[trigger] es[i].edge_id == e && es[i].dst_vertex_id.0 == v;
            if i < n - 1 { assert(revs[n - 1][v]@.contains_key(e)); }
        }
    }
}
"""

GRAPH = """
pub struct Graph { pub adj: Box<[AdjMap]>, pub rev: Box<[AdjMap]>, pub edges: Box<[Edge]>, pub vertices: Box<[Vertex]> }
// rule R3-dyn: `Box<dyn Iterator<Item = &'a EdgeId> + 'a>` is represented by an opaque iterator with a ghost sequence of the ids it will yield
#[verifier::external_body] pub struct EdgeIter<'a> { _p: core::marker::PhantomData<&'a u8> }
impl<'a> EdgeIter<'a> {
    pub uninterp spec fn seq(&self) -> Seq<EdgeId>;
    #[verifier::external_body] pub fn empty() -> (r: EdgeIter<'a>) ensures r.seq() == Seq::<EdgeId>::empty() { unimplemented!() }
}
impl AdjMap {
    /// the keys in slot order (CompactOrderedHashMap::keys; C11 witnesses)
    pub uninterp spec fn key_seq(&self) -> Seq<EdgeId>;
    #[verifier::external_body] pub fn keys<'a>(&'a self) -> (r: EdgeIter<'a>) ensures r.seq() == self.key_seq() { unimplemented!() }
}
"""


def build(x):
    parts = [HEAD]
    edge = x.item_text(N + "edge.rs", "struct Edge")
    parts.append("#[derive(Copy, Clone)]\n" + edge + "\n")
    parts.append(SPEC)
    # ---- rule R5: the row callback closure as a function ----
    tf = x.fn(N + "edge_loader.rs", "impl TryFrom<EdgeLoaderConfig> for EdgeLoader :: fn try_from", under_contract=False)
    m = re.search(r"let cb = Box::new\(\|edge: &Edge\| \{", tf.text)
    if not m:
        raise G.Undecided("lost anchor: row callback closure `let cb = Box::new(|edge: &Edge| {` in EdgeLoader::try_from")
    toks = tf.toks
    ob = next(i for i, t in enumerate(toks) if t.a == m.end() - 1)
    cb = rsx.match_close(toks, ob)
    body = tf.text[toks[ob].a:toks[cb].b]
    body2, n = re.subn(r"let _ = pb\.update\(1\);\s*", "", body)
    if n != 1:
        raise G.Undecided("row callback: progress-bar statement not found exactly once")
    x.note("R5", "EdgeLoader::try_from: closure literal `|edge: &Edge| {..}` extracted as fn edge_row(adj, rev, missing_vertices, edge); `let _ = pb.update(1);` dropped (progress bar)")
    x.functions.append(N + "edge_loader.rs :: EdgeLoader::try_from :: row callback closure")
    fn_text = ("pub fn edge_row(adj: &mut Vec<AdjMap>, rev: &mut Vec<AdjMap>, missing_vertices: &mut HashSet<VertexId>, edge: &Edge)\n"
               "    requires vstd::std_specs::hash::obeys_key_model::<VertexId>(),\n"
               "    ensures row_post(old(adj)@, final(adj)@, old(rev)@, final(rev)@, old(missing_vertices)@, final(missing_vertices)@, *edge),\n" + body2 + "\n")
    parts.append(fn_text)
    parts.append(ROWS)
    # ---- Graph lookups ----
    parts.append(GRAPH)
    gf = []
    for name, spec in [
        ("get_edge", "ensures (r is Ok <==> edge_id.0 < self.edges@.len()), r matches Ok(e) ==> *e == self.edges@[edge_id.0 as int], r matches Err(err) ==> err == NetworkError::EdgeNotFound(*edge_id),"),
        ("get_vertex", "ensures (r is Ok <==> vertex_id.0 < self.vertices@.len()), r matches Err(err) ==> err == NetworkError::VertexNotFound(*vertex_id),"),
        ("src_vertex_id", "ensures (r is Ok <==> edge_id.0 < self.edges@.len()), r matches Ok(v) ==> v == self.edges@[edge_id.0 as int].src_vertex_id,"),
        ("dst_vertex_id", "ensures (r is Ok <==> edge_id.0 < self.edges@.len()), r matches Ok(v) ==> v == self.edges@[edge_id.0 as int].dst_vertex_id,"),
        ("edge_triplet", "ensures r matches Ok(t) ==> edge_id.0 < self.edges@.len() && *t.1 == self.edges@[edge_id.0 as int],"),
    ]:
        f = x.fn(N + "graph.rs", "impl Graph :: fn " + name)
        f.rewrite(r"\.map\(\|e\| e\.(src|dst)_vertex_id\)", r".map(|e: &Edge| -> (cr: VertexId) ensures cr == e.\1_vertex_id { e.\1_vertex_id })", 0, 1, rule="R-closure")
        f.name_return("r")
        f.add_spec("        " + spec)
        gf.append(f.text)
    for name, fld in [("out_edges_iter", "adj"), ("in_edges_iter", "rev")]:
        f = x.fn(N + "graph.rs", "impl Graph :: fn " + name)
        f.rewrite(r"Box<dyn Iterator<Item = &'a EdgeId> \+ 'a>", "EdgeIter<'a>", 1, 1, rule="R3-dyn")
        f.rewrite(r"Box::new\(std::iter::empty\(\)\)", "EdgeIter::empty()", 0, 1, rule="R3-dyn")
        f.name_return("r")
        arg = "src" if name == "out_edges_iter" else "dst"
        f.add_spec("""        ensures
            // C12/C15: a vertex id outside the graph has no incident edges (no panic); otherwise exactly the keys of that vertex' adjacency map, in slot order
            r.seq() == (if %s.0 < self.%s@.len() { self.%s@[%s.0 as int].key_seq() } else { Seq::<EdgeId>::empty() }),""" % (arg, fld, fld, arg))
        gf.append(f.text)
    x.note("R3-dyn", "Graph::out_edges_iter / in_edges_iter: return type `Box<dyn Iterator<Item = &'a EdgeId> + 'a>` written EdgeIter<'a> (opaque, ghost sequence); `Box::new(std::iter::empty())` written EdgeIter::empty()")
    parts.append("impl Graph {\n" + "\n".join(gf) + "\n}\n")
    parts.append("""
// vacuity guard: MUST FAIL
pub fn vacuity_probe(g: &Graph, e: &EdgeId) -> (r: bool) ensures false { g.get_edge(e).is_ok() }
} // verus!
fn main() {}
""")
    return "\n".join(parts)
