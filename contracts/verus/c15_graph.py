"""C15 (in-memory half) -- the adjacency built per edge row and the Graph lookups [V].

Extracted verbatim: the row callback of EdgeLoader::try_from (rule R5: the closure literal
`|edge: &Edge| { .. }` becomes `fn edge_row(adj, rev, missing_vertices, edge)` whose parameters are the
captured variables; the progress-bar update `let _ = pb.update(1);` is dropped), Graph::{get_edge,
get_vertex, src_vertex_id, dst_vertex_id, edge_triplet}, struct Edge.
CompactOrderedHashMap is represented by its contract of unit c11_container (insert on the abstract maps).
"""
import re
import genlib as G
import sys, os
sys.path.insert(0, os.path.join(os.path.dirname(os.path.abspath(__file__)), "..", "..", "lib"))
import rsx

N = "routee-compass-core/src/model/network/"
OBLIGATIONS = ["edge_row", "try_from", "lemma_chain_complete", "get_edge", "get_vertex", "src_vertex_id", "dst_vertex_id", "edge_triplet", "out_edges_iter", "in_edges_iter", "lemma_all_rows_out", "lemma_all_rows_in"]
MUST_FAIL = ["vacuity_probe"]

HEAD = """#![allow(unused_imports, unused_variables, dead_code, unused_mut, unused_parens, unused_assignments)]
use vstd::prelude::*;
use std::collections::HashSet;
verus! {
#[derive(Copy, Clone, Eq, Hash, Debug)] pub struct VertexId(pub usize);
#[derive(Copy, Clone, Eq, Hash, Debug)] pub struct EdgeId(pub usize);
impl vstd::std_specs::cmp::PartialEqSpecImpl for VertexId { open spec fn obeys_eq_spec() -> bool { true } open spec fn eq_spec(&self, o: &VertexId) -> bool { self.0 == o.0 } }
impl core::cmp::PartialEq for VertexId { fn eq(&self, o: &VertexId) -> bool { self.0 == o.0 } }
impl vstd::std_specs::cmp::PartialEqSpecImpl for EdgeId { open spec fn obeys_eq_spec() -> bool { true } open spec fn eq_spec(&self, o: &EdgeId) -> bool { self.0 == o.0 } }
impl core::cmp::PartialEq for EdgeId { fn eq(&self, o: &EdgeId) -> bool { self.0 == o.0 } }
#[verifier::external_body] pub proof fn vid_key_model() ensures vstd::std_specs::hash::obeys_key_model::<VertexId>() {}
#[derive(Copy, Clone)] pub struct Distance(pub f64);
#[verifier::external_body] pub struct Vertex { _p: u8 }
pub enum NetworkError { EdgeNotFound(EdgeId), VertexNotFound(VertexId), DatasetError(String), InternalError(String), Other }
#[verifier::external_body] pub struct PathBuf { _p: u8 }      // std::path::PathBuf (opaque)
#[verifier::external_body] pub fn verif_format() -> String { String::new() }   // rule R-format: error text is not modelled
// CompactOrderedHashMap<EdgeId, VertexId> by its contract (unit c11_container): abstract value map; insert adds / overwrites one key
#[verifier::external_body] pub struct AdjMap { _p: u8 }
impl AdjMap {
    pub uninterp spec fn view(&self) -> Map<EdgeId, VertexId>;
    #[verifier::external_body] pub fn insert(&mut self, k: EdgeId, v: VertexId) -> (r: Option<VertexId>) ensures final(self)@ == old(self)@.insert(k, v) { unimplemented!() }
}
"""

SPEC = """
/// C15: after processing one row, the out-list of the edge's source holds (edge -> destination), the in-list of its destination holds
/// (edge -> source), every other list is unchanged; an endpoint beyond the vertex count is recorded as missing and touches no list
pub open spec fn row_post(adj0: Seq<AdjMap>, adj1: Seq<AdjMap>, rev0: Seq<AdjMap>, rev1: Seq<AdjMap>, miss0: Set<VertexId>, miss1: Set<VertexId>, e: Edge) -> bool {
    let (s, d) = (e.src_vertex_id.0 as int, e.dst_vertex_id.0 as int);
    &&& adj1.len() == adj0.len() && rev1.len() == rev0.len()
    &&& forall|i: int| 0 <= i < adj0.len() && i != s ==> (#[trigger] adj1[i])@ == adj0[i]@
    &&& forall|i: int| 0 <= i < rev0.len() && i != d ==> (#[trigger] rev1[i])@ == rev0[i]@
    &&& (s < adj0.len() ==> adj1[s]@ == adj0[s]@.insert(e.edge_id, e.dst_vertex_id))
    &&& (d < rev0.len() ==> rev1[d]@ == rev0[d]@.insert(e.edge_id, e.src_vertex_id))
    &&& miss1 =~= miss0 + (if s >= adj0.len() { set![e.src_vertex_id] } else { Set::<VertexId>::empty() }) + (if d >= rev0.len() { set![e.dst_vertex_id] } else { Set::<VertexId>::empty() })
}
/// the forward and the reverse adjacency describe the same edge set (one step: holds after a row if it held before and the edge id is new)
pub open spec fn adj_rev_agree(adj: Seq<AdjMap>, rev: Seq<AdjMap>) -> bool {
    &&& forall|s: int, e: EdgeId| 0 <= s < adj.len() && (#[trigger] adj[s])@.contains_key(e) && adj[s]@[e].0 < rev.len() ==> #[trigger] rev[adj[s]@[e].0 as int]@.contains_key(e) && rev[adj[s]@[e].0 as int]@[e].0 == s
}
"""

ROWS = """
/// the adjacency lists after the rows es[0..n) have been processed one after the other, each as the row callback's contract says
pub open spec fn row_step(adjs: Seq<Seq<AdjMap>>, revs: Seq<Seq<AdjMap>>, es: Seq<Edge>, i: int) -> bool {
    exists|m0: Set<VertexId>, m1: Set<VertexId>| #[trigger] row_post(adjs[i], adjs[i + 1], revs[i], revs[i + 1], m0, m1, es[i])
}
pub open spec fn rows_ok(adjs: Seq<Seq<AdjMap>>, revs: Seq<Seq<AdjMap>>, es: Seq<Edge>, n_v: int) -> bool {
    &&& adjs.len() == es.len() + 1 && revs.len() == es.len() + 1
    &&& adjs[0].len() == n_v && revs[0].len() == n_v
    &&& (forall|v: int| 0 <= v < n_v ==> (#[trigger] adjs[0][v])@ == Map::<EdgeId, VertexId>::empty() && revs[0][v]@ == Map::<EdgeId, VertexId>::empty())
    &&& forall|i: int| 0 <= i < es.len() ==> #[trigger] row_step(adjs, revs, es, i)
}
/// C15: after all rows, the out-list of a vertex holds exactly the listed edges that LEAVE it, each with its listed destination
pub proof fn lemma_all_rows_out(adjs: Seq<Seq<AdjMap>>, revs: Seq<Seq<AdjMap>>, es: Seq<Edge>, n_v: int, n: int, v: int, e: EdgeId)
    requires rows_ok(adjs, revs, es, n_v), 0 <= n <= es.len(), 0 <= v < n_v
    ensures adjs[n].len() == n_v,
            adjs[n][v]@.contains_key(e) <==> exists|i: int| 0 <= i < n && #[trigger] es[i].edge_id == e && es[i].src_vertex_id.0 == v,
    decreases n
{
    if n > 0 {
        lemma_all_rows_out(adjs, revs, es, n_v, n - 1, v, e);
        assert(row_step(adjs, revs, es, n - 1));
        let (m0, m1) = choose|m0: Set<VertexId>, m1: Set<VertexId>| #[trigger] row_post(adjs[n - 1], adjs[n], revs[n - 1], revs[n], m0, m1, es[n - 1]);
        let r = es[n - 1];
        assert(adjs[n - 1].len() == n_v && adjs[n].len() == n_v);
        if r.src_vertex_id.0 as int == v { assert(adjs[n][v]@ == adjs[n - 1][v]@.insert(r.edge_id, r.dst_vertex_id)); } else { assert(adjs[n][v]@ == adjs[n - 1][v]@); }
        if adjs[n][v]@.contains_key(e) {
            if r.src_vertex_id.0 == v && r.edge_id == e { assert(es[n - 1].edge_id == e); }
            else { assert(adjs[n - 1][v]@.contains_key(e)); let i = choose|i: int| 0 <= i < n - 1 && #[trigger] es[i].edge_id == e && es[i].src_vertex_id.0 == v; assert(es[i].edge_id == e); }
        }
        if exists|i: int| 0 <= i < n && #[trigger] es[i].edge_id == e && es[i].src_vertex_id.0 == v {
            let i = choose|i: int| 0 <= i < n && #[trigger] es[i].edge_id == e && es[i].src_vertex_id.0 == v;
            if i < n - 1 { assert(adjs[n - 1][v]@.contains_key(e)); }
        }
    }
}
/// C15: ... and the in-list exactly the listed edges that ENTER it
pub proof fn lemma_all_rows_in(adjs: Seq<Seq<AdjMap>>, revs: Seq<Seq<AdjMap>>, es: Seq<Edge>, n_v: int, n: int, v: int, e: EdgeId)
    requires rows_ok(adjs, revs, es, n_v), 0 <= n <= es.len(), 0 <= v < n_v
    ensures revs[n].len() == n_v,
            revs[n][v]@.contains_key(e) <==> exists|i: int| 0 <= i < n && #[trigger] es[i].edge_id == e && es[i].dst_vertex_id.0 == v,
    decreases n
{
    assert(adjs[0][v]@ == Map::<EdgeId, VertexId>::empty());   // (instantiates the clause of rows_ok about the empty start)
    if n > 0 {
        lemma_all_rows_in(adjs, revs, es, n_v, n - 1, v, e);
        assert(row_step(adjs, revs, es, n - 1));
        let (m0, m1) = choose|m0: Set<VertexId>, m1: Set<VertexId>| #[trigger] row_post(adjs[n - 1], adjs[n], revs[n - 1], revs[n], m0, m1, es[n - 1]);
        let r = es[n - 1];
        assert(revs[n - 1].len() == n_v && revs[n].len() == n_v);
        if r.dst_vertex_id.0 as int == v { assert(revs[n][v]@ == revs[n - 1][v]@.insert(r.edge_id, r.src_vertex_id)); } else { assert(revs[n][v]@ == revs[n - 1][v]@); }
        if revs[n][v]@.contains_key(e) {
            if r.dst_vertex_id.0 == v && r.edge_id == e { assert(es[n - 1].edge_id == e); }
            else { assert(revs[n - 1][v]@.contains_key(e)); let i = choose|i: int| 0 <= i < n - 1 && #[trigger] es[i].edge_id == e && es[i].dst_vertex_id.0 == v; assert(es[i].edge_id == e); }
        }
        if exists|i: int| 0 <= i < n && #[trigger] es[i].edge_id == e && es[i].dst_vertex_id.0 == v {
            let i = choose|i: int| 0 <= i < n && #[trigger] es[i].edge_id == e && es[i].dst_vertex_id.0 == v;
            if i < n - 1 { assert(revs[n - 1][v]@.contains_key(e)); }
        }
    }
}
"""

LOADER = """
// ===== EdgeLoader::try_from as a whole (C15: "every listed edge ...", "the forward and reverse adjacency views always describe the same edge set") =====
/// one row processed as the row callback's contract (edge_row, verified above) says, with the set of missing vertices threaded through
pub open spec fn chain_step(adjs: Seq<Seq<AdjMap>>, revs: Seq<Seq<AdjMap>>, ms: Seq<Set<VertexId>>, es: Seq<Edge>, i: int) -> bool {
    row_post(adjs[i], adjs[i + 1], revs[i], revs[i + 1], ms[i], ms[i + 1], es[i])
}
pub open spec fn chain_ok(adjs: Seq<Seq<AdjMap>>, revs: Seq<Seq<AdjMap>>, ms: Seq<Set<VertexId>>, es: Seq<Edge>) -> bool {
    &&& adjs.len() == es.len() + 1 && revs.len() == es.len() + 1 && ms.len() == es.len() + 1
    &&& forall|i: int| 0 <= i < es.len() ==> #[trigger] chain_step(adjs, revs, ms, es, i)
}
/// the rows `es` were processed one after the other, taking (adj0, rev0, m0) to (adj1, rev1, m1)
pub open spec fn rows_chain(adj0: Seq<AdjMap>, adj1: Seq<AdjMap>, rev0: Seq<AdjMap>, rev1: Seq<AdjMap>, m0: Set<VertexId>, m1: Set<VertexId>, es: Seq<Edge>) -> bool {
    exists|adjs: Seq<Seq<AdjMap>>, revs: Seq<Seq<AdjMap>>, ms: Seq<Set<VertexId>>| #[trigger] chain_ok(adjs, revs, ms, es)
        && adjs[0] == adj0 && adjs[es.len() as int] == adj1 && revs[0] == rev0 && revs[es.len() as int] == rev1 && ms[0] == m0 && ms[es.len() as int] == m1
}
// ASSUMED (rule R5-rows): `read_utils::from_csv(&path, true, Some(cb))` reads SOME sequence of rows (rule R-io: any file content, or an error) and calls the row callback
// once per row, in order, before it returns them; the callback is the closure verified as `edge_row`
#[verifier::external_body]
pub fn verif_from_csv_rows(path: &PathBuf, adj: &mut Vec<AdjMap>, rev: &mut Vec<AdjMap>, missing_vertices: &mut HashSet<VertexId>) -> (r: Result<Box<[Edge]>, NetworkError>)
    ensures r matches Ok(es) ==> rows_chain(old(adj)@, final(adj)@, old(rev)@, final(rev)@, old(missing_vertices)@, final(missing_vertices)@, es@)
{ unimplemented!() }
// rule R-vec: `vec![CompactOrderedHashMap::empty(); n]` with a run-time n (assumed: n empty maps)
#[verifier::external_body] pub fn verif_vec_adj(n: usize) -> (r: Vec<AdjMap>)
    ensures r@.len() == n, forall|v: int| 0 <= v < n ==> (#[trigger] r@[v])@ == Map::<EdgeId, VertexId>::empty() { unimplemented!() }
// std: Vec::into_boxed_slice keeps the elements (assumed)
#[verifier::external_body] pub fn verif_into_boxed_slice(v: Vec<AdjMap>) -> (r: Box<[AdjMap]>) ensures r@ == v@ { v.into_boxed_slice() }

/// if NO vertex was recorded as missing after n rows, then every one of those rows has both end points inside the vertex list, sits in the out-list of its source
/// and in the in-list of its destination (induction on n: the missing set only grows, a list only gains keys)
pub proof fn lemma_chain_complete(adjs: Seq<Seq<AdjMap>>, revs: Seq<Seq<AdjMap>>, ms: Seq<Set<VertexId>>, es: Seq<Edge>, n_v: int, i: int, n: int)
    requires chain_ok(adjs, revs, ms, es), adjs[0].len() == n_v, revs[0].len() == n_v, 0 <= n <= es.len(), ms[n] =~= Set::<VertexId>::empty()
    ensures adjs[n].len() == n_v, revs[n].len() == n_v,
            0 <= i < n ==> es[i].src_vertex_id.0 < n_v && es[i].dst_vertex_id.0 < n_v
                && adjs[n][es[i].src_vertex_id.0 as int]@.contains_key(es[i].edge_id) && revs[n][es[i].dst_vertex_id.0 as int]@.contains_key(es[i].edge_id),
    decreases n
{
    if n > 0 {
        assert(chain_step(adjs, revs, ms, es, n - 1));
        let r = es[n - 1];
        let (s, d) = (r.src_vertex_id.0 as int, r.dst_vertex_id.0 as int);
        // the missing set only grows: empty after row n-1 as well
        assert(ms[n - 1] =~= Set::<VertexId>::empty()) by { assert forall|v: VertexId| !(#[trigger] ms[n - 1].contains(v)) by { if ms[n - 1].contains(v) { assert(ms[n].contains(v)); } } }
        lemma_chain_complete(adjs, revs, ms, es, n_v, i, n - 1);
        if s >= n_v { assert(ms[n].contains(r.src_vertex_id)); }
        if d >= n_v { assert(ms[n].contains(r.dst_vertex_id)); }
        if 0 <= i < n - 1 {
            let (si, di) = (es[i].src_vertex_id.0 as int, es[i].dst_vertex_id.0 as int);
            if si == s { assert(adjs[n][si]@ == adjs[n - 1][si]@.insert(r.edge_id, r.dst_vertex_id)); } else { assert(adjs[n][si]@ == adjs[n - 1][si]@); }
            if di == d { assert(revs[n][di]@ == revs[n - 1][di]@.insert(r.edge_id, r.src_vertex_id)); } else { assert(revs[n][di]@ == revs[n - 1][di]@); }
        }
    }
}
/// C15 for one listed edge of a loaded network
pub open spec fn listed_ok(l: EdgeLoader, i: int) -> bool {
    let e = l.edges@[i];
    &&& e.src_vertex_id.0 < l.adj@.len() && e.dst_vertex_id.0 < l.rev@.len()
    &&& l.adj@[e.src_vertex_id.0 as int]@.contains_key(e.edge_id)      // ... is among the out-edges of its source
    &&& l.rev@[e.dst_vertex_id.0 as int]@.contains_key(e.edge_id)      // ... and among the in-edges of its destination
}
"""

GRAPH = """
pub struct Graph { pub adj: Box<[AdjMap]>, pub rev: Box<[AdjMap]>, pub edges: Box<[Edge]>, pub vertices: Box<[Vertex]> }
// rule R3-dyn: `Box<dyn Iterator<Item = &'a EdgeId> + 'a>` is represented by an opaque iterator with a ghost sequence of the ids it will yield
#[verifier::external_body] pub struct EdgeIter<'a> { _p: core::marker::PhantomData<&'a u8> }
impl<'a> EdgeIter<'a> {
    pub uninterp spec fn seq(&self) -> Seq<EdgeId>;
    #[verifier::external_body] pub fn empty() -> (r: EdgeIter<'a>) ensures r.seq() == Seq::<EdgeId>::empty() { unimplemented!() }
}
impl AdjMap {
    /// the keys in slot order (CompactOrderedHashMap::keys; C11 witnesses)
    pub uninterp spec fn key_seq(&self) -> Seq<EdgeId>;
    #[verifier::external_body] pub fn keys<'a>(&'a self) -> (r: EdgeIter<'a>) ensures r.seq() == self.key_seq() { unimplemented!() }
}
"""


def build(x):
    parts = [HEAD]
    edge = x.item_text(N + "edge.rs", "struct Edge")
    parts.append("#[derive(Copy, Clone)]\n" + edge + "\n")
    parts.append(SPEC)
    # ---- rule R5: the row callback closure as a function ----
    tf = x.fn(N + "edge_loader.rs", "impl TryFrom<EdgeLoaderConfig> for EdgeLoader :: fn try_from", under_contract=False)
    m = re.search(r"let cb = Box::new\(\|edge: &Edge\| \{", tf.text)
    if not m:
        raise G.Undecided("lost anchor: row callback closure `let cb = Box::new(|edge: &Edge| {` in EdgeLoader::try_from")
    toks = tf.toks
    ob = next(i for i, t in enumerate(toks) if t.a == m.end() - 1)
    cb = rsx.match_close(toks, ob)
    body = tf.text[toks[ob].a:toks[cb].b]
    body2, n = re.subn(r"let _ = pb\.update\(1\);\s*", "", body)
    if n != 1:
        raise G.Undecided("row callback: progress-bar statement not found exactly once")
    x.note("R5", "EdgeLoader::try_from: closure literal `|edge: &Edge| {..}` extracted as fn edge_row(adj, rev, missing_vertices, edge); `let _ = pb.update(1);` dropped (progress bar)")
    x.functions.append(N + "edge_loader.rs :: EdgeLoader::try_from :: row callback closure")
    fn_text = ("pub fn edge_row(adj: &mut Vec<AdjMap>, rev: &mut Vec<AdjMap>, missing_vertices: &mut HashSet<VertexId>, edge: &Edge)\n"
               "    requires vstd::std_specs::hash::obeys_key_model::<VertexId>(),\n"
               "    ensures row_post(old(adj)@, final(adj)@, old(rev)@, final(rev)@, old(missing_vertices)@, final(missing_vertices)@, *edge),\n" + body2 + "\n")
    parts.append(fn_text)
    # ---- EdgeLoader::try_from as a whole: the callback is edge_row (above), from_csv + callback is one assumed helper ----
    for nm in ("struct EdgeLoader", "struct EdgeLoaderConfig"):
        st = x.item_text(N + "edge_loader.rs", nm)
        st = st.replace("CompactOrderedHashMap<EdgeId, VertexId>", "AdjMap")
        parts.append(st + "\n")
    x.note("R6", "struct EdgeLoader: CompactOrderedHashMap<EdgeId, VertexId> written AdjMap (the container by its contract, unit c11_container)")
    parts.append(LOADER)
    t2 = x.fn(N + "edge_loader.rs", "impl TryFrom<EdgeLoaderConfig> for EdgeLoader :: fn try_from")
    t2.rewrite(r"fn try_from\(c: EdgeLoaderConfig\) -> Result<Self, Self::Error>", "pub fn try_from(c: EdgeLoaderConfig) -> Result<EdgeLoader, NetworkError>", 1, 1, rule="R3")
    t2.rewrite(r"let mut (adj|rev): Vec<CompactOrderedHashMap<EdgeId, VertexId>> =\s*vec!\[CompactOrderedHashMap::empty\(\); c\.n_vertices\];", r"let mut \1: Vec<AdjMap> = verif_vec_adj(c.n_vertices);", 2, 2, rule="R-vec")
    t2.rewrite(r"let mut pb = Bar::builder\(\).*?\?;", "", 1, 1, flags=re.S, rule="R-progress")
    x.note("R-progress", "EdgeLoader::try_from: the statement that builds the progress bar is dropped (its only effect on the result is an early Err)")
    m2 = re.search(r"let cb = Box::new\(", t2.text)
    if not m2:
        raise G.Undecided("lost anchor: `let cb = Box::new(` in EdgeLoader::try_from")
    tk = t2.toks
    o2 = next(i for i, t in enumerate(tk) if t.a == m2.end() - 1)
    c2 = rsx.match_close(tk, o2)
    closure_stmt = t2.text[m2.start():tk[c2].b]
    t2.rewrite(re.escape(closure_stmt) + r"\s*;", "", 1, 1, rule="R5")
    t2.rewrite(r"read_utils::from_csv\(&c\.edge_list_csv, true, Some\(cb\)\)\?", "verif_from_csv_rows(&c.edge_list_csv, &mut adj, &mut rev, &mut missing_vertices)?", 1, 1, rule="R5-rows")
    x.note("R5-rows", "EdgeLoader::try_from: `read_utils::from_csv(&path, true, Some(cb))` written verif_from_csv_rows(&path, &mut adj, &mut rev, &mut missing_vertices): reads ANY rows and processes them in order as edge_row does (assumed helper)")
    t2.strip_macro_stmts(r"eprintln")
    t2.replace_macro_calls(r"format", "verif_format()")
    t2.rewrite(r"\b(adj|rev)\.into_boxed_slice\(\)", r"verif_into_boxed_slice(\1)", 2, 2, rule="R-boxed")
    t2.name_return("r")
    t2.add_spec("""        requires vstd::std_specs::hash::obeys_key_model::<VertexId>(),
        ensures
            // C15: a load that succeeds exposes, for EVERY listed edge, the edge in the out-list of its source and in the in-list of its destination: the forward
            // and the reverse view describe the same edge set, the listed one (an edge list naming a vertex outside the vertex list is refused)
            r matches Ok(l) ==> l.adj@.len() == c.n_vertices && l.rev@.len() == c.n_vertices
                && forall|i: int| 0 <= i < l.edges@.len() ==> #[trigger] listed_ok(l, i),""")
    t2.insert_before(r"let edges = verif_from_csv_rows", "        let ghost adj0 = adj@; let ghost rev0 = rev@; let ghost m0 = missing_vertices@;\n        ")
    t2.insert_before(r"let result = EdgeLoader \{", """        proof {
            let n = edges@.len() as int;
            assert(rows_chain(adj0, adj@, rev0, rev@, m0, missing_vertices@, edges@));
            let (adjs, revs, ms) = choose|adjs: Seq<Seq<AdjMap>>, revs: Seq<Seq<AdjMap>>, ms: Seq<Set<VertexId>>| #[trigger] chain_ok(adjs, revs, ms, edges@)
                && adjs[0] == adj0 && adjs[n] == adj@ && revs[0] == rev0 && revs[n] == rev@ && ms[0] == m0 && ms[n] == missing_vertices@;
            // no vertex was recorded as missing (the guard above)
            if missing_vertices@.len() == 0 { missing_vertices@.lemma_len0_is_empty(); }
            /*verif:obligation (a load that goes on to succeed has recorded NO missing vertex)*/ assert(ms[n] =~= Set::<VertexId>::empty());
            assert forall|i: int| 0 <= i < n implies es_listed(adj@, rev@, edges@, i) by { lemma_chain_complete(adjs, revs, ms, edges@, c.n_vertices as int, i, n); }
            lemma_chain_complete(adjs, revs, ms, edges@, c.n_vertices as int, 0, n);
        }
        let ghost adj1 = adj@; let ghost rev1 = rev@;
        """)
    t2.insert_before(r"Ok\(result\)", """proof { assert forall|i: int| 0 <= i < result.edges@.len() implies #[trigger] listed_ok(result, i) by { assert(es_listed(adj1, rev1, result.edges@, i)); } }
        """)
    parts.append("""pub open spec fn es_listed(adj: Seq<AdjMap>, rev: Seq<AdjMap>, es: Seq<Edge>, i: int) -> bool {
    let e = es[i];
    e.src_vertex_id.0 < adj.len() && e.dst_vertex_id.0 < rev.len() && adj[e.src_vertex_id.0 as int]@.contains_key(e.edge_id) && rev[e.dst_vertex_id.0 as int]@.contains_key(e.edge_id)
}
impl EdgeLoader {
""" + t2.text + "\n}\n")
    parts.append(ROWS)
    # ---- Graph lookups ----
    parts.append(GRAPH)
    gf = []
    for name, spec in [
        ("get_edge", "ensures (r is Ok <==> edge_id.0 < self.edges@.len()), r matches Ok(e) ==> *e == self.edges@[edge_id.0 as int], r matches Err(err) ==> err == NetworkError::EdgeNotFound(*edge_id),"),
        ("get_vertex", "ensures (r is Ok <==> vertex_id.0 < self.vertices@.len()), r matches Err(err) ==> err == NetworkError::VertexNotFound(*vertex_id),"),
        ("src_vertex_id", "ensures (r is Ok <==> edge_id.0 < self.edges@.len()), r matches Ok(v) ==> v == self.edges@[edge_id.0 as int].src_vertex_id,"),
        ("dst_vertex_id", "ensures (r is Ok <==> edge_id.0 < self.edges@.len()), r matches Ok(v) ==> v == self.edges@[edge_id.0 as int].dst_vertex_id,"),
        ("edge_triplet", "ensures r matches Ok(t) ==> edge_id.0 < self.edges@.len() && *t.1 == self.edges@[edge_id.0 as int],"),
    ]:
        f = x.fn(N + "graph.rs", "impl Graph :: fn " + name)
        f.rewrite(r"\.map\(\|e\| e\.(src|dst)_vertex_id\)", r".map(|e: &Edge| -> (cr: VertexId) ensures cr == e.\1_vertex_id { e.\1_vertex_id })", 0, 1, rule="R-closure")
        f.name_return("r")
        f.add_spec("        " + spec)
        gf.append(f.text)
    for name, fld in [("out_edges_iter", "adj"), ("in_edges_iter", "rev")]:
        f = x.fn(N + "graph.rs", "impl Graph :: fn " + name)
        f.rewrite(r"Box<dyn Iterator<Item = &'a EdgeId> \+ 'a>", "EdgeIter<'a>", 1, 1, rule="R3-dyn")
        f.rewrite(r"Box::new\(std::iter::empty\(\)\)", "EdgeIter::empty()", 0, 1, rule="R3-dyn")
        f.name_return("r")
        arg = "src" if name == "out_edges_iter" else "dst"
        f.add_spec("""        ensures
            // C12/C15: a vertex id outside the graph has no incident edges (no panic); otherwise exactly the keys of that vertex' adjacency map, in slot order
            r.seq() == (if %s.0 < self.%s@.len() { self.%s@[%s.0 as int].key_seq() } else { Seq::<EdgeId>::empty() }),""" % (arg, fld, fld, arg))
        gf.append(f.text)
    x.note("R3-dyn", "Graph::out_edges_iter / in_edges_iter: return type `Box<dyn Iterator<Item = &'a EdgeId> + 'a>` written EdgeIter<'a> (opaque, ghost sequence); `Box::new(std::iter::empty())` written EdgeIter::empty()")
    parts.append("impl Graph {\n" + "\n".join(gf) + "\n}\n")
    parts.append("""
// vacuity guard: MUST FAIL
pub fn vacuity_probe(g: &Graph, e: &EdgeId) -> (r: bool) ensures false { g.get_edge(e).is_ok() }
} // verus!
fn main() {}
""")
    return "\n".join(parts)
