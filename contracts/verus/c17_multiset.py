"""C17.1 / C12.1 -- MultiSet: the index iterator behind grid search [V, unbounded: any number of axes, any lengths].

Extracted verbatim from routee-compass-core/src/util/multiset.rs: struct MultiSet, From::from, Iterator::next.
Rewrites (each replaces an iterator-adapter pipeline Verus rejects by a helper with an ASSUMED contract):
  R-gather : `position.iter().zip(0..self.sets.len()).map(|(j, i)| self.sets[i][*j]).collect()` -> verif_gather(self.sets, position)
  R-zero   : `for r in X.iter_mut().take(N) { *r = 0; }`                                         -> verif_zero_prefix(&mut X, N)
  R-final  : `sets.iter().map(|v| v.len().saturating_sub(1)).collect()` -> verif_final_pos(sets);  `sets.iter().any(|v| v.is_empty())` -> verif_any_empty(sets)
  R-tovec  : `position.to_vec()` -> verif_to_vec(position);  `vec![0; n]` -> verif_zeros(n)
  R9-named : `for idx in 0..n` -> `for idx in verif_it: 0..n` (named ghost iterator)
  R3       : `impl Iterator for MultiSet { fn next }` written as an inherent method (`Self::Item` -> `Vec<T>`), T instantiated at u64 (R6)
"""
import genlib as G

F = "routee-compass-core/src/util/multiset.rs"
OBLIGATIONS = ["next", "from", "lemma_step_value"]
MUST_FAIL = ["vacuity_probe"]

HEAD = """#![allow(unused_imports, unused_variables, dead_code, unused_mut, unused_parens, unused_assignments)]
use vstd::prelude::*;
verus! {
pub type T = u64;
#[verifier::external_body] pub fn verif_gather(sets: &Vec<Vec<T>>, position: &Vec<usize>) -> (r: Vec<T>)
    requires position@.len() == sets@.len(), forall|i: int| 0 <= i < sets@.len() ==> position@[i] < (#[trigger] sets@[i])@.len(),
    ensures r@.len() == sets@.len(), forall|i: int| 0 <= i < sets@.len() ==> #[trigger] r@[i] == sets@[i]@[position@[i] as int]
{ unimplemented!() }
#[verifier::external_body] pub fn verif_zero_prefix(v: &mut Vec<usize>, n: usize)
    ensures final(v)@.len() == old(v)@.len(), forall|k: int| 0 <= k < old(v)@.len() ==> #[trigger] final(v)@[k] == (if k < n { 0usize } else { old(v)@[k] })
{ unimplemented!() }
#[verifier::external_body] pub fn verif_final_pos(sets: &Vec<Vec<T>>) -> (r: Vec<usize>)       // per axis: len.saturating_sub(1)  (the subtraction itself: Kani obligation c12_multiset_final_pos_no_underflow)
    ensures r@.len() == sets@.len(), forall|i: int| 0 <= i < sets@.len() ==> #[trigger] r@[i] == (if sets@[i].len() == 0 { 0usize } else { (sets@[i].len() - 1) as usize })
{ unimplemented!() }
#[verifier::external_body] pub fn verif_any_empty(sets: &Vec<Vec<T>>) -> (r: bool) ensures r == exists|i: int| 0 <= i < sets@.len() && (#[trigger] sets@[i])@.len() == 0 { unimplemented!() }
#[verifier::external_body] pub fn verif_to_vec(v: &Vec<usize>) -> (r: Vec<usize>) ensures r@ == v@ { v.to_vec() }
#[verifier::external_body] pub fn verif_zeros(n: usize) -> (r: Vec<usize>) ensures r@.len() == n, forall|k: int| 0 <= k < n ==> #[trigger] r@[k] == 0 { vec![0; n] }

// ===== the mixed-radix successor, first axis fastest (the statement of C17, written independently of the code) =====
/// least index j >= i with p[j] < fin[j]; p.len() if there is none
pub open spec fn first_lt(p: Seq<usize>, fin: Seq<usize>, i: int) -> int decreases p.len() - i
{ if i < 0 || i >= p.len() { p.len() as int } else if p[i] < fin[i] { i } else { first_lt(p, fin, i + 1) } }
pub open spec fn step(p: Seq<usize>, fin: Seq<usize>) -> Option<Seq<usize>> {
    let j = first_lt(p, fin, 0);
    if j >= p.len() { None } else { Some(Seq::new(p.len(), |k: int| if k < j { 0usize } else if k == j { (p[j] + 1) as usize } else { p[k] })) }
}
pub proof fn lemma_first_lt(p: Seq<usize>, fin: Seq<usize>, i: int, j: int)
    requires 0 <= i <= j <= p.len(), p.len() == fin.len(), forall|k: int| i <= k < j ==> p[k] >= fin[k], j < p.len() ==> p[j] < fin[j]
    ensures first_lt(p, fin, i) == j
    decreases j - i
{ if i < j { lemma_first_lt(p, fin, i + 1, j); } }
/// the number a tuple denotes: sum_i p[i] * prod_{k<i} (fin[k] + 1)
pub open spec fn radix(fin: Seq<usize>, i: int) -> int decreases i { if i <= 0 { 1 } else { radix(fin, i - 1) * (fin[i - 1] + 1) } }
pub open spec fn value(p: Seq<usize>, fin: Seq<usize>, n: int) -> int decreases n { if n <= 0 { 0 } else { value(p, fin, n - 1) + p[n - 1] * radix(fin, n - 1) } }
"""

LEMMA = """
/// C17: each step advances the denoted number by exactly one -- so starting from all zeros (number 0) the t-th item is the mixed-radix tuple of t,
/// every index tuple occurs exactly once, and the iteration stops after the tuple denoting prod(len) - 1
pub proof fn lemma_value_prefix(p: Seq<usize>, q: Seq<usize>, fin: Seq<usize>, n: int)
    requires 0 <= n <= p.len(), p.len() == q.len(), forall|k: int| 0 <= k < n ==> p[k] == q[k]
    ensures value(p, fin, n) == value(q, fin, n)
    decreases n
{ if n > 0 { lemma_value_prefix(p, q, fin, n - 1); } }
pub proof fn lemma_value_full(p: Seq<usize>, fin: Seq<usize>, n: int)
    requires 0 <= n <= p.len(), p.len() == fin.len(), forall|k: int| 0 <= k < n ==> p[k] == fin[k]
    ensures value(p, fin, n) == radix(fin, n) - 1
    decreases n
{
    if n > 0 {
        lemma_value_full(p, fin, n - 1);
        assert(value(p, fin, n) == (radix(fin, n - 1) - 1) + fin[n - 1] * radix(fin, n - 1));
        assert(radix(fin, n) == radix(fin, n - 1) * (fin[n - 1] + 1));
        assert((radix(fin, n - 1) - 1) + fin[n - 1] * radix(fin, n - 1) == radix(fin, n - 1) * (fin[n - 1] + 1) - 1) by (nonlinear_arith);
    }
}
pub proof fn lemma_value_zero(p: Seq<usize>, fin: Seq<usize>, n: int)
    requires 0 <= n <= p.len(), forall|k: int| 0 <= k < n ==> p[k] == 0
    ensures value(p, fin, n) == 0
    decreases n
{ if n > 0 { lemma_value_zero(p, fin, n - 1); assert(p[n - 1] * radix(fin, n - 1) == 0) by (nonlinear_arith) requires p[n - 1] == 0; } }
pub proof fn lemma_value_suffix(p: Seq<usize>, q: Seq<usize>, fin: Seq<usize>, j: int, n: int)
    requires 0 <= j < n <= p.len(), p.len() == q.len(), forall|k: int| j < k < n ==> p[k] == q[k]
    ensures value(q, fin, n) - value(q, fin, j + 1) == value(p, fin, n) - value(p, fin, j + 1)
    decreases n
{ if n > j + 1 { lemma_value_suffix(p, q, fin, j, n - 1); } }
pub proof fn lemma_step_value(p: Seq<usize>, fin: Seq<usize>)
    requires p.len() == fin.len(), forall|k: int| 0 <= k < p.len() ==> p[k] <= fin[k]
    ensures step(p, fin) matches Some(q) ==> value(q, fin, p.len() as int) == value(p, fin, p.len() as int) + 1
                && forall|k: int| 0 <= k < p.len() ==> #[trigger] q[k] <= fin[k],
            // the last tuple denotes prod(len) - 1
            step(p, fin) is None ==> value(p, fin, p.len() as int) == radix(fin, p.len() as int) - 1,
{
    let n = p.len() as int;
    let j = first_lt(p, fin, 0);
    lemma_first_lt_props(p, fin, 0);
    if j >= n {
        assert forall|k: int| 0 <= k < n implies p[k] == fin[k] by { }
        lemma_value_full(p, fin, n);
    } else {
        let q = step(p, fin)->Some_0;
        assert forall|k: int| 0 <= k < j implies p[k] == fin[k] by { }
        lemma_value_full(p, fin, j);
        lemma_value_zero(q, fin, j);
        assert(value(q, fin, j + 1) == value(q, fin, j) + q[j] * radix(fin, j));
        assert(value(p, fin, j + 1) == value(p, fin, j) + p[j] * radix(fin, j));
        assert(q[j] == p[j] + 1);
        assert((p[j] + 1) * radix(fin, j) == p[j] * radix(fin, j) + radix(fin, j)) by (nonlinear_arith);
        lemma_value_suffix(p, q, fin, j, n);
    }
}
pub proof fn lemma_first_lt_props(p: Seq<usize>, fin: Seq<usize>, i: int)
    requires 0 <= i <= p.len(), p.len() == fin.len(), forall|k: int| 0 <= k < p.len() ==> p[k] <= fin[k]
    ensures i <= first_lt(p, fin, i) <= p.len(), forall|k: int| i <= k < first_lt(p, fin, i) ==> p[k] == fin[k],
            first_lt(p, fin, i) < p.len() ==> p[first_lt(p, fin, i)] < fin[first_lt(p, fin, i)]
    decreases p.len() - i
{ if i < p.len() && !(p[i] < fin[i]) { lemma_first_lt_props(p, fin, i + 1); } }
"""


def build(x):
    parts = [HEAD]
    st = x.item_text(F, "struct MultiSet")
    st = st.replace("pub struct MultiSet<'a, T: Clone + Copy> {", "pub struct MultiSet<'a> {").replace("    sets:", "    pub sets:").replace("    pos:", "    pub pos:").replace("    final_pos:", "    pub final_pos:")
    x.note("R6", "struct MultiSet<'a, T: Clone + Copy>: T instantiated at `type T = u64`; fields made pub (R2)")
    parts.append(st + """
impl<'a> MultiSet<'a> {
    pub open spec fn wf(&self) -> bool {
        &&& self.final_pos@.len() == self.sets@.len()
        &&& (self.pos matches Some(p) ==> p@.len() == self.sets@.len() && (forall|i: int| 0 <= i < p@.len() ==> #[trigger] p@[i] <= self.final_pos@[i])
                && forall|i: int| 0 <= i < self.sets@.len() ==> #[trigger] self.final_pos@[i] + 1 == self.sets@[i]@.len())
    }
}
""")
    # ---- from ----
    fr = x.fn(F, "impl<'a, T> From<&'a Vec<Vec<T>>> for MultiSet<'a, T> :: fn from")
    fr.rewrite(r"fn from\(sets: &'a Vec<Vec<T>>\) -> Self", "pub fn from(sets: &'a Vec<Vec<T>>) -> MultiSet<'a>", 1, 1, rule="R3")
    fr.rewrite(r"sets\.iter\(\)\.map\(\|v\| v\.len\(\)\.saturating_sub\(1\)\)\.collect\(\)", "verif_final_pos(sets)", 1, 1, rule="R-final")
    fr.rewrite(r"sets\.iter\(\)\.any\(\|v\| v\.is_empty\(\)\)", "verif_any_empty(sets)", 1, 1, rule="R-final")
    fr.rewrite(r"vec!\[0; sets\.len\(\)\]", "verif_zeros(sets.len())", 1, 1, rule="R-tovec")
    fr.insert_before(r"MultiSet \{", """        proof {
            if pos is Some {
                assert forall|i: int| 0 <= i < sets@.len() implies #[trigger] final_pos@[i] + 1 == sets@[i]@.len() by { assert(sets@[i]@.len() != 0); assert(sets@[i]@.len() == sets@[i].len()); }
            }
        }""")
    fr.name_return("r")
    fr.add_spec("""        ensures r.wf(), r.sets == sets,
            // an empty axis makes the whole product empty; otherwise the iteration starts at the all-zero tuple
            (exists|i: int| 0 <= i < sets@.len() && (#[trigger] sets@[i])@.len() == 0) ==> r.pos is None,
            (forall|i: int| 0 <= i < sets@.len() ==> (#[trigger] sets@[i])@.len() >= 1) ==> r.pos is Some && forall|k: int| 0 <= k < sets@.len() ==> #[trigger] r.pos->Some_0@[k] == 0,""")
    # ---- next ----
    nx = x.fn(F, "impl<T> Iterator for MultiSet<'_, T> :: fn next")
    nx.rewrite(r"fn next\(&mut self\) -> Option<Self::Item>", "pub fn next(&mut self) -> Option<Vec<T>>", 1, 1, rule="R3")
    nx.rewrite(r"position\s*\.iter\(\)\s*\.zip\(0\.\.self\.sets\.len\(\)\)\s*\.map\(\|\(j, i\)\| self\.sets\[i\]\[\*j\]\)\s*\.collect\(\)", "verif_gather(self.sets, position)", 1, 1, rule="R-gather")
    nx.rewrite(r"position\.to_vec\(\)", "verif_to_vec(position)", 1, 1, rule="R-tovec")
    nx.rewrite(r"for r in (\w+)\.iter_mut\(\)\.take\(([^{]*?)\) \{\s*\*r = 0;\s*\}", r"verif_zero_prefix(&mut \1, \2);", 1, 2, rule="R-zero")
    nx.rewrite(r"for idx in 0\.\.self\.sets\.len\(\) \{", """for idx in verif_it: 0..self.sets.len()
                    invariant_except_break
                        finished <==> self.sets@.len() == 0,
                        verif_it.index@ < self.sets@.len() || self.sets@.len() == 0,
                        // every axis before idx was exhausted and has been reset; the others are untouched
                        forall|k: int| 0 <= k < verif_it.index@ ==> position@[k] >= self.final_pos@[k],
                        forall|k: int| 0 <= k < next_pos@.len() ==> #[trigger] next_pos@[k] == (if k < verif_it.index@ { 0usize } else { position@[k] }),
                    invariant
                        old(self).wf(), self.sets == old(self).sets, self.final_pos == old(self).final_pos, old(self).pos == Some(*position),
                        next_pos@.len() == position@.len(),
                    ensures
                        // at loop exit: finished <=> no successor; otherwise next_pos is the successor
                        self.sets@.len() > 0 ==> (finished <==> step(position@, self.final_pos@) is None),
                        (self.sets@.len() > 0 && !finished) ==> step(position@, self.final_pos@) == Some(next_pos@),
                        self.sets@.len() == 0 ==> finished,
                {""", 1, 1, rule="R9-named")
    x.note("R9-named", "MultiSet::next: `for idx in 0..self.sets.len()` written with Verus' named ghost iterator to carry the loop invariant")
    nx.name_return("r")
    nx.add_spec("""        requires old(self).wf(),
        ensures final(self).wf(), final(self).sets == old(self).sets, final(self).final_pos == old(self).final_pos,
            old(self).pos is None ==> r is None && final(self).pos is None,
            old(self).pos matches Some(p) ==> r is Some && r->Some_0@.len() == old(self).sets@.len()
                && (forall|i: int| 0 <= i < old(self).sets@.len() ==> #[trigger] r->Some_0@[i] == old(self).sets@[i]@[p@[i] as int])
                // C17: the next position is the mixed-radix successor; None after the last tuple -- for ANY number of axes, including zero
                && (match step(p@, old(self).final_pos@) { Some(q) => final(self).pos is Some && final(self).pos->Some_0@ == q, None => final(self).pos is None }),""")
    nx.insert_before(r"next_pos\[idx\] \+= 1;", """                        proof { lemma_first_lt(position@, self.final_pos@, 0, idx as int); }
                        let ghost np0 = next_pos@;""")
    nx.insert_after(r"next_pos\[idx\] \+= 1;", """                        proof {
                            let q = step(position@, self.final_pos@)->Some_0;
                            assert(next_pos@ =~= q);
                        }""")
    nx.insert_before(r"if finished \{", "                proof { lemma_step_value(position@, self.final_pos@); }")
    nx.insert_before(r"finished = true;", "                        proof { lemma_first_lt(position@, self.final_pos@, 0, position@.len() as int); }")
    parts.append("impl<'a> MultiSet<'a> {\n" + fr.text + "\n" + nx.text + "\n}\n")
    parts.append(LEMMA)
    parts.append("""
// vacuity guard: MUST FAIL
pub fn vacuity_probe(m: &mut MultiSet) -> (r: bool) requires old(m).wf() ensures false { m.next().is_some() }
} // verus!
fn main() {}
""")
    return "\n".join(parts)
