"""C03.4 / C11.3 -- StateModel accessors under contract [V-real].

Extracted verbatim from routee-compass-core/src/model/state/state_model.rs:
get_distance/time/energy, set_distance/time/energy, add_distance/time/energy, get_delta,
get_state_variable, get_feature, update_state; update_operation.rs: enum UpdateOperation +
perform_operation; DistanceUnit / TimeUnit / EnergyUnit (+ convert; spec tables as in C09).
Shims (assumed): the feature container `self.0` (CompactOrderedHashMap<String, StateFeature>: get / get_index
by the contracts of unit c11_container), StateFeature::get_*_unit, From conversions between StateVar and the
unit newtypes.
"""
import prelude as P
import genlib as G
import c04_frontier as C4

S = "routee-compass-core/src/model/state/"
U = "routee-compass-core/src/model/unit/"
OBLIGATIONS = ["get_distance", "get_time", "get_energy", "set_distance", "set_time", "set_energy", "add_distance", "add_time", "add_energy",
               "get_delta", "get_state_variable", "get_feature", "update_state", "perform_operation", "lemma_accumulate_distance"]
MUST_FAIL = ["vacuity_probe"]

SHIMS = """
#[derive(Copy, Clone)] pub struct StateVar(pub f64);
impl vstd::std_specs::ops::SubSpecImpl<StateVar> for StateVar {
    open spec fn obeys_sub_spec() -> bool { true }
    open spec fn sub_req(self, rhs: StateVar) -> bool { true }
    open spec fn sub_spec(self, rhs: StateVar) -> StateVar { StateVar(self.0.sub_spec(rhs.0)) }
}
impl core::ops::Sub<StateVar> for StateVar { type Output = StateVar; fn sub(self, rhs: StateVar) -> StateVar { proof { areal_sub_req(self.0, rhs.0); areal_obeys(); } StateVar(self.0 - rhs.0) } }
pub open spec fn sv(s: Seq<StateVar>, i: int) -> real { f64_real(s[i].0) }
#[verifier::external_body] pub struct StateModelError { _p: u8 }
#[verifier::external_body] pub fn verif_error() -> StateModelError { unimplemented!() }
#[verifier::external_body] pub fn verif_format() -> String { String::new() }

// ---- StateFeature: opaque; which unit a feature is kept in (assumed accessors) ----
#[verifier::external_body] pub struct StateFeature { _p: u8 }
pub uninterp spec fn f_dunit(f: &StateFeature) -> Option<DistanceUnit>;
pub uninterp spec fn f_tunit(f: &StateFeature) -> Option<TimeUnit>;
pub uninterp spec fn f_eunit(f: &StateFeature) -> Option<EnergyUnit>;
impl StateFeature {
    #[verifier::external_body] pub fn get_distance_unit(&self) -> (r: Result<DistanceUnit, StateModelError>) ensures r matches Ok(u) ==> f_dunit(self) == Some(u) { unimplemented!() }
    #[verifier::external_body] pub fn get_time_unit(&self) -> (r: Result<TimeUnit, StateModelError>) ensures r matches Ok(u) ==> f_tunit(self) == Some(u) { unimplemented!() }
    #[verifier::external_body] pub fn get_energy_unit(&self) -> (r: Result<EnergyUnit, StateModelError>) ensures r matches Ok(u) ==> f_eunit(self) == Some(u) { unimplemented!() }
}
// ---- the feature container self.0 (CompactOrderedHashMap<String, StateFeature>); contracts of unit c11_container ----
#[verifier::external_body] pub struct FeatureMap { _p: u8 }
pub uninterp spec fn slot_of(m: &FeatureMap, name: Seq<char>) -> Option<int>;       // index_of of c11_container
pub uninterp spec fn feat_of(m: &FeatureMap, name: Seq<char>) -> StateFeature;     // value_of of c11_container
impl FeatureMap {
    #[verifier::external_body] pub fn get_index(&self, k: &String) -> (r: Option<usize>)
        ensures r is Some <==> slot_of(self, k@) is Some, r matches Some(i) ==> slot_of(self, k@) == Some(i as int) { unimplemented!() }
    #[verifier::external_body] pub fn get(&self, k: &String) -> (r: Option<&StateFeature>)
        ensures r is Some <==> slot_of(self, k@) is Some, r matches Some(f) ==> *f == feat_of(self, k@) { unimplemented!() }
}
pub struct StateModel(pub FeatureMap);
impl StateModel {
    #[verifier::external_body] pub fn get_names(&self) -> String { String::new() }
    pub open spec fn slot(&self, name: Seq<char>) -> int { slot_of(&self.0, name)->Some_0 }
    pub open spec fn dunit(&self, name: Seq<char>) -> DistanceUnit { f_dunit(&feat_of(&self.0, name))->Some_0 }
    pub open spec fn tunit(&self, name: Seq<char>) -> TimeUnit { f_tunit(&feat_of(&self.0, name))->Some_0 }
    pub open spec fn eunit(&self, name: Seq<char>) -> EnergyUnit { f_eunit(&feat_of(&self.0, name))->Some_0 }
}
/// frame: only the named slot may change
pub open spec fn only_slot(o: Seq<StateVar>, n: Seq<StateVar>, i: int) -> bool {
    n.len() == o.len() && forall|j: int| 0 <= j < o.len() && j != i ==> #[trigger] n[j] == o[j]
}
"""

CONV = """
macro_rules! conv_sv { ($t:ident) => { verus! {
    impl vstd::std_specs::convert::FromSpecImpl<StateVar> for $t { open spec fn obeys_from_spec() -> bool { true } open spec fn from_spec(v: StateVar) -> $t { $t(v.0) } }
    impl From<StateVar> for $t { fn from(value: StateVar) -> $t { $t(value.0) } }
    impl vstd::std_specs::convert::FromSpecImpl<$t> for StateVar { open spec fn obeys_from_spec() -> bool { true } open spec fn from_spec(v: $t) -> StateVar { StateVar(v.0) } }
    impl From<$t> for StateVar { fn from(value: $t) -> StateVar { StateVar(value.0) } }
} } }
conv_sv!(Distance); conv_sv!(Time); conv_sv!(Energy);
"""

LEMMAS = """
/// C03: along a route the distance slot is the initial value plus the sum of the (converted) edge lengths -- one induction step:
/// if every add obeys the contract of add_distance, n adds give initial + sum, and the slot never decreases for non-negative lengths
pub open spec fn sum_conv(sm: &StateModel, name: Seq<char>, ds: Seq<(real, DistanceUnit)>) -> real
    decreases ds.len()
{ if ds.len() == 0 { 0real } else { sum_conv(sm, name, ds.drop_last()) + conv_DistanceUnit(ds.last().1, sm.dunit(name), ds.last().0) } }
pub proof fn lemma_accumulate_distance(sm: &StateModel, name: Seq<char>, states: Seq<Seq<StateVar>>, ds: Seq<(real, DistanceUnit)>)
    requires states.len() == ds.len() + 1,
             forall|k: int| 0 <= k < ds.len() ==> sv(#[trigger] states[k + 1], sm.slot(name)) == sv(states[k], sm.slot(name)) + conv_DistanceUnit(ds[k].1, sm.dunit(name), ds[k].0),
    ensures sv(states.last(), sm.slot(name)) == sv(states[0], sm.slot(name)) + sum_conv(sm, name, ds)
    decreases ds.len()
{
    if ds.len() > 0 {
        let n = ds.len() as int;
        lemma_accumulate_distance(sm, name, states.drop_last(), ds.drop_last());
        assert(states.drop_last().last() == states[n - 1]);
        assert(states.drop_last()[0] == states[0]);
        assert(sv(states[n], sm.slot(name)) == sv(states[n - 1], sm.slot(name)) + conv_DistanceUnit(ds[n - 1].1, sm.dunit(name), ds[n - 1].0));
    }
}
"""


def build(x):
    parts, texts = [], []
    for t in ("Distance", "Time", "Energy"):
        parts.append(P.numtype(t))
    parts.append(P.field_typed("StateVar"))
    fam = {}
    for enum, val, fname in [("DistanceUnit", "Distance", "distance_unit.rs"), ("TimeUnit", "Time", "time_unit.rs"), ("EnergyUnit", "Energy", "energy_unit.rs")]:
        fam[enum] = C4.family(x, enum, val, fname)
        texts.append(fam[enum][2])
        parts.append("#[derive(Clone, Copy, PartialEq, Eq)]\n" + fam[enum][0] + "\n")
        parts.append(fam[enum][1])
        parts.append("impl %s {\n    %s\n}\n" % (enum, fam[enum][2]))
    parts.append(SHIMS)
    parts.append(CONV)
    uo = x.item_text(S + "update_operation.rs", "enum UpdateOperation")
    uo, _ = G.strip_inner_attrs(uo)
    parts.append(uo.replace("pub(crate) enum", "pub enum") + "\n")
    po = x.fn(S + "update_operation.rs", "impl UpdateOperation :: fn perform_operation")
    po.name_return("r")
    po.add_spec("        ensures self is Replace ==> r == *next,")
    parts.append("impl UpdateOperation {\n" + po.text + "\n}\n")
    fns = []

    def fn(name, spec, pub=False):
        f = x.fn(S + "state_model.rs", "impl StateModel :: fn " + name)
        f.replace_macro_calls(r"format", "verif_format()")
        if pub:
            f.rewrite(r"\A(\s*)fn ", r"\1pub fn ", 0, 1, rule="R2")
        f.name_return("r")
        f.add_spec(spec)
        f.body_start("        broadcast use areal, lits; proof { areal_obeys(); }")
        fns.append(f)
        texts.append(f.text)
        return f

    g = fn("get_feature", """        ensures r is Ok <==> slot_of(&self.0, feature_name@) is Some,
                r matches Ok(f) ==> *f == feat_of(&self.0, feature_name@),""", pub=True)
    g.rewrite(r"\.ok_or_else\(\|\| \{\s*StateModelError::UnknownStateVariableName\(feature_name\.clone\(\), self\.get_names\(\)\)\s*\}\)", ".ok_or_else(|| -> (cr: StateModelError) { verif_error() })", 1, 1, rule="R-closure")
    g = fn("get_state_variable", """        ensures r matches Ok(v) ==> slot_of(&self.0, name@) is Some && 0 <= self.slot(name@) < state@.len() && v == state@[self.slot(name@)],""", pub=True)
    g.rewrite(r"\.ok_or_else\(\|\| \{\s*StateModelError::UnknownStateVariableName\(name\.clone\(\), self\.get_names\(\)\)\s*\}\)", ".ok_or_else(|| -> (cr: StateModelError) { verif_error() })", 1, 1, rule="R-closure")
    g.rewrite(r"\.ok_or_else\(\|\| \{\s*StateModelError::RuntimeError\(verif_format\(\)\)\s*\}\)", ".ok_or_else(|| -> (cr: StateModelError) { verif_error() })", 1, 1, rule="R-closure")
    g = fn("update_state", """        ensures r is Ok ==> slot_of(&self.0, name@) is Some && 0 <= self.slot(name@) < old(state)@.len() && only_slot(old(state)@, final(state)@, self.slot(name@))
                    && (op is Replace ==> final(state)@[self.slot(name@)] == *value),
                final(state)@.len() == old(state)@.len(),""", pub=True)
    g.rewrite(r"\.ok_or_else\(\|\| \{\s*StateModelError::UnknownStateVariableName\(name\.clone\(\), self\.get_names\(\)\)\s*\}\)", ".ok_or_else(|| -> (cr: StateModelError) { verif_error() })", 1, 1, rule="R-closure")
    g.rewrite(r"\.ok_or\(StateModelError::InvalidStateVariableIndex\(\s*index,\s*state\.len\(\),\s*\)\)", ".ok_or(verif_error())", 1, 1, rule="R-format")
    x.note("R-format", "StateModel: error values built from names / indices are replaced by verif_error() (error content is not modelled)")
    for kind, ty, un, sp in [("distance", "Distance", "DistanceUnit", "dunit"), ("time", "Time", "TimeUnit", "tunit"), ("energy", "Energy", "EnergyUnit", "eunit")]:
        fn("get_" + kind, """        ensures r matches Ok(v) ==> slot_of(&self.0, name@) is Some && 0 <= self.slot(name@) < state@.len()
                    && v@ == conv_%s(self.%s(name@), *unit, sv(state@, self.slot(name@))),""" % (un, sp))
        fn("set_" + kind, """        ensures final(state)@.len() == old(state)@.len(),
                r is Ok ==> slot_of(&self.0, name@) is Some && 0 <= self.slot(name@) < old(state)@.len() && only_slot(old(state)@, final(state)@, self.slot(name@))
                    && sv(final(state)@, self.slot(name@)) == conv_%s(*from_unit, self.%s(name@), %s@),""" % (un, sp, kind))
        fn("add_" + kind, """        ensures final(state)@.len() == old(state)@.len(),
                // C03: the slot grows by exactly the increment converted to the feature's unit; nothing else changes
                r is Ok ==> slot_of(&self.0, name@) is Some && 0 <= self.slot(name@) < old(state)@.len() && only_slot(old(state)@, final(state)@, self.slot(name@))
                    && sv(final(state)@, self.slot(name@)) == sv(old(state)@, self.slot(name@)) + conv_%s(*from_unit, self.%s(name@), %s@),""" % (un, sp, kind))
    fn("get_delta", """        ensures r matches Ok(d) ==> slot_of(&self.0, name@) is Some && f64_real(d.0) == sv(next@, self.slot(name@)) - sv(prev@, self.slot(name@)),""")
    parts.append("impl StateModel {\n" + "\n\n".join(f.text for f in fns) + "\n}\n")
    parts.append(LEMMAS)
    parts.append("""
// vacuity guard: MUST FAIL
pub fn vacuity_probe(sm: &StateModel, state: &mut [StateVar], name: &String, d: &Distance, u: &DistanceUnit) -> (r: Result<(), StateModelError>) ensures false {
    sm.set_distance(state, name, d, u)
}
""")
    parts.insert(0, P.literal_axioms(texts, extra=("0.0", "1.0")))
    parts.insert(0, P.f64_real())
    return P.wrap("\n".join(parts))
