"""C19 (one clause) -- ResponseOutputFormat::format_response: what formatting a response for the output file may do to the response handed back [V].

Extracted verbatim: ResponseOutputFormat::format_response (both arms).  serde_json::Value is opaque with an abstract view (a map from top-level keys to values); the two
row pipelines of the Csv arm (`mapping.iter()...map(|(k, v)| match v.apply_mapping(response) {..}).join(",")`, which also fill `errors`) are replaced by ONE helper each
(rule R-collect: assumed to read the response only and to return the row together with the map of unfillable columns); `response.get(k)`, `response[key] = v` and the
json! object construction are shims over the abstract view.
"""
import re
import genlib as G

F = "routee-compass/src/app/compass/response/response_output_format.rs"
OBLIGATIONS = ["format_response"]
MUST_FAIL = ["vacuity_probe"]

HEAD = """#![allow(unused_imports, unused_variables, dead_code, unused_mut, unused_parens, unused_assignments)]
use vstd::prelude::*;
verus! {
#[verifier::external_body] pub struct Value { _p: u8 }                 // serde_json::Value
#[verifier::external_body] pub struct Mapping { _p: u8 }               // OrderedHashMap<String, CsvMapping>
#[verifier::external_body] pub struct Errors { _p: u8 }                // HashMap<String, String>: column -> why it could not be filled
#[verifier::external_body] pub struct CompassAppError { _p: u8 }
pub enum ResponseOutputFormat { Json { newline_delimited: bool }, Csv { mapping: Mapping, sorted: bool } }
impl Value {
    /// the response as a map from its top-level keys to their values
    pub uninterp spec fn fields(&self) -> Map<Seq<char>, Value>;
    #[verifier::external_body] pub fn get(&self, k: &String) -> (r: Option<&Value>)
        ensures r is Some <==> self.fields().contains_key(k@), r matches Some(v) ==> *v == self.fields()[k@] { unimplemented!() }
}
/// `response[key] = v` (serde_json IndexMut on an object): sets that one key
#[verifier::external_body] pub fn verif_set(response: &mut Value, key: String, v: Value) ensures final(response).fields() == old(response).fields().insert(key@, v) { unimplemented!() }
#[verifier::external_body] pub fn verif_string(s: &str) -> (r: String) ensures r@ == s@ { s.to_string() }
#[verifier::external_body] pub fn verif_prefixed(key: &String) -> String { format!("csv_{}", key) }     // format!("csv_{}", key)
#[verifier::external_body] pub fn verif_csv_error_value(errors: Errors) -> Value { unimplemented!() }     // json![{"csv": json![errors]}]
impl Errors {
    pub uninterp spec fn empty(&self) -> bool;
    #[verifier::external_body] pub fn is_empty(&self) -> (r: bool) ensures r == self.empty() { unimplemented!() }
}
/// rule R-collect: the row pipelines READ the response (assumed) and return the row together with the unfillable columns
#[verifier::external_body] pub fn verif_csv_row(mapping: &Mapping, sorted: bool, response: &Value) -> (r: (String, Errors)) { unimplemented!() }
pub mod json_ops { use super::*;
    #[verifier::external_body] pub fn format_response(response: &Value, newline_delimited: bool) -> Result<String, CompassAppError> { unimplemented!() }
}
"""


def build(x):
    parts = [HEAD]
    f = x.fn(F, "impl ResponseOutputFormat :: fn format_response")
    f.rewrite(r"response: &mut serde_json::Value,", "response: &mut Value,", 1, 1, rule="R-path")
    pat = re.compile(r"let mut errors: HashMap<String, String> = HashMap::new\(\);\s*let row = if \*sorted \{.*?\.join\(\",\"\)\s*\} else \{.*?\.join\(\",\"\)\s*\};", re.S)
    if len(pat.findall(f.text)) != 1:
        raise G.Undecided("lost anchor: the two row pipelines of the Csv arm of format_response")
    # both pipelines must read the response through apply_mapping and write only `errors`
    blk = pat.search(f.text).group(0)
    if blk.count("v.apply_mapping(response)") != 2 or blk.count("errors.insert(") != 2 or re.search(r"response\s*\[|response\.(?!get\b)\w+\s*\(", blk.replace("v.apply_mapping(response)", "")):
        raise G.Undecided("format_response: the row pipelines no longer have the shape `match v.apply_mapping(response) { Ok(cell) => .., Err(msg) => { errors.insert(..); .. } }`")
    f.rewrite(pat.pattern, "let (row, errors) = verif_csv_row(mapping, *sorted, response);", 1, 1, rule="R-collect", flags=re.S)
    x.note("R-collect", "format_response (Csv): `let mut errors = HashMap::new(); let row = if *sorted { <pipeline> } else { <pipeline> };` written `let (row, errors) = verif_csv_row(mapping, *sorted, response);` (assumed: the pipelines only READ the response -- checked textually: their only use of it is `v.apply_mapping(response)`)")
    f.rewrite(r"response\[key\] = json!\[\{\"csv\": json!\[errors\]\}\];", "verif_set(response, key, verif_csv_error_value(errors));", 0, 1, rule="R-collect")
    f.rewrite(r"response\[\"(\w+)\"\] = json!\[\{\"csv\": json!\[errors\]\}\];", r'verif_set(response, verif_string("\1"), verif_csv_error_value(errors));', 0, 1, rule="R-collect")
    f.rewrite(r"String::from\(\"error\"\)", 'verif_string("error")', 0, 1, rule="R-into")
    # keys given as &str literals (`response.get("error")`, `{ "csv_error" } else { "error" }`) are written as Strings: the shim of serde_json's Index takes a String
    f.rewrite(r"response\.get\(\"(\w+)\"\)", r'response.get(&verif_string("\1"))', 0, 4, rule="R-into")
    f.rewrite(r"\{\s*\"(\w+)\"\s*\}", r'{ verif_string("\1") }', 0, 4, rule="R-into")
    f.rewrite(r"format!\(\"csv_\{\}\", key\)", "verif_prefixed(&key)", 0, 1, rule="R-format")
    ls = f.loops()
    if len(ls) == 1:
        f.add_loop_spec(1, "                        invariant response.fields() == old(response).fields(),")
        f.rewrite(r"\A", "#[verifier::exec_allows_no_decreases_clause]\n", 1, 1, rule="note")
        x.note("termination", "format_response: the loop that looks for an unused key is accepted without a termination proof (a JSON object has finitely many keys)")
    f.name_return("r")
    f.add_spec("""        ensures
            // C19: formatting a response for the file never REMOVES or REPLACES a field of the response handed back to the caller (a search error in particular);
            // at most it ADDS one field that was not there (the reasons why CSV columns could not be filled)
            forall|k: Seq<char>| #[trigger] old(response).fields().contains_key(k) ==> final(response).fields().contains_key(k) && final(response).fields()[k] == old(response).fields()[k],
            // the JSON formats do not touch the response at all
            self is Json ==> final(response).fields() == old(response).fields(),""")
    parts.append("impl ResponseOutputFormat {\n" + f.text + "\n}\n")
    parts.append("""
// vacuity guard: MUST FAIL
pub fn vacuity_probe(f: &ResponseOutputFormat, r: &mut Value) -> (b: bool) ensures false { f.format_response(r).is_ok() }
} // verus!
fn main() {}
""")
    return "\n".join(parts)
