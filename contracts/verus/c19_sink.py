"""C19 (the named mechanism "format the whole row, then one writeln while holding the file lock") -- ResponseSink::write_response [V, recursion].

Extracted verbatim: enum ResponseSink, ResponseSink::write_response (all three arms).  `Mutex<File>`, its guard, `Mutex<u64>` and its guard are opaque shims
(R3-dyn); a GHOST LOG is threaded through the function (rule R-ghost: an extra `Tracked<&mut Log>` parameter, erased at run time, passed to every `.lock()`, to the
`writeln!` and to the recursive call): `lock()` on the file's mutex opens a new critical section (a fresh section number), `writeln!(guard, "{}", row)` records ONE
write event (the guard's file, the guard's section, row + "\\n").  The contract then says what a call adds to the log.

Assumed (the semantics of std's Mutex and of an append-mode File, not of this code): critical sections of one mutex exclude each other; what is written through a
guard is appended contiguously while the guard is held.  With these, "one write event holding the whole record, in a section of its own" IS "the record is in the file
once, complete, not interleaved with another worker's".
"""
import re
import genlib as G

F = "routee-compass/src/app/compass/response/response_sink.rs"
FP = "routee-compass/src/app/compass/response/response_output_policy.rs"
OBLIGATIONS = ["write_response", "build", "lemma_one_whole_record_per_file_sink"]
MUST_FAIL = ["vacuity_probe"]

HEAD = """#![allow(unused_imports, unused_variables, dead_code, unused_mut, unused_parens, unused_assignments)]
use vstd::prelude::*;
use std::sync::Arc;
verus! {
#[verifier::external_body] pub struct Value { _p: u8 }                 // serde_json::Value
#[verifier::external_body] pub struct CompassAppError { _p: u8 }
#[verifier::external_body] pub struct PoisonError { _p: u8 }
#[verifier::external_body] pub struct IoError { _p: u8 }
#[verifier::external_body] pub struct ResponseOutputFormat { _p: u8 }
#[verifier::external_body] pub struct FileMutex { _p: u8 }             // Mutex<File>
#[verifier::external_body] pub struct FileGuard { _p: u8 }             // MutexGuard<File>
#[verifier::external_body] pub struct CountMutex { _p: u8 }            // Mutex<u64>
pub struct CountGuard(pub u64);                                         // MutexGuard<u64>: `*guard` is written `guard.0`

/// one write through a guard: which file, in which critical section of that file's lock, which bytes
pub ghost struct W { pub file: int, pub section: nat, pub bytes: Seq<char> }
/// rule R-ghost: the ghost log (erased at run time)
pub tracked struct Log { pub ghost writes: Seq<W>, pub ghost sections: nat }

pub uninterp spec fn fmt_ok(f: ResponseOutputFormat, r: Value) -> bool;
pub uninterp spec fn fmt_row(f: ResponseOutputFormat, r: Value) -> Seq<char>;
pub uninterp spec fn fmt_resp(f: ResponseOutputFormat, r: Value) -> Value;
impl ResponseOutputFormat {
    /// unit c19_format has the contract of the real function; here it is a deterministic step (row, response afterwards)
    #[verifier::external_body] pub fn format_response(&self, response: &mut Value) -> (r: Result<String, CompassAppError>)
        ensures r is Ok <==> fmt_ok(*self, *old(response)), r matches Ok(s) ==> s@ == fmt_row(*self, *old(response)) && *final(response) == fmt_resp(*self, *old(response)) { unimplemented!() }
}
impl FileMutex {
    pub uninterp spec fn id(&self) -> int;
    /// ASSUMED (std::sync::Mutex): every successful or failed `lock()` is a critical section of its own; its guard writes into this mutex' file
    #[verifier::external_body] pub fn lock(&self, Tracked(log): Tracked<&mut Log>) -> (r: Result<FileGuard, PoisonError>)
        ensures final(log).writes == old(log).writes, final(log).sections == old(log).sections + 1,
            r matches Ok(g) ==> g.file() == self.id() && g.section() == old(log).sections { unimplemented!() }
}
impl FileGuard {
    pub uninterp spec fn file(&self) -> int;
    pub uninterp spec fn section(&self) -> nat;
    #[verifier::external_body] pub fn flush(&mut self) -> (r: Result<(), IoError>) ensures final(self).file() == old(self).file(), final(self).section() == old(self).section() { unimplemented!() }
}
/// `writeln!(guard, "{}", row)`: ASSUMED to append row + "\\n" through that guard (one event of the guard's section)
#[verifier::external_body] pub fn verif_writeln(g: &mut FileGuard, row: &String, Tracked(log): Tracked<&mut Log>) -> (r: Result<(), IoError>)
    ensures final(g).file() == old(g).file(), final(g).section() == old(g).section(), final(log).sections == old(log).sections,
        r is Ok ==> final(log).writes == old(log).writes.push(W { file: old(g).file(), section: old(g).section(), bytes: row@ + seq!['\\n'] }),
        // a failed write may have left nothing or a torn record behind (the batch then fails: not part of C19)
        r is Err ==> final(log).writes == old(log).writes || exists|b: Seq<char>| final(log).writes == #[trigger] old(log).writes.push(W { file: old(g).file(), section: old(g).section(), bytes: b }) { unimplemented!() }
impl CountMutex {
    /// the flush counter's lock does not touch the file. ASSUMED: the counter does not reach 2^64
    #[verifier::external_body] pub fn lock(&self, Tracked(log): Tracked<&mut Log>) -> (r: Result<CountGuard, PoisonError>)
        ensures *final(log) == *old(log), r matches Ok(g) ==> g.0 < u64::MAX { unimplemented!() }
}
/// std::mem::drop of a guard (ends its critical section; nothing is written)
pub fn drop<T>(t: T) { }
// ---- what ResponseOutputPolicy::build needs ----
#[verifier::external_body] pub struct FileH { _p: u8 }                 // std::fs::File
#[verifier::external_body] pub struct PathBuf { _p: u8 }
pub enum WriteMode { Append, Overwrite, Error }
impl WriteMode {
    /// opens the output file (the header logic of write_mode.rs: native witness only)
    #[verifier::external_body] pub fn open_file(&self, path: &PathBuf, format: &ResponseOutputFormat) -> (r: Result<FileH, CompassAppError>) { unimplemented!() }
}
#[verifier::external_body] pub fn verif_path(filename: &String) -> PathBuf { unimplemented!() }
impl FileMutex { #[verifier::external_body] pub fn new(f: FileH) -> FileMutex { unimplemented!() } }
impl CountMutex { #[verifier::external_body] pub fn new(v: u64) -> CountMutex { unimplemented!() } }
impl Clone for ResponseOutputFormat { #[verifier::external_body] fn clone(&self) -> (r: Self) ensures r == *self { unimplemented!() } }
impl ResponseOutputFormat { #[verifier::external_body] pub fn delimiter(&self) -> Option<String> { unimplemented!() } }
#[verifier::external_body] pub fn verif_err_flush_rate(rate: &i64) -> CompassAppError { unimplemented!() }
#[verifier::external_body] pub fn verif_err_poison(e: PoisonError) -> CompassAppError { unimplemented!() }
#[verifier::external_body] pub fn verif_err_io(e: IoError) -> CompassAppError { unimplemented!() }
"""

SPEC = """
/// a record as the file sees it: which file, which bytes
pub ghost struct R { pub file: int, pub bytes: Seq<char> }
pub ghost struct St { pub resp: Value, pub recs: Seq<R> }
pub open spec fn recs_of(ws: Seq<W>) -> Seq<R> { Seq::new(ws.len(), |i: int| R { file: ws[i].file, bytes: ws[i].bytes }) }
pub open spec fn st_of(r: Value, l: Log) -> St { St { resp: r, recs: recs_of(l.writes) } }
pub broadcast proof fn lemma_recs_push(ws: Seq<W>, w: W)
    ensures #[trigger] recs_of(ws.push(w)) == recs_of(ws).push(R { file: w.file, bytes: w.bytes })
{ assert(recs_of(ws.push(w)) =~= recs_of(ws).push(R { file: w.file, bytes: w.bytes })); }
/// data invariant established by ResponseOutputPolicy::build (it refuses a flush rate <= 0)
pub open spec fn sink_wf(s: ResponseSink) -> bool decreases s {
    match s {
        ResponseSink::None => true,
        ResponseSink::File { iterations_per_flush, .. } => iterations_per_flush > 0,
        ResponseSink::Combined(ps) => all_wf(ps@, ps@.len() as int),
    }
}
pub open spec fn all_wf(ps: Seq<Box<ResponseSink>>, n: int) -> bool decreases ps, n
{ if n <= 0 || n > ps.len() { true } else { all_wf(ps, n - 1) && sink_wf(*ps[n - 1]) } }
/// what writing ONE response does: every File sink, in order, formats the response as it is at that moment and writes the whole row and the newline, as ONE
/// write through a guard of its own file's lock
pub open spec fn run(s: ResponseSink, st: St) -> St decreases s {
    match s {
        ResponseSink::None => st,
        ResponseSink::File { file, format, .. } => St { resp: fmt_resp(format, st.resp), recs: st.recs.push(R { file: file.id(), bytes: fmt_row(format, st.resp) + seq!['\\n'] }) },
        ResponseSink::Combined(ps) => run_all(ps@, ps@.len() as int, st),
    }
}
pub open spec fn run_all(ps: Seq<Box<ResponseSink>>, n: int, st: St) -> St decreases ps, n
{ if n <= 0 || n > ps.len() { st } else { run(*ps[n - 1], run_all(ps, n - 1, st)) } }
pub open spec fn file_sinks(s: ResponseSink) -> nat decreases s {
    match s { ResponseSink::None => 0, ResponseSink::File { .. } => 1, ResponseSink::Combined(ps) => file_sinks_all(ps@, ps@.len() as int) }
}
pub open spec fn file_sinks_all(ps: Seq<Box<ResponseSink>>, n: int) -> nat decreases ps, n
{ if n <= 0 || n > ps.len() { 0 } else { file_sinks_all(ps, n - 1) + file_sinks(*ps[n - 1]) } }
pub proof fn lemma_all_wf_at(ps: Seq<Box<ResponseSink>>, n: int, k: int)
    requires all_wf(ps, n), 0 <= k < n <= ps.len() ensures sink_wf(*ps[k]) decreases n
{ if k < n - 1 { lemma_all_wf_at(ps, n - 1, k); } }
/// the sink built from a policy has the policy's shape: same kind, same file name and format, the configured flush rate (1 when none is configured), members in order
pub open spec fn mirrors(p: ResponseOutputPolicy, s: ResponseSink) -> bool decreases p {
    match p {
        ResponseOutputPolicy::None => s is None,
        ResponseOutputPolicy::File { filename, format, file_flush_rate } => s matches ResponseSink::File { filename: f2, format: fmt2, iterations_per_flush: n, .. }
            && f2@ == filename@ && fmt2 == format && n == (match file_flush_rate { Some(r) => r as int, None => 1 }),
        ResponseOutputPolicy::Combined { policies } => s matches ResponseSink::Combined(ss) && ss@.len() == policies@.len() && all_mirror(policies@, ss@, policies@.len() as int),
    }
}
pub open spec fn all_mirror(ps: Seq<Box<ResponseOutputPolicy>>, ss: Seq<Box<ResponseSink>>, n: int) -> bool decreases ps, n
{ if n <= 0 || n > ps.len() || n > ss.len() { true } else { all_mirror(ps, ss, n - 1) && mirrors(*ps[n - 1], *ss[n - 1]) } }
pub proof fn lemma_all_wf_push(ss: Seq<Box<ResponseSink>>, x: Box<ResponseSink>)
    requires all_wf(ss, ss.len() as int), sink_wf(*x) ensures all_wf(ss.push(x), ss.len() as int + 1)
{ lemma_all_wf_ext(ss, ss.push(x), ss.len() as int); }
pub proof fn lemma_all_wf_ext(a: Seq<Box<ResponseSink>>, b: Seq<Box<ResponseSink>>, n: int)
    requires all_wf(a, n), 0 <= n <= a.len() <= b.len(), forall|i: int| 0 <= i < n ==> a[i] == b[i] ensures all_wf(b, n) decreases n
{ if n > 0 { lemma_all_wf_ext(a, b, n - 1); } }
pub proof fn lemma_all_mirror_ext(ps: Seq<Box<ResponseOutputPolicy>>, a: Seq<Box<ResponseSink>>, b: Seq<Box<ResponseSink>>, n: int)
    requires all_mirror(ps, a, n), 0 <= n <= a.len() <= b.len(), n <= ps.len(), forall|i: int| 0 <= i < n ==> a[i] == b[i] ensures all_mirror(ps, b, n) decreases n
{ if n > 0 { lemma_all_mirror_ext(ps, a, b, n - 1); } }
/// what a call may do to the log, whatever its outcome: nothing written earlier is touched, and every write it adds went through a guard whose critical
/// section was opened DURING the call (the lock is taken by the call itself, for this record)
pub open spec fn appends_in_own_sections(a: Log, b: Log) -> bool {
    &&& a.sections <= b.sections
    &&& a.writes.len() <= b.writes.len()
    &&& b.writes.subrange(0, a.writes.len() as int) =~= a.writes
    &&& forall|i: int| a.writes.len() <= i < b.writes.len() ==> a.sections <= (#[trigger] b.writes[i]).section < b.sections
}
pub proof fn lemma_appends_trans(a: Log, m: Log, b: Log)
    requires appends_in_own_sections(a, m), appends_in_own_sections(m, b)
    ensures appends_in_own_sections(a, b)
{
    assert(b.writes.subrange(0, a.writes.len() as int) =~= a.writes) by {
        assert forall|i: int| 0 <= i < a.writes.len() implies b.writes[i] == a.writes[i] by {
            assert(b.writes[i] == b.writes.subrange(0, m.writes.len() as int)[i]);
            assert(m.writes[i] == m.writes.subrange(0, a.writes.len() as int)[i]);
        }
    }
    assert forall|i: int| a.writes.len() <= i < b.writes.len() implies a.sections <= (#[trigger] b.writes[i]).section < b.sections by {
        if i < m.writes.len() { assert(b.writes[i] == b.writes.subrange(0, m.writes.len() as int)[i]); }
    }
}
/// a complete record: a formatted row followed by the newline
pub open spec fn is_record(b: Seq<char>) -> bool { exists|f: ResponseOutputFormat, r: Value| b == #[trigger] fmt_row(f, r) + seq!['\\n'] }
pub open spec fn adds_whole_records(s: St, t: St, n: nat) -> bool {
    &&& t.recs.len() == s.recs.len() + n
    &&& t.recs.subrange(0, s.recs.len() as int) =~= s.recs
    &&& forall|i: int| s.recs.len() <= i < t.recs.len() ==> is_record(#[trigger] t.recs[i].bytes)
}
"""

LEMMAS = """
/// C19: writing one response adds, per File sink, exactly ONE write, and it is a complete record (row + newline): nothing lost, duplicated or truncated,
/// and -- each being a single write through a guard of the file's lock -- nothing interleaved with another worker's record
pub proof fn lemma_one_whole_record_per_file_sink(s: ResponseSink, st: St)
    ensures adds_whole_records(st, run(s, st), file_sinks(s))
    decreases s
{
    match s {
        ResponseSink::None => { assert(st.recs.subrange(0, st.recs.len() as int) == st.recs); }
        ResponseSink::File { file, format, .. } => {
            let t = run(s, st);
            assert(t.recs.subrange(0, st.recs.len() as int) == st.recs);
            assert(t.recs[st.recs.len() as int].bytes == fmt_row(format, st.resp) + seq!['\\n']);
            assert(is_record(t.recs[st.recs.len() as int].bytes));
        }
        ResponseSink::Combined(ps) => { lemma_all(ps@, ps@.len() as int, st, s); }
    }
}
pub proof fn lemma_all(ps: Seq<Box<ResponseSink>>, n: int, st: St, parent: ResponseSink)
    requires 0 <= n <= ps.len(), parent matches ResponseSink::Combined(v) && v@ == ps
    ensures adds_whole_records(st, run_all(ps, n, st), file_sinks_all(ps, n))
    decreases parent, n
{
    if n == 0 { assert(st.recs.subrange(0, st.recs.len() as int) == st.recs); }
    else {
        lemma_all(ps, n - 1, st, parent);
        let m = run_all(ps, n - 1, st);
        let t = run_all(ps, n, st);
        assert(decreases_to!(parent => *ps[n - 1])) by {
            let v = parent->Combined_0;
            broadcast use vstd::std_specs::vec::axiom_vec_index_decreases;
            assert(decreases_to!(parent => v));
            assert(decreases_to!(v => v@[n - 1]));
        }
        lemma_one_whole_record_per_file_sink(*ps[n - 1], m);
        assert(t == run(*ps[n - 1], m));
        assert(t.recs.subrange(0, st.recs.len() as int) =~= st.recs) by {
            assert forall|i: int| 0 <= i < st.recs.len() implies t.recs[i] == st.recs[i] by {
                assert(t.recs[i] == t.recs.subrange(0, m.recs.len() as int)[i]);
                assert(m.recs[i] == m.recs.subrange(0, st.recs.len() as int)[i]);
            }
        }
        assert forall|i: int| st.recs.len() <= i < t.recs.len() implies is_record(#[trigger] t.recs[i].bytes) by {
            if i < m.recs.len() { assert(t.recs[i] == t.recs.subrange(0, m.recs.len() as int)[i]); }
        }
    }
}
"""


def build(x):
    parts = [HEAD]
    en = x.item_text(F, "enum ResponseSink")
    for a, b in ((r"file: Arc<Mutex<File>>,", "file: Arc<FileMutex>,"), (r"iterations: Arc<Mutex<u64>>,", "iterations: Arc<CountMutex>,")):
        if len(re.findall(a, en)) != 1:
            raise G.Undecided("lost anchor: enum ResponseSink: field `%s`" % a)
        en = re.sub(a, b, en)
    x.note("R3-dyn", "enum ResponseSink: `Arc<Mutex<File>>` / `Arc<Mutex<u64>>` written Arc<FileMutex> / Arc<CountMutex> (opaque shims with the assumed contracts of Mutex::lock)")
    parts.append(en)
    parts.append(SPEC)
    f = x.fn(F, "impl ResponseSink :: fn write_response")
    # rule R-ghost: the ghost log parameter
    f.rewrite(r"pub fn write_response\(&self, response: &mut serde_json::Value\)", "pub fn write_response(&self, response: &mut Value, Tracked(log): Tracked<&mut Log>)", 1, 1, rule="R-ghost")
    n_lock = len(re.findall(r"\.lock\(\)", f.text))
    if n_lock < 1:
        raise G.Undecided("lost anchor: write_response takes no lock")
    f.rewrite(r"\.lock\(\)", ".lock(Tracked(log))", 0, 8, rule="R-ghost")
    f.rewrite(r"(\w+)\.write_response\(response\)\?;", r"let ghost verif_mid = *log; let verif_r = \1.write_response(response, Tracked(log)); proof { lemma_appends_trans(*old(log), verif_mid, *log); } verif_r?;", 1, 1, rule="R-ghost")
    x.note("R-bind", "write_response: `p.write_response(response)?;` written `let verif_r = p.write_response(response, log); verif_r?;` (a proof hint sits between the call and the `?`)")
    x.note("R-ghost", "write_response: a ghost parameter `Tracked(log): Tracked<&mut Log>` is added to the signature and passed to every `.lock()`, to the `writeln!` and to the recursive call; it is erased at run time")
    # writeln! through a guard
    f.rewrite(r"writeln!\(\s*(\w+)\s*,\s*\"\{\}\"\s*,\s*(\w+)\s*\)", r"verif_writeln(&mut \1, &\2, Tracked(log))", 0, 4, rule="R-io")
    x.note("R-io", "write_response: `writeln!(guard, \"{}\", row)` written verif_writeln(&mut guard, &row, log): assumed to append row + \"\\n\" through that guard")
    if re.search(r"\bwrite(ln)?!\s*\(|\.write_all\(|\.write\(", f.text):
        raise G.Undecided("write_response writes to the file in a way the extractor does not know (only `writeln!(guard, \"{}\", row)` is modelled)")
    # error conversions: the text is not modelled
    def conv(m):
        body = m.group(0)
        kind = "verif_err_poison" if "ReadOnlyPoisonError" in body else "verif_err_io"
        ty = "PoisonError" if kind == "verif_err_poison" else "IoError"
        return ".map_err(|e: %s| -> (er: CompassAppError) { %s(e) })" % (ty, kind)
    f.rewrite(r"\.map_err\(\|e\| \{\s*CompassAppError::\w+\(format!\((?:[^()]|\([^()]*\))*\)\)\s*\}\)", conv, 0, 8, rule="R-format")
    # `*guard` of the counter's guard
    f.rewrite(r"\*it_attained\b", "it_attained.0", 0, 4, rule="R-deref")
    x.note("R-deref", "write_response: `*it_attained` (DerefMut of MutexGuard<u64>) written `it_attained.0`")
    # the Combined arm
    ls = f.loops()
    if len(ls) != 1:
        raise G.Undecided("write_response: expected exactly one loop (over the members of a Combined sink), found %d" % len(ls))
    e = f.index_for(1, by_ref_binding=True)
    f.add_loop_spec(1, """                    invariant verif_k <= %(e)s.len(), self is Combined, decreases_to!(*self => *%(e)s), all_wf(%(e)s@, %(e)s@.len() as int),
                        st_of(*response, *log) == run_all(%(e)s@, verif_k as int, st_of(*old(response), *old(log))),
                        appends_in_own_sections(*old(log), *log),
                    decreases %(e)s.len() - verif_k""" % dict(e=e))
    f.insert_after(r"/\*verif:body1\*/[^;]*;[^;]*;", """
                    proof { broadcast use vstd::std_specs::vec::axiom_vec_index_decreases; assert(decreases_to!(*%(e)s => %(e)s@[verif_k - 1])); lemma_all_wf_at(%(e)s@, %(e)s@.len() as int, verif_k - 1); }""" % dict(e=e))
    f.insert_before(r"let mut verif_k: usize = 0;", "proof { assert(decreases_to!(*self => *%s)); }\n                " % e)
    f.body_start("\n        broadcast use lemma_recs_push;")
    f.name_return("r")
    f.add_spec("""        requires sink_wf(*self)
        ensures
            // C19: a successful call has written exactly what `run` says: per File sink, in order, ONE write of the whole row + newline into that sink's file
            r is Ok ==> st_of(*final(response), *final(log)) == run(*self, st_of(*old(response), *old(log))),
            // whatever the outcome: nothing written earlier is touched and every added write went through a guard taken during this call
            appends_in_own_sections(*old(log), *final(log)),
            // no sink: nothing is written and the response is not touched
            self is None ==> r is Ok && *final(response) == *old(response) && *final(log) == *old(log),
        decreases self""")
    parts.append("impl ResponseSink {\n" + f.text + "\n}\n")
    # ---- ResponseOutputPolicy::build: establishes the data invariant write_response relies on ----
    pen, n_attr = G.strip_inner_attrs(x.item_text(FP, "enum ResponseOutputPolicy"))
    parts.append(pen + "\n")
    b = x.fn(FP, "impl ResponseOutputPolicy :: fn build")
    b.rewrite(r"PathBuf::from\(filename\)", "verif_path(filename)", 1, 1, rule="R-path")
    b.rewrite(r"Mutex::new\(file\)", "FileMutex::new(file)", 1, 1, rule="R3-dyn")
    b.rewrite(r"let iterations: Arc<Mutex<u64>> = Arc::new\(Mutex::new\(0\)\);", "let iterations: Arc<CountMutex> = Arc::new(CountMutex::new(0));", 1, 1, rule="R3-dyn")
    b.rewrite(r"CompassAppError::CompassFailure\(format!\((?:[^()]|\([^()]*\))*\)\)", "verif_err_flush_rate(rate)", 1, 1, rule="R-format")
    pat = re.compile(r"let policies = policies\s*\.iter\(\)\s*\.map\(\|p\| (.*?)\)\s*\.collect::<Result<Vec<_>, _>>\(\)\?;", re.S)
    if len(pat.findall(b.text)) != 1:
        raise G.Undecided("lost anchor: the member pipeline of the Combined arm of ResponseOutputPolicy::build")
    b.rewrite(pat.pattern, r"let verif_src = policies;\n                proof { assert(decreases_to!(*self => *verif_src)); }\n                let mut verif_out: Vec<Box<ResponseSink>> = Vec::new();\n                let mut verif_j: usize = 0;\n                while verif_j < verif_src.len() { let p = &verif_src[verif_j]; verif_j = verif_j + 1;\n                    proof { broadcast use vstd::std_specs::vec::axiom_vec_index_decreases; assert(decreases_to!(*verif_src => verif_src@[verif_j - 1])); }\n                    let ghost verif_o0 = verif_out@;\n                    let verif_x = (\1)?; verif_out.push(verif_x);\n                    proof { lemma_all_wf_push(verif_o0, verif_x); lemma_all_mirror_ext(verif_src@, verif_o0, verif_out@, verif_j - 1); }\n                }\n                let policies = verif_out;", 1, 1, rule="R-trycollect", flags=re.S)
    x.note("R-trycollect", "ResponseOutputPolicy::build: `policies.iter().map(|p| F).collect::<Result<Vec<_>, _>>()?` written as a loop pushing `(F)?` (F = `p.build().map(Box::new)` verbatim)")
    b.add_loop_spec(1, """                    invariant verif_j <= verif_src.len(), verif_out@.len() == verif_j, decreases_to!(*self => *verif_src),
                        all_wf(verif_out@, verif_j as int), all_mirror(verif_src@, verif_out@, verif_j as int),
                    decreases verif_src.len() - verif_j""")
    b.name_return("r")
    b.add_spec("""        ensures
            // the data invariant write_response relies on (a flush rate <= 0 is refused here), and the sink has the policy's shape
            r matches Ok(s) ==> sink_wf(s) && mirrors(*self, s),
            self matches ResponseOutputPolicy::File { file_flush_rate: Some(rate), .. } && rate <= 0 ==> r is Err,
        decreases self""")
    parts.append("impl ResponseOutputPolicy {\n" + b.text + "\n}\n")
    parts.append(LEMMAS)
    parts.append("""
// vacuity guard: MUST FAIL
pub fn vacuity_probe(s: &ResponseSink, r: &mut Value, Tracked(log): Tracked<&mut Log>) -> (b: bool) requires sink_wf(*s) ensures false { s.write_response(r, Tracked(log)).is_ok() }
} // verus!
fn main() {}
""")
    return "\n".join(parts)
