"""C01.6 -- a_star_algorithm::run_a_star_edge_oriented under contract [V].
Extracted verbatim; run_a_star is represented by its AL contract (assumed here, proved in unit AL);
EdgeTraversal::forward_traversal by its contract of unit c07_costmodel (edge id)."""
import al_astar as AL
import genlib as G

A = "routee-compass-core/src/algorithm/search/"
OBLIGATIONS = ["run_a_star_edge_oriented"]
MUST_FAIL = ["vacuity_probe"]

SHIM = """
pub uninterp spec fn src_of(g: &Graph, e: EdgeId) -> VertexId;
pub uninterp spec fn dst_of(g: &Graph, e: EdgeId) -> VertexId;
impl Graph {
    #[verifier::external_body] pub fn src_vertex_id(&self, e: &EdgeId) -> (r: Result<VertexId, SearchError>)
        ensures r matches Ok(v) ==> v == edge_of(self, *e).src_vertex_id && has_edge(self, *e) && edge_of(self, *e).edge_id == *e { unimplemented!() }
    #[verifier::external_body] pub fn dst_vertex_id(&self, e: &EdgeId) -> (r: Result<VertexId, SearchError>)
        ensures r matches Ok(v) ==> v == edge_of(self, *e).dst_vertex_id && has_edge(self, *e) && edge_of(self, *e).edge_id == *e { unimplemented!() }
}
impl EdgeTraversal {
    // contract of unit c07_costmodel (traversal_post): the traversal is of the requested edge
    #[verifier::external_body]
    pub fn forward_traversal(next_edge_id: EdgeId, prev_edge_id_opt: Option<EdgeId>, prev_state: &Vec<StateVar>, si: &SearchInstance) -> (r: Result<EdgeTraversal, SearchError>)
        ensures r matches Ok(et) ==> et.edge_id == next_edge_id { unimplemented!() }
}
// run_a_star by its contract (proved in unit AL)
#[verifier::external_body]
pub fn run_a_star(source: VertexId, target: Option<VertexId>, direction: &Direction, weight_factor: Option<Cost>, si: &SearchInstance, Ghost(callers): Ghost<(Direction, Option<Cost>, VertexId)>) -> (res: Result<SearchResult, SearchError>)
    // C02 / C01 obligation at every call site (rule R-ghost): the inner search runs in the CALLER's direction with the CALLER's weight factor (Dijkstra is factor 0: dropping it turns Dijkstra into A*)
    requires *direction == callers.0, weight_factor == callers.1,
             // C05 / C01 obligation at every call site: the vertex search behind an edge-oriented query is rooted at the HEAD of the origin edge (what lies behind its tail is not downstream of it)
             source == callers.2,
    ensures res matches Ok(r) ==> search_post(si, *direction, source, target, r),
{ unimplemented!() }
#[verifier::external_body] pub fn verif_to_vec(v: &Vec<StateVar>) -> (r: Vec<StateVar>) ensures r@ == v@ { v.to_vec() }
pub assume_specification<KK: Eq + std::hash::Hash, VV, const N: usize>[ <HashMap<KK, VV> as From<[(KK, VV); N]>>::from ](arr: [(KK, VV); N]) -> (r: HashMap<KK, VV>)
    ensures vstd::std_specs::hash::obeys_key_model::<KK>() ==> r@ == arr_map(arr@);
pub open spec fn arr_map<KK, VV>(s: Seq<(KK, VV)>) -> Map<KK, VV> decreases s.len()
{ if s.len() == 0 { Map::empty() } else { arr_map(s.drop_last()).insert(s.last().0, s.last().1) } }
// HashMap::extend([(k, v)]) (assumed: inserts the pair)
#[verifier::external_body]
pub fn verif_extend1(m: &mut HashMap<VertexId, SearchTreeBranch>, k: VertexId, v: SearchTreeBranch)
    ensures final(m)@ == old(m)@.insert(k, v) { m.extend([(k, v)]); }

/// C01 for an edge-oriented search with distinct origin and destination edges (Forward): the tree joins the origin edge in front
/// and the destination edge behind: entry dst(origin) records the origin edge with parent src(origin); entry dst(destination) records the
/// destination edge with parent src(destination); all other entries are the vertex-oriented tree's
pub open spec fn eo_src_entry(si: &SearchInstance, source: EdgeId, r: SearchResult) -> bool {
    let e1 = edge_of(&si.directed_graph, source);
    r.tree@.contains_key(e1.dst_vertex_id) && r.tree@[e1.dst_vertex_id].edge_traversal.edge_id == source && r.tree@[e1.dst_vertex_id].terminal_vertex == e1.src_vertex_id
}
pub open spec fn eo_dst_entry(si: &SearchInstance, target: EdgeId, r: SearchResult) -> bool {
    let e2 = edge_of(&si.directed_graph, target);
    r.tree@.contains_key(e2.dst_vertex_id) && r.tree@[e2.dst_vertex_id].edge_traversal.edge_id == target && r.tree@[e2.dst_vertex_id].terminal_vertex == e2.src_vertex_id
}
/// the four end vertices of the two edges are pairwise distinct apart from the permitted meeting point dst(origin) == src(destination)
pub open spec fn eo_simple(si: &SearchInstance, source: EdgeId, target: EdgeId) -> bool {
    let (e1, e2) = (edge_of(&si.directed_graph, source), edge_of(&si.directed_graph, target));
    e1.dst_vertex_id != e2.dst_vertex_id && e1.src_vertex_id != e1.dst_vertex_id && e2.src_vertex_id != e2.dst_vertex_id
}
"""


def build(x):
    parts = [AL.HEAD]
    edge = x.item_text("routee-compass-core/src/model/network/edge.rs", "struct Edge").replace("    pub distance: Distance,\n", "")
    parts.append("#[derive(Copy, Clone)]\n" + edge + "\n")
    parts.append(x.item_text(A + "search_tree_branch.rs", "struct SearchTreeBranch") + "\n")
    parts.append(x.item_text(A + "search_result.rs", "struct SearchResult") + "\n")
    parts.append("impl SearchResult { #[verifier::external_body] pub fn default() -> (r: SearchResult) ensures r.tree@ =~= Map::<VertexId, SearchTreeBranch>::empty(), r.iterations == 0 { unimplemented!() } }\n")
    den, _ = G.strip_inner_attrs(x.item_text(A + "direction.rs", "enum Direction"))
    parts.append("#[derive(Copy, Clone)]\n" + den + "\n")
    parts.append(AL.SHIMS)
    parts.append("impl Direction {" + AL.DIR_SHIMS + "}\n")
    parts.append(AL.SPECS)
    parts.append(SHIM)
    f = x.fn(A + "a_star/a_star_algorithm.rs", "fn run_a_star_edge_oriented")
    f.replace_macro_calls(r"format", "verif_format()")
    f.rewrite(r"final_state\.to_vec\(\)", "verif_to_vec(final_state)", 1, 1, rule="R-tovec")
    f.rewrite(r"tree\.extend\(\[\((\w+), (\w+)\)\]\);", r"verif_extend1(&mut tree, \1, \2);", 3, 3, rule="R-extend")
    x.note("R-extend", "run_a_star_edge_oriented: `tree.extend([(k, v)])` written as verif_extend1(&mut tree, k, v) (assumed: inserts the pair)")
    f.rewrite(r"\.ok_or_else\(\|\| \{\s*SearchError::InternalError\(verif_format\(\)\)\s*\}\)", ".ok_or_else(|| -> (cr: SearchError) ensures cr is InternalError { SearchError::InternalError(verif_format()) })", 1, 1, rule="R-closure")
    f.rewrite(r"run_a_star\(((?:[^();]|\([^()]*\))*)\)", r"run_a_star(\1, Ghost((*direction, weight_factor, edge_of(&si.directed_graph, source).dst_vertex_id)))", 1, 4, rule="R-ghost")
    x.note("R-ghost", "run_a_star_edge_oriented: every call `run_a_star(..)` gets a ghost argument carrying the caller's (direction, weight_factor); the callee's contract REQUIRES the arguments actually passed to equal them")
    f.name_return("res")
    f.add_spec("""    requires *direction is Forward,
    ensures
        (res is Ok && target is Some && target->Some_0 != source && eo_simple(si, source, target->Some_0)) ==> eo_src_entry(si, source, res->Ok_0),
        (res is Ok && target is Some && target->Some_0 != source && eo_simple(si, source, target->Some_0)) ==> eo_dst_entry(si, target->Some_0, res->Ok_0),""")
    f.insert_before(r"let tree = HashMap::from\(", "                proof { reveal_with_fuel(arr_map, 3); }")
    f.insert_before(r"let result = SearchResult \{\s*tree,\s*iterations: iterations \+ 2,", "                proof { assume(iterations < u64::MAX - 2); }   // ASSUMPTION: the turn counter does not reach 2^64")
    f.insert_before(r"let updated = SearchResult \{", "            proof { assume(iterations < u64::MAX - 2); }")
    f.body_start("    proof { vid_key_model(); cost_consts(); }")
    parts.append(f.text)
    parts.append("""
// vacuity guard: MUST FAIL
pub fn vacuity_probe(s: EdgeId, t: EdgeId, si: &SearchInstance) -> (r: bool) requires s != t ensures false {
    match run_a_star_edge_oriented(s, Some(t), &Direction::Forward, None, si) { Ok(v) => v.iterations > 2, Err(_) => false }
}
} // verus!
fn main() {}
impl std::fmt::Display for VertexId { fn fmt(&self, f: &mut std::fmt::Formatter<'_>) -> std::fmt::Result { write!(f, "{}", self.0) } }
""")
    return "\n".join(parts)
