"""C14 -- interpolated predictions stay faithful [V / V-real].

Extracted verbatim from routee-compass-powertrain/src/routee/prediction/interpolation:
utils::find_nearest_index, Interp1D::linear, Interp2D::linear, Interp3D::linear,
Interpolator::validate_inputs (1D/2D/3D arms).  A-REAL.  Assumed: Iterator::position
(written verif_position), error strings (R-format).
"""
import prelude as P
import genlib as G

I = "routee-compass-powertrain/src/routee/prediction/interpolation/"
OBLIGATIONS = ["find_nearest_index", "linear", "validate_inputs", "lemma_lerp_between", "lemma_lerp_endpoints", "lemma_continuity_1d"]
MUST_FAIL = ["vacuity_probe"]

SPEC = """
use core::marker::PhantomData;
pub open spec fn rv(s: Seq<f64>, i: int) -> real { f64_real(s[i]) }
/// a grid axis: at least two points, strictly increasing
pub open spec fn axis_ok(a: Seq<f64>) -> bool {
    a.len() >= 2 && forall|i: int, j: int| 0 <= i < j < a.len() ==> #[trigger] rv(a, i) < #[trigger] rv(a, j)
}
pub open spec fn in_axis(a: Seq<f64>, p: real) -> bool { rv(a, 0) <= p <= rv(a, a.len() - 1) }
pub open spec fn lerp(a: real, b: real, t: real) -> real { a * (1real - t) + b * t }
pub open spec fn rmin(a: real, b: real) -> real { if a <= b { a } else { b } }
pub open spec fn rmax(a: real, b: real) -> real { if a <= b { b } else { a } }
pub open spec fn frac(a: Seq<f64>, i: int, p: real) -> real { (p - rv(a, i)) / (rv(a, i + 1) - rv(a, i)) }

pub proof fn lemma_lerp_between(a: real, b: real, t: real)
    requires 0real <= t <= 1real
    ensures rmin(a, b) <= lerp(a, b, t) <= rmax(a, b)
{
    assert(lerp(a, b, t) == a + (b - a) * t) by (nonlinear_arith) requires true;
    if a <= b { assert(0real <= (b - a) * t <= (b - a)) by (nonlinear_arith) requires 0real <= t <= 1real, a <= b; }
    else { assert((b - a) <= (b - a) * t <= 0real) by (nonlinear_arith) requires 0real <= t <= 1real, b < a; }
}
pub proof fn lemma_lerp_endpoints(a: real, b: real)
    ensures lerp(a, b, 0real) == a, lerp(a, b, 1real) == b
{}
pub proof fn lemma_frac_unit(a: Seq<f64>, i: int, p: real)
    requires 0 <= i, i + 1 < a.len(), rv(a, i) < rv(a, i + 1), rv(a, i) <= p <= rv(a, i + 1)
    ensures 0real <= frac(a, i, p) <= 1real, p == rv(a, i) ==> frac(a, i, p) == 0real, p == rv(a, i + 1) ==> frac(a, i, p) == 1real
{
    let d = rv(a, i + 1) - rv(a, i);
    let t = frac(a, i, p);
    assert(t * d == p - rv(a, i)) by (nonlinear_arith) requires d > 0real, t == (p - rv(a, i)) / d;
    assert(0real <= t <= 1real) by (nonlinear_arith) requires d > 0real, t * d == p - rv(a, i), 0real <= p - rv(a, i) <= d;
    if p == rv(a, i) { assert(t == 0real) by (nonlinear_arith) requires d > 0real, t * d == 0real; }
    if p == rv(a, i + 1) { assert(t == 1real) by (nonlinear_arith) requires d > 0real, t * d == d; }
}
/// C14 continuity: the two cells meeting at a grid point give the same value there (1-D statement; the 2-D/3-D functions are compositions of lerp)
pub proof fn lemma_continuity_1d(x: Seq<f64>, f: Seq<f64>, i: int)
    requires axis_ok(x), f.len() == x.len(), 1 <= i, i + 1 < x.len()
    ensures lerp(rv(f, i - 1), rv(f, i), frac(x, i - 1, rv(x, i))) == rv(f, i), lerp(rv(f, i), rv(f, i + 1), frac(x, i, rv(x, i))) == rv(f, i)
{
    assert(rv(x, i - 1) < rv(x, i) && rv(x, i) < rv(x, i + 1));
    lemma_frac_unit(x, i - 1, rv(x, i));
    lemma_frac_unit(x, i, rv(x, i));
    assert(frac(x, i - 1, rv(x, i)) == 1real);
    assert(frac(x, i, rv(x, i)) == 0real);
    lemma_lerp_endpoints(rv(f, i - 1), rv(f, i));
    lemma_lerp_endpoints(rv(f, i), rv(f, i + 1));
}
// Iterator::position over the axis (assumed)
#[verifier::external_body]
pub fn verif_position(v: &Vec<f64>, point: f64) -> (r: Option<usize>)
    ensures r matches Some(i) ==> i < v@.len() && f64_real(v@[i as int]) == f64_real(point),
            r is None ==> forall|i: int| 0 <= i < v@.len() ==> f64_real(#[trigger] v@[i]) != f64_real(point)
{ v.iter().position(|&x_val| x_val == point) }
#[verifier::external_body] pub fn verif_err() -> String { String::new() }
// rule R-cast: numeric `as` casts (Verus rejects them) under A-REAL: int -> f64 exact, f64 -> usize truncation towards zero of a non-negative value
#[verifier::external_body] pub fn verif_usize_as_f64(x: usize) -> (r: f64) ensures f64_real(r) == x as real { x as f64 }
#[verifier::external_body] pub fn verif_f64_as_usize(x: f64) -> (r: usize) ensures 0real <= f64_real(x) ==> r as real <= f64_real(x), f64_real(x) < 0real ==> r == 0 { x as usize }
pub struct Interp1D { pub x: Vec<f64>, pub f_x: Vec<f64>, pub _phantom: PhantomData<()> }
pub struct Interp2D { pub x: Vec<f64>, pub y: Vec<f64>, pub f_xy: Vec<Vec<f64>>, pub _phantom: PhantomData<()> }
pub struct Interp3D { pub x: Vec<f64>, pub y: Vec<f64>, pub z: Vec<f64>, pub f_xyz: Vec<Vec<Vec<f64>>>, pub _phantom: PhantomData<()> }
impl Interp2D {
    pub open spec fn wf(&self) -> bool { axis_ok(self.x@) && axis_ok(self.y@) && self.f_xy@.len() == self.x@.len()
        && forall|i: int| 0 <= i < self.f_xy@.len() ==> (#[trigger] self.f_xy@[i])@.len() == self.y@.len() }
    pub open spec fn v(&self, i: int, j: int) -> real { f64_real(self.f_xy@[i]@[j]) }
}
impl Interp2D {
    /// C14 for one cell: the point lies in cell (i, j), the result is the bilinear form of its four corners and lies between the smallest and largest corner
    pub open spec fn cell_ok(&self, i: int, j: int, px: real, py: real, r: real) -> bool {
        &&& 0 <= i && i + 1 < self.x@.len() && 0 <= j && j + 1 < self.y@.len()
        &&& rv(self.x@, i) <= px <= rv(self.x@, i + 1) && rv(self.y@, j) <= py <= rv(self.y@, j + 1)
        &&& r == lerp(lerp(self.v(i, j), self.v(i + 1, j), frac(self.x@, i, px)), lerp(self.v(i, j + 1), self.v(i + 1, j + 1), frac(self.x@, i, px)), frac(self.y@, j, py))
        &&& rmin(rmin(self.v(i, j), self.v(i + 1, j)), rmin(self.v(i, j + 1), self.v(i + 1, j + 1))) <= r
        &&& r <= rmax(rmax(self.v(i, j), self.v(i + 1, j)), rmax(self.v(i, j + 1), self.v(i + 1, j + 1)))
    }
}
impl Interp3D {
    pub open spec fn cell_ok(&self, i: int, j: int, k: int, px: real, py: real, pz: real, r: real) -> bool {
        &&& 0 <= i && i + 1 < self.x@.len() && 0 <= j && j + 1 < self.y@.len() && 0 <= k && k + 1 < self.z@.len()
        &&& rv(self.x@, i) <= px <= rv(self.x@, i + 1) && rv(self.y@, j) <= py <= rv(self.y@, j + 1) && rv(self.z@, k) <= pz <= rv(self.z@, k + 1)
        &&& rmin(rmin(rmin(self.v(i, j, k), self.v(i + 1, j, k)), rmin(self.v(i, j + 1, k), self.v(i + 1, j + 1, k))),
                 rmin(rmin(self.v(i, j, k + 1), self.v(i + 1, j, k + 1)), rmin(self.v(i, j + 1, k + 1), self.v(i + 1, j + 1, k + 1)))) <= r
        &&& r <= rmax(rmax(rmax(self.v(i, j, k), self.v(i + 1, j, k)), rmax(self.v(i, j + 1, k), self.v(i + 1, j + 1, k))),
                      rmax(rmax(self.v(i, j, k + 1), self.v(i + 1, j, k + 1)), rmax(self.v(i, j + 1, k + 1), self.v(i + 1, j + 1, k + 1))))
    }
    pub open spec fn wf(&self) -> bool { axis_ok(self.x@) && axis_ok(self.y@) && axis_ok(self.z@) && self.f_xyz@.len() == self.x@.len()
        && (forall|i: int| 0 <= i < self.f_xyz@.len() ==> (#[trigger] self.f_xyz@[i])@.len() == self.y@.len())
        && (forall|i: int, j: int| 0 <= i < self.f_xyz@.len() && 0 <= j < self.y@.len() ==> (#[trigger] self.f_xyz@[i]@[j])@.len() == self.z@.len()) }
    pub open spec fn v(&self, i: int, j: int, k: int) -> real { f64_real(self.f_xyz@[i]@[j]@[k]) }
}
"""


def build(x):
    parts, texts = [], []
    parts.append(SPEC)
    # ---- find_nearest_index ----
    f = x.fn(I + "utils.rs", "fn find_nearest_index")
    f.rewrite(r"\.ok_or\(\"Could not get last grid value of arr, is arr empty\?\"\)\?", ".ok_or(verif_err())?", 1, 1, rule="R-format")
    x.note("R-format", "interpolation: error strings replaced by verif_err() (error text is not modelled)")
    f.rewrite_casts({"f64": "verif_usize_as_f64", "usize": "verif_f64_as_usize"})
    f.name_return("r")
    f.add_spec("""    requires axis_ok(arr@), in_axis(arr@, f64_real(target)),
    ensures r matches Ok(i) ==> i + 1 < arr@.len() && rv(arr@, i as int) <= f64_real(target) <= rv(arr@, i as int + 1),
            r is Ok,""")
    f.body_start("    broadcast use areal, lits; proof { areal_obeys(); }")
    f.add_loop_spec(1, """        invariant
            axis_ok(arr@), in_axis(arr@, f64_real(target)), f64_real(target) < rv(arr@, arr@.len() - 1),
            0 <= low <= high < arr@.len(),
            // everything left of low is < target; arr[high] >= target
            forall|i: int| 0 <= i < low ==> #[trigger] rv(arr@, i) < f64_real(target),
            rv(arr@, high as int) >= f64_real(target),
        decreases high - low,""")
    f.loop_body_start(1, "        broadcast use areal, lits; proof { areal_obeys(); }")
    f.insert_before(r"high = mid[^;]*;", "            proof { assert(rv(arr@, mid as int) >= f64_real(target)); }")
    f.insert_before(r"low = mid[^;]*;", """            proof { assert(rv(arr@, mid as int) < f64_real(target));
                assert forall|i: int| 0 <= i < mid + 1 implies #[trigger] rv(arr@, i) < f64_real(target) by { if i < mid { assert(rv(arr@, i) < rv(arr@, mid as int)); } } }""")
    texts.append(f.text)
    parts.append(f.text + "\n")
    # ---- 1D ----
    l1 = x.fn(I + "interp.rs", "impl Interp1D :: fn linear")
    l1.rewrite(r"self\.x\.iter\(\)\.position\(\|&x_val\| x_val == point\)", "verif_position(&self.x, point)", 1, 1, rule="R-position")
    x.note("R-position", "Interp1D::linear: `self.x.iter().position(|&x_val| x_val == point)` written as verif_position(&self.x, point) (assumed contract of Iterator::position)")
    l1.name_return("r")
    l1.add_spec("""        requires axis_ok(self.x@), self.f_x@.len() == self.x@.len(), in_axis(self.x@, f64_real(point)),
        ensures r is Ok,
            // the value lies between the two neighbouring grid values ...
            exists|i: int| 0 <= i && i + 1 < self.x@.len() && rv(self.x@, i) <= f64_real(point) <= rv(self.x@, i + 1)
                && #[trigger] rmin(rv(self.f_x@, i), rv(self.f_x@, i + 1)) <= f64_real(r->Ok_0) <= rmax(rv(self.f_x@, i), rv(self.f_x@, i + 1)),
            // ... and at a grid point it is exactly the stored value
            forall|i: int| 0 <= i < self.x@.len() && f64_real(point) == rv(self.x@, i) ==> f64_real(r->Ok_0) == #[trigger] rv(self.f_x@, i),""")
    l1.body_start("        broadcast use areal, lits; proof { areal_obeys(); }")
    l1.insert_after(r"let lower_index = find_nearest_index\(&self\.x, point\)\?;", "        assert(lower_index + 1 < self.x.len());")
    l1.insert_before(r"return Ok\(self\.f_x\[i\]\);", """            proof {
                let ii = i as int;
                // witness cell: the one starting at i (or ending at i when i is the last index)
                let c = if ii + 1 < self.x@.len() { ii } else { ii - 1 };
                assert(rv(self.x@, c) <= f64_real(point) <= rv(self.x@, c + 1));
                assert(rmin(rv(self.f_x@, c), rv(self.f_x@, c + 1)) <= rv(self.f_x@, ii) <= rmax(rv(self.f_x@, c), rv(self.f_x@, c + 1)));
                assert forall|k: int| 0 <= k < self.x@.len() && f64_real(point) == rv(self.x@, k) implies rv(self.f_x@, ii) == #[trigger] rv(self.f_x@, k) by {
                    if k < ii { assert(rv(self.x@, k) < rv(self.x@, ii)); } else if k > ii { assert(rv(self.x@, ii) < rv(self.x@, k)); }
                }
            }""")
    l1.insert_before(r"Ok\(self\.f_x\[lower_index\] \* \(1\.0 - diff\)", """        proof {
            let li = lower_index as int;
            lemma_frac_unit(self.x@, li, f64_real(point));
            assert(f64_real(diff) == frac(self.x@, li, f64_real(point)));
            lemma_lerp_between(rv(self.f_x@, li), rv(self.f_x@, li + 1), f64_real(diff));
        }""")
    texts.append(l1.text)
    parts.append("impl Interp1D {\n" + l1.text + "\n}\n")
    # ---- 2D ----
    l2 = x.fn(I + "interp.rs", "impl Interp2D :: fn linear")
    l2.name_return("r")
    l2.add_spec("""        requires self.wf(), point@.len() == 2, in_axis(self.x@, f64_real(point@[0])), in_axis(self.y@, f64_real(point@[1])),
        ensures r is Ok,
            exists|i: int, j: int| #[trigger] self.cell_ok(i, j, f64_real(point@[0]), f64_real(point@[1]), f64_real(r->Ok_0)),""")
    l2.body_start("        broadcast use areal, lits; proof { areal_obeys(); }")
    l2.insert_after(r"let x_l = find_nearest_index\(&self\.x, point\[0\]\)\?;", "        assert(x_l + 1 < self.x.len());")
    l2.insert_after(r"let y_l = find_nearest_index\(&self\.y, point\[1\]\)\?;", "        assert(y_l + 1 < self.y.len());")
    l2.insert_before(r"Ok\(c0 \* \(1\.0 - y_diff\) \+ c1 \* y_diff\)", """        proof {
            let (i, j) = (x_l as int, y_l as int);
            let (px, py) = (f64_real(point@[0]), f64_real(point@[1]));
            lemma_frac_unit(self.x@, i, px); lemma_frac_unit(self.y@, j, py);
            assert(f64_real(x_diff) == frac(self.x@, i, px)); assert(f64_real(y_diff) == frac(self.y@, j, py));
            assert(f64_real(c0) == lerp(self.v(i, j), self.v(i + 1, j), f64_real(x_diff)));
            assert(f64_real(c1) == lerp(self.v(i, j + 1), self.v(i + 1, j + 1), f64_real(x_diff)));
            lemma_lerp_between(self.v(i, j), self.v(i + 1, j), f64_real(x_diff));
            lemma_lerp_between(self.v(i, j + 1), self.v(i + 1, j + 1), f64_real(x_diff));
            lemma_lerp_between(f64_real(c0), f64_real(c1), f64_real(y_diff));
            assert(self.cell_ok(i, j, px, py, lerp(f64_real(c0), f64_real(c1), f64_real(y_diff))));
        }""")
    l2.rewrite(r"Ok\(c0 \* \(1\.0 - y_diff\) \+ c1 \* y_diff\)", "let verif_r = c0 * (1.0 - y_diff) + c1 * y_diff;\n        proof { assert(f64_real(verif_r) == lerp(f64_real(c0), f64_real(c1), f64_real(y_diff))); assert(self.cell_ok(x_l as int, y_l as int, f64_real(point@[0]), f64_real(point@[1]), f64_real(verif_r))); assert(exists|i: int, j: int| #[trigger] self.cell_ok(i, j, f64_real(point@[0]), f64_real(point@[1]), f64_real(verif_r))); }\n        let verif_res = Ok(verif_r); assert(verif_res->Ok_0 == verif_r); verif_res", 1, 1, rule="R-bind")
    x.note("R-bind", "Interp2D/3D::linear: the returned expression `Ok(E)` is let-bound (`let verif_r = E; Ok(verif_r)`) so that a proof hint can name it")
    texts.append(l2.text)
    parts.append("impl Interp2D {\n" + l2.text + "\n}\n")
    # ---- 3D ----
    l3 = x.fn(I + "interp.rs", "impl Interp3D :: fn linear")
    l3.name_return("r")
    l3.add_spec("""        requires self.wf(), point@.len() == 3, in_axis(self.x@, f64_real(point@[0])), in_axis(self.y@, f64_real(point@[1])), in_axis(self.z@, f64_real(point@[2])),
        ensures r is Ok,
            exists|i: int, j: int, k: int| #[trigger] self.cell_ok(i, j, k, f64_real(point@[0]), f64_real(point@[1]), f64_real(point@[2]), f64_real(r->Ok_0)),""")
    l3.body_start("        broadcast use areal, lits; proof { areal_obeys(); }")
    l3.insert_after(r"let x_l = find_nearest_index\(&self\.x, point\[0\]\)\?;", "        assert(x_l + 1 < self.x.len());")
    l3.insert_after(r"let y_l = find_nearest_index\(&self\.y, point\[1\]\)\?;", "        assert(y_l + 1 < self.y.len());")
    l3.insert_after(r"let z_l = find_nearest_index\(&self\.z, point\[2\]\)\?;", "        assert(z_l + 1 < self.z.len());")
    l3.insert_before(r"Ok\(c0 \* \(1\.0 - z_diff\) \+ c1 \* z_diff\)", """        proof {
            let (i, j, k) = (x_l as int, y_l as int, z_l as int);
            lemma_frac_unit(self.x@, i, f64_real(point@[0])); lemma_frac_unit(self.y@, j, f64_real(point@[1])); lemma_frac_unit(self.z@, k, f64_real(point@[2]));
            assert(f64_real(x_diff) == frac(self.x@, i, f64_real(point@[0]))); assert(f64_real(y_diff) == frac(self.y@, j, f64_real(point@[1]))); assert(f64_real(z_diff) == frac(self.z@, k, f64_real(point@[2])));
            assert(f64_real(c00) == lerp(self.v(i, j, k), self.v(i + 1, j, k), f64_real(x_diff)));
            assert(f64_real(c01) == lerp(self.v(i, j, k + 1), self.v(i + 1, j, k + 1), f64_real(x_diff)));
            assert(f64_real(c10) == lerp(self.v(i, j + 1, k), self.v(i + 1, j + 1, k), f64_real(x_diff)));
            assert(f64_real(c11) == lerp(self.v(i, j + 1, k + 1), self.v(i + 1, j + 1, k + 1), f64_real(x_diff)));
            lemma_lerp_between(self.v(i, j, k), self.v(i + 1, j, k), f64_real(x_diff));
            lemma_lerp_between(self.v(i, j, k + 1), self.v(i + 1, j, k + 1), f64_real(x_diff));
            lemma_lerp_between(self.v(i, j + 1, k), self.v(i + 1, j + 1, k), f64_real(x_diff));
            lemma_lerp_between(self.v(i, j + 1, k + 1), self.v(i + 1, j + 1, k + 1), f64_real(x_diff));
            assert(f64_real(c0) == lerp(f64_real(c00), f64_real(c10), f64_real(y_diff)));
            assert(f64_real(c1) == lerp(f64_real(c01), f64_real(c11), f64_real(y_diff)));
            lemma_lerp_between(f64_real(c00), f64_real(c10), f64_real(y_diff));
            lemma_lerp_between(f64_real(c01), f64_real(c11), f64_real(y_diff));
            lemma_lerp_between(f64_real(c0), f64_real(c1), f64_real(z_diff));
            assert(self.cell_ok(i, j, k, f64_real(point@[0]), f64_real(point@[1]), f64_real(point@[2]), lerp(f64_real(c0), f64_real(c1), f64_real(z_diff))));
        }""")
    l3.rewrite(r"Ok\(c0 \* \(1\.0 - z_diff\) \+ c1 \* z_diff\)", "let verif_r = c0 * (1.0 - z_diff) + c1 * z_diff;\n        proof { assert(f64_real(verif_r) == lerp(f64_real(c0), f64_real(c1), f64_real(z_diff))); assert(self.cell_ok(x_l as int, y_l as int, z_l as int, f64_real(point@[0]), f64_real(point@[1]), f64_real(point@[2]), f64_real(verif_r))); assert(exists|i: int, j: int, k: int| #[trigger] self.cell_ok(i, j, k, f64_real(point@[0]), f64_real(point@[1]), f64_real(point@[2]), f64_real(verif_r))); }\n        let verif_res = Ok(verif_r); assert(verif_res->Ok_0 == verif_r); verif_res", 1, 1, rule="R-bind")
    texts.append(l3.text)
    parts.append("impl Interp3D {\n" + l3.text + "\n}\n")
    # ---- Interpolator::validate_inputs ----
    ien = x.item_text(I + "interp.rs", "enum Interpolator")
    ien, _ = G.strip_inner_attrs(ien)
    parts.append(ien + """
pub struct InterpND { pub grid: Vec<Vec<f64>> }
impl InterpND { #[verifier::external_body] pub fn ndim(&self) -> (r: usize) ensures r == self.grid.len() { unimplemented!() } }
#[verifier::external_body] pub struct Strategy { _p: u8 }
impl Interpolator {
    pub open spec fn grid_ok(&self) -> bool {
        match self {
            Interpolator::Interp0D(_) => true,
            Interpolator::Interp1D(i) => i.x@.len() >= 1,
            Interpolator::Interp2D(i) => i.x@.len() >= 1 && i.y@.len() >= 1,
            Interpolator::Interp3D(i) => i.x@.len() >= 1 && i.y@.len() >= 1 && i.z@.len() >= 1,
            Interpolator::InterpND(i) => forall|k: int| 0 <= k < i.grid@.len() ==> (#[trigger] i.grid@[k])@.len() >= 1,
        }
    }
    /// the point lies inside the grid in every dimension (1-D .. 3-D)
    pub open spec fn inside(&self, p: Seq<f64>) -> bool {
        match self {
            Interpolator::Interp1D(i) => p.len() == 1 && in_axis(i.x@, f64_real(p[0])),
            Interpolator::Interp2D(i) => p.len() == 2 && in_axis(i.x@, f64_real(p[0])) && in_axis(i.y@, f64_real(p[1])),
            Interpolator::Interp3D(i) => p.len() == 3 && in_axis(i.x@, f64_real(p[0])) && in_axis(i.y@, f64_real(p[1])) && in_axis(i.z@, f64_real(p[2])),
            _ => true,
        }
    }
}
""")
    nd = x.fn(I + "interp.rs", "impl Interpolator :: fn ndim")
    nd.name_return("r")
    nd.add_spec("""        ensures r == (match self { Interpolator::Interp0D(_) => 0usize, Interpolator::Interp1D(_) => 1usize, Interpolator::Interp2D(_) => 2usize,
                                   Interpolator::Interp3D(_) => 3usize, Interpolator::InterpND(i) => i.grid.len() }),""")
    vi = x.fn(I + "interp.rs", "impl Interpolator :: fn validate_inputs")
    vi.replace_macro_calls(r"format", "verif_err()")
    vi.rewrite(r"\"No point should be provided for 0-D interpolation\"\.to_string\(\)", "verif_err()", 1, 1, rule="R-format")
    vi.name_return("r")
    vi.add_spec("""        requires self.grid_ok(),
        ensures
            // C14: a point outside the grid (or of the wrong dimensionality) is rejected with an error, never extrapolated
            (self is Interp1D || self is Interp2D || self is Interp3D) ==> (r is Ok <==> self.inside(point@)),""")
    vi.body_start("        broadcast use areal, lits; proof { areal_obeys(); }")
    vi.add_loop_spec(1, """                    invariant self is InterpND, n == point@.len(), interp.grid.len() == n, forall|k: int| 0 <= k < interp.grid@.len() ==> (#[trigger] interp.grid@[k])@.len() >= 1,""")
    vi.loop_body_start(1, "                    broadcast use areal, lits; proof { areal_obeys(); assert(interp.grid@[i as int]@.len() >= 1); }")
    texts.append(vi.text)
    parts.append("impl Interpolator {\n" + nd.text + "\n" + vi.text + "\n}\n")
    parts.append("""
// vacuity guard: MUST FAIL
pub fn vacuity_probe(arr: &[f64], t: f64) -> (r: Result<usize, String>) requires axis_ok(arr@), in_axis(arr@, f64_real(t)) ensures false { find_nearest_index(arr, t) }
""")
    parts.insert(0, P.literal_axioms(texts, extra=("0.0", "1.0")))
    parts.insert(0, P.f64_real())
    return P.wrap("\n".join(parts))
