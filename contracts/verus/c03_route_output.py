"""C03 ("the route summary equals the state after the last edge") -- construct_route_output of the traversal output plugin [V].

Extracted verbatim: `fn construct_route_output` (traversal/plugin.rs).  Serialisation (StateModel::serialize_state / serialize_state_model, CostModel::serialize_cost /
serialize_cost_info, TraversalOutputFormat::generate_route_output -- whose geometry side is unit c20_route_geom) is uninterpreted and deterministic; the final `json![{..}]`
object literal is one constructor over its five members (R-collect).
"""
import re
import genlib as G

F = "routee-compass/src/plugin/output/default/traversal/plugin.rs"
OBLIGATIONS = ["construct_route_output"]
MUST_FAIL = ["vacuity_probe"]

HEAD = """#![allow(unused_imports, unused_variables, dead_code, unused_mut, unused_parens, unused_assignments)]
use vstd::prelude::*;
use std::sync::Arc;
verus! {
#[verifier::external_body] pub struct Value { _p: u8 }                 // serde_json::Value
#[verifier::external_body] pub struct StateVar { _p: u8 }
#[verifier::external_body] pub struct StateModel { _p: u8 }
#[verifier::external_body] pub struct CostModel { _p: u8 }
#[verifier::external_body] pub struct LineStringF32 { _p: u8 }
#[verifier::external_body] pub struct TraversalOutputFormat { _p: u8 }
#[verifier::external_body] pub struct OutputPluginError { _p: u8 }
#[verifier::external_body] pub struct CostModelError { _p: u8 }
pub struct EdgeTraversal { pub edge_id: usize, pub result_state: Vec<StateVar> }     // R3: the fields this function reads
pub struct SearchInstance { pub state_model: Arc<StateModel>, pub cost_model: Arc<CostModel> }
pub uninterp spec fn ser_state(m: &StateModel, s: Seq<StateVar>) -> Value;
pub uninterp spec fn ser_state_model(m: &StateModel) -> Value;
pub uninterp spec fn ser_cost(m: &CostModel, s: Seq<StateVar>) -> Option<Value>;
pub uninterp spec fn ser_cost_info(m: &CostModel) -> Option<Value>;
pub uninterp spec fn gen_route(f: &TraversalOutputFormat, route: Seq<EdgeTraversal>, geoms: Seq<LineStringF32>) -> Option<Value>;
/// the object literal `json![{"traversal_summary": a, "state_model": b, "cost_model": c, "cost": d, "path": e}]`
pub uninterp spec fn route_object(summary: Value, state_model: Value, cost_model: Value, cost: Value, path: Value) -> Value;
impl StateModel {
    #[verifier::external_body] pub fn serialize_state(&self, s: &Vec<StateVar>) -> (r: Value) ensures r == ser_state(self, s@) { unimplemented!() }
    #[verifier::external_body] pub fn serialize_state_model(&self) -> (r: Value) ensures r == ser_state_model(self) { unimplemented!() }
}
impl CostModel {
    #[verifier::external_body] pub fn serialize_cost(&self, s: &Vec<StateVar>) -> (r: Result<Value, CostModelError>) ensures r is Ok <==> ser_cost(self, s@) is Some, r matches Ok(v) ==> Some(v) == ser_cost(self, s@) { unimplemented!() }
    #[verifier::external_body] pub fn serialize_cost_info(&self) -> (r: Result<Value, CostModelError>) ensures r is Ok <==> ser_cost_info(self) is Some, r matches Ok(v) ==> Some(v) == ser_cost_info(self) { unimplemented!() }
}
impl TraversalOutputFormat {
    #[verifier::external_body] pub fn generate_route_output(&self, route: &Vec<EdgeTraversal>, geoms: &[LineStringF32]) -> (r: Result<Value, OutputPluginError>)
        ensures r is Ok <==> gen_route(self, route@, geoms@) is Some, r matches Ok(v) ==> Some(v) == gen_route(self, route@, geoms@) { unimplemented!() }
}
#[verifier::external_body] pub fn verif_route_object(summary: Value, state_model: Value, cost_model: Value, cost: Value, path: Value) -> (r: Value)
    ensures r == route_object(summary, state_model, cost_model, cost, path) { unimplemented!() }
#[verifier::external_body] pub fn verif_err_string() -> String { unimplemented!() }
/// neighbouring API: `route.first()`
#[verifier::external_body] pub fn verif_first(route: &Vec<EdgeTraversal>) -> (r: Option<&EdgeTraversal>)
    ensures route@.len() == 0 ==> r is None, route@.len() > 0 ==> (r matches Some(e) && *e == route@[0]) { route.first() }
/// `route.last()`
#[verifier::external_body] pub fn verif_last(route: &Vec<EdgeTraversal>) -> (r: Option<&EdgeTraversal>)
    ensures route@.len() == 0 ==> r is None, route@.len() > 0 ==> (r matches Some(e) && *e == route@[route@.len() - 1]) { route.last() }
"""


def build(x):
    parts = [HEAD]
    f = x.fn(F, "fn construct_route_output")
    f.rewrite(r"\A(\s*)fn ", r"\1pub fn ", 1, 1, rule="R2")
    f.rewrite(r"geoms: &\[LineString<f32>\],", "geoms: &[LineStringF32],", 1, 1, rule="R-path")
    f.rewrite(r"Result<serde_json::Value, String>", "Result<Value, String>", 1, 1, rule="R-path")
    f.rewrite(r"route\s*\.(last|first)\(\)", r"verif_\1(route)", 1, 1, rule="R-collect")
    x.note("R-collect", "construct_route_output: `route.last()` written verif_last(route) (the last element, None for an empty route); the `serde_json::json![{..}]` object literal written verif_route_object(..) over its five members")
    f.rewrite(r"\.ok_or_else\(\|\| String::from\(\"[^\"]*\"\)\)", ".ok_or_else(|| -> (es: String) { verif_err_string() })", 1, 1, rule="R-format")
    tys = iter(["OutputPluginError", "CostModelError", "CostModelError"])   # the three error types, in order of appearance
    f.rewrite(r"\.map_err\(\|e\| e\.to_string\(\)\)", lambda m: ".map_err(|e: %s| -> (es: String) { verif_err_string() })" % next(tys), 3, 3, rule="R-format")
    pat = re.compile(r"serde_json::json!\[\{\s*\"traversal_summary\": (\w+),\s*\"state_model\": (\w+),\s*\"cost_model\": (\w+),\s*\"cost\": (\w+),\s*\"path\": (\w+)\s*\}\]", re.S)
    f.rewrite(pat.pattern, r"verif_route_object(\1, \2, \3, \4, \5)", 1, 1, rule="R-collect", flags=re.S)
    f.name_return("r")
    f.add_spec("""    ensures
        // C03: the route summary is the serialisation of the state AFTER THE LAST EDGE of this very route (under the instance's own state model), the cost block is costed from
        // that same state, and the path block is generated from this same route
        r matches Ok(v) ==> (route@.len() > 0 && (gen_route(output_format, route@, geoms@) matches Some(path) && (ser_cost(&*si.cost_model, route@[route@.len() - 1].result_state@) matches Some(cost)
            && (ser_cost_info(&*si.cost_model) matches Some(info)
            && v == route_object(ser_state(&*si.state_model, route@[route@.len() - 1].result_state@), ser_state_model(&*si.state_model), info, cost, path))))),
        // an empty route has no last edge: an error, never a summary of something else
        route@.len() == 0 ==> r is Err,""")
    parts.append(f.text + "\n")
    parts.append("""
// vacuity guard: MUST FAIL
pub fn vacuity_probe(route: &Vec<EdgeTraversal>, si: &SearchInstance, f: &TraversalOutputFormat, g: &[LineStringF32]) -> (b: bool) ensures false { construct_route_output(route, si, f, g).is_ok() }
} // verus!
fn main() {}
""")
    return "\n".join(parts)
