"""Verus preludes (rule R4, assumption A-REAL).

Everything here is ASSUMED, not proved; the assumption scan lists each axiom by
name in the evidence.  A-REAL: machine f64 arithmetic and comparison are
treated as the arithmetic and order of the mathematical reals (no rounding, no
overflow, no NaN, no signed zero).  The numeric newtypes of
routee-compass-core::model::unit (which are derive_more/ordered_float wrappers
around one f64) are supplied as shims with the same names, constructors and
operators, each operator being the f64 operator on the wrapped value.
"""
import re

HEADER = """#![allow(unused_imports, unused_variables, dead_code, unused_mut, unused_parens, non_snake_case, unused_braces, unreachable_code, unused_assignments)]
use vstd::prelude::*;
use vstd::std_specs::ops::*;
use vstd::std_specs::cmp::*;
use core::cmp::Ordering;
"""

F64_REAL = """
// ---- A-REAL: f64 as mathematical reals (assumed) ----
pub uninterp spec fn f64_real(x: f64) -> real;
pub open spec fn real_cmp(a: real, b: real) -> Option<Ordering> {
    if a < b { Some(Ordering::Less) } else if a == b { Some(Ordering::Equal) } else { Some(Ordering::Greater) }
}
pub axiom fn areal_obeys() ensures
    <f64 as MulSpec<f64>>::obeys_mul_spec(), <f64 as DivSpec<f64>>::obeys_div_spec(),
    <f64 as AddSpec<f64>>::obeys_add_spec(), <f64 as SubSpec<f64>>::obeys_sub_spec(),
    <f64 as PartialOrdSpec<f64>>::obeys_partial_cmp_spec(), <f64 as PartialEqSpec<f64>>::obeys_eq_spec();
pub broadcast axiom fn areal_mul_req(a: f64, b: f64) ensures #[trigger] a.mul_req(b);
pub broadcast axiom fn areal_div_req(a: f64, b: f64) ensures #[trigger] a.div_req(b);
pub broadcast axiom fn areal_add_req(a: f64, b: f64) ensures #[trigger] a.add_req(b);
pub broadcast axiom fn areal_sub_req(a: f64, b: f64) ensures #[trigger] a.sub_req(b);
pub broadcast axiom fn areal_mul(a: f64, b: f64) ensures f64_real(#[trigger] a.mul_spec(b)) == f64_real(a) * f64_real(b);
pub broadcast axiom fn areal_div(a: f64, b: f64) ensures f64_real(b) != 0real ==> f64_real(#[trigger] a.div_spec(b)) == f64_real(a) / f64_real(b);
pub broadcast axiom fn areal_add(a: f64, b: f64) ensures f64_real(#[trigger] a.add_spec(b)) == f64_real(a) + f64_real(b);
pub broadcast axiom fn areal_sub(a: f64, b: f64) ensures f64_real(#[trigger] a.sub_spec(b)) == f64_real(a) - f64_real(b);
pub broadcast axiom fn areal_cmp(a: f64, b: f64) ensures #[trigger] a.partial_cmp_spec(&b) == real_cmp(f64_real(a), f64_real(b));
pub broadcast axiom fn areal_eq(a: f64, b: f64) ensures #[trigger] a.eq_spec(&b) == (f64_real(a) == f64_real(b));
pub broadcast group areal {
    areal_mul_req, areal_div_req, areal_add_req, areal_sub_req, areal_mul, areal_div, areal_add, areal_sub, areal_cmp, areal_eq,
    %(EXTRA)s
}
"""

_field_axioms = []


def f64_real(extra=()):
    """the A-REAL prelude; call AFTER all numtype()/field_typed() calls of the unit so that the broadcast group
    `areal` contains the field-typing axioms"""
    names = list(_field_axioms) + list(extra)
    del _field_axioms[:]
    return F64_REAL % dict(EXTRA=", ".join(names))


def field_typed(struct, field="0"):
    """Verus (this build) emits no type invariant for f64 fields of a datatype, so quantified f64 axioms do not
    trigger on `s.0`.  This states the missing invariant: the field is equal to a (well-typed) f64 term."""
    n = "%s_%s_typed" % (struct, field)
    _field_axioms.append(n)
    return ("pub uninterp spec fn %s_%s_f(d: %s) -> f64;\n"
            "pub broadcast axiom fn %s(d: %s) ensures #[trigger] d.%s == %s_%s_f(d);\n") % (struct, field, struct, n, struct, field, struct, field)



def literal_axioms(texts, extra=()):
    """one axiom `f64_real(<lit>f64) == <lit>real` per decimal literal occurring in the given texts"""
    lits = set(extra)
    for t in texts:
        for m in re.finditer(r"(?<![A-Za-z0-9_.])(\d[\d_]*\.\d[\d_]*)(?:f64)?(?![A-Za-z0-9_.]|\.\d)", t):
            lits.add(m.group(1).replace("_", ""))
    out = ["// ---- generated literal axioms (A-REAL): a decimal literal denotes its decimal value; products and",
           "// quotients with a literal are stated with the literal as a constant so that they stay linear for the solver ----"]
    names = []
    for i, l in enumerate(sorted(lits, key=lambda s: (float(s), s))):
        n = "lit_%s" % re.sub(r"[^0-9]", "_", l)
        names += [n, n + "_mul", n + "_lmul"]
        out.append("pub broadcast axiom fn %s() ensures #[trigger] f64_real(%sf64) == %sreal;" % (n, l, l))
        out.append("pub broadcast axiom fn %s_mul(a: f64) ensures f64_real(#[trigger] a.mul_spec(%sf64)) == f64_real(a) * %sreal;" % (n, l, l))
        out.append("pub broadcast axiom fn %s_lmul(a: f64) ensures f64_real(#[trigger] %sf64.mul_spec(a)) == %sreal * f64_real(a);" % (n, l, l))
        if float(l) != 0.0:
            names.append(n + "_div")
            out.append("pub broadcast axiom fn %s_div(a: f64) ensures f64_real(#[trigger] a.div_spec(%sf64)) == f64_real(a) / %sreal;" % (n, l, l))
    out.append("pub broadcast group lits { %s }" % ", ".join(names))
    return "\n".join(out) + "\n"


def numtype(name, consts=(("ZERO", "0.0"), ("ONE", "1.0")), ops=("mulf", "divf", "add", "sub", "ord"), extra=""):
    """shim for a unit newtype: struct Name(pub f64) with a real view"""
    t = """
// ---- shim (R4): %(n)s, a newtype around one f64 (derive_more + ordered_float in the real code) ----
#[derive(Copy, Clone)]
pub struct %(n)s(pub f64);
impl %(n)s {
    pub open spec fn view(self) -> real { f64_real(self.0) }
    pub fn new(value: f64) -> (r: %(n)s) ensures r@ == f64_real(value), r.0 == value { %(n)s(value) }
    pub fn as_f64(&self) -> (r: f64) ensures f64_real(r) == self@, r == self.0 { self.0 }
    pub fn to_f64(&self) -> (r: f64) ensures f64_real(r) == self@, r == self.0 { self.0 }
    // Ord::min / Ord::max of the ordered_float wrapper (A-REAL)
    pub fn min(self, other: %(n)s) -> (r: %(n)s) ensures r == (if self@ <= other@ { self } else { other }) { broadcast use areal; proof { areal_obeys(); } if self.0 <= other.0 { self } else { other } }
    pub fn max(self, other: %(n)s) -> (r: %(n)s) ensures r == (if self@ >= other@ { self } else { other }) { broadcast use areal; proof { areal_obeys(); } if self.0 >= other.0 { self } else { other } }
%(consts)s
%(extra)s
}
""" % dict(n=name, consts="\n".join("    pub const %s: %s = %s(%s);" % (c, name, name, v) for c, v in consts), extra=extra)
    t += field_typed(name)
    if "mulf" in ops:
        t += """impl MulSpecImpl<f64> for %(n)s {
    open spec fn obeys_mul_spec() -> bool { true }
    open spec fn mul_req(self, rhs: f64) -> bool { true }
    open spec fn mul_spec(self, rhs: f64) -> %(n)s { %(n)s(self.0.mul_spec(rhs)) }
}
impl core::ops::Mul<f64> for %(n)s { type Output = %(n)s; fn mul(self, rhs: f64) -> %(n)s { proof { areal_mul_req(self.0, rhs); areal_obeys(); } %(n)s(self.0 * rhs) } }
""" % dict(n=name)
    if "divf" in ops:
        t += """impl DivSpecImpl<f64> for %(n)s {
    open spec fn obeys_div_spec() -> bool { true }
    open spec fn div_req(self, rhs: f64) -> bool { true }
    open spec fn div_spec(self, rhs: f64) -> %(n)s { %(n)s(self.0.div_spec(rhs)) }
}
impl core::ops::Div<f64> for %(n)s { type Output = %(n)s; fn div(self, rhs: f64) -> %(n)s { proof { areal_div_req(self.0, rhs); areal_obeys(); } %(n)s(self.0 / rhs) } }
""" % dict(n=name)
    if "add" in ops:
        t += """impl AddSpecImpl<%(n)s> for %(n)s {
    open spec fn obeys_add_spec() -> bool { true }
    open spec fn add_req(self, rhs: %(n)s) -> bool { true }
    open spec fn add_spec(self, rhs: %(n)s) -> %(n)s { %(n)s(self.0.add_spec(rhs.0)) }
}
impl core::ops::Add<%(n)s> for %(n)s { type Output = %(n)s; fn add(self, rhs: %(n)s) -> %(n)s { proof { areal_add_req(self.0, rhs.0); areal_obeys(); } %(n)s(self.0 + rhs.0) } }
""" % dict(n=name)
    if "sub" in ops:
        t += """impl SubSpecImpl<%(n)s> for %(n)s {
    open spec fn obeys_sub_spec() -> bool { true }
    open spec fn sub_req(self, rhs: %(n)s) -> bool { true }
    open spec fn sub_spec(self, rhs: %(n)s) -> %(n)s { %(n)s(self.0.sub_spec(rhs.0)) }
}
impl core::ops::Sub<%(n)s> for %(n)s { type Output = %(n)s; fn sub(self, rhs: %(n)s) -> %(n)s { proof { areal_sub_req(self.0, rhs.0); areal_obeys(); } %(n)s(self.0 - rhs.0) } }
""" % dict(n=name)
    if "ord" in ops:
        t += """impl PartialEqSpecImpl for %(n)s {
    open spec fn obeys_eq_spec() -> bool { true }
    open spec fn eq_spec(&self, other: &%(n)s) -> bool { self.0.eq_spec(&other.0) }
}
impl core::cmp::PartialEq for %(n)s { fn eq(&self, other: &%(n)s) -> bool { broadcast use areal; proof { areal_obeys(); } self.0 == other.0 } }
impl PartialOrdSpecImpl for %(n)s {
    open spec fn obeys_partial_cmp_spec() -> bool { true }
    open spec fn partial_cmp_spec(&self, other: &%(n)s) -> Option<Ordering> { self.0.partial_cmp_spec(&other.0) }
}
impl core::cmp::PartialOrd for %(n)s { fn partial_cmp(&self, other: &%(n)s) -> Option<Ordering> { broadcast use areal; proof { areal_obeys(); } self.0.partial_cmp(&other.0) } }
""" % dict(n=name)
    return t


def wrap(body):
    return HEADER + "verus! {\n" + body + "\n} // verus!\nfn main() {}\n"
