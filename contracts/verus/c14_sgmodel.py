"""C14 (model level) -- the interpolated speed/grade powertrain model against its underlying model [V-real].

Extracted verbatim from routee-compass-powertrain/src/routee/prediction/interpolation:
  utils.rs :: linspace;  interp.rs :: enum Interpolator, Interpolator::interpolate;
  interpolation_speed_grade_model.rs :: struct InterpolationSpeedGradeModel, ::new, PredictionModel::predict
and from routee-compass-core: SpeedUnit / GradeUnit / DistanceUnit (+ convert, spec tables generated as in C09), EnergyRateUnit (+ accessors).
ASSUMED contracts (each PROVED on the real function in another unit): Interp2D::linear and Interpolator::validate_inputs (unit c14_interp),
PredictionModelRecord::predict (unit c08_vehicle).  Assumed and not proved anywhere: Interp2D::new keeps its three arguments and answers Ok
only for strictly increasing axes and a matching value table (its `validate` is iterator pipelines); load_prediction_model returns a record in the
requested units without a cache.
Rules: R6 (`P: AsRef<Path>`), R-vec, R-cast, R9-named (`for i in 1..n` with Verus' named iterator), R9-index (the two grid loops over
`v.clone().into_iter()` written as index loops over v), R-format, R-clamp (`a.max(b).min(c)` on f64 under A-REAL), R3.
"""
import re
import prelude as P
import genlib as G
import c04_frontier as C4
import c09_units as C9
import c08_vehicle as C8
import c14_interp as C14

I = "routee-compass-powertrain/src/routee/prediction/interpolation/"
U = "routee-compass-core/src/model/unit/"
OBLIGATIONS = ["linspace", "new", "predict", "interpolate", "lemma_grid_point_exact"]
MUST_FAIL = ["vacuity_probe"]

SHIMS = """
pub enum TraversalModelError { BuildError(String), TraversalModelFailure(String), Other }
#[verifier::external_body] pub fn verif_format() -> String { String::new() }
#[verifier::external_body] pub fn verif_err() -> String { String::new() }
#[verifier::external_body] pub fn verif_usize_as_f64(x: usize) -> (r: f64) ensures f64_real(r) == x as real { x as f64 }
#[verifier::external_body] pub fn verif_vec_f64(x: f64, n: usize) -> (r: Vec<f64>) ensures r@.len() == n, forall|i: int| 0 <= i < n ==> #[trigger] r@[i] == x { vec![x; n] }
// f64::max / f64::min under A-REAL (assumed)
#[verifier::external_body] pub fn verif_fmax(a: f64, b: f64) -> (r: f64) ensures f64_real(r) == (if f64_real(a) >= f64_real(b) { f64_real(a) } else { f64_real(b) }) { a.max(b) }
#[verifier::external_body] pub fn verif_fmin(a: f64, b: f64) -> (r: f64) ensures f64_real(r) == (if f64_real(a) <= f64_real(b) { f64_real(a) } else { f64_real(b) }) { a.min(b) }
#[verifier::external_body] pub struct VerifPath { _p: u8 }
#[verifier::external_body] pub struct ModelType { _p: u8 }
#[verifier::external_body] pub struct PredictionModelInner { _p: u8 }
#[verifier::external_body] pub struct FloatCachePolicy { _p: u8 }
pub uninterp spec fn model_rate(m: &PredictionModelInner, speed: real, grade: real) -> real;   // the underlying model's energy rate at (speed, grade)

// ---- the underlying model record: contract of PredictionModelRecord::predict PROVED in unit c08_vehicle ----
pub struct PredictionModelRecord {
    pub prediction_model: PredictionModelInner, pub speed_unit: SpeedUnit, pub grade_unit: GradeUnit, pub energy_rate_unit: EnergyRateUnit,
    pub real_world_energy_adjustment: f64,
}
impl PredictionModelRecord {
    pub open spec fn energy_spec(&self, speed: real, grade: real, d: real, du: DistanceUnit) -> real {
        (model_rate(&self.prediction_model, speed, grade) * f64_real(self.real_world_energy_adjustment)) * conv_DistanceUnit(du, eru_distance(self.energy_rate_unit), d)
    }
    /// the rate the record stands for, per unit of ITS OWN distance unit
    pub open spec fn rate(&self, speed: real, grade: real) -> real { model_rate(&self.prediction_model, speed, grade) * f64_real(self.real_world_energy_adjustment) }
    #[verifier::external_body]
    pub fn predict(&self, speed: (Speed, SpeedUnit), grade: (Grade, GradeUnit), distance: (Distance, DistanceUnit)) -> (r: Result<(Energy, EnergyUnit), TraversalModelError>)
        ensures r matches Ok(p) ==> p.1 == eru_energy(self.energy_rate_unit) && p.0@ == self.energy_spec(speed.0@, grade.0@, distance.0@, distance.1)
    { unimplemented!() }
}
// ASSUMED: the loader hands back a record in the requested units
#[verifier::external_body]
pub fn load_prediction_model(name: String, model_path: &VerifPath, model_type: ModelType, speed_unit: SpeedUnit, grade_unit: GradeUnit, energy_rate_unit: EnergyRateUnit,
                             ideal: Option<EnergyRate>, adj: Option<f64>, cache: Option<FloatCachePolicy>) -> (r: Result<PredictionModelRecord, TraversalModelError>)
    ensures r matches Ok(m) ==> m.speed_unit == speed_unit && m.grade_unit == grade_unit && m.energy_rate_unit == energy_rate_unit
{ unimplemented!() }

// ---- the generic interpolator: contracts PROVED in unit c14_interp ----
pub mod interp { pub use super::{Interpolator, Interp2D, Strategy}; }
pub enum Strategy { None, Linear, LeftNearest, RightNearest, Nearest }
#[verifier::external_body] pub struct Interp1D { _p: u8 }
#[verifier::external_body] pub struct Interp3D { _p: u8 }
#[verifier::external_body] pub struct InterpND { _p: u8 }
impl Interp1D {
    #[verifier::external_body] pub fn linear(&self, p: f64) -> Result<f64, String> { unimplemented!() }
    #[verifier::external_body] pub fn left_nearest(&self, p: f64) -> Result<f64, String> { unimplemented!() }
    #[verifier::external_body] pub fn right_nearest(&self, p: f64) -> Result<f64, String> { unimplemented!() }
    #[verifier::external_body] pub fn nearest(&self, p: f64) -> Result<f64, String> { unimplemented!() }
}
impl Interp3D { #[verifier::external_body] pub fn linear(&self, p: &[f64]) -> Result<f64, String> { unimplemented!() } }
impl InterpND { #[verifier::external_body] pub fn linear(&self, p: &[f64]) -> Result<f64, String> { unimplemented!() } }
impl Interp2D {
    // ASSUMED (validate is iterator pipelines): the constructor keeps its arguments and accepts only strictly increasing axes with a matching value table
    #[verifier::external_body]
    pub fn new(x: Vec<f64>, y: Vec<f64>, f_xy: Vec<Vec<f64>>) -> (r: Result<Interp2D, String>)
        ensures r matches Ok(i) ==> i.x@ == x@ && i.y@ == y@ && i.f_xy@ == f_xy@
    { unimplemented!() }
    // PROVED in unit c14_interp
    #[verifier::external_body]
    pub fn linear(&self, point: &[f64]) -> (r: Result<f64, String>)
        requires self.wf(), point@.len() == 2, in_axis(self.x@, f64_real(point@[0])), in_axis(self.y@, f64_real(point@[1])),
        ensures r is Ok, exists|i: int, j: int| #[trigger] self.cell_ok(i, j, f64_real(point@[0]), f64_real(point@[1]), f64_real(r->Ok_0)),
    { unimplemented!() }
}
impl Interpolator {
    pub open spec fn inside2(&self, p: Seq<f64>) -> bool { self matches Interpolator::Interp2D(i) && p.len() == 2 && in_axis(i.x@, f64_real(p[0])) && in_axis(i.y@, f64_real(p[1])) }
    // PROVED in unit c14_interp (2-D arm)
    #[verifier::external_body]
    pub fn validate_inputs(&self, point: &[f64], strategy: &Strategy) -> (r: Result<(), String>)
        ensures (self is Interp2D) ==> (r is Ok <==> self.inside2(point@)),
                (self is Interp1D && r is Ok) ==> point@.len() == 1,
    { unimplemented!() }
}
"""

SPEC = """
/// the grid the model is built on: node (i, j) holds the underlying record's rate at (speed_i, grade_j)
pub open spec fn grid_faithful(g: &Interp2D, rec: &PredictionModelRecord) -> bool {
    forall|i: int, j: int| 0 <= i < g.x@.len() && 0 <= j < g.y@.len() ==> #[trigger] g.v(i, j) == rec.rate(rv(g.x@, i), rv(g.y@, j))
}
pub open spec fn lin_axis(a: Seq<f64>, x0: real, xend: real, n: int) -> bool {
    a.len() == n && forall|i: int| 0 <= i < n ==> #[trigger] rv(a, i) == x0 + (i as real) * ((xend - x0) / ((n - 1) as real))
}
pub open spec fn clampr(x: real, lo: real, hi: real) -> real { if x < lo { lo } else if x > hi { hi } else { x } }
"""

LEMMAS = """
/// C14 "returns the underlying model's value at grid points": at a node the bilinear form is the node's value
pub proof fn lemma_grid_point_exact(g: &Interp2D, i: int, j: int, r: real)
    requires g.wf(), g.cell_ok(i, j, rv(g.x@, i), rv(g.y@, j), r)
    ensures r == g.v(i, j)
{
    assert(rv(g.x@, i) < rv(g.x@, i + 1)); assert(rv(g.y@, j) < rv(g.y@, j + 1));
    lemma_frac_unit(g.x@, i, rv(g.x@, i)); lemma_frac_unit(g.y@, j, rv(g.y@, j));
    assert(frac(g.x@, i, rv(g.x@, i)) == 0real && frac(g.y@, j, rv(g.y@, j)) == 0real);
    lemma_lerp_endpoints(g.v(i, j), g.v(i + 1, j)); lemma_lerp_endpoints(g.v(i, j + 1), g.v(i + 1, j + 1));
    lemma_lerp_endpoints(lerp(g.v(i, j), g.v(i + 1, j), 0real), lerp(g.v(i, j + 1), g.v(i + 1, j + 1), 0real));
}
"""


def build(x):
    parts, texts = [], []
    for t in ("Distance", "Speed", "Grade", "Energy", "EnergyRate"):
        parts.append(P.numtype(t))
    fam = {}
    for enum, val, fname in [("DistanceUnit", "Distance", "distance_unit.rs"), ("SpeedUnit", "Speed", "speed_unit.rs"), ("GradeUnit", "Grade", "grade_unit.rs")]:
        fam[enum] = C4.family(x, enum, val, fname)
        texts.append(fam[enum][2])
        parts.append("#[derive(Clone, Copy, PartialEq, Eq)]\n" + fam[enum][0] + "\n")
        parts.append(fam[enum][1])
        parts.append("impl %s {\n    %s\n}\n" % (enum, fam[enum][2]))
    # neighbouring API of SpeedUnit (not under contract; present so that code using it still type-checks)
    acc = [x.fn(U + "speed_unit.rs", "impl SpeedUnit :: fn " + n, under_contract=False).text for n in ("associated_distance_unit",)]
    parts.append("impl SpeedUnit {\n" + "\n".join(acc) + "\n}\n")
    parts.append(C9.LEMMAS % C9.lemma_args("DistanceUnit", G.enum_variants(fam["DistanceUnit"][0])))
    for enum, f in [("EnergyUnit", "energy_unit.rs"), ("EnergyRateUnit", "energy_rate_unit.rs")]:
        et, _ = G.strip_inner_attrs(x.item_text(U + f, "enum " + enum))
        parts.append("#[derive(Clone, Copy, PartialEq, Eq)]\n" + et + "\n")
    parts.append(C8.ERU)
    eru_fns = []
    for sel, spec in [("associated_distance_unit", "eru_distance"), ("associated_energy_unit", "eru_energy")]:
        f = x.fn(U + "energy_rate_unit.rs", "impl EnergyRateUnit :: fn " + sel, under_contract=False)
        f.name_return("r")
        f.add_spec("        ensures r == %s(*self)," % spec)
        eru_fns.append(f.text)
    parts.append("impl EnergyRateUnit {\n" + "\n".join(eru_fns) + "\n}\n")
    # spec vocabulary of unit c14_interp (axis_ok, lerp, frac, lemmas, Interp2D + wf / cell_ok)
    spec14 = C14.SPEC
    a = spec14.index("// Iterator::position over the axis (assumed)")
    b = spec14.index("pub struct Interp1D {")
    c = spec14.index("impl Interp3D {")
    s14 = spec14[:a] + spec14[b:c]
    s14 = re.sub(r"pub struct Interp1D \{[^\n]*\n", "", s14)
    s14 = re.sub(r"pub struct Interp3D \{[^\n]*\n", "", s14)
    parts.append(s14)
    ien, _ = G.strip_inner_attrs(x.item_text(I + "interp.rs", "enum Interpolator"))
    parts.append(ien + "\n")
    parts.append(SHIMS)
    parts.append(SPEC)

    # ---- linspace ----
    ls = x.fn(I + "utils.rs", "fn linspace")
    ls.rewrite_casts({"f64": "verif_usize_as_f64"})
    ls.rewrite(r"let mut x = vec!\[x0; n\];", "let mut x = verif_vec_f64(x0, n);", 1, 1, rule="R-vec")
    ls.rewrite(r"for i in 1\.\.n \{", "for i in verif_it: 1..n {", 1, 1, rule="R9-named")
    ls.name_return("r")
    ls.add_spec("""    requires n >= 2,
    ensures lin_axis(r@, f64_real(x0), f64_real(xend), n as int),
            f64_real(x0) < f64_real(xend) ==> axis_ok(r@),""")
    ls.body_start("    broadcast use areal, lits; proof { areal_obeys(); }")
    ls.insert_before(r"for i in verif_it: 1\.\.n \{", """    let ghost d = (f64_real(xend) - f64_real(x0)) / ((n - 1) as real);
    proof { assert(f64_real(dx) == d); assert(f64_real(x0) + (0int as real) * d == f64_real(x0)) by (nonlinear_arith); }""")
    ls.add_loop_spec(1, """        invariant x@.len() == n, n >= 2, f64_real(dx) == d,
            forall|j: int| 0 <= j < i ==> #[trigger] rv(x@, j) == f64_real(x0) + (j as real) * d,
            forall|j: int| i <= j < n ==> #[trigger] x@[j] == x0,""")
    ls.loop_body_start(1, "        broadcast use areal, lits; proof { areal_obeys(); } let ghost xo = x@;")
    ls.insert_after(r"x\[i\] = x\[i - 1\] \+ dx;", """        proof {
            assert(((i - 1) as real) * d + d == (i as real) * d) by (nonlinear_arith);
            assert(rv(xo, i - 1) == f64_real(x0) + ((i - 1) as real) * d);
            assert forall|j: int| 0 <= j < i + 1 implies #[trigger] rv(x@, j) == f64_real(x0) + (j as real) * d by { if j < i { assert(x@[j] == xo[j]); assert(rv(xo, j) == f64_real(x0) + (j as real) * d); } }
        }""")
    ls.insert_before(r"\n\s*x\s*\}\s*\Z", """
    proof {
        if f64_real(x0) < f64_real(xend) {
            assert(d > 0real) by (nonlinear_arith) requires d == (f64_real(xend) - f64_real(x0)) / ((n - 1) as real), f64_real(x0) < f64_real(xend), n >= 2;
            assert forall|a: int, b: int| 0 <= a < b < x@.len() implies #[trigger] rv(x@, a) < #[trigger] rv(x@, b) by {
                assert((a as real) * d < (b as real) * d) by (nonlinear_arith) requires d > 0real, a < b;
            }
        }
    }""")
    texts.append(ls.text)
    parts.append(ls.text + "\n")

    # ---- Interpolator::interpolate ----
    ip = x.fn(I + "interp.rs", "impl Interpolator :: fn interpolate")
    ip.replace_macro_calls(r"format", "verif_err()")
    ip.rewrite(r"!matches!\(strategy, Strategy::None\)", "!(match strategy { Strategy::None => true, _ => false })", 0, 1, rule="R-matches")
    ip.name_return("r")
    ip.add_spec("""        requires self matches Interpolator::Interp2D(g) ==> g.wf(),
        ensures
            // 2-D, linear strategy: a point outside the grid is an error; inside, the value is the bilinear form of the cell that holds the point
            (self is Interp2D && strategy is Linear) ==> ((r is Ok <==> self.inside2(point@))
                && (r is Ok ==> exists|i: int, j: int| #[trigger] self->Interp2D_0.cell_ok(i, j, f64_real(point@[0]), f64_real(point@[1]), f64_real(r->Ok_0)))),""")
    parts.append("impl Interpolator {\n" + ip.text + "\n}\n")

    # ---- the model ----
    st = x.item_text(I + "interpolation_speed_grade_model.rs", "struct InterpolationSpeedGradeModel")
    st = re.sub(r"(\n\s+)(interpolator|speed_unit|grade_unit|energy_rate_unit):", r"\1pub \2:", st)
    x.note("R2", "struct InterpolationSpeedGradeModel: fields made pub")
    parts.append(st + "\n")
    nw = x.fn(I + "interpolation_speed_grade_model.rs", "impl InterpolationSpeedGradeModel :: fn new")
    nw.rewrite(r"pub fn new<P: AsRef<Path>>\(\s*underlying_model_path: &P,", "pub fn new(\n        underlying_model_path: &VerifPath,", 1, 1, rule="R6")
    nw.replace_macro_calls(r"format", "verif_format()")
    nw.rewrite(r"\.map_err\(\|e\| \{", ".map_err(|e: String| -> (er: TraversalModelError) {", 1, 1, rule="R-closure")
    nw.rewrite(r"for speed_value in speed_values\.clone\(\)\.into_iter\(\) \{",
               "let mut verif_i: usize = 0;\n        while verif_i < speed_values.len() { let speed_value = speed_values[verif_i]; verif_i = verif_i + 1;", 1, 1, rule="R9-index")
    nw.rewrite(r"for grade_value in grade_values\.clone\(\)\.into_iter\(\) \{",
               "let mut verif_j: usize = 0;\n            while verif_j < grade_values.len() { let grade_value = grade_values[verif_j]; verif_j = verif_j + 1;", 1, 1, rule="R9-index")
    x.note("R9-index", "InterpolationSpeedGradeModel::new: `for v in xs.clone().into_iter() {` (f64 elements) written as an index loop over xs")
    nw.rewrite(r"let mut values = Vec::new\(\);", "let mut values: Vec<Vec<f64>> = Vec::new();", 1, 1, rule="R-annot")
    x.note("R-annot", "InterpolationSpeedGradeModel::new: `let mut values = Vec::new();` given the type rustc infers (Vec<Vec<f64>>) because the loop invariant mentions it first")
    nw.name_return("r")
    nw.add_spec("""        requires speed_bins >= 2, grade_bins >= 2,
        ensures r matches Ok(m) ==> exists|rec: PredictionModelRecord| ({
            &&& m.interpolator matches Interpolator::Interp2D(g)
            &&& m.speed_unit == speed_unit && m.grade_unit == grade_unit && m.energy_rate_unit == energy_rate_unit
            &&& rec.speed_unit == speed_unit && rec.grade_unit == grade_unit && rec.energy_rate_unit == energy_rate_unit
            // the axes are the requested linear grids ...
            &&& lin_axis(m.interpolator->Interp2D_0.x@, speed_bounds.0@, speed_bounds.1@, speed_bins as int)
            &&& lin_axis(m.interpolator->Interp2D_0.y@, grade_bounds.0@, grade_bounds.1@, grade_bins as int)
            // ... and every node holds the underlying model's rate (energy per unit of the RATE unit's own distance) at that node
            &&& #[trigger] grid_faithful(&m.interpolator->Interp2D_0, &rec)
        }),""")
    nw.body_start("        broadcast use areal, lits; proof { areal_obeys(); }")
    nw.add_loop_spec(1, """            invariant
                0 <= verif_i <= speed_values@.len(), values@.len() == verif_i, distance@ == 1real, distance_unit == eru_distance(energy_rate_unit),
                model.speed_unit == speed_unit && model.grade_unit == grade_unit && model.energy_rate_unit == energy_rate_unit,
                forall|a: int| 0 <= a < verif_i ==> (#[trigger] values@[a])@.len() == grade_values@.len(),
                forall|a: int, b: int| 0 <= a < verif_i && 0 <= b < grade_values@.len() ==> f64_real(#[trigger] values@[a]@[b]) == model.rate(rv(speed_values@, a), rv(grade_values@, b)),
            decreases speed_values@.len() - verif_i,""")
    nw.loop_body_start(1, "            broadcast use areal, lits; proof { areal_obeys(); } let ghost vals0 = values@;")
    nw.add_loop_spec(2, """                invariant
                    0 <= verif_j <= grade_values@.len(), row@.len() == verif_j, 1 <= verif_i <= speed_values@.len(), speed_value == speed_values@[verif_i - 1],
                    distance@ == 1real, distance_unit == eru_distance(energy_rate_unit),
                    model.speed_unit == speed_unit && model.grade_unit == grade_unit && model.energy_rate_unit == energy_rate_unit,
                    forall|b: int| 0 <= b < verif_j ==> f64_real(#[trigger] row@[b]) == model.rate(rv(speed_values@, verif_i - 1), rv(grade_values@, b)),
                decreases grade_values@.len() - verif_j,""")
    nw.loop_body_start(2, "                broadcast use areal, lits; proof { areal_obeys(); } let ghost row0 = row@;")
    nw.insert_after(r"row\.push\(energy\.as_f64\(\)\);", """                proof {
                    DistanceUnit_identity(distance_unit, 1real);
                    let rt = model.rate(rv(speed_values@, verif_i - 1), rv(grade_values@, verif_j - 1));
                    assert(rt * 1real == rt) by (nonlinear_arith);
                    assert(forall|b: int| 0 <= b < verif_j - 1 ==> #[trigger] row@[b] == row0[b]);
                }""")
    nw.insert_after(r"values\.push\(row\);", """            proof {
                assert(forall|a: int| 0 <= a < verif_i - 1 ==> #[trigger] values@[a] == vals0[a]);
            }""")
    nw.insert_before(r"Ok\(InterpolationSpeedGradeModel \{", """        proof {
            let g = interpolator->Interp2D_0;
            assert(g.x@ == speed_values0 && g.y@ == grade_values0 && g.f_xy@ == values0);
            assert forall|i: int, j: int| 0 <= i < g.x@.len() && 0 <= j < g.y@.len() implies #[trigger] g.v(i, j) == model.rate(rv(g.x@, i), rv(g.y@, j)) by {
                assert(f64_real(values0[i]@[j]) == model.rate(rv(speed_values0, i), rv(grade_values0, j)));
            }
            assert(grid_faithful(&g, &model));
        }""")
    nw.insert_before(r"let interpolator = interp::Interpolator::Interp2D\(", "        let ghost speed_values0 = speed_values@; let ghost grade_values0 = grade_values@; let ghost values0 = values@;")
    texts.append(nw.text)
    pr = x.fn(I + "interpolation_speed_grade_model.rs", "impl PredictionModel for InterpolationSpeedGradeModel :: fn predict")
    pr.rewrite(r"\A(\s*)fn ", r"\1pub fn ", 0, 1, rule="R3")
    pr.replace_macro_calls(r"format", "verif_format()")
    pr.rewrite(r'"[^"]*"\s*\.to_string\(\)', "verif_format()", 5, 5, rule="R-format")
    pr.rewrite(r"\.map_err\(\|e\| \{", ".map_err(|e: String| -> (er: TraversalModelError) {", 1, 1, rule="R-closure")
    pr.rewrite(r"(\w+)\.max\((\w+)\)\.min\((\w+)\)", r"verif_fmin(verif_fmax(\1, \2), \3)", 2, 2, rule="R-clamp")
    x.note("R-clamp", "InterpolationSpeedGradeModel::predict: `v.max(lo).min(hi)` on f64 written verif_fmin(verif_fmax(v, lo), hi) (assumed: A-REAL max/min)")
    pr.name_return("r")
    pr.add_spec("""        requires self.interpolator matches Interpolator::Interp2D(g) ==> g.wf(),
        ensures
            // C14: with a 2-D grid the prediction never fails -- a speed or grade outside the grid is treated as the nearest grid boundary --
            // and the rate is the bilinear form of the cell holding the (converted, clamped) point, hence between that cell's smallest and largest node
            self.interpolator matches Interpolator::Interp2D(g) ==> r is Ok && ({
                let sx = clampr(conv_SpeedUnit(speed.1, self.speed_unit, speed.0@), rv(g.x@, 0), rv(g.x@, g.x@.len() - 1));
                let gy = clampr(conv_GradeUnit(grade.1, self.grade_unit, grade.0@), rv(g.y@, 0), rv(g.y@, g.y@.len() - 1));
                r->Ok_0.1 == self.energy_rate_unit && exists|i: int, j: int| #[trigger] g.cell_ok(i, j, sx, gy, r->Ok_0.0@)
            }),""")
    pr.body_start("        broadcast use areal, lits; proof { areal_obeys(); }")
    pr.insert_before(r"let y = self\s*\.interpolator\s*\.interpolate\(", """        proof {
            let g = self.interpolator->Interp2D_0;
            assert(rv(g.x@, 0) < rv(g.x@, g.x@.len() - 1)); assert(rv(g.y@, 0) < rv(g.y@, g.y@.len() - 1));
        }
        let verif_pt = [speed_value, grade_value];
        proof { assert(verif_pt@.len() == 2); assert(self.interpolator.inside2(verif_pt@)); }""")
    pr.rewrite(r"\.interpolate\(&\[speed_value, grade_value\], &interp::Strategy::Linear\)", ".interpolate(&verif_pt, &interp::Strategy::Linear)", 1, 1, rule="R-bind")
    pr.insert_after(r"let energy_rate = EnergyRate::new\(y\);", """        proof {
            let g = self.interpolator->Interp2D_0;
            let sx = clampr(conv_SpeedUnit(speed_unit, self.speed_unit, speed@), rv(g.x@, 0), rv(g.x@, g.x@.len() - 1));
            let gy = clampr(conv_GradeUnit(grade_unit, self.grade_unit, grade@), rv(g.y@, 0), rv(g.y@, g.y@.len() - 1));
            /*verif:obligation (the model is evaluated at the speed converted to ITS unit and clamped to the grid)*/ assert(f64_real(verif_pt@[0]) == sx);
            /*verif:obligation (... and at the grade converted to its unit and clamped)*/ assert(f64_real(verif_pt@[1]) == gy);
            assert(energy_rate@ == f64_real(y));
            let (i, j) = choose|i: int, j: int| #[trigger] g.cell_ok(i, j, f64_real(verif_pt@[0]), f64_real(verif_pt@[1]), f64_real(y));
            assert(g.cell_ok(i, j, sx, gy, energy_rate@));
        }""")
    pr.rewrite(r"Ok\(\(energy_rate, self\.energy_rate_unit\)\)\s*\}\s*\Z", """let verif_res: Result<(EnergyRate, EnergyRateUnit), TraversalModelError> = Ok((energy_rate, self.energy_rate_unit));
        proof {
            let g = self.interpolator->Interp2D_0;
            let sx = clampr(conv_SpeedUnit(speed_unit, self.speed_unit, speed@), rv(g.x@, 0), rv(g.x@, g.x@.len() - 1));
            let gy = clampr(conv_GradeUnit(grade_unit, self.grade_unit, grade@), rv(g.y@, 0), rv(g.y@, g.y@.len() - 1));
            assert(verif_res->Ok_0.0@ == energy_rate@);
            assert(exists|i: int, j: int| #[trigger] g.cell_ok(i, j, sx, gy, verif_res->Ok_0.0@));
        }
        verif_res
    }""", 1, 1, rule="R-bind")
    texts.append(pr.text)
    parts.append("impl InterpolationSpeedGradeModel {\n" + pr.text + "\n" + nw.text + "\n}\n")
    parts.append(LEMMAS)
    parts.append("""
// vacuity guard: MUST FAIL
pub fn vacuity_probe(a: f64, b: f64) -> (r: Vec<f64>) ensures false { linspace(a, b, 3) }
""")
    parts.insert(0, P.literal_axioms(texts, extra=("0.0", "1.0")))
    parts.insert(0, P.f64_real())
    return P.wrap("\n".join(parts))
