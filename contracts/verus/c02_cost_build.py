"""C02 / C07 -- "the weights and rates in force for that query, whether they come from the configuration or from the query itself" [V].

Extracted verbatim: struct CostModel, CostModel::new (core), struct CostModelService, CostModelService::build (app).
`HashMap<String, V>` is an opaque map from names to values (R3-dyn); the state model's indexed iterator is an opaque iterator over the model's feature names in slot
order (R3-dyn; that the real iterator yields slot order is C11's business); serde_json::Value is opaque and `get_config_serde_optional::<T>(key, ..)` is a deterministic
read of the query (uninterpreted per type and key); `.cloned().unwrap_or_default()` is one helper (R-default); the sum test on the weights and the two pipelines that
count / name the weights unknown to the state model are one assumed helper each (R-fold, R-collect).
"""
import re
import genlib as G

CM = "routee-compass-core/src/model/cost/cost_model.rs"
CS = "routee-compass/src/app/compass/config/cost_model/cost_model_service.rs"
OBLIGATIONS = ["new", "build", "lemma_query_rate_in_force", "lemma_configured_rate_without_query_rates"]
MUST_FAIL = ["vacuity_probe"]

HEAD = """#![allow(unused_imports, unused_variables, dead_code, unused_mut, unused_parens, unused_assignments)]
use vstd::prelude::*;
use std::sync::Arc;
verus! {
// ---- HashMap<String, V> as an abstract map from names to values (R3-dyn) ----
#[verifier::external_body] #[verifier::reject_recursive_types(K)] #[verifier::reject_recursive_types(V)] pub struct HashMap<K, V> { _k: std::marker::PhantomData<(K, V)> }
impl<V> HashMap<String, V> {
    pub uninterp spec fn view(&self) -> Map<Seq<char>, V>;
    pub uninterp spec fn spec_len(&self) -> usize;
    #[verifier::external_body] pub fn get(&self, k: &String) -> (r: Option<&V>)
        ensures r is Some <==> self@.contains_key(k@), r matches Some(v) ==> *v == self@[k@] { unimplemented!() }
    #[verifier::external_body] pub fn contains_key(&self, k: &String) -> (r: bool) ensures r == self@.contains_key(k@) { unimplemented!() }
    #[verifier::external_body] pub fn len(&self) -> (r: usize) ensures r == self.spec_len() { unimplemented!() }
}
#[derive(Clone, Copy)] pub enum CostAggregation { Sum, Mul }
#[verifier::external_body] pub struct VehicleCostRate { _p: u8 }
#[verifier::external_body] pub struct NetworkCostRate { _p: u8 }
#[verifier::external_body] pub struct StateFeature { _p: u8 }
#[verifier::external_body] pub struct StateModel { _p: u8 }
#[verifier::external_body] pub struct Value { _p: u8 }                                   // serde_json::Value
#[verifier::external_body] pub struct CompassConfigurationErrorText { _p: u8 }
pub enum CostModelError { InvalidCostVariables, Other }
pub enum CompassConfigurationError { UserConfigurationError(CompassConfigurationErrorText), SerdeDeserializationError }
/// rule R-default: `#[derive(Default)]` / f64's Default as a named value per type
pub trait VerifDefault: Sized { spec fn dflt() -> Self; }
impl VerifDefault for f64 { uninterp spec fn dflt() -> f64; }                            // 0.0: deactivates the feature
impl VerifDefault for VehicleCostRate { uninterp spec fn dflt() -> VehicleCostRate; }    // VehicleCostRate::Zero
impl VerifDefault for NetworkCostRate { uninterp spec fn dflt() -> NetworkCostRate; }    // NetworkCostRate::Zero
/// `opt.cloned().unwrap_or_default()`
#[verifier::external_body] pub fn verif_cloned_or_default<T: VerifDefault>(o: Option<&T>) -> (r: T)
    ensures o matches Some(v) ==> r == *v, o is None ==> r == T::dflt() { unimplemented!() }
#[verifier::external_body] pub fn verif_clone<T>(v: &T) -> (r: T) ensures r == *v { unimplemented!() }
// ---- the state model's features in slot order (R3-dyn) ----
#[verifier::external_body] pub struct IndexedIter<'a> { _p: core::marker::PhantomData<&'a u8> }
impl StateModel {
    /// the feature names, by slot
    pub uninterp spec fn names(&self) -> Seq<Seq<char>>;
    #[verifier::external_body] pub fn indexed_iter<'a>(&'a self) -> (r: IndexedIter<'a>) ensures r.seq() == self.names(), r.pos() == 0 { unimplemented!() }
    #[verifier::external_body] pub fn to_vec(&self) -> (r: Vec<(String, usize)>) { unimplemented!() }
}
impl<'a> IndexedIter<'a> {
    pub uninterp spec fn seq(&self) -> Seq<Seq<char>>;
    pub uninterp spec fn pos(&self) -> int;
    #[verifier::external_body] pub fn into_iter(self) -> (r: IndexedIter<'a>) ensures r.seq() == self.seq(), r.pos() == self.pos() { unimplemented!() }
    /// ASSUMED: yields (slot, (name at that slot, its feature)) for slot 0, 1, 2, ..
    #[verifier::external_body]
    pub fn next(&mut self) -> (r: Option<(usize, (&'a String, &'a StateFeature))>)
        ensures final(self).seq() == old(self).seq(), 0 <= old(self).pos() <= old(self).seq().len(),
                old(self).pos() < old(self).seq().len() ==> r is Some && r->Some_0.0 == old(self).pos() && r->Some_0.1.0@ == old(self).seq()[old(self).pos()] && final(self).pos() == old(self).pos() + 1,
                old(self).pos() >= old(self).seq().len() ==> r is None && final(self).pos() == old(self).pos(),
    { unimplemented!() }
}
/// rule R-fold: `weights.iter().sum::<f64>() == 0.0`
pub uninterp spec fn sum_is_zero(w: Seq<f64>) -> bool;
#[verifier::external_body] pub fn verif_sum_is_zero(w: &Vec<f64>) -> (r: bool) ensures r == sum_is_zero(w@) { unimplemented!() }
// ---- the query (serde_json::Value) ----
/// what the query holds under a key of its cost section, read as a T: Ok(None) when absent, Err when unreadable
pub uninterp spec fn query_field<T>(q: Value, key: Seq<char>) -> Result<Option<T>, ()>;
impl Value {
    #[verifier::external_body] pub fn get_config_serde_optional<T>(&self, key: &&str, parent_key: &&str) -> (r: Result<Option<T>, CompassConfigurationError>)
        ensures r is Ok <==> query_field::<T>(*self, key@) is Ok, r matches Ok(v) ==> Ok::<Option<T>, ()>(v) == query_field::<T>(*self, key@) { unimplemented!() }
}
/// rule R-collect: how many of the state model's features have a weight
pub uninterp spec fn known_weights(m: &StateModel, w: &HashMap<String, f64>) -> usize;
#[verifier::external_body] pub fn verif_query_state_indices(state_indices: &Vec<(String, usize)>, weights: &Arc<HashMap<String, f64>>, Ghost(m): Ghost<&StateModel>) -> (r: Vec<(String, usize)>)
    ensures r.len() == known_weights(m, &**weights) { unimplemented!() }
#[verifier::external_body] pub fn verif_unknown_weights_msg(weights: &Arc<HashMap<String, f64>>, known: &Vec<(String, usize)>) -> CompassConfigurationErrorText { unimplemented!() }
#[verifier::external_body] pub fn verif_build_failed_msg(e: CostModelError) -> CompassConfigurationErrorText { unimplemented!() }
"""

SPEC = """
/// C02 / C07: slot i of the cost model costs the feature stored at slot i of the state model, with ITS weight and ITS rates (absent: the default, which switches that
/// part of the cost off); nothing is shifted, dropped or duplicated
pub open spec fn aligned(m: CostModel, w: Map<Seq<char>, f64>, v: Map<Seq<char>, VehicleCostRate>, n: Map<Seq<char>, NetworkCostRate>, names: Seq<Seq<char>>, upto: int) -> bool {
    &&& m.feature_indices@.len() == upto && m.weights@.len() == upto && m.vehicle_rates@.len() == upto && m.network_rates@.len() == upto
    &&& forall|i: int| 0 <= i < upto ==> slot_ok(m, w, v, n, names, i)
}
pub open spec fn slot_ok(m: CostModel, w: Map<Seq<char>, f64>, v: Map<Seq<char>, VehicleCostRate>, n: Map<Seq<char>, NetworkCostRate>, names: Seq<Seq<char>>, i: int) -> bool {
    &&& m.feature_indices@[i].0@ == names[i] && m.feature_indices@[i].1 == i
    &&& m.weights@[i] == (if w.contains_key(names[i]) { w[names[i]] } else { f64::dflt() })
    &&& m.vehicle_rates@[i] == (if v.contains_key(names[i]) { v[names[i]] } else { VehicleCostRate::dflt() })
    &&& m.network_rates@[i] == (if n.contains_key(names[i]) { n[names[i]] } else { NetworkCostRate::dflt() })
}
/// the weights / vehicle rates / aggregation in force for a query: the query's own if it carries them, the configured ones otherwise
pub open spec fn weights_in_force(s: &CostModelService, q: Value) -> Map<Seq<char>, f64> {
    match query_field::<HashMap<String, f64>>(q, "weights"@) { Ok(Some(w)) => w@, _ => (*s.weights)@ }
}
pub open spec fn weights_obj_in_force(s: &CostModelService, q: Value) -> HashMap<String, f64> {
    match query_field::<HashMap<String, f64>>(q, "weights"@) { Ok(Some(w)) => w, _ => *s.weights }
}
pub open spec fn rates_in_force(s: &CostModelService, q: Value) -> Map<Seq<char>, VehicleCostRate> {
    match query_field::<HashMap<String, VehicleCostRate>>(q, "vehicle_rates"@) { Ok(Some(r)) => r@, _ => (*s.vehicle_rates)@ }
}
pub open spec fn aggregation_in_force(s: &CostModelService, q: Value) -> CostAggregation {
    match query_field::<CostAggregation>(q, "cost_aggregation"@) { Ok(Some(a)) => a, _ => s.cost_aggregation }
}
"""

LEMMAS = """
/// C02: a feature the QUERY rates is costed with the query's rate -- whatever the configuration says about it
pub proof fn lemma_query_rate_in_force(s: &CostModelService, q: Value, m: CostModel, sm: &StateModel, i: int, qr: HashMap<String, VehicleCostRate>)
    requires aligned(m, weights_in_force(s, q), rates_in_force(s, q), (*s.network_rates)@, sm.names(), sm.names().len() as int),
        query_field::<HashMap<String, VehicleCostRate>>(q, "vehicle_rates"@) == Ok::<Option<HashMap<String, VehicleCostRate>>, ()>(Some(qr)),
        0 <= i < sm.names().len(), qr@.contains_key(sm.names()[i])
    ensures m.vehicle_rates@[i] == qr@[sm.names()[i]]
{ assert(slot_ok(m, weights_in_force(s, q), rates_in_force(s, q), (*s.network_rates)@, sm.names(), i)); }
/// ... and a query without rates of its own is costed with the configured ones
pub proof fn lemma_configured_rate_without_query_rates(s: &CostModelService, q: Value, m: CostModel, sm: &StateModel, i: int)
    requires aligned(m, weights_in_force(s, q), rates_in_force(s, q), (*s.network_rates)@, sm.names(), sm.names().len() as int),
        query_field::<HashMap<String, VehicleCostRate>>(q, "vehicle_rates"@) == Ok::<Option<HashMap<String, VehicleCostRate>>, ()>(None),
        0 <= i < sm.names().len(), (*s.vehicle_rates)@.contains_key(sm.names()[i])
    ensures m.vehicle_rates@[i] == (*s.vehicle_rates)@[sm.names()[i]]
{ assert(slot_ok(m, weights_in_force(s, q), rates_in_force(s, q), (*s.network_rates)@, sm.names(), i)); }
"""


def pubfields(text):
    return re.sub(r"(?m)^(\s+)(?!pub )(\w+:)", r"\1pub \2", text)


def build(x):
    parts = [HEAD]
    st = pubfields(x.item_text(CM, "struct CostModel"))
    x.note("R2", "struct CostModel: fields made pub")
    parts.append(st + "\n")
    sv = x.item_text(CS, "struct CostModelService")
    parts.append(sv + "\n")
    parts.append(SPEC)
    # ---- CostModel::new ----
    f = x.fn(CM, "impl CostModel :: fn new")
    f.rewrite(r"let mut indices = vec!\[\];", "let mut indices: Vec<(String, usize)> = Vec::new();", 1, 1, rule="R-annot")
    f.rewrite(r"let mut weights = vec!\[\];", "let mut weights: Vec<f64> = Vec::new();", 1, 1, rule="R-annot")
    f.rewrite(r"let mut vehicle_rates = vec!\[\];", "let mut vehicle_rates: Vec<VehicleCostRate> = Vec::new();", 1, 1, rule="R-annot")
    f.rewrite(r"let mut network_rates = vec!\[\];", "let mut network_rates: Vec<NetworkCostRate> = Vec::new();", 1, 1, rule="R-annot")
    f.rewrite(r"(\w+)\.get\(name\)\.cloned\(\)\.unwrap_or_default\(\)", r"verif_cloned_or_default(\1.get(name))", 3, 3, rule="R-default")
    x.note("R-default", "CostModel::new: `m.get(name).cloned().unwrap_or_default()` written verif_cloned_or_default(m.get(name)) (the value, or the type's Default)")
    f.rewrite(r"(\w+)\.clone\(\)", r"verif_clone(&\1)", 0, 6, rule="R-into")
    x.note("R-into", "CostModel::new: `v.clone()` written verif_clone(&v) (assumed: Clone returns an equal value)")
    f.rewrite(r"weights\.iter\(\)\.sum::<f64>\(\) == 0\.0", "verif_sum_is_zero(&weights)", 1, 1, rule="R-fold")
    x.note("R-fold", "CostModel::new: `weights.iter().sum::<f64>() == 0.0` written verif_sum_is_zero(&weights) (uninterpreted verdict on the weight vector)")
    f.desugar_for(1, itname="verif_it")
    f.rewrite(r"\A", "#[verifier::exec_allows_no_decreases_clause]\n", 1, 1, rule="note")
    x.note("termination", "CostModel::new: the loop over the state model's iterator is accepted without a termination proof (the iterator is opaque)")
    f.name_return("r")
    f.add_spec("""        ensures
            // every state-model slot gets the weight and the rates of ITS feature name, in slot order; the aggregation is the one handed in
            r matches Ok(m) ==> aligned(m, (*weights_mapping)@, (*vehicle_rate_mapping)@, (*network_rate_mapping)@, state_model.names(), state_model.names().len() as int)
                && m.cost_aggregation == cost_aggregation,
            // refused only for weights that sum to zero
            r matches Err(e) ==> e is InvalidCostVariables,""")
    f.add_loop_spec(1, """            invariant verif_it.seq() == state_model.names(), 0 <= verif_it.pos() <= verif_it.seq().len(),
                aligned(CostModel { feature_indices: indices, weights: weights, vehicle_rates: vehicle_rates, network_rates: network_rates, cost_aggregation: cost_aggregation },
                    (*weights_mapping)@, (*vehicle_rate_mapping)@, (*network_rate_mapping)@, state_model.names(), verif_it.pos()),
            ensures verif_it.pos() == verif_it.seq().len(),""")
    M = "CostModel { feature_indices: indices, weights: weights, vehicle_rates: vehicle_rates, network_rates: network_rates, cost_aggregation: cost_aggregation }"
    A = "(*weights_mapping)@, (*vehicle_rate_mapping)@, (*network_rate_mapping)@, state_model.names()"
    f.loop_body_start(1, "            let ghost verif_m0 = %s; let ghost verif_k0 = verif_it.pos();" % M)
    f.insert_after(r"network_rates\.push\([^;]*\);", """
            proof {
                let verif_m1 = %s;
                assert forall|i: int| 0 <= i < verif_k0 + 1 implies slot_ok(verif_m1, %s, i) by { if i < verif_k0 { assert(slot_ok(verif_m0, %s, i)); } }
            }""" % (M, A, A))
    parts.append("impl CostModel {\n" + f.text + "\n}\n")
    # ---- CostModelService::build ----
    b = x.fn(CS, "impl CostModelService :: fn build")
    b.rewrite(r"query: &serde_json::Value,", "query: &Value,", 1, 1, rule="R-path")
    # the pipelines that find the weights the state model knows / name the unknown ones
    pat_q = r"let query_state_indices = state_indices\s*\.iter\(\)\s*\.filter\(\|\(n, _idx\)\| weights\.contains_key\(n\)\)\s*\.map\(\|\(n, idx\)\| \(n\.clone\(\), idx\)\)\s*\.collect::<Vec<_>>\(\);"
    b.rewrite(pat_q, "let query_state_indices = verif_query_state_indices(&state_indices, &weights, Ghost(&*state_model));", 1, 1, rule="R-collect")
    x.note("R-collect", "build: `state_indices.iter().filter(|(n, _)| weights.contains_key(n)).map(..).collect()` written verif_query_state_indices(..) (assumed: its length is the number of state features that have a weight)")
    pat_m = re.compile(r"let names_lookup: HashSet<&String> =.*?let msg = format!\(\"unknown weights in query: \[\{\}\]\", extras\);", re.S)
    b.rewrite(pat_m.pattern, "let msg = verif_unknown_weights_msg(&weights, &query_state_indices);", 1, 1, rule="R-format", flags=re.S)
    # the closure that chooses between the query's rates and the configured ones: annotated with its own body
    pat_c = re.compile(r"\.map\(\|opt_rates\| (match opt_rates \{.*?\})\)\?;", re.S)
    b.rewrite(pat_c.pattern, lambda m: ".map(|opt_rates: Option<HashMap<String, VehicleCostRate>>| -> (cr: Arc<HashMap<String, VehicleCostRate>>)\n                ensures cr@ == (match opt_rates { Some(rates) => rates@, None => (*self.vehicle_rates)@ })\n            { " + m.group(1) + " })?;", 1, 1, rule="R-closure", flags=re.S)
    x.note("R-closure", "build: the closure `|opt_rates| match opt_rates {..}` is annotated with a postcondition on the NAME -> RATE map it returns (the query's rates if present, the configured ones otherwise), which the verifier checks against its verbatim body")
    b.rewrite(r"self\.cost_aggregation\.to_owned\(\)", "self.cost_aggregation", 1, 1, rule="R-into")
    x.note("R-into", "build: `self.cost_aggregation.to_owned()` (a Copy enum) written `self.cost_aggregation`")
    pat_e = re.compile(r"\.map_err\(\|e\| \{\s*CompassConfigurationError::UserConfigurationError\(format!\(\s*\"failed to build cost model: \{\}\",\s*e\s*\)\)\s*\}\)", re.S)
    b.rewrite(pat_e.pattern, ".map_err(|e: CostModelError| -> (er: CompassConfigurationError) { CompassConfigurationError::UserConfigurationError(verif_build_failed_msg(e)) })", 1, 1, rule="R-format", flags=re.S)
    b.name_return("r")
    b.add_spec("""        ensures
            // C02: the model built for a query costs every state feature with the weights, vehicle rates and aggregation IN FORCE for that query -- the query's own where it
            // carries them, the configured ones otherwise -- and with the configured network rates
            r matches Ok(m) ==> aligned(m, weights_in_force(self, *query), rates_in_force(self, *query), (*self.network_rates)@, state_model.names(), state_model.names().len() as int)
                && m.cost_aggregation == aggregation_in_force(self, *query),
            // an unreadable cost section is an error of that query, never a silent fallback to the configuration
            query_field::<HashMap<String, f64>>(*query, "weights"@) is Err ==> r is Err,
            query_field::<HashMap<String, VehicleCostRate>>(*query, "vehicle_rates"@) is Err ==> r is Err,
            query_field::<CostAggregation>(*query, "cost_aggregation"@) is Err ==> r is Err,
            // a weight for a feature the state model does not have is refused unless the service was told to ignore such weights
            !self.ignore_unknown_weights && weights_obj_in_force(self, *query).spec_len() != known_weights(&*state_model, &weights_obj_in_force(self, *query)) ==> r is Err,""")
    parts.append("impl CostModelService {\n" + b.text + "\n}\n")
    parts.append(LEMMAS)
    parts.append("""
// vacuity guard: MUST FAIL
pub fn vacuity_probe(s: &CostModelService, q: &Value, sm: Arc<StateModel>) -> (b: bool) ensures false { s.build(q, sm).is_ok() }
} // verus!
fn main() {}
""")
    return "\n".join(parts)
