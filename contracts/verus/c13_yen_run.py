"""C13 -- Yen's k-shortest-paths driver under contract [V, unbounded; termination proved].

Extracted verbatim from routee-compass-core/src/algorithm/search/ksp/yens_algorithm.rs: run, get_first_route, same_path;
struct KspQuery, struct SearchAlgorithmResult, struct SearchTreeBranch, Edge.
Shims with ASSUMED contracts: SearchAlgorithm::run_vertex_oriented (when it stores a route, that route is a contiguous walk from the requested
source to the requested target whose edges the instance's frontier model permitted -- C01 / C04 for run_a_star + backtrack, proved in units
al_astar / c01_backtrack; the dispatch glue between them is NOT under contract), KspTerminationCriteria::terminate_search (Kani), RouteSimilarityFunction::
test_similarity (uninterpreted), Graph::get_edge, EdgeCutFrontierModel (refuses exactly the cut edges, otherwise the wrapped model -- PROVED on the real
valid_frontier in unit c04_frontier), SearchInstance as a record of opaque shared components.
Rules: R-format, R-path, R9-index, R9-zip, R3-dyn (`Arc::new(yens_frontier)` coerced to `Arc<dyn FrontierModel>`), R-collect (four iterator pipelines
replaced by helpers with assumed contracts, listed in the text), R-default (`SearchAlgorithmResult::default()`).
"""
import re
import al_astar as AL
import genlib as G

A = "routee-compass-core/src/algorithm/search/"
OBLIGATIONS = ["run", "get_first_route", "same_path", "lemma_walk_prefix", "lemma_walk_join", "lemma_walk_same_ids", "lemma_chained_join"]
MUST_FAIL = ["vacuity_probe"]

SHIMS = """
use std::sync::Arc;
#[verifier::external_body] pub struct Value { _p: u8 }
#[verifier::external_body] pub struct Graph { _p: u8 }
#[verifier::external_body] pub struct StateModel { _p: u8 }
#[verifier::external_body] pub struct TraversalModel { _p: u8 }
#[verifier::external_body] pub struct AccessModel { _p: u8 }
#[verifier::external_body] pub struct CostModel { _p: u8 }
#[verifier::external_body] pub struct TerminationModel { _p: u8 }
#[verifier::external_body] pub struct FrontierModel { _p: u8 }          // dyn FrontierModel
#[verifier::external_body] pub struct NetworkError { _p: u8 }
impl vstd::std_specs::convert::FromSpecImpl<NetworkError> for SearchError { open spec fn obeys_from_spec() -> bool { false } open spec fn from_spec(v: NetworkError) -> SearchError { arbitrary() } }
impl From<NetworkError> for SearchError { #[verifier::external_body] fn from(e: NetworkError) -> SearchError { unimplemented!() } }
pub struct SearchInstance {
    pub directed_graph: Arc<Graph>, pub state_model: Arc<StateModel>, pub traversal_model: Arc<TraversalModel>, pub access_model: Arc<AccessModel>,
    pub cost_model: Arc<CostModel>, pub frontier_model: Arc<FrontierModel>, pub termination_model: Arc<TerminationModel>,
}
pub uninterp spec fn edge_of(g: &Graph, id: EdgeId) -> Edge;
pub uninterp spec fn has_edge(g: &Graph, id: EdgeId) -> bool;
/// the frontier model lets this edge through for SOME state / previous edge (edge-local view, as in unit al_astar's lemma_route_edges_permitted)
pub uninterp spec fn lets_through(fm: &FrontierModel, e: EdgeId) -> bool;
impl Graph {
    #[verifier::external_body]
    pub fn get_edge(&self, e: &EdgeId) -> (r: Result<&Edge, NetworkError>) ensures r matches Ok(x) ==> *x == edge_of(self, *e) && has_edge(self, *e) { unimplemented!() }
}
impl Clone for StateVar { #[verifier::external_body] fn clone(&self) -> (r: StateVar) ensures r == *self { StateVar(self.0) } }
impl Clone for EdgeTraversal { #[verifier::external_body] fn clone(&self) -> (r: EdgeTraversal) ensures r == *self { unimplemented!() } }
// EdgeCutFrontierModel: refuses exactly the cut edges, otherwise asks the wrapped model (PROVED on the real valid_frontier in unit c04_frontier)
pub struct EdgeCutFrontierModel { pub underlying: Arc<FrontierModel>, pub cut_edges: HashSet<EdgeId> }
impl EdgeCutFrontierModel {
    #[verifier::external_body]
    pub fn new(underlying: Arc<FrontierModel>, cut_edges: HashSet<EdgeId>) -> (r: EdgeCutFrontierModel) ensures r.underlying == underlying, r.cut_edges@ == cut_edges@ { unimplemented!() }
}
/// rule R3-dyn: `Arc::new(yens_frontier)` coerced to `Arc<dyn FrontierModel>`
#[verifier::external_body]
pub fn verif_dyn_frontier(m: EdgeCutFrontierModel) -> (r: Arc<FrontierModel>)
    ensures forall|e: EdgeId| #[trigger] lets_through(&*r, e) ==> !m.cut_edges@.contains(e) && lets_through(&*m.underlying, e)
{ unimplemented!() }

pub uninterp spec fn sim(f: &RouteSimilarityFunction, a: Seq<EdgeTraversal>, b: Seq<EdgeTraversal>) -> bool;
#[verifier::external_body] pub struct RouteSimilarityFunction { _p: u8 }
impl Clone for RouteSimilarityFunction { #[verifier::external_body] fn clone(&self) -> (r: RouteSimilarityFunction) ensures r == *self { unimplemented!() } }
pub open spec fn derefs(v: Seq<&EdgeTraversal>) -> Seq<EdgeTraversal> { Seq::new(v.len(), |i: int| *v[i]) }
impl RouteSimilarityFunction {
    #[verifier::external_body]
    pub fn test_similarity(self, a: &[&EdgeTraversal], b: &[&EdgeTraversal], si: &SearchInstance) -> (r: Result<bool, SearchError>)
        ensures r matches Ok(x) ==> x == sim(&self, derefs(a@), derefs(b@))
    { unimplemented!() }
}
/// C13 "no two are more similar than the configured threshold": p is not too similar to any of the first n accepted routes / no later route is too similar to an earlier one
pub open spec fn dissim_all(f: &RouteSimilarityFunction, acc: Seq<Vec<EdgeTraversal>>, n: int, p: Seq<EdgeTraversal>) -> bool {
    forall|a: int| 0 <= a < n ==> !(#[trigger] sim(f, acc[a]@, p))
}
pub open spec fn pairwise_dissim(f: &RouteSimilarityFunction, acc: Seq<Vec<EdgeTraversal>>) -> bool {
    forall|a: int, b: int| 0 <= a < b < acc.len() ==> !(#[trigger] sim(f, acc[a]@, acc[b]@))
}
#[verifier::external_body] pub struct KspTerminationCriteria { _p: u8 }
impl KspTerminationCriteria {
    #[verifier::external_body] pub fn terminate_search(&self, k: usize, solution_size: usize) -> (r: bool) ensures r ==> solution_size == k { unimplemented!() }
}
/// a contiguous walk from src to dst over edges of the graph that the frontier model lets through
pub open spec fn e_src(g: &Graph, et: EdgeTraversal) -> VertexId { edge_of(g, et.edge_id).src_vertex_id }
pub open spec fn e_dst(g: &Graph, et: EdgeTraversal) -> VertexId { edge_of(g, et.edge_id).dst_vertex_id }
pub open spec fn walk(g: &Graph, src: VertexId, dst: VertexId, r: Seq<EdgeTraversal>) -> bool {
    &&& forall|i: int| 0 <= i < r.len() ==> has_edge(g, (#[trigger] r[i]).edge_id)
    &&& (r.len() == 0 ==> src == dst)
    &&& (r.len() > 0 ==> e_src(g, r[0]) == src && e_dst(g, r.last()) == dst)
    &&& forall|i: int| 0 <= i < r.len() - 1 ==> #[trigger] e_dst(g, r[i]) == e_src(g, r[i + 1])
}
#[verifier::external_body] pub struct SearchAlgorithm { _p: u8 }
impl SearchAlgorithm {
    // ASSUMED (C01 / C04 of the underlying search; the glue run_vertex_oriented itself is not under contract)
    #[verifier::external_body]
    pub fn run_vertex_oriented(&self, src_id: VertexId, dst_id_opt: Option<VertexId>, query: &Value, direction: &Direction, si: &SearchInstance) -> (r: Result<SearchAlgorithmResult, SearchError>)
        ensures r matches Ok(res) ==> (res.routes@.len() > 0 && dst_id_opt is Some ==> (walk(&*si.directed_graph, src_id, dst_id_opt->Some_0, res.routes@[0]@)
                    && (forall|i: int| 0 <= i < res.routes@[0]@.len() ==> lets_through(&*si.frontier_model, (#[trigger] res.routes@[0]@[i]).edge_id))
                    // ASSUMED, and weaker than it looks: run_a_star builds every tree entry with perform_edge_traversal(edge, edge before it, state at the near vertex), so the stored route is
                    // chained PROVIDED no vertex on it was re-labelled after its child was labelled (unit al_astar proves only the inequality POT); always so for Dijkstra
                    && chained(si, res.routes@[0]@)))
    { unimplemented!() }
}
impl SearchAlgorithmResult {
    /// rule R-default: #[derive(Default)] of the real struct
    #[verifier::external_body] pub fn default() -> (r: SearchAlgorithmResult) ensures r.routes@.len() == 0, r.trees@.len() == 0 { unimplemented!() }
}

/// two edges of the route leave the same vertex
pub open spec fn has_loop(g: &Graph, route: Seq<EdgeTraversal>) -> bool {
    exists|i: int, j: int| 0 <= i < j < route.len() && edge_of(g, (#[trigger] route[i]).edge_id).src_vertex_id == edge_of(g, (#[trigger] route[j]).edge_id).src_vertex_id
}
pub uninterp spec fn fwd_trav(si: &SearchInstance, next: EdgeId, prev: Option<EdgeId>, st: Seq<StateVar>) -> EdgeTraversal;
pub uninterp spec fn init_state(sm: &StateModel) -> Seq<StateVar>;
pub open spec fn step_ok(si: &SearchInstance, prev0: Option<EdgeId>, st0: Seq<StateVar>, ids: Seq<EdgeId>, res: Seq<EdgeTraversal>, i: int) -> bool {
    res[i].edge_id == ids[i] && res[i] == fwd_trav(si, ids[i], if i == 0 { prev0 } else { Some(ids[i - 1]) }, if i == 0 { st0 } else { res[i - 1].result_state@ })
}
pub open spec fn reoriented(si: &SearchInstance, prev0: Option<EdgeId>, st0: Seq<StateVar>, ids: Seq<EdgeId>, res: Seq<EdgeTraversal>) -> bool {
    &&& res.len() == ids.len()
    &&& forall|i: int| 0 <= i < res.len() ==> #[trigger] step_ok(si, prev0, st0, ids, res, i)
}
pub open spec fn rev_ids(rb: Seq<EdgeTraversal>) -> Seq<EdgeId> { Seq::new(rb.len(), |i: int| rb[rb.len() - 1 - i].edge_id) }
pub open spec fn last_id(fr: Seq<EdgeTraversal>) -> Option<EdgeId> { if fr.len() == 0 { None } else { Some(fr.last().edge_id) } }
pub open spec fn last_state(si: &SearchInstance, fr: Seq<EdgeTraversal>) -> Seq<StateVar> { if fr.len() == 0 { init_state(&*si.state_model) } else { fr.last().result_state@ } }
/// C03 / C13 "correctly accumulated state": from its second edge on, every edge of the route is the traversal of that edge after the edge
/// actually before it, from the state that edge left
pub open spec fn link_ok(si: &SearchInstance, r: Seq<EdgeTraversal>, j: int) -> bool { r[j] == fwd_trav(si, r[j].edge_id, Some(r[j - 1].edge_id), r[j - 1].result_state@) }
pub open spec fn chained(si: &SearchInstance, r: Seq<EdgeTraversal>) -> bool { forall|j: int| 1 <= j < r.len() ==> #[trigger] link_ok(si, r, j) }
pub mod bidirectional_ops { use super::*;
    // contract PROVED on the real function in unit c13_single_via
    #[verifier::external_body]
    pub fn reorient_reverse_route(fwd_route: &[EdgeTraversal], rev_route: &[EdgeTraversal], si: &SearchInstance) -> (r: Result<Vec<EdgeTraversal>, SearchError>)
        ensures r matches Ok(res) ==> reoriented(si, last_id(fwd_route@), last_state(si, fwd_route@), rev_ids(rev_route@), res@)
    { unimplemented!() }
    // contract PROVED on the real function in unit c13_single_via
    #[verifier::external_body]
    pub fn route_contains_loop(route: &[EdgeTraversal], si: &SearchInstance) -> (r: Result<bool, SearchError>)
        ensures r matches Ok(b) ==> b == has_loop(&*si.directed_graph, route@)
    { unimplemented!() }
}
// ---- rule R-collect: iterator pipelines replaced by helpers (every contract below is ASSUMED) ----
/// `p.iter().take(n).collect_vec()`: references to the first min(n, len) elements
#[verifier::external_body] pub fn verif_take_refs<'a>(p: &'a Vec<EdgeTraversal>, n: usize) -> (r: Vec<&'a EdgeTraversal>)
    ensures derefs(r@) == p@.take(if n <= p@.len() { n as int } else { p@.len() as int }) { unimplemented!() }
/// `root_path.iter().map(|e| (*e).clone()).collect_vec()`
#[verifier::external_body] pub fn verif_clone_refs(a: &Vec<&EdgeTraversal>) -> (r: Vec<EdgeTraversal>) ensures r@ == derefs(a@) { unimplemented!() }
/// `spur_path.iter().rev().cloned().collect_vec()`
#[verifier::external_body] pub fn verif_rev_cloned(a: &Vec<EdgeTraversal>) -> (r: Vec<EdgeTraversal>) ensures r@ == a@.reverse() { unimplemented!() }
/// `a.into_iter().chain(b).collect_vec()`
#[verifier::external_body] pub fn verif_chain(a: Vec<EdgeTraversal>, b: Vec<EdgeTraversal>) -> (r: Vec<EdgeTraversal>) ensures r@ == a@ + b@ { unimplemented!() }
/// `v.iter().collect_vec()`
#[verifier::external_body] pub fn verif_refs<'a>(v: &'a Vec<EdgeTraversal>) -> (r: Vec<&'a EdgeTraversal>) ensures derefs(r@) == v@ { unimplemented!() }
/// `refs.iter().map(|e| e.total_cost()).sum()`
#[verifier::external_body] pub fn verif_sum_cost(v: &Vec<&EdgeTraversal>) -> (r: Cost) { unimplemented!() }
pub assume_specification<T: Clone> [ <T as std::borrow::ToOwned>::to_owned ](c: &T) -> (r: T) ensures vstd::pervasive::cloned::<T>(*c, r);
"""

SPEC = """
pub open spec fn same_ids(a: Seq<EdgeTraversal>, b: Seq<EdgeTraversal>) -> bool {
    a.len() == b.len() && forall|i: int| 0 <= i < a.len() ==> (#[trigger] a[i]).edge_id == b[i].edge_id
}
/// every accepted route is a contiguous walk from the query's source to its target
pub open spec fn all_walks(g: &Graph, src: VertexId, dst: VertexId, s: Seq<Vec<EdgeTraversal>>) -> bool {
    forall|j: int| 0 <= j < s.len() ==> walk(g, src, dst, (#[trigger] s[j])@)
}
pub proof fn lemma_walk_prefix(g: &Graph, src: VertexId, dst: VertexId, r: Seq<EdgeTraversal>, n: int)
    requires walk(g, src, dst, r), 1 <= n <= r.len()
    ensures walk(g, src, e_dst(g, r[n - 1]), r.take(n))
{
    let p = r.take(n);
    assert forall|i: int| 0 <= i < p.len() implies has_edge(g, (#[trigger] p[i]).edge_id) by { assert(p[i] == r[i]); }
    assert forall|i: int| 0 <= i < p.len() - 1 implies #[trigger] e_dst(g, p[i]) == e_src(g, p[i + 1]) by { assert(p[i] == r[i]); assert(p[i + 1] == r[i + 1]); assert(e_dst(g, r[i]) == e_src(g, r[i + 1])); }
    assert(p[0] == r[0]); assert(p.last() == r[n - 1]);
}
pub proof fn lemma_walk_join(g: &Graph, a: VertexId, b: VertexId, c: VertexId, p: Seq<EdgeTraversal>, q: Seq<EdgeTraversal>)
    requires walk(g, a, b, p), walk(g, b, c, q), p.len() > 0
    ensures walk(g, a, c, p + q)
{
    let w = p + q; let n = p.len() as int;
    assert forall|i: int| 0 <= i < w.len() implies has_edge(g, (#[trigger] w[i]).edge_id) by { if i < n { assert(w[i] == p[i]); } else { assert(w[i] == q[i - n]); } }
    assert forall|i: int| 0 <= i < w.len() - 1 implies #[trigger] e_dst(g, w[i]) == e_src(g, w[i + 1]) by {
        if i + 1 < n { assert(w[i] == p[i]); assert(w[i + 1] == p[i + 1]); assert(e_dst(g, p[i]) == e_src(g, p[i + 1])); }
        else if i + 1 == n { assert(w[i] == p[n - 1]); assert(p.last() == p[n - 1]); assert(w[i + 1] == q[0]); }
        else { assert(w[i] == q[i - n]); assert(w[i + 1] == q[i - n + 1]); assert(e_dst(g, q[i - n]) == e_src(g, q[i - n + 1])); }
    }
    assert(w[0] == p[0]);
    if q.len() > 0 { assert(w.last() == q.last()); } else { assert(w =~= p); }
}

/// a walk is a property of the edge ids
pub proof fn lemma_walk_same_ids(g: &Graph, a: VertexId, b: VertexId, q: Seq<EdgeTraversal>, q2: Seq<EdgeTraversal>)
    requires walk(g, a, b, q), q2.len() == q.len(), forall|i: int| 0 <= i < q.len() ==> (#[trigger] q2[i]).edge_id == q[i].edge_id
    ensures walk(g, a, b, q2)
{
    assert forall|i: int| 0 <= i < q2.len() implies has_edge(g, (#[trigger] q2[i]).edge_id) by { assert(has_edge(g, q[i].edge_id)); }
    assert forall|i: int| 0 <= i < q2.len() - 1 implies #[trigger] e_dst(g, q2[i]) == e_src(g, q2[i + 1]) by { assert(q2[i].edge_id == q[i].edge_id); assert(q2[i + 1].edge_id == q[i + 1].edge_id); assert(e_dst(g, q[i]) == e_src(g, q[i + 1])); }
    if q.len() > 0 { assert(q2[0].edge_id == q[0].edge_id); assert(q2.last().edge_id == q.last().edge_id); }
}
/// root prefix of a chained route followed by the re-traversed spur path is chained
pub proof fn lemma_chained_join(si: &SearchInstance, prev: Seq<EdgeTraversal>, n: int, ids: Seq<EdgeId>, res: Seq<EdgeTraversal>)
    requires chained(si, prev), 1 <= n <= prev.len(), reoriented(si, last_id(prev.take(n)), last_state(si, prev.take(n)), ids, res)
    ensures chained(si, prev.take(n) + res)
{
    let p = prev.take(n); let w = p + res;
    assert forall|j: int| 1 <= j < w.len() implies #[trigger] link_ok(si, w, j) by {
        if j < n { assert(link_ok(si, prev, j)); assert(w[j] == prev[j]); assert(w[j - 1] == prev[j - 1]); }
        else {
            let i = j - n;
            assert(step_ok(si, last_id(p), last_state(si, p), ids, res, i));
            assert(w[j] == res[i]);
            if i == 0 { assert(w[j - 1] == p[n - 1]); assert(p.last() == p[n - 1]); }
            else { assert(step_ok(si, last_id(p), last_state(si, p), ids, res, i - 1)); assert(w[j - 1] == res[i - 1]); }
        }
    }
}
"""


def build(x):
    head = AL.HEAD.replace("impl Clone for StateVar { #[verifier::external_body] fn clone(&self) -> Self { StateVar(self.0) } }\n", "")
    head = head.replace("pub assume_specification<T: Clone> [ <T as std::borrow::ToOwned>::to_owned ](c: &T) -> (r: T)\n    ensures vstd::pervasive::cloned::<T>(*c, r);\n", "")
    parts = [head]
    edge = x.item_text("routee-compass-core/src/model/network/edge.rs", "struct Edge").replace("    pub distance: Distance,\n", "")
    parts.append("#[derive(Copy, Clone)]\n" + edge + "\n")
    stb = x.item_text(A + "search_tree_branch.rs", "struct SearchTreeBranch")
    parts.append(stb + "\n")
    den, _ = G.strip_inner_attrs(x.item_text(A + "direction.rs", "enum Direction"))
    parts.append("#[derive(Copy, Clone)]\n" + den + "\n")
    sar, _ = G.strip_inner_attrs(x.item_text(A + "search_algorithm_result.rs", "struct SearchAlgorithmResult"))
    parts.append(sar + "\n")
    kq, _ = G.strip_inner_attrs(x.item_text(A + "ksp/ksp_query.rs", "struct KspQuery"))
    kq2 = kq.replace("&'a serde_json::Value", "&'a Value")
    if kq2 == kq:
        raise G.Undecided("KspQuery.user_query is no longer `&'a serde_json::Value`")
    parts.append(kq2 + "\n")
    parts.append(SHIMS)
    parts.append(SPEC)
    Y = A + "ksp/yens_algorithm.rs"
    gf = x.fn(Y, "fn get_first_route")
    gf.rewrite(r'String::from\(\s*"[^"]*",?\s*\)', "verif_format()", 1, 1, rule="R-format")
    gf.rewrite(r"\A(\s*)fn ", r"\1pub fn ", 0, 1, rule="R2")
    gf.name_return("r")
    gf.add_spec("    ensures r matches Ok(p) ==> res.routes@.len() > 0 && *p == res.routes@[0], res.routes@.len() > 0 ==> r is Ok,")
    parts.append(gf.text + "\n")
    sp = x.fn(Y, "fn same_path")
    sp.rewrite(r"for \((\w+), (\w+)\) in (\w+)\.iter\(\)\.zip\((\w+)\) \{",
               r"let mut verif_k: usize = 0;\n    while verif_k < \3.len() && verif_k < \4.len() { let (\1, \2) = (&\3[verif_k], &\4[verif_k]); verif_k = verif_k + 1;", 1, 1, rule="R9-zip")
    sp.rewrite(r"\A(\s*)fn ", r"\1pub fn ", 0, 1, rule="R2")
    sp.name_return("r")
    sp.add_spec("    ensures r == same_ids(derefs(a@), derefs(b@)),")
    sp.add_loop_spec(1, """        invariant a@.len() == b@.len(), 0 <= verif_k <= a@.len(), forall|i: int| 0 <= i < verif_k ==> (#[trigger] derefs(a@)[i]).edge_id == derefs(b@)[i].edge_id,
        decreases a@.len() - verif_k,""")
    sp.insert_before(r"if a_edge\.edge_id != b_edge\.edge_id \{", "        proof { assert(derefs(a@)[verif_k - 1] == **a_edge); assert(derefs(b@)[verif_k - 1] == **b_edge); }")
    parts.append(sp.text + "\n")

    f = x.fn(Y, "fn run")
    f.rewrite(r'String::from\(\s*"[^"]*",?\s*\)', "verif_format()", 2, 2, rule="R-format")
    f.rewrite(r"&crate::algorithm::search::direction::Direction::Forward", "&Direction::Forward", 2, 2, rule="R-path")
    f.rewrite(r"let root_path = prev_accepted_path\.iter\(\)\.take\(spur_len\)\.collect_vec\(\);", "let root_path = verif_take_refs(&prev_accepted_path, spur_len);", 1, 1, rule="R-collect")
    f.rewrite(r"let accepted_path_root = accepted_path\.iter\(\)\.take\(spur_len\)\.collect_vec\(\);", "let accepted_path_root = verif_take_refs(accepted_path, spur_len);", 1, 1, rule="R-collect")
    f.rewrite(r"let root_route = root_path\.iter\(\)\.map\(\|e\| \(\*e\)\.clone\(\)\)\.collect_vec\(\);", "let root_route = verif_clone_refs(&root_path);", 1, 1, rule="R-collect")
    f.rewrite(r"let spur_backward = spur_path\.iter\(\)\.rev\(\)\.cloned\(\)\.collect_vec\(\);", "let spur_backward = verif_rev_cloned(spur_path);", 1, 1, rule="R-collect")
    f.rewrite(r"let candidate_path = root_route\.into_iter\(\)\.chain\(spur_route\)\.collect_vec\(\);", "let candidate_path = verif_chain(root_route, spur_route);", 1, 1, rule="R-collect")
    f.rewrite(r"&candidate_path\.iter\(\)\.collect_vec\(\);", "&verif_refs(&candidate_path);", 1, 1, rule="R-collect")
    f.rewrite(r"&test_path\.iter\(\)\.collect_vec\(\),", "&verif_refs(test_path),", 1, 1, rule="R-collect")
    f.rewrite(r"candidate_test_path\.iter\(\)\.map\(\|e\| e\.total_cost\(\)\)\.sum\(\);", "verif_sum_cost(candidate_test_path);", 1, 1, rule="R-collect")
    f.rewrite(r"frontier_model: Arc::new\(yens_frontier\),", "frontier_model: verif_dyn_frontier(yens_frontier),", 1, 1, rule="R3-dyn")
    f.rewrite(r"iterations \+= 1;", "iterations = iterations + 1;\n            proof { log = log.push(spur_search is Ok || spur_search matches Err(SearchError::NoPathExistsBetweenVertices(_, _))); }", 1, 1, rule="R-compound")
    x.note("R3-dyn", "yens run: `Arc::new(yens_frontier)` (coerced to Arc<dyn FrontierModel>) written verif_dyn_frontier(yens_frontier): lets through only what is not cut and the wrapped model lets through")
    ls = f.loops()
    if len(ls) != 4:
        raise G.Undecided("yens run: expected 4 loops (passes, spur indices, cut collection, candidate tests), found %d" % len(ls))
    f.index_for(4, idx="verif_t")
    f.index_for(3, idx="verif_a")
    f.rewrite(r"for spur_idx in 0\.\.([^{]*?) \{", r"let verif_end: usize = \1;\n        let mut verif_s: usize = 0;\n        while verif_s < verif_end { let spur_idx = verif_s; verif_s = verif_s + 1;", 1, 1, rule="R9-index")
    x.note("R9-index", "yens run: `for spur_idx in 0..E {` written `let verif_end = E; let mut verif_s = 0; while verif_s < verif_end { let spur_idx = verif_s; verif_s += 1; ..` (Verus' for loops do not support `continue`)")
    f.name_return("r")
    f.add_spec("""    ensures r matches Ok(res) ==> ({
        let g = &*si.directed_graph;
        // C13: never more than k routes (one when k is 0 or 1 and the target is reachable)
        &&& res.routes@.len() <= (if query.k >= 1 { query.k as int } else { 1int })
        // every route is a contiguous walk from the query's source to its target (first: the underlying search's own route)
        &&& all_walks(g, query.source, query.target, res.routes@)
        // no alternative leaves a vertex twice
        &&& forall|j: int| 1 <= j < res.routes@.len() ==> !has_loop(g, (#[trigger] res.routes@[j])@)
        // C03 / C13: every route reports the state accumulated along ITS OWN edges (each edge traversed after the edge actually before it)
        &&& forall|j: int| 0 <= j < res.routes@.len() ==> chained(si, (#[trigger] res.routes@[j])@)
        // C13: no later route is too similar (by the configured similarity function) to an earlier one
        &&& pairwise_dissim(similarity, res.routes@)
    }),""")
    f.insert_before(r"let mut iterations: u64 = 1;", """    proof { assert(accepted@.len() == 1); assert(accepted@[0]@ =~= shortest.routes@[0]@); assert(chained(si, accepted@[0]@)); }
    let ghost g = &*si.directed_graph;
    // C10: ghost log of the spur searches' outcomes -- true = returned a result or "no path"; anything else (a TERMINATED search in particular) must end the query
    let ghost mut log: Seq<bool> = Seq::empty();""")
    f.add_loop_spec(1, """        invariant
            1 <= accepted@.len() <= (if query.k >= 1 { query.k as int } else { 1int }), g == &*si.directed_graph,
            all_walks(g, query.source, query.target, accepted@), iterations >= 1,
            forall|j: int| 1 <= j < accepted@.len() ==> !has_loop(g, (#[trigger] accepted@[j])@),
            forall|j: int| 0 <= j < accepted@.len() ==> chained(si, (#[trigger] accepted@[j])@),
            forall|i: int| 0 <= i < log.len() ==> #[trigger] log[i],
            pairwise_dissim(similarity, accepted@),
        decreases query.k - accepted@.len(),""")
    f.insert_before(r"let verif_end: usize = ", """        proof { assert(accepted@.last() == accepted@[accepted@.len() - 1]); }
        assume(iterations as int + prev_accepted_path@.len() < u64::MAX);   // the statistics counter does not wrap
        let ghost acc0 = accepted@; let ghost it0 = iterations;
""", count=1)
    f.add_loop_spec(2, """            invariant
                accepted@ == acc0, g == &*si.directed_graph, walk(g, query.source, query.target, prev_accepted_path@), all_walks(g, query.source, query.target, acc0),
                chained(si, prev_accepted_path@),
                0 <= verif_s <= verif_end, verif_end + 2 <= prev_accepted_path@.len() || verif_end == 0,
                it0 as int + prev_accepted_path@.len() < u64::MAX, it0 <= iterations, iterations as int <= it0 as int + verif_s, it0 >= 1,
                best_candidate matches Some(bc) ==> walk(g, query.source, query.target, bc.0@) && !has_loop(g, bc.0@) && chained(si, bc.0@),
                best_candidate matches Some(bc) ==> dissim_all(similarity, acc0, acc0.len() as int, bc.0@),
                pairwise_dissim(similarity, acc0),
                forall|i: int| 0 <= i < log.len() ==> #[trigger] log[i],
            decreases verif_end - verif_s,""")
    f.loop_body_start(2, "            let ghost bc0 = best_candidate;")
    f.add_loop_spec(3, """                invariant 0 <= verif_a <= accepted@.len(), accepted@ == acc0, spur_idx < verif_end,
                decreases accepted@.len() - verif_a,""")
    f.insert_after(r"let candidate_path = verif_chain\(root_route, spur_route\);", """            proof {
                let n = spur_len as int;
                lemma_walk_prefix(g, query.source, query.target, prev_accepted_path@, n);
                assert(root0 == prev_accepted_path@.take(n));
                /*verif:obligation (C01: the spur search starts at the vertex where the root path ENDS -- the join of root and spur is contiguous)*/ assert(spur_vertex_id == e_dst(g, prev_accepted_path@[n - 1]));
                assert(walk(&*yens_si.directed_graph, spur_vertex_id, query.target, spur_path@));
                // the re-traversed spur path has the spur path's edge ids, in the same order
                assert forall|i: int| 0 <= i < spur_path@.len() implies (#[trigger] spur0[i]).edge_id == spur_path@[i].edge_id by {
                    assert(step_ok(si, last_id(root0), last_state(si, root0), rev_ids(back0), spur0, i));
                    assert(rev_ids(back0)[i] == back0[back0.len() - 1 - i].edge_id);
                }
                lemma_walk_same_ids(g, spur_vertex_id, query.target, spur_path@, spur0);
                lemma_walk_join(g, query.source, spur_vertex_id, query.target, root0, spur0);
                lemma_chained_join(si, prev_accepted_path@, n, rev_ids(back0), spur0);
                assert(walk(g, query.source, query.target, candidate_path@));
                assert(chained(si, candidate_path@));
            }""")
    f.insert_before(r"let candidate_path = verif_chain\(root_route, spur_route\);", "            let ghost root0 = root_route@; let ghost back0 = spur_backward@; let ghost spur0 = spur_route@;")
    flag = "too_similar" in f.text
    if flag:
        f.insert_before(r"if similar \{", "proof { assert(test_path@ == acc0[verif_t - 1]@); assert(similar == sim(similarity, test_path@, candidate_path@)); }\n                ")
    f.add_loop_spec(4, """                invariant 0 <= verif_t <= accepted@.len(), accepted@ == acc0, walk(g, query.source, query.target, candidate_path@), !has_loop(g, candidate_path@), chained(si, candidate_path@),
                    best_candidate matches Some(bc) ==> walk(g, query.source, query.target, bc.0@) && !has_loop(g, bc.0@) && chained(si, bc.0@),
                    best_candidate matches Some(bc) ==> dissim_all(similarity, acc0, acc0.len() as int, bc.0@),
                    derefs(candidate_test_path@) == candidate_path@,
""" + ("                    !too_similar ==> dissim_all(similarity, acc0, verif_t as int, candidate_path@),\n                ensures !too_similar ==> verif_t >= accepted@.len(),\n" if flag else "") + """                decreases accepted@.len() - verif_t,""")
    parts.append(f.text + "\n")
    parts.append("""
// vacuity guard: MUST FAIL
pub fn vacuity_probe(a: &[&EdgeTraversal], b: &[&EdgeTraversal]) -> (r: bool) ensures false { same_path(a, b) }
} // verus!
fn main() {}
impl std::fmt::Display for VertexId { fn fmt(&self, f: &mut std::fmt::Formatter<'_>) -> std::fmt::Result { write!(f, "{}", self.0) } }
""")
    return "\n".join(parts)
