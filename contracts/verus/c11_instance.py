"""C11 / C02 -- SearchApp::build_search_instance: the per-query state model and the models built against it [V].

Extracted verbatim: struct SearchApp, struct SearchInstance (R3-dyn: `Arc<dyn Trait>` written `Arc<Shim>`), SearchApp::build_search_instance.  Every callee is seen
through a deterministic contract: the model services' `build`, search_app_ops::collect_features (witness), StateModel::extend (contract proved in unit c11_extend),
CostModelService::build (contract proved in unit c02_cost_build), FrontierModelService::build.
"""
import re
import genlib as G

F = "routee-compass/src/app/search/search_app.rs"
SI = "routee-compass-core/src/algorithm/search/search_instance.rs"
OBLIGATIONS = ["build_search_instance", "run_vertex_oriented", "run_edge_oriented", "run"]
MUST_FAIL = ["vacuity_probe"]

HEAD = """#![allow(unused_imports, unused_variables, dead_code, unused_mut, unused_parens, unused_assignments)]
use vstd::prelude::*;
use std::sync::Arc;
verus! {
#[verifier::external_body] pub struct Value { _p: u8 }                 // serde_json::Value
#[verifier::external_body] pub struct Graph { _p: u8 }
#[verifier::external_body] pub struct StateModel { _p: u8 }
#[verifier::external_body] pub struct StateFeature { _p: u8 }
#[verifier::external_body] pub struct TerminationModel { _p: u8 }
#[verifier::external_body] pub struct SearchAlgorithm { _p: u8 }
#[verifier::external_body] pub struct CostModel { _p: u8 }
#[verifier::external_body] pub struct TraversalModel { _p: u8 }          // dyn TraversalModel
#[verifier::external_body] pub struct AccessModel { _p: u8 }             // dyn AccessModel
#[verifier::external_body] pub struct FrontierModel { _p: u8 }           // dyn FrontierModel
#[verifier::external_body] pub struct TraversalModelService { _p: u8 }   // dyn TraversalModelService
#[verifier::external_body] pub struct AccessModelService { _p: u8 }      // dyn AccessModelService
#[verifier::external_body] pub struct FrontierModelService { _p: u8 }    // dyn FrontierModelService
#[verifier::external_body] pub struct CostModelService { _p: u8 }
#[verifier::external_body] pub struct TraversalModelError { _p: u8 }
#[verifier::external_body] pub struct AccessModelError { _p: u8 }
#[verifier::external_body] pub struct FrontierModelError { _p: u8 }
#[verifier::external_body] pub struct StateModelError { _p: u8 }
#[verifier::external_body] pub struct CompassConfigurationError { _p: u8 }
#[verifier::external_body] pub struct ErrText { _p: u8 }
pub enum SearchError { BuildError(ErrText), Other }
// ---- what SearchApp::run / run_vertex_oriented / run_edge_oriented need ----
#[verifier::external_body] pub struct InputPluginError { _p: u8 }
pub enum PluginError { InputPluginFailed { source: InputPluginError }, Other }
pub enum CompassAppError { PluginError(PluginError), SearchFailure(SearchError), Other }
#[derive(Clone, Copy)] pub struct VertexId(pub usize);
#[derive(Clone, Copy)] pub struct EdgeId(pub usize);
pub enum Direction { Forward, Reverse }
pub enum SearchOrientation { Vertex, Edge }
#[verifier::external_body] pub struct Routes { _p: u8 }                  // Vec<Vec<EdgeTraversal>>
#[verifier::external_body] pub struct Trees { _p: u8 }                   // Vec<HashMap<VertexId, SearchTreeBranch>>
#[verifier::external_body] pub struct LocalTime { _p: u8 }               // chrono::DateTime<Local>
#[verifier::external_body] pub struct Duration { _p: u8 }
pub struct SearchAlgorithmResult { pub trees: Trees, pub routes: Routes, pub iterations: u64 }
pub struct SearchAppResult { pub routes: Routes, pub trees: Trees, pub search_executed_time: String, pub search_runtime: Duration, pub iterations: u64 }
"""

FROMS = "".join("""
impl vstd::std_specs::convert::FromSpecImpl<%(e)s> for SearchError {
    open spec fn obeys_from_spec() -> bool { false }
    open spec fn from_spec(v: %(e)s) -> SearchError { arbitrary() }
}
impl From<%(e)s> for SearchError { #[verifier::external_body] fn from(e: %(e)s) -> SearchError { unimplemented!() } }
""" % dict(e=e) for e in ("TraversalModelError", "AccessModelError", "FrontierModelError", "StateModelError"))

SHIMS = """
// ---- the callees, as deterministic steps (None: the step fails) ----
pub uninterp spec fn tm_of(s: &TraversalModelService, q: Value) -> Option<Arc<TraversalModel>>;
pub uninterp spec fn am_of(s: &AccessModelService, q: Value) -> Option<Arc<AccessModel>>;
pub uninterp spec fn features_of(q: Value, tm: Arc<TraversalModel>, am: Arc<AccessModel>) -> Option<Seq<(String, StateFeature)>>;
/// StateModel::extend (unit c11_extend: the configured model with every declared feature inserted in order; existing names keep their slot)
pub uninterp spec fn extend_of(m: &StateModel, fs: Seq<(String, StateFeature)>) -> Option<StateModel>;
/// CostModelService::build (unit c02_cost_build: slot-aligned with the state model it is GIVEN)
pub uninterp spec fn cost_of(s: &CostModelService, q: Value, sm: Arc<StateModel>) -> Option<CostModel>;
pub uninterp spec fn fm_of(s: &FrontierModelService, q: Value, sm: Arc<StateModel>) -> Option<Arc<FrontierModel>>;
impl TraversalModelService {
    #[verifier::external_body] pub fn build(&self, q: &Value) -> (r: Result<Arc<TraversalModel>, TraversalModelError>)
        ensures r is Ok <==> tm_of(self, *q) is Some, r matches Ok(m) ==> Some(m) == tm_of(self, *q) { unimplemented!() }
}
impl AccessModelService {
    #[verifier::external_body] pub fn build(&self, q: &Value) -> (r: Result<Arc<AccessModel>, AccessModelError>)
        ensures r is Ok <==> am_of(self, *q) is Some, r matches Ok(m) ==> Some(m) == am_of(self, *q) { unimplemented!() }
}
impl FrontierModelService {
    #[verifier::external_body] pub fn build(&self, q: &Value, sm: Arc<StateModel>) -> (r: Result<Arc<FrontierModel>, FrontierModelError>)
        ensures r is Ok <==> fm_of(self, *q, sm) is Some, r matches Ok(m) ==> Some(m) == fm_of(self, *q, sm) { unimplemented!() }
}
impl CostModelService {
    #[verifier::external_body] pub fn build(&self, q: &Value, sm: Arc<StateModel>) -> (r: Result<CostModel, CompassConfigurationError>)
        ensures r is Ok <==> cost_of(self, *q, sm) is Some, r matches Ok(m) ==> Some(m) == cost_of(self, *q, sm) { unimplemented!() }
}
impl StateModel {
    #[verifier::external_body] pub fn extend(&self, fs: Vec<(String, StateFeature)>) -> (r: Result<StateModel, StateModelError>)
        ensures r is Ok <==> extend_of(self, fs@) is Some, r matches Ok(m) ==> Some(m) == extend_of(self, fs@) { unimplemented!() }
}
pub mod search_app_ops { use super::*;
    #[verifier::external_body] pub fn collect_features(q: &Value, tm: Arc<TraversalModel>, am: Arc<AccessModel>) -> (r: Result<Vec<(String, StateFeature)>, StateModelError>)
        ensures r is Ok <==> features_of(*q, tm, am) is Some, r matches Ok(v) ==> Some(v@) == features_of(*q, tm, am) { unimplemented!() }
}
#[verifier::external_body] pub fn verif_err_text(e: CompassConfigurationError) -> ErrText { unimplemented!() }
impl vstd::std_specs::convert::FromSpecImpl<SearchError> for CompassAppError {
    open spec fn obeys_from_spec() -> bool { false }
    open spec fn from_spec(v: SearchError) -> CompassAppError { arbitrary() }
}
impl From<SearchError> for CompassAppError { #[verifier::external_body] fn from(e: SearchError) -> CompassAppError { unimplemented!() } }
// ---- the query's matched origin / destination (InputJsonExtensions: deterministic reads; None: missing or ill-typed) ----
pub uninterp spec fn q_origin_vertex(q: Value) -> Option<VertexId>;
pub uninterp spec fn q_destination_vertex(q: Value) -> Option<Option<VertexId>>;
pub uninterp spec fn q_origin_edge(q: Value) -> Option<EdgeId>;
pub uninterp spec fn q_destination_edge(q: Value) -> Option<Option<EdgeId>>;
impl Value {
    #[verifier::external_body] pub fn get_origin_vertex(&self) -> (r: Result<VertexId, InputPluginError>) ensures r is Ok <==> q_origin_vertex(*self) is Some, r matches Ok(v) ==> Some(v) == q_origin_vertex(*self) { unimplemented!() }
    #[verifier::external_body] pub fn get_destination_vertex(&self) -> (r: Result<Option<VertexId>, InputPluginError>) ensures r is Ok <==> q_destination_vertex(*self) is Some, r matches Ok(v) ==> Some(v) == q_destination_vertex(*self) { unimplemented!() }
    #[verifier::external_body] pub fn get_origin_edge(&self) -> (r: Result<EdgeId, InputPluginError>) ensures r is Ok <==> q_origin_edge(*self) is Some, r matches Ok(v) ==> Some(v) == q_origin_edge(*self) { unimplemented!() }
    #[verifier::external_body] pub fn get_destination_edge(&self) -> (r: Result<Option<EdgeId>, InputPluginError>) ensures r is Ok <==> q_destination_edge(*self) is Some, r matches Ok(v) ==> Some(v) == q_destination_edge(*self) { unimplemented!() }
}
/// SearchAlgorithm::run_vertex_oriented / run_edge_oriented (units c01_dispatch, AL, c13_*): deterministic in (endpoints, query, direction, instance)
pub uninterp spec fn alg_v(a: &SearchAlgorithm, o: VertexId, d: Option<VertexId>, q: Value, dir: Direction, si: SearchInstance) -> Option<SearchAlgorithmResult>;
pub uninterp spec fn alg_e(a: &SearchAlgorithm, o: EdgeId, d: Option<EdgeId>, q: Value, dir: Direction, si: SearchInstance) -> Option<SearchAlgorithmResult>;
impl SearchAlgorithm {
    #[verifier::external_body] pub fn run_vertex_oriented(&self, o: VertexId, d: Option<VertexId>, q: &Value, dir: &Direction, si: &SearchInstance) -> (r: Result<SearchAlgorithmResult, SearchError>)
        ensures r is Ok <==> alg_v(self, o, d, *q, *dir, *si) is Some, r matches Ok(x) ==> Some(x) == alg_v(self, o, d, *q, *dir, *si) { unimplemented!() }
    #[verifier::external_body] pub fn run_edge_oriented(&self, o: EdgeId, d: Option<EdgeId>, q: &Value, dir: &Direction, si: &SearchInstance) -> (r: Result<SearchAlgorithmResult, SearchError>)
        ensures r is Ok <==> alg_e(self, o, d, *q, *dir, *si) is Some, r matches Ok(x) ==> Some(x) == alg_e(self, o, d, *q, *dir, *si) { unimplemented!() }
}
/// rule R-io: the wall clock
#[verifier::external_body] pub fn verif_now() -> LocalTime { unimplemented!() }
#[verifier::external_body] pub fn verif_runtime(start: &LocalTime, end: &LocalTime) -> Duration { unimplemented!() }
#[verifier::external_body] pub fn verif_rfc3339(t: &LocalTime) -> String { unimplemented!() }
"""


def dyn(text):
    text = re.sub(r"Arc<dyn (\w+)>", r"Arc<\1>", text)
    return text


def build(x):
    parts = [HEAD, FROMS, SHIMS]
    sa = dyn(x.item_text(F, "struct SearchApp"))
    si = dyn(x.item_text(SI, "struct SearchInstance"))
    x.note("R3-dyn", "struct SearchApp / struct SearchInstance: `Arc<dyn Trait>` written `Arc<Trait-shim>` (dynamic dispatch = the shim's deterministic contract)")
    parts.append(sa + "\n" + si + "\n")
    parts.append("""
/// the search instance built for a query (the postcondition of build_search_instance)
pub open spec fn instance_for(app: &SearchApp, q: Value, si: SearchInstance) -> bool {
    (tm_of(&*app.traversal_model_service, q) matches Some(tm) && (am_of(&*app.access_model_service, q) matches Some(am)
        && si.traversal_model == tm && si.access_model == am
        && (features_of(q, tm, am) matches Some(fs) && (extend_of(&*app.state_model, fs) matches Some(sm) && *si.state_model == sm
        && cost_of(&*app.cost_model_service, q, si.state_model) == Some(*si.cost_model)
        && fm_of(&*app.frontier_model_service, q, si.state_model) == Some(si.frontier_model))))
        && si.directed_graph == app.directed_graph && si.termination_model == app.termination_model)
}
""")
    f = x.fn(F, "impl SearchApp :: fn build_search_instance")
    f.rewrite(r"query: &serde_json::Value,", "query: &Value,", 1, 1, rule="R-path")
    f.rewrite(r"\.map_err\(\|e\| SearchError::BuildError\(e\.to_string\(\)\)\)", ".map_err(|e: CompassConfigurationError| -> (er: SearchError) { SearchError::BuildError(verif_err_text(e)) })", 1, 1, rule="R-format")
    f.name_return("r")
    f.add_spec("""        ensures
            // C11: the per-query state model is the CONFIGURED model extended by the features collected for this query from these very models and the query;
            // C02 / C11: the cost model and the frontier model are built against THAT state model -- the one the search instance carries -- not the configured one;
            // graph and limits are the application's
            r matches Ok(si) ==> instance_for(self, *query, si),""")
    fns = [f.text]
    # ---- run_vertex_oriented / run_edge_oriented: the search runs between the QUERY's matched endpoints on the instance built for THIS query ----
    for name, kind, alg in (("run_vertex_oriented", "vertex", "alg_v"), ("run_edge_oriented", "edge", "alg_e")):
        g = x.fn(F, "impl SearchApp :: fn " + name)
        g.rewrite(r"query: &serde_json::Value,", "query: &Value,", 1, 1, rule="R-path")
        g.rewrite(r"\.map_err\(\|e\| \{\s*CompassAppError::PluginError\(PluginError::InputPluginFailed \{ source: e \}\)\s*\}\)", ".map_err(|e: InputPluginError| -> (er: CompassAppError) { CompassAppError::PluginError(PluginError::InputPluginFailed { source: e }) })", 2, 2, rule="R-closure")
        g.rewrite(r"\.map\(\|search_result\| \(search_result, search_instance\)\)", ".map(|search_result: SearchAlgorithmResult| -> (verif_p: (SearchAlgorithmResult, SearchInstance)) ensures verif_p == (search_result, search_instance) { (search_result, search_instance) })", 1, 1, rule="R-closure")
        g.rewrite(r"\.map_err\(CompassAppError::SearchFailure\)", ".map_err(|e: SearchError| -> (er: CompassAppError) { CompassAppError::SearchFailure(e) })", 1, 1, rule="R-closure")
        g.name_return("r")
        g.add_spec("""        ensures
            // the search is run FORWARD from the %(k)s the query was matched to, to its matched destination (none: a tree search), with the query itself and on the
            // instance built for THIS query; what the algorithm returns is handed back together with that instance
            r matches Ok(p) ==> (q_origin_%(k)s(*query) matches Some(o) && (q_destination_%(k)s(*query) matches Some(d)
                && instance_for(self, *query, p.1) && %(alg)s(&self.search_algorithm, o, d, *query, Direction::Forward, p.1) == Some(p.0))),
            // a query without a (well-typed) matched origin is an error, never a search from somewhere else
            q_origin_%(k)s(*query) is None ==> r is Err,
            q_destination_%(k)s(*query) is None ==> r is Err,""" % dict(k=kind, alg=alg))
        fns.append(g.text)
    # ---- run ----
    rn = x.fn(F, "impl SearchApp :: fn run")
    rn.rewrite(r"query: &serde_json::Value,", "query: &Value,", 1, 1, rule="R-path")
    rn.strip_macro_stmts(r"log::\w+")
    rn.rewrite(r"Local::now\(\)", "verif_now()", 2, 2, rule="R-io")
    rn.rewrite(r"\(search_end_time - search_start_time\)\s*\.to_std\(\)\s*\.unwrap_or\(time::Duration::ZERO\)", "verif_runtime(&search_start_time, &search_end_time)", 1, 1, rule="R-io")
    rn.rewrite(r"search_start_time\.to_rfc3339\(\)", "verif_rfc3339(&search_start_time)", 1, 1, rule="R-io")
    x.note("R-io", "SearchApp::run: `Local::now()`, the runtime subtraction and `to_rfc3339()` written as opaque reads of the wall clock")
    rn.name_return("r")
    rn.add_spec("""        ensures
            // the routes, trees and iteration count of the response are the algorithm's own, from the search in the configured orientation
            r matches Ok(p) ==> instance_for(self, *query, p.1) && match *search_orientation {
                SearchOrientation::Vertex => (q_origin_vertex(*query) matches Some(o) && (q_destination_vertex(*query) matches Some(d)
                    && (alg_v(&self.search_algorithm, o, d, *query, Direction::Forward, p.1) matches Some(res) && p.0.routes == res.routes && p.0.trees == res.trees && p.0.iterations == res.iterations))),
                SearchOrientation::Edge => (q_origin_edge(*query) matches Some(o) && (q_destination_edge(*query) matches Some(d)
                    && (alg_e(&self.search_algorithm, o, d, *query, Direction::Forward, p.1) matches Some(res) && p.0.routes == res.routes && p.0.trees == res.trees && p.0.iterations == res.iterations))),
            },""")
    fns.append(rn.text)
    parts.append("impl SearchApp {\n" + "\n".join(fns) + "\n}\n")
    parts.append("""
// vacuity guard: MUST FAIL
pub fn vacuity_probe(a: &SearchApp, q: &Value) -> (b: bool) ensures false { a.build_search_instance(q).is_ok() }
} // verus!
fn main() {}
""")
    return "\n".join(parts)
