"""C11 / C02 -- SearchApp::build_search_instance: the per-query state model and the models built against it [V].

Extracted verbatim: struct SearchApp, struct SearchInstance (R3-dyn: `Arc<dyn Trait>` written `Arc<Shim>`), SearchApp::build_search_instance.  Every callee is seen
through a deterministic contract: the model services' `build`, search_app_ops::collect_features (witness), StateModel::extend (contract proved in unit c11_extend),
CostModelService::build (contract proved in unit c02_cost_build), FrontierModelService::build.
"""
import re
import genlib as G

F = "routee-compass/src/app/search/search_app.rs"
SI = "routee-compass-core/src/algorithm/search/search_instance.rs"
OBLIGATIONS = ["build_search_instance"]
MUST_FAIL = ["vacuity_probe"]

HEAD = """#![allow(unused_imports, unused_variables, dead_code, unused_mut, unused_parens, unused_assignments)]
use vstd::prelude::*;
use std::sync::Arc;
verus! {
#[verifier::external_body] pub struct Value { _p: u8 }                 // serde_json::Value
#[verifier::external_body] pub struct Graph { _p: u8 }
#[verifier::external_body] pub struct StateModel { _p: u8 }
#[verifier::external_body] pub struct StateFeature { _p: u8 }
#[verifier::external_body] pub struct TerminationModel { _p: u8 }
#[verifier::external_body] pub struct SearchAlgorithm { _p: u8 }
#[verifier::external_body] pub struct CostModel { _p: u8 }
#[verifier::external_body] pub struct TraversalModel { _p: u8 }          // dyn TraversalModel
#[verifier::external_body] pub struct AccessModel { _p: u8 }             // dyn AccessModel
#[verifier::external_body] pub struct FrontierModel { _p: u8 }           // dyn FrontierModel
#[verifier::external_body] pub struct TraversalModelService { _p: u8 }   // dyn TraversalModelService
#[verifier::external_body] pub struct AccessModelService { _p: u8 }      // dyn AccessModelService
#[verifier::external_body] pub struct FrontierModelService { _p: u8 }    // dyn FrontierModelService
#[verifier::external_body] pub struct CostModelService { _p: u8 }
#[verifier::external_body] pub struct TraversalModelError { _p: u8 }
#[verifier::external_body] pub struct AccessModelError { _p: u8 }
#[verifier::external_body] pub struct FrontierModelError { _p: u8 }
#[verifier::external_body] pub struct StateModelError { _p: u8 }
#[verifier::external_body] pub struct CompassConfigurationError { _p: u8 }
#[verifier::external_body] pub struct ErrText { _p: u8 }
pub enum SearchError { BuildError(ErrText), Other }
"""

FROMS = "".join("""
impl vstd::std_specs::convert::FromSpecImpl<%(e)s> for SearchError {
    open spec fn obeys_from_spec() -> bool { false }
    open spec fn from_spec(v: %(e)s) -> SearchError { arbitrary() }
}
impl From<%(e)s> for SearchError { #[verifier::external_body] fn from(e: %(e)s) -> SearchError { unimplemented!() } }
""" % dict(e=e) for e in ("TraversalModelError", "AccessModelError", "FrontierModelError", "StateModelError"))

SHIMS = """
// ---- the callees, as deterministic steps (None: the step fails) ----
pub uninterp spec fn tm_of(s: &TraversalModelService, q: Value) -> Option<Arc<TraversalModel>>;
pub uninterp spec fn am_of(s: &AccessModelService, q: Value) -> Option<Arc<AccessModel>>;
pub uninterp spec fn features_of(q: Value, tm: Arc<TraversalModel>, am: Arc<AccessModel>) -> Option<Seq<(String, StateFeature)>>;
/// StateModel::extend (unit c11_extend: the configured model with every declared feature inserted in order; existing names keep their slot)
pub uninterp spec fn extend_of(m: &StateModel, fs: Seq<(String, StateFeature)>) -> Option<StateModel>;
/// CostModelService::build (unit c02_cost_build: slot-aligned with the state model it is GIVEN)
pub uninterp spec fn cost_of(s: &CostModelService, q: Value, sm: Arc<StateModel>) -> Option<CostModel>;
pub uninterp spec fn fm_of(s: &FrontierModelService, q: Value, sm: Arc<StateModel>) -> Option<Arc<FrontierModel>>;
impl TraversalModelService {
    #[verifier::external_body] pub fn build(&self, q: &Value) -> (r: Result<Arc<TraversalModel>, TraversalModelError>)
        ensures r is Ok <==> tm_of(self, *q) is Some, r matches Ok(m) ==> Some(m) == tm_of(self, *q) { unimplemented!() }
}
impl AccessModelService {
    #[verifier::external_body] pub fn build(&self, q: &Value) -> (r: Result<Arc<AccessModel>, AccessModelError>)
        ensures r is Ok <==> am_of(self, *q) is Some, r matches Ok(m) ==> Some(m) == am_of(self, *q) { unimplemented!() }
}
impl FrontierModelService {
    #[verifier::external_body] pub fn build(&self, q: &Value, sm: Arc<StateModel>) -> (r: Result<Arc<FrontierModel>, FrontierModelError>)
        ensures r is Ok <==> fm_of(self, *q, sm) is Some, r matches Ok(m) ==> Some(m) == fm_of(self, *q, sm) { unimplemented!() }
}
impl CostModelService {
    #[verifier::external_body] pub fn build(&self, q: &Value, sm: Arc<StateModel>) -> (r: Result<CostModel, CompassConfigurationError>)
        ensures r is Ok <==> cost_of(self, *q, sm) is Some, r matches Ok(m) ==> Some(m) == cost_of(self, *q, sm) { unimplemented!() }
}
impl StateModel {
    #[verifier::external_body] pub fn extend(&self, fs: Vec<(String, StateFeature)>) -> (r: Result<StateModel, StateModelError>)
        ensures r is Ok <==> extend_of(self, fs@) is Some, r matches Ok(m) ==> Some(m) == extend_of(self, fs@) { unimplemented!() }
}
pub mod search_app_ops { use super::*;
    #[verifier::external_body] pub fn collect_features(q: &Value, tm: Arc<TraversalModel>, am: Arc<AccessModel>) -> (r: Result<Vec<(String, StateFeature)>, StateModelError>)
        ensures r is Ok <==> features_of(*q, tm, am) is Some, r matches Ok(v) ==> Some(v@) == features_of(*q, tm, am) { unimplemented!() }
}
#[verifier::external_body] pub fn verif_err_text(e: CompassConfigurationError) -> ErrText { unimplemented!() }
"""


def dyn(text):
    text = re.sub(r"Arc<dyn (\w+)>", r"Arc<\1>", text)
    return text


def build(x):
    parts = [HEAD, FROMS, SHIMS]
    sa = dyn(x.item_text(F, "struct SearchApp"))
    si = dyn(x.item_text(SI, "struct SearchInstance"))
    x.note("R3-dyn", "struct SearchApp / struct SearchInstance: `Arc<dyn Trait>` written `Arc<Trait-shim>` (dynamic dispatch = the shim's deterministic contract)")
    parts.append(sa + "\n" + si + "\n")
    f = x.fn(F, "impl SearchApp :: fn build_search_instance")
    f.rewrite(r"query: &serde_json::Value,", "query: &Value,", 1, 1, rule="R-path")
    f.rewrite(r"\.map_err\(\|e\| SearchError::BuildError\(e\.to_string\(\)\)\)", ".map_err(|e: CompassConfigurationError| -> (er: SearchError) { SearchError::BuildError(verif_err_text(e)) })", 1, 1, rule="R-format")
    f.name_return("r")
    f.add_spec("""        ensures
            r matches Ok(si) ==> (tm_of(&*self.traversal_model_service, *query) matches Some(tm) && (am_of(&*self.access_model_service, *query) matches Some(am)
                && si.traversal_model == tm && si.access_model == am
                // C11: the per-query state model is the CONFIGURED model extended by the features collected for this query from these very models and the query
                && (features_of(*query, tm, am) matches Some(fs) && (extend_of(&*self.state_model, fs) matches Some(sm) && *si.state_model == sm
                // C02 / C11: the cost model and the frontier model are built against THAT state model -- the one the search instance carries -- not the configured one
                && cost_of(&*self.cost_model_service, *query, si.state_model) == Some(*si.cost_model)
                && fm_of(&*self.frontier_model_service, *query, si.state_model) == Some(si.frontier_model))))
                // graph and limits are the application's
                && si.directed_graph == self.directed_graph && si.termination_model == self.termination_model),""")
    parts.append("impl SearchApp {\n" + f.text + "\n}\n")
    parts.append("""
// vacuity guard: MUST FAIL
pub fn vacuity_probe(a: &SearchApp, q: &Value) -> (b: bool) ensures false { a.build_search_instance(q).is_ok() }
} // verus!
fn main() {}
""")
    return "\n".join(parts)
