"""C06 (one clause) -- compass_app_ops::apply_load_balancing_policy: every query lands in exactly one bin [V, unbounded].

Extracted verbatim; serde_json::Value is opaque; min_bin (iterator pipeline) and get_query_weight_estimate by
assumed contracts; R-vec: `vec![x; n]` with a run-time length written verif_vec_f64 / verif_vec_bins; R9 on the `for`.
"""
import prelude as P
import genlib as G

F = "routee-compass/src/app/compass/compass_app_ops.rs"
OBLIGATIONS = ["apply_load_balancing_policy", "min_bin"]
MUST_FAIL = ["vacuity_probe"]

HEAD = """
#[verifier::external_body] pub struct Value { _p: u8 }      // serde_json::Value
#[verifier::external_body] pub struct CompassAppError { _p: u8 }
#[verifier::external_body] pub struct PluginError { _p: u8 }
impl vstd::std_specs::convert::FromSpecImpl<PluginError> for CompassAppError { open spec fn obeys_from_spec() -> bool { false } open spec fn from_spec(v: PluginError) -> CompassAppError { arbitrary() } }
impl From<PluginError> for CompassAppError { #[verifier::external_body] fn from(e: PluginError) -> CompassAppError { unimplemented!() } }
impl Value { #[verifier::external_body] pub fn get_query_weight_estimate(&self) -> (r: Result<Option<f64>, CompassAppError>) { unimplemented!() } }
// min_bin is VERIFIED below (rule R-minby); ordered_float::OrderedFloat as a shim: a total order that is the order of the reals (A-REAL)
pub struct OrderedFloat(pub f64);
impl OrderedFloat { #[verifier::external_body] pub fn lt(&self, o: &OrderedFloat) -> (r: bool) ensures r == (f64_real(self.0) < f64_real(o.0)) { self.0 < o.0 } }
#[verifier::external_body] pub fn verif_plugin_error() -> PluginError { unimplemented!() }
// std function vstd does not specify (assumed): Result::unwrap_or
pub assume_specification<T, E> [ Result::<T, E>::unwrap_or ](r: Result<T, E>, default: T) -> (o: T)
    ensures r matches Ok(v) ==> o == v, r is Err ==> o == default;
#[verifier::external_body] pub fn verif_vec_f64(x: f64, n: usize) -> (r: Vec<f64>) ensures r@.len() == n { vec![x; n] }
#[verifier::external_body] pub fn verif_vec_bins<'a>(n: usize) -> (r: Vec<Vec<&'a Value>>) ensures r@.len() == n, forall|b: int| 0 <= b < n ==> (#[trigger] r@[b])@.len() == 0 { unimplemented!() }

/// bin b holds exactly the queries i < k with owner[i] == b, in input order
pub open spec fn bin_is(queries: Seq<Value>, owner: Seq<int>, k: int, b: int, bin: Seq<&Value>) -> bool
    decreases k
{
    if k <= 0 { bin.len() == 0 }
    else if owner[k - 1] == b { bin.len() > 0 && *bin.last() == queries[k - 1] && bin_is(queries, owner, k - 1, b, bin.drop_last()) }
    else { bin_is(queries, owner, k - 1, b, bin) }
}
/// C06: the bins are a partition of the batch: every query is in exactly one bin (its owner), nothing is lost, duplicated or reordered inside a bin
pub open spec fn balanced(queries: Seq<Value>, parallelism: int, bins: Seq<Vec<&Value>>) -> bool {
    bins.len() == parallelism && exists|owner: Seq<int>| #[trigger] owner.len() == queries.len()
        && (forall|i: int| 0 <= i < owner.len() ==> 0 <= #[trigger] owner[i] < parallelism)
        && (forall|b: int| 0 <= b < parallelism ==> bin_is(queries, owner, queries.len() as int, b, (#[trigger] bins[b])@))
}
pub proof fn lemma_bin_extend(queries: Seq<Value>, o1: Seq<int>, o2: Seq<int>, k: int, b: int, bin: Seq<&Value>)
    requires 0 <= k <= o1.len(), k <= o2.len(), forall|i: int| 0 <= i < k ==> o1[i] == o2[i], bin_is(queries, o1, k, b, bin)
    ensures bin_is(queries, o2, k, b, bin)
    decreases k
{
    if k > 0 { if o1[k - 1] == b { lemma_bin_extend(queries, o1, o2, k - 1, b, bin.drop_last()); } else { lemma_bin_extend(queries, o1, o2, k - 1, b, bin); } }
}
"""


def build(x):
    parts = [P.f64_real(), HEAD]
    # ---- min_bin (rule R-minby) ----
    mb = x.fn(F, "fn min_bin")
    mb.rewrite(r"(\w+)\s*\.iter\(\)\s*\.enumerate\(\)\s*\.min_by_key\(\|\(_i, w\)\| ([^\n]*?)\)\s*\.map\(\|\(i, _w\)\| i\)",
               r"""{
        // rule R-minby: `S.iter().enumerate().min_by_key(|(_i, w)| KEY).map(|(i, _w)| i)` written as the loop it denotes: the index of the FIRST element of least key (std: "if several
        // elements are equally minimum, the first element is returned"); KEY is the closure's verbatim body
        let mut verif_best: Option<usize> = None;
        let mut verif_j: usize = 0;
        while verif_j < \1.len()
            invariant 0 <= verif_j <= \1@.len(), verif_j == 0 <==> verif_best is None,
                verif_best matches Some(b) ==> b < verif_j && forall|q: int| 0 <= q < verif_j ==> f64_real(\1@[b as int]) <= f64_real(#[trigger] \1@[q]),
            decreases \1@.len() - verif_j,
        {
            let verif_better = match verif_best {
                None => true,
                Some(verif_b) => { let w = &&\1[verif_j]; let verif_kj = \2; let w = &&\1[verif_b]; let verif_kb = \2; verif_kj.lt(&verif_kb) }
            };
            if verif_better { verif_best = Some(verif_j); }
            verif_j = verif_j + 1;
        }
        verif_best
    }""", 1, 1, rule="R-minby")
    x.note("R-minby", "min_bin: `bins.iter().enumerate().min_by_key(|(_i, w)| OrderedFloat(**w)).map(|(i, _w)| i)` written as the loop it denotes (index of the first element of least key; the key expression is the closure's verbatim body; `<` of OrderedFloat is the order of the reals: A-REAL)")
    mb.rewrite(r"\.ok_or_else\(\|\| \{\s*PluginError::InternalError\(String::from\([^)]*\)\)\s*\}\)", ".ok_or_else(|| -> (er: PluginError) { verif_plugin_error() })", 1, 1, rule="R-format")
    mb.name_return("r")
    mb.add_spec("""    ensures
        // the index of a bin of LEAST total (the first such); an error only for no bins at all
        bins@.len() == 0 <==> r is Err,
        r matches Ok(i) ==> i < bins@.len() && forall|q: int| 0 <= q < bins@.len() ==> f64_real(bins@[i as int]) <= f64_real(#[trigger] bins@[q]),""")
    mb.body_start("    broadcast use areal; proof { areal_obeys(); }")
    f = x.fn(F, "fn apply_load_balancing_policy")
    f.rewrite(r"&\[serde_json::Value\]", "&[Value]", 1, 1, rule="R-path")
    f.rewrite(r"Vec<Vec<&serde_json::Value>>", "Vec<Vec<&Value>>", 2, 2, rule="R-path")
    f.rewrite(r"vec!\[0\.0; parallelism\]", "verif_vec_f64(0.0, parallelism)", 1, 1, rule="R-vec")
    f.rewrite(r"vec!\[vec!\[\]; parallelism\]", "verif_vec_bins(parallelism)", 1, 1, rule="R-vec")
    x.note("R-vec", "apply_load_balancing_policy: `vec![x; n]` with run-time n written verif_vec_f64 / verif_vec_bins (assumed: n copies)")
    f.rewrite(r"return Ok\(vec!\[\]\);", "return Ok(Vec::new());", 1, 1, rule="R-vec")
    f.desugar_for(1, itname="verif_it")
    f.rewrite(r"let mut verif_it = \(queries\.iter\(\)\)\.into_iter\(\);\s*loop", "let mut verif_i: usize = 0;\n    let ghost mut owner: Seq<int> = Seq::empty();\n loop", 1, 1, rule="R9")
    f.rewrite(r"let q = match verif_it\.next\(\) \{ Some\(verif_x\) => verif_x, None => break \};", "if verif_i >= queries.len() { break; } let q = &queries[verif_i]; verif_i += 1;", 1, 1, rule="R9")
    f.rewrite(r"bin_totals\[min_bin\] \+= w;", "bin_totals[min_bin] = bin_totals[min_bin] + w;", 1, 1, rule="R-compound")
    x.note("R-compound", "apply_load_balancing_policy: `bin_totals[min_bin] += w` written `bin_totals[min_bin] = bin_totals[min_bin] + w` (this Verus build crashes on compound assignment of floats)")
    f.name_return("r")
    f.add_spec("""    ensures
        (r is Ok && queries@.len() > 0) ==> balanced(queries@, parallelism as int, r->Ok_0@),
        (r is Ok && queries@.len() == 0) ==> r->Ok_0@.len() == 0,
        // parallelism 0 with a non-empty batch is an error, not a panic
        (queries@.len() > 0 && parallelism == 0) ==> r is Err,
        // C06: with at least one executor the assignment never fails, whatever the queries hold (an unreadable weight estimate is a missing one)
        parallelism > 0 ==> r is Ok,""")
    f.rewrite(r"\A", "#[verifier::exec_allows_no_decreases_clause]\n", 1, 1, rule="note")
    f.body_start("    broadcast use areal; proof { areal_obeys(); }")
    f.add_loop_spec(1, """        invariant
            0 <= verif_i <= queries@.len(), owner.len() == verif_i, parallelism == 0 ==> verif_i == 0,
            bin_totals@.len() == parallelism, assignments@.len() == parallelism,
            forall|i: int| 0 <= i < owner.len() ==> 0 <= #[trigger] owner[i] < parallelism,
            forall|b: int| 0 <= b < parallelism ==> bin_is(queries@, owner, verif_i as int, b, (#[trigger] assignments@[b])@),
        ensures verif_i >= queries@.len(),""")
    f.loop_body_start(1, "        broadcast use areal; proof { areal_obeys(); }")
    f.insert_before(r"bin_totals\[min_bin\] = bin_totals\[min_bin\] \+ w;", "        let ghost a_old = assignments@; let ghost o_old = owner;")
    f.insert_after(r"assignments\[min_bin\]\.push\(q\);", """        proof {
            owner = owner.push(min_bin as int);
            let k = verif_i as int;
            assert forall|b: int| 0 <= b < parallelism implies bin_is(queries@, owner, k, b, (#[trigger] assignments@[b])@) by {
                if b == min_bin {
                    assert(assignments@[b]@.drop_last() =~= a_old[b]@);
                    lemma_bin_extend(queries@, o_old, owner, k - 1, b, a_old[b]@);
                } else {
                    assert(assignments@[b] == a_old[b]);
                    lemma_bin_extend(queries@, o_old, owner, k - 1, b, a_old[b]@);
                }
            }
        }""")
    parts.append(mb.text + "\n")
    parts.append(f.text)
    parts.append("""
// vacuity guard: MUST FAIL
pub fn vacuity_probe(q: &[Value], p: usize) -> (r: bool) ensures false { apply_load_balancing_policy(q, p, 1.0).is_ok() }
""")
    return P.wrap("\n".join(parts))
