"""C20 (one kernel) -- traversal_ops::create_route_linestring / create_edge_geometry: the route geometry follows the returned edge sequence [V].

Extracted verbatim from routee-compass/src/plugin/output/default/traversal/traversal_ops.rs: create_route_linestring, create_edge_geometry, create_branch_geometry.
LineString<f32> is opaque; geo_io_utils::concat_linestrings is represented by an uninterpreted concatenation of a SEQUENCE of linestrings (its body is a flat_map over
geo's point iterators: assumed).  Rules: R-collect (`route.iter().map(|t| t.edge_id).collect::<Vec<_>>()` as the loop it denotes), R-trycollect (`edge_ids.iter().map(|eid| { B })
.collect::<Result<Vec<_>, _>>()?` as a loop pushing `{ B }?`, B verbatim), R-format, R-path.
"""
import re
import genlib as G

F = "routee-compass/src/plugin/output/default/traversal/traversal_ops.rs"
OBLIGATIONS = ["create_route_linestring", "create_route_geojson", "create_edge_geometry", "create_branch_geometry", "create_tree_multilinestring"]
MUST_FAIL = ["vacuity_probe"]

HEAD = """#![allow(unused_imports, unused_variables, dead_code, unused_mut, unused_parens, unused_assignments)]
use vstd::prelude::*;
verus! {
#[derive(Copy, Clone, PartialEq, Eq)] pub struct EdgeId(pub usize);
#[derive(Copy, Clone, PartialEq, Eq)] pub struct VertexId(pub usize);
#[verifier::external_body] pub struct LineStringF32 { _p: u8 }        // geo::LineString<f32>
impl Clone for LineStringF32 { #[verifier::external_body] fn clone(&self) -> (r: LineStringF32) ensures r == *self { unimplemented!() } }
pub struct EdgeTraversal { pub edge_id: EdgeId }
pub struct SearchTreeBranch { pub terminal_vertex: VertexId, pub edge_traversal: EdgeTraversal }
pub enum OutputPluginError { OutputPluginFailed(String), Other }
#[verifier::external_body] pub fn verif_format() -> String { String::new() }
/// the points of the given linestrings one after the other, in the order of the sequence (geo_io_utils::concat_linestrings; assumed)
pub uninterp spec fn concat_spec(ls: Seq<LineStringF32>) -> LineStringF32;
pub open spec fn derefs(v: Seq<&LineStringF32>) -> Seq<LineStringF32> { Seq::new(v.len(), |i: int| *v[i]) }
pub mod geo_io_utils { use super::*;
    #[verifier::external_body] pub fn concat_linestrings(linestrings: Vec<&LineStringF32>) -> (r: LineStringF32) ensures r == concat_spec(derefs(linestrings@)) { unimplemented!() }
}
// std functions vstd does not specify (assumed): Result::and_then, Option::cloned
pub assume_specification<T, E, U, F: FnOnce(T) -> Result<U, E>> [ Result::<T, E>::and_then ](r: Result<T, E>, f: F) -> (o: Result<U, E>)
    ensures r matches Ok(v) ==> f.ensures((v,), o), r matches Err(e) ==> o matches Err(e2) && e2 == e;
#[verifier::external_body] pub struct Feature { _p: u8 }               // geojson::Feature
#[verifier::external_body] pub struct Value { _p: u8 }                 // serde_json::Value
#[verifier::external_body] pub struct JsonError { _p: u8 }
impl vstd::std_specs::convert::FromSpecImpl<JsonError> for OutputPluginError { open spec fn obeys_from_spec() -> bool { false } open spec fn from_spec(v: JsonError) -> OutputPluginError { arbitrary() } }
impl From<JsonError> for OutputPluginError { #[verifier::external_body] fn from(e: JsonError) -> OutputPluginError { unimplemented!() } }
/// the GeoJSON feature of one traversed edge with a geometry (id = the edge id, properties = the traversal record; serde / geojson: uninterpreted)
pub uninterp spec fn feature_of(t: EdgeTraversal, g: LineStringF32) -> Feature;
#[verifier::external_body] pub fn create_geojson_feature(t: &EdgeTraversal, g: LineStringF32) -> (r: Result<Feature, OutputPluginError>) ensures r matches Ok(f) ==> f == feature_of(*t, g) { unimplemented!() }
/// the feature collection of a list of features, serialised (uninterpreted)
pub uninterp spec fn collection_of(fs: Seq<Feature>) -> Value;
#[verifier::external_body] pub fn verif_feature_collection(features: Vec<Feature>) -> (r: Result<Value, JsonError>) ensures r matches Ok(v) ==> v == collection_of(features@) { unimplemented!() }
// tree outputs: the search tree is a HashMap (iteration order unspecified); `tree.values().map(|t| t.edge_traversal.edge_id).collect()` is ONE assumed helper: the edge ids of the
// tree's branches, one per branch, in SOME order
#[verifier::external_body] pub struct Tree { _p: u8 }                  // HashMap<VertexId, SearchTreeBranch>
impl Tree { pub uninterp spec fn branch_edges(&self) -> Seq<EdgeId>; }
#[verifier::external_body] pub fn verif_tree_edge_ids(tree: &Tree) -> (r: Vec<EdgeId>) ensures r@ == tree.branch_edges() { unimplemented!() }
#[verifier::external_body] pub struct MultiLineStringF32 { _p: u8 }   // geo::MultiLineString<f32>
pub uninterp spec fn multi_of(ls: Seq<LineStringF32>) -> MultiLineStringF32;
// `Result<&T, E>::cloned()` (assumed: clones the value, keeps the error)
#[verifier::external_body] pub fn verif_cloned(r: Result<&LineStringF32, OutputPluginError>) -> (o: Result<LineStringF32, OutputPluginError>)
    ensures r matches Ok(v) ==> o matches Ok(w) && w == *v, r is Err ==> o is Err { unimplemented!() }
impl MultiLineStringF32 { #[verifier::external_body] pub fn new(ls: Vec<LineStringF32>) -> (r: MultiLineStringF32) ensures r == multi_of(ls@) { unimplemented!() } }
/// C20: the stored geometries of the route's edges, in route order
pub open spec fn route_geoms(route: Seq<EdgeTraversal>, geoms: Seq<LineStringF32>) -> Seq<LineStringF32> { Seq::new(route.len(), |i: int| geoms[route[i].edge_id.0 as int]) }
pub open spec fn all_present(route: Seq<EdgeTraversal>, geoms: Seq<LineStringF32>) -> bool { forall|i: int| 0 <= i < route.len() ==> (#[trigger] route[i]).edge_id.0 < geoms.len() }
"""


def build(x):
    parts = [HEAD]
    fns = []
    f = x.fn(F, "fn create_route_linestring")
    f.replace_macro_calls(r"format", "verif_format()")
    f.rewrite(r"LineString<f32>", "LineStringF32", 3, 3, rule="R-path")
    f.rewrite(r"let edge_ids = route\s*\.iter\(\)\s*\.map\(\|traversal\| (traversal\.edge_id)\)\s*\.collect::<Vec<_>>\(\);",
              r"let mut edge_ids: Vec<EdgeId> = Vec::new();\n    let mut verif_a: usize = 0;\n    while verif_a < route.len() { let traversal = &route[verif_a]; verif_a = verif_a + 1; edge_ids.push(\1); }", 1, 1, rule="R-collect")
    pat = re.compile(r"let edge_linestrings = edge_ids\s*\.iter\(\)\s*\.map\(\|eid\| \{(.*?)\n        \}\)\s*\.collect::<Result<Vec<&LineStringF32>, OutputPluginError>>\(\)\?;", re.S)
    if len(pat.findall(f.text)) != 1:
        raise G.Undecided("lost anchor: the geometry lookup pipeline of create_route_linestring")
    f.rewrite(pat.pattern, r"let mut edge_linestrings: Vec<&LineStringF32> = Vec::new();\n    let mut verif_b: usize = 0;\n    while verif_b < edge_ids.len() { let eid = &edge_ids[verif_b]; verif_b = verif_b + 1; let verif_x = {\1\n        }?; edge_linestrings.push(verif_x); }", 1, 1, rule="R-trycollect", flags=re.S)
    x.note("R-trycollect", "create_route_linestring: `edge_ids.iter().map(|eid| { B }).collect::<Result<Vec<_>, _>>()?` written as a loop pushing `{ B }?` (B verbatim); `route.iter().map(|t| t.edge_id).collect()` as the loop it denotes")
    f.name_return("r")
    f.add_spec("""    ensures
        // C20: the route geometry is the concatenation of the STORED geometries of the route's edges IN ROUTE ORDER ...
        r matches Ok(g) ==> all_present(route@, geoms@) && g == concat_spec(route_geoms(route@, geoms@)),
        // ... and a geometry that is missing from the table is an error, never a shortened or shifted geometry
        !all_present(route@, geoms@) ==> r is Err,""")
    f.add_loop_spec(1, """        invariant 0 <= verif_a <= route@.len(), edge_ids@.len() == verif_a, forall|i: int| 0 <= i < verif_a ==> #[trigger] edge_ids@[i] == route@[i].edge_id,
        decreases route@.len() - verif_a,""")
    f.add_loop_spec(2, """        invariant 0 <= verif_b <= edge_ids@.len(), edge_ids@.len() == route@.len(), edge_linestrings@.len() == verif_b,
            forall|i: int| 0 <= i < edge_ids@.len() ==> #[trigger] edge_ids@[i] == route@[i].edge_id,
            forall|i: int| 0 <= i < verif_b ==> (#[trigger] route@[i]).edge_id.0 < geoms@.len() && *edge_linestrings@[i] == geoms@[route@[i].edge_id.0 as int],
        decreases edge_ids@.len() - verif_b,""")
    f.insert_before(r"let geometry = geo_io_utils::concat_linestrings\(edge_linestrings\);", "    proof { assert(derefs(edge_linestrings@) =~= route_geoms(route@, geoms@)); }")
    fns.append(f.text)
    gj = x.fn(F, "fn create_route_geojson")
    gj.replace_macro_calls(r"format", "verif_format()")
    gj.rewrite(r"LineString<f32>", "LineStringF32", 1, 1, rule="R-path")
    gj.rewrite(r"serde_json::Value", "Value", 1, 1, rule="R-path")
    patg = re.compile(r"let features = route\s*\.iter\(\)\s*\.map\(\|t\| \{(.*?)\n        \}\)\s*\.collect::<Result<Vec<_>, OutputPluginError>>\(\)\?;", re.S)
    if len(patg.findall(gj.text)) != 1:
        raise G.Undecided("lost anchor: the feature pipeline of create_route_geojson")
    gj.rewrite(patg.pattern, r"let mut features: Vec<Feature> = Vec::new();\n    let mut verif_c: usize = 0;\n    while verif_c < route.len() { let t = &route[verif_c]; verif_c = verif_c + 1; let verif_x = {\1\n        }?; features.push(verif_x); }", 1, 1, rule="R-trycollect", flags=re.S)
    gj.rewrite(r"\.and_then\(\|g\| create_geojson_feature\(t, g\)\)", ".and_then(|g: LineStringF32| -> (fr: Result<Feature, OutputPluginError>) ensures fr matches Ok(f) ==> f == feature_of(*t, g) { create_geojson_feature(t, g) })", 1, 1, rule="R-closure")
    gj.rewrite(r"let feature_collection = FeatureCollection \{\s*bbox: None,\s*features,\s*foreign_members: None,\s*\};\s*let result = serde_json::to_value\(feature_collection\)\?;", "let result = verif_feature_collection(features)?;", 1, 1, rule="R-collect")
    x.note("R-collect", "create_route_geojson: building the FeatureCollection and serde_json::to_value written verif_feature_collection(features)? (uninterpreted serialisation of the feature LIST)")
    gj.name_return("r")
    gj.add_spec("""    ensures
        // C20: one feature per route edge, IN ROUTE ORDER, each made of that edge's traversal record and ITS stored geometry
        r matches Ok(v) ==> all_present(route@, geoms@) && v == collection_of(Seq::new(route@.len(), |i: int| feature_of(route@[i], geoms@[route@[i].edge_id.0 as int]))),
        !all_present(route@, geoms@) ==> r is Err,""")
    gj.add_loop_spec(1, """        invariant 0 <= verif_c <= route@.len(), features@.len() == verif_c,
            forall|i: int| 0 <= i < verif_c ==> (#[trigger] route@[i]).edge_id.0 < geoms@.len() && features@[i] == feature_of(route@[i], geoms@[route@[i].edge_id.0 as int]),
        decreases route@.len() - verif_c,""")
    gj.insert_before(r"let result = verif_feature_collection\(features\)\?;", "    proof { assert(features@ =~= Seq::new(route@.len(), |i: int| feature_of(route@[i], geoms@[route@[i].edge_id.0 as int]))); }")
    fns.append(gj.text)
    # ---- tree output: one member per tree branch; a missing geometry is an error ----
    tm = x.fn(F, "fn create_tree_multilinestring")
    tm.replace_macro_calls(r"format", "verif_format()")
    tm.rewrite(r"tree: &HashMap<VertexId, SearchTreeBranch>", "tree: &Tree", 1, 1, rule="R3-dyn")
    tm.rewrite(r"MultiLineString<f32>", "MultiLineStringF32", 1, 1, rule="R-path")
    tm.rewrite(r"MultiLineString::new\(", "MultiLineStringF32::new(", 1, 1, rule="R-path")
    tm.rewrite(r"LineString<f32>", "LineStringF32", 1, 2, rule="R-path")
    tm.rewrite(r"let edge_ids = tree\s*\.values\(\)\s*\.map\(\|traversal\| traversal\.edge_traversal\.edge_id\)\s*\.collect::<Vec<_>>\(\);", "let edge_ids = verif_tree_edge_ids(tree);", 1, 1, rule="R-collect")
    x.note("R-collect", "create_tree_multilinestring: `tree.values().map(|t| t.edge_traversal.edge_id).collect::<Vec<_>>()` written verif_tree_edge_ids(tree) (assumed: the edge ids of the tree's branches, one per branch, in some order)")
    patt = re.compile(r"let tree_linestrings = edge_ids\s*\.iter\(\)\s*\.map\(\|eid\| \{(.*?)\n        \}\)\s*\.collect::<Result<Vec<LineStringF32>, OutputPluginError>>\(\)\?;", re.S)
    if len(patt.findall(tm.text)) != 1:
        raise G.Undecided("lost anchor: the geometry lookup pipeline of create_tree_multilinestring")
    tm.rewrite(patt.pattern, r"let mut tree_linestrings: Vec<LineStringF32> = Vec::new();\n    let mut verif_b: usize = 0;\n    while verif_b < edge_ids.len() { let eid = &edge_ids[verif_b]; verif_b = verif_b + 1; let verif_x = {\1\n        }?; tree_linestrings.push(verif_x); }", 1, 1, flags=re.S, rule="R-trycollect")
    x.note("R-trycollect", "create_tree_multilinestring: `edge_ids.iter().map(|eid| { B }).collect::<Result<Vec<_>, _>>()?` written as a loop pushing `{ B }?` (B verbatim)")
    tm.rewrite(r"geom\.cloned\(\)", "verif_cloned(geom)", 0, 1, rule="R-collect")
    tm.name_return("r")
    tm.add_spec("""    ensures
        // C20: "tree outputs contain exactly one entry per tree branch": member i is the STORED geometry of the edge of branch i ...
        r matches Ok(g) ==> (forall|i: int| 0 <= i < tree.branch_edges().len() ==> (#[trigger] tree.branch_edges()[i]).0 < geoms@.len())
            && g == multi_of(Seq::new(tree.branch_edges().len(), |i: int| geoms@[tree.branch_edges()[i].0 as int])),
        // ... and a geometry that is missing from the table is an error, never a shorter collection
        (exists|i: int| 0 <= i < tree.branch_edges().len() && (#[trigger] tree.branch_edges()[i]).0 >= geoms@.len()) ==> r is Err,""")
    tm.add_loop_spec(1, """        invariant 0 <= verif_b <= edge_ids@.len(), edge_ids@ == tree.branch_edges(), tree_linestrings@.len() == verif_b,
            forall|i: int| 0 <= i < verif_b ==> (#[trigger] edge_ids@[i]).0 < geoms@.len() && tree_linestrings@[i] == geoms@[edge_ids@[i].0 as int],
        decreases edge_ids@.len() - verif_b,""")
    tm.insert_before(r"let geometry = MultiLineStringF32::new\(tree_linestrings\);", "    proof { assert(tree_linestrings@ =~= Seq::new(tree.branch_edges().len(), |i: int| geoms@[tree.branch_edges()[i].0 as int])); }")
    fns.append(tm.text)
    g = x.fn(F, "fn create_edge_geometry")
    g.replace_macro_calls(r"format", "verif_format()")
    g.rewrite(r"LineString<f32>", "LineStringF32", 2, 2, rule="R-path")
    g.name_return("r")
    g.add_spec("    ensures r is Ok <==> edge.edge_id.0 < geoms@.len(), r matches Ok(l) ==> l == geoms@[edge.edge_id.0 as int],")
    fns.append(g.text)
    b = x.fn(F, "fn create_branch_geometry")
    b.rewrite(r"LineString<f32>", "LineStringF32", 2, 2, rule="R-path")
    b.name_return("r")
    b.add_spec("    ensures r is Ok <==> branch.edge_traversal.edge_id.0 < geoms@.len(), r matches Ok(l) ==> l == geoms@[branch.edge_traversal.edge_id.0 as int],")
    fns.append(b.text)
    parts.append("\n".join(fns))
    parts.append("""
// vacuity guard: MUST FAIL
pub fn vacuity_probe(r: &[EdgeTraversal], g: &[LineStringF32]) -> (b: bool) ensures false { create_route_linestring(r, g).is_ok() }
} // verus!
fn main() {}
""")
    return "\n".join(parts)
