"""C01 / C05 glue -- SearchAlgorithm::run_vertex_oriented: what the plain searches hand to their callers [V].

Extracted verbatim: enum SearchAlgorithm, SearchAlgorithm::run_vertex_oriented (all four arms), struct SearchAlgorithmResult, SearchResult, SearchTreeBranch,
Edge, Direction.  The callees are represented by the contracts PROVED in other units: a_star_algorithm::run_a_star (unit al_astar: search_post / "no path"),
backtrack::vertex_oriented_route (unit c01_backtrack: route_ok); the two k-shortest-path drivers are opaque here (their own units carry them).
Rules: R-collect (the serde pipeline that reads an optional `weight_factor` from the query, and `x.as_ref().cloned().unwrap_or_default()`, each replaced by one opaque
helper), R-format, R-path.  The self-recursive call of the Dijkstra arm is accepted without a termination proof (exec_allows_no_decreases_clause).
"""
import re
import al_astar as AL
import c01_backtrack as BT
import genlib as G

A = "routee-compass-core/src/algorithm/search/"
OBLIGATIONS = ["run_vertex_oriented", "lemma_plain_route_is_walk"]
MUST_FAIL = ["vacuity_probe"]

SHIMS = """
#[verifier::external_body] pub struct Value { _p: u8 }                      // serde_json::Value
#[verifier::external_body] pub struct RouteSimilarityFunction { _p: u8 }
#[verifier::external_body] pub struct KspTerminationCriteria { _p: u8 }
#[verifier::external_body] pub struct KspQuery<'a> { _p: core::marker::PhantomData<&'a u8> }
impl<'a> KspQuery<'a> { #[verifier::external_body] pub fn new(s: VertexId, t: VertexId, q: &'a Value, k: usize) -> (r: Result<KspQuery<'a>, SearchError>) { unimplemented!() } }
pub mod a_star_algorithm { use super::*;
    // contract PROVED in unit al_astar
    #[verifier::external_body]
    pub fn run_a_star(source: VertexId, target: Option<VertexId>, direction: &Direction, weight_factor: Option<Cost>, si: &SearchInstance) -> (r: Result<SearchResult, SearchError>)
        ensures r matches Ok(res) ==> search_post(si, *direction, source, target, res),
                r matches Err(e) ==> (e is NoPathExistsBetweenVertices ==> target is Some && e == SearchError::NoPathExistsBetweenVertices(source, target->Some_0) && nopath_post(si, *direction, source, target->Some_0)),
    { unimplemented!() }
}
pub mod backtrack { use super::*;
    // contract PROVED in unit c01_backtrack
    #[verifier::external_body]
    pub fn vertex_oriented_route(source_id: VertexId, target_id: VertexId, solution: &HashMap<VertexId, SearchTreeBranch>) -> (r: Result<Vec<EdgeTraversal>, SearchError>)
        ensures r matches Ok(route) ==> route_ok(source_id, target_id, solution@, route@), r matches Err(e) ==> e is InternalError,
    { unimplemented!() }
}
pub mod yens_algorithm { use super::*;
    #[verifier::external_body] pub fn run(q: &KspQuery, t: &KspTerminationCriteria, s: &RouteSimilarityFunction, si: &SearchInstance, u: &SearchAlgorithm) -> Result<SearchAlgorithmResult, SearchError> { unimplemented!() }
}
pub mod single_via_paths_algorithm { use super::*;
    #[verifier::external_body] pub fn run(q: &KspQuery, t: &KspTerminationCriteria, s: &RouteSimilarityFunction, si: &SearchInstance, u: &SearchAlgorithm) -> Result<SearchAlgorithmResult, SearchError> { unimplemented!() }
}
// ---- rule R-collect (opaque helpers) ----
/// `match query.get("weight_factor") { Some(w) => w.as_f64().ok_or(..).map(|f| Some(Cost::new(f))), None => Ok(*weight_factor) }?`
#[verifier::external_body] pub fn verif_weight_override(query: &Value, weight_factor: &Option<Cost>) -> (r: Result<Option<Cost>, SearchError>)
    ensures r matches Err(e) ==> !(e is NoPathExistsBetweenVertices) && !(e is TerminationModelFailure) { unimplemented!() }
/// `x.as_ref().cloned().unwrap_or_default()`
#[verifier::external_body] pub fn verif_sim_or_default(x: &Option<RouteSimilarityFunction>) -> RouteSimilarityFunction { unimplemented!() }
#[verifier::external_body] pub fn verif_term_or_default(x: &Option<KspTerminationCriteria>) -> KspTerminationCriteria { unimplemented!() }

/// C01 / C05: what a plain (Dijkstra / A*) search hands back
pub open spec fn plain_post(si: &SearchInstance, d: Direction, src: VertexId, dst: Option<VertexId>, res: SearchAlgorithmResult) -> bool {
    &&& res.trees@.len() == 1
    // the tree is the one run_a_star returned (TW, DOM, POT; target entry; closed set without a target)
    &&& search_post(si, d, src, dst, SearchResult { tree: res.trees@[0], iterations: res.iterations })
    // with a destination exactly one route, the backtrack of THAT tree; without one, none
    &&& (dst matches Some(t) ==> res.routes@.len() == 1 && route_ok(src, t, res.trees@[0]@, res.routes@[0]@))
    &&& (dst is None ==> res.routes@.len() == 0)
}
"""

LEMMAS = """
/// C01: the route a plain search stores is a contiguous walk in the search direction from the source to the target over edges of the graph
pub proof fn lemma_plain_route_is_walk(si: &SearchInstance, d: Direction, src: VertexId, t: VertexId, res: SearchAlgorithmResult)
    requires plain_post(si, d, src, Some(t), res)
    ensures ({
        let g = &si.directed_graph; let route = res.routes@[0]@;
        &&& forall|i: int| 0 <= i < route.len() ==> has_edge(g, (#[trigger] route[i]).edge_id)
        &&& (route.len() > 0 ==> term_spec(d, edge_of(g, route[0].edge_id)) == src && key_spec(d, edge_of(g, route.last().edge_id)) == t)
        &&& forall|i: int| 0 <= i < route.len() - 1 ==> #[trigger] key_spec(d, edge_of(g, route[i].edge_id)) == term_spec(d, edge_of(g, route[i + 1].edge_id))
        &&& (route.len() == 0 <==> src == t)
    })
{
    let g = &si.directed_graph; let route = res.routes@[0]@; let tr = res.trees@[0]@;
    let vs = choose|vs: Seq<VertexId>| #[trigger] route_chain(src, t, tr, route, vs);
    lemma_route_contiguous(g, &si.frontier_model, d, src, t, tr, route, vs);
}
"""


def build(x):
    parts = [AL.HEAD]
    edge = x.item_text("routee-compass-core/src/model/network/edge.rs", "struct Edge").replace("    pub distance: Distance,\n", "")
    parts.append("#[derive(Copy, Clone)]\n" + edge + "\n")
    parts.append(x.item_text(A + "search_tree_branch.rs", "struct SearchTreeBranch") + "\n")
    parts.append(x.item_text(A + "search_result.rs", "struct SearchResult") + "\n")
    den, _ = G.strip_inner_attrs(x.item_text(A + "direction.rs", "enum Direction"))
    parts.append("#[derive(Copy, Clone)]\n" + den + "\n")
    sar, _ = G.strip_inner_attrs(x.item_text(A + "search_algorithm_result.rs", "struct SearchAlgorithmResult"))
    parts.append(sar + "\n")
    sa, n = G.strip_inner_attrs(x.item_text(A + "search_algorithm.rs", "enum SearchAlgorithm"))
    x.note("R1", "search_algorithm.rs: dropped %d serde attributes of enum SearchAlgorithm" % n)
    parts.append(sa + "\n")
    parts.append(AL.SHIMS)
    parts.append("impl Direction {" + AL.DIR_SHIMS + "}\n")
    parts.append(AL.SPECS)
    parts.append(BT.SPEC)
    parts.append(SHIMS)
    parts.append(BT.LEMMAS.split("/// C05 (if)")[0])
    f = x.fn(A + "search_algorithm.rs", "impl SearchAlgorithm :: fn run_vertex_oriented")
    f.rewrite(r"&serde_json::Value", "&Value", 1, 1, rule="R-path")
    f.rewrite(r'String::from\(\s*"[^"]*",?\s*\)', "verif_format()", 2, 2, rule="R-format")
    f.rewrite(r"let w_val = match query\.get\(\"weight_factor\"\) \{.*?\}\?;", "let w_val = verif_weight_override(query, weight_factor)?;", 1, 1, rule="R-collect", flags=re.S)
    f.rewrite(r"similarity\.as_ref\(\)\.cloned\(\)\.unwrap_or_default\(\)", "verif_sim_or_default(similarity)", 2, 2, rule="R-collect")
    f.rewrite(r"termination\.as_ref\(\)\.cloned\(\)\.unwrap_or_default\(\)", "verif_term_or_default(termination)", 2, 2, rule="R-collect")
    x.note("R-collect", "run_vertex_oriented: the serde pipeline reading an optional `weight_factor` from the query written verif_weight_override(query, weight_factor)? (opaque: ANY override or an error); `x.as_ref().cloned().unwrap_or_default()` written verif_*_or_default(x)")
    f.rewrite(r"\A", "#[verifier::exec_allows_no_decreases_clause]\n", 1, 1, rule="note")
    f.name_return("r")
    f.add_spec("""        ensures
            // a plain search (Dijkstra or A*, whatever weight factor is in force) hands back run_a_star's tree and the backtrack of that tree
            (self is Dijkstra || self is AStarAlgorithm) ==> (r matches Ok(res) ==> plain_post(si, *direction, src_id, dst_id_opt, res)),
            // C05: "no path" is reported only as run_a_star reports it (exhausted queue, closed labelled set without the target)
            (self is Dijkstra || self is AStarAlgorithm) ==> (r matches Err(e) ==> (e is NoPathExistsBetweenVertices ==> dst_id_opt is Some && nopath_post(si, *direction, src_id, dst_id_opt->Some_0))),""")
    f.insert_before(r"Ok\(SearchAlgorithmResult \{", """                proof { assert(routes@.len() == (if dst_id_opt is Some { 1int } else { 0int })); }
                let ghost tree0 = search_result.tree@; let ghost it0 = search_result.iterations;""")
    parts.append("impl SearchAlgorithm {\n" + f.text + "\n}\n")
    parts.append(LEMMAS)
    parts.append("""
// vacuity guard: MUST FAIL
pub fn vacuity_probe(a: &SearchAlgorithm, s: VertexId, q: &Value, d: &Direction, si: &SearchInstance) -> (r: bool) ensures false { a.run_vertex_oriented(s, None, q, d, si).is_ok() }
} // verus!
fn main() {}
impl std::fmt::Display for VertexId { fn fmt(&self, f: &mut std::fmt::Formatter<'_>) -> std::fmt::Result { write!(f, "{}", self.0) } }
""")
    return "\n".join(parts)
