"""C01.3 -- backtrack::vertex_oriented_route under contract [V, unbounded loop].

Extracted verbatim: backtrack::vertex_oriented_route, struct SearchTreeBranch, struct Edge,
Direction (enum + key/terminal accessors).  Shims as in unit AL.  Rule R-format (error text),
R-collect (`result.into_iter().rev().collect()` written as verif_rev_collect(result): assumed to
return the reversed vector).
"""
import al_astar as AL
import genlib as G

A = "routee-compass-core/src/algorithm/search/"
OBLIGATIONS = ["vertex_oriented_route", "edge_oriented_route", "lemma_route_contiguous", "lemma_route_exists_step"]
MUST_FAIL = ["vacuity_probe"]

SPEC = """
impl Clone for EdgeTraversal { #[verifier::external_body] fn clone(&self) -> (r: EdgeTraversal) ensures r == *self { unimplemented!() } }
// `result.into_iter().rev().collect()` (assumed: the reversed vector)
#[verifier::external_body]
pub fn verif_rev_collect(v: Vec<EdgeTraversal>) -> (r: Vec<EdgeTraversal>) ensures r@ == v@.reverse() { v.into_iter().rev().collect() }
#[verifier::external_body]
pub proof fn eid_key_model() ensures vstd::std_specs::hash::obeys_key_model::<EdgeId>() {}

/// the vertices a route visits: vs[0] = source, vs[n] = target, entry vs[i+1] has parent vs[i] and edge route[i]
pub open spec fn route_chain(source: VertexId, target: VertexId, t: Map<VertexId, SearchTreeBranch>, route: Seq<EdgeTraversal>, vs: Seq<VertexId>) -> bool {
    &&& vs.len() == route.len() + 1
    &&& vs[0] == source
    &&& vs.last() == target
    &&& forall|i: int| 0 <= i < route.len() ==> t.contains_key(#[trigger] vs[i + 1]) && t[vs[i + 1]].terminal_vertex == vs[i] && route[i] == t[vs[i + 1]].edge_traversal
}
pub open spec fn route_ok(source: VertexId, target: VertexId, t: Map<VertexId, SearchTreeBranch>, route: Seq<EdgeTraversal>) -> bool {
    &&& exists|vs: Seq<VertexId>| #[trigger] route_chain(source, target, t, route, vs)
    // no edge occurs twice
    &&& forall|i: int, j: int| 0 <= i < j < route.len() ==> #[trigger] route[i].edge_id != #[trigger] route[j].edge_id
    &&& (route.len() == 0 <==> source == target)
}
"""

LEMMAS = """
/// C01: with a well-formed tree (TW of unit AL) a backtracked route is a contiguous walk from source to target in the search direction
pub proof fn lemma_route_contiguous(g: &Graph, fm: &FrontierModel, d: Direction, source: VertexId, target: VertexId,
                                    t: Map<VertexId, SearchTreeBranch>, route: Seq<EdgeTraversal>, vs: Seq<VertexId>)
    requires tree_wf(g, fm, d, t), route_chain(source, target, t, route, vs)
    ensures
        // every route edge joins the previous vertex to the next one in the search direction
        forall|i: int| 0 <= i < route.len() ==> term_spec(d, edge_of(g, #[trigger] route[i].edge_id)) == vs[i] && key_spec(d, edge_of(g, route[i].edge_id)) == vs[i + 1],
        // hence: first edge leaves the source, consecutive edges share a vertex, last edge arrives at the target
        route.len() > 0 ==> term_spec(d, edge_of(g, route[0].edge_id)) == source && key_spec(d, edge_of(g, route.last().edge_id)) == target,
        forall|i: int| 0 <= i < route.len() - 1 ==> #[trigger] key_spec(d, edge_of(g, route[i].edge_id)) == term_spec(d, edge_of(g, route[i + 1].edge_id)),
        forall|i: int| 0 <= i < route.len() ==> has_edge(g, #[trigger] route[i].edge_id),
{
    assert forall|i: int| 0 <= i < route.len() implies term_spec(d, edge_of(g, #[trigger] route[i].edge_id)) == vs[i] && key_spec(d, edge_of(g, route[i].edge_id)) == vs[i + 1]
        && has_edge(g, route[i].edge_id) by {
        assert(t.contains_key(vs[i + 1]));
    }
    if route.len() > 0 { let n = route.len() as int; assert(vs[n] == target); assert(route.last() == route[n - 1]); }
}
/// C05 (if): with DOM of unit AL, backtracking from any labelled vertex never hits a missing entry: each step lands on the source or an entry
pub proof fn lemma_route_exists_step(source: VertexId, t: Map<VertexId, SearchTreeBranch>, labels: Map<VertexId, Cost>, v: VertexId)
    requires dom_ok(source, t, labels), t.contains_key(v)
    ensures t[v].terminal_vertex == source || t.contains_key(t[v].terminal_vertex)
{
    assert(labels.contains_key(t[v].terminal_vertex));
}
"""


def build(x):
    parts = [AL.HEAD]
    edge = x.item_text("routee-compass-core/src/model/network/edge.rs", "struct Edge").replace("    pub distance: Distance,\n", "")
    parts.append("#[derive(Copy, Clone)]\n" + edge + "\n")
    parts.append(x.item_text(A + "search_tree_branch.rs", "struct SearchTreeBranch") + "\n")
    sr = x.item_text(A + "search_result.rs", "struct SearchResult")
    parts.append(sr + "\n")
    den, _ = G.strip_inner_attrs(x.item_text(A + "direction.rs", "enum Direction"))
    parts.append("#[derive(Copy, Clone)]\n" + den + "\n")
    parts.append(AL.SHIMS)
    parts.append("impl Direction {" + AL.DIR_SHIMS + "}\n")
    parts.append(AL.SPECS)
    parts.append(SPEC)
    f = x.fn(A + "backtrack.rs", "fn vertex_oriented_route")
    f.replace_macro_calls(r"format", "verif_format()")
    f.rewrite(r"let reversed = result\.into_iter\(\)\.rev\(\)\.collect\(\);", "let reversed = verif_rev_collect(result);", 1, 1, rule="R-collect")
    f.name_return("r")
    f.add_spec("""    ensures
        r matches Ok(route) ==> route_ok(source_id, target_id, solution@, route@),
        r matches Err(e) ==> e is InternalError,""")
    f.rewrite(r"\A", "#[verifier::exec_allows_no_decreases_clause]\n", 1, 1, rule="note")
    x.note("termination", "vertex_oriented_route: termination NOT proved here (exec_allows_no_decreases_clause); the repeated-edge guard bounds the loop by the number of entries")
    f.body_start("""    proof { vid_key_model(); eid_key_model(); }
    let ghost mut vs: Seq<VertexId> = seq![target_id];   // vertices visited so far, target first""")
    f.add_loop_spec(1, """        invariant
            vstd::std_specs::hash::obeys_key_model::<VertexId>(), vstd::std_specs::hash::obeys_key_model::<EdgeId>(),
            vs.len() == result@.len() + 1,
            vs[0] == target_id,
            vs.last() == this_vertex,
            forall|i: int| 0 <= i < result@.len() ==> solution@.contains_key(#[trigger] vs[i]) && solution@[vs[i]].terminal_vertex == vs[i + 1]
                && result@[i] == solution@[vs[i]].edge_traversal && vs[i] != source_id,
            forall|i: int| 0 <= i < result@.len() ==> visited@.contains(#[trigger] result@[i].edge_id),
            forall|e: EdgeId| visited@.contains(e) ==> exists|i: int| 0 <= i < result@.len() && #[trigger] result@[i].edge_id == e,
            forall|i: int, j: int| 0 <= i < j < result@.len() ==> result@[i].edge_id != result@[j].edge_id,
        ensures this_vertex == source_id,""")
    f.insert_before(r"let first_visit = visited\.insert\(", "        let ghost r_old = result@; let ghost v_old = visited@;")
    f.insert_before(r"this_vertex = traversal\.terminal_vertex;", """        proof {
            vs = vs.push(traversal.terminal_vertex);
            let ne = traversal.edge_traversal.edge_id;
            assert(result@ =~= r_old.push(traversal.edge_traversal));
            assert forall|e: EdgeId| visited@.contains(e) implies exists|i: int| 0 <= i < result@.len() && #[trigger] result@[i].edge_id == e by {
                if e == ne { assert(result@[result@.len() - 1].edge_id == e); }
                else { assert(v_old.contains(e)); let i0 = choose|i: int| 0 <= i < r_old.len() && #[trigger] r_old[i].edge_id == e; assert(result@[i0].edge_id == e); }
            }
        }""")
    f.insert_after(r"let reversed = verif_rev_collect\(result\);", """    proof {
        let n = result@.len() as int;
        let rvs = vs.reverse();
        assert(reversed@.len() == n);
        assert(rvs.len() == n + 1);
        assert(rvs[0] == source_id);
        assert(rvs.last() == target_id);
        assert forall|i: int| 0 <= i < n implies solution@.contains_key(#[trigger] rvs[i + 1]) && solution@[rvs[i + 1]].terminal_vertex == rvs[i]
            && reversed@[i] == solution@[rvs[i + 1]].edge_traversal by {
            let j = n - 1 - i;
            assert(rvs[i + 1] == vs[j]);
            assert(rvs[i] == vs[j + 1]);
            assert(reversed@[i] == result@[j]);
            assert(solution@.contains_key(vs[j]));
        }
        assert(route_chain(source_id, target_id, solution@, reversed@, rvs));
        assert forall|i: int, j: int| 0 <= i < j < n implies reversed@[i].edge_id != reversed@[j].edge_id by {
            assert(reversed@[i] == result@[n - 1 - i]); assert(reversed@[j] == result@[n - 1 - j]);
        }
        if n == 0 { assert(vs[0] == target_id); } else { assert(vs[0] != source_id); }
    }""")
    parts.append(f.text + "\n")
    # ---- edge_oriented_route: the route between the END POINTS of the two edges ----
    parts.append("""
use std::sync::Arc;
impl Graph {
    #[verifier::external_body] pub fn src_vertex_id(&self, e: &EdgeId) -> (r: Result<VertexId, SearchError>)
        ensures r matches Ok(v) ==> v == edge_of(self, *e).src_vertex_id, r matches Err(err) ==> !(err is NoPathExistsBetweenVertices) && !(err is TerminationModelFailure) { unimplemented!() }
    #[verifier::external_body] pub fn dst_vertex_id(&self, e: &EdgeId) -> (r: Result<VertexId, SearchError>)
        ensures r matches Ok(v) ==> v == edge_of(self, *e).dst_vertex_id, r matches Err(err) ==> !(err is NoPathExistsBetweenVertices) && !(err is TerminationModelFailure) { unimplemented!() }
}
""")
    eo = x.fn(A + "backtrack.rs", "fn edge_oriented_route")
    eo.name_return("r")
    eo.add_spec("""    ensures
        // the route runs from the vertex the origin edge LEAVES to the vertex the destination edge ARRIVES at (so that, with the wrappers' entries, it starts with the
        // origin edge and ends with the destination edge)
        r matches Ok(route) ==> route_ok(edge_of(&*graph, source_id).src_vertex_id, edge_of(&*graph, target_id).dst_vertex_id, solution@, route@),""")
    parts.append(eo.text + "\n")
    parts.append(LEMMAS)
    parts.append("""
// vacuity guard: MUST FAIL
pub fn vacuity_probe(s: VertexId, t: VertexId, solution: &HashMap<VertexId, SearchTreeBranch>) -> (r: bool) ensures false {
    match vertex_oriented_route(s, t, solution) { Ok(v) => v.len() > 2, Err(_) => false }
}
} // verus!
fn main() {}
impl std::fmt::Display for VertexId { fn fmt(&self, f: &mut std::fmt::Formatter<'_>) -> std::fmt::Result { write!(f, "{}", self.0) } }
""")
    return "\n".join(parts)
