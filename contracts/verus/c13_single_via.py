"""C13 -- the single-via k-shortest-paths driver and its route operations under contract [V, unbounded].

Extracted verbatim from routee-compass-core/src/algorithm/search:
  ksp/single_via_paths_algorithm.rs :: run, test_id_similarity
  a_star/bidirectional_ops.rs      :: reorient_reverse_route, route_contains_loop
  ksp/ksp_query.rs :: struct KspQuery;  search_algorithm_result.rs :: struct SearchAlgorithmResult;  struct SearchTreeBranch, Edge, Direction
Shims with ASSUMED contracts: SearchAlgorithm::run_vertex_oriented (returns trees that satisfy the postcondition PROVED for run_a_star in unit
al_astar: TW of each tree in its direction), backtrack::vertex_oriented_route (contract PROVED in unit c01_backtrack), KspTerminationCriteria::
terminate_search (PROVED by Kani harness c13_ksp_terminate_search: fires only at solution_size == k), RouteSimilarityFunction::test_similarity
(uninterpreted deterministic verdict), EdgeTraversal::forward_traversal (uninterpreted deterministic result carrying the requested edge id),
Graph::src_vertex_id, StateModel::initial_state, the priority_queue crate (as in unit al_astar, plus finiteness).
Rules: R7, R-format, R-path (serde_json::Value opaque), R-into, R9-index (for over a Vec/slice written as an index loop), R9-zip (`for (x, y) in
a.iter().zip(b)` as an index loop up to the shorter length), R9-windows (`for (p, n) in v.iter().tuple_windows()` as an index loop over adjacent
pairs), R-trycollect (`v.iter().map(|e| F).collect::<Result<Vec<_>, _>>()?` as a loop pushing `F?`), R-collect (five iterator pipelines replaced
by helpers with assumed contracts, listed in the text), R9-map (iteration over the entries of a HashMap through an assumed entry list).
"""
import re
import al_astar as AL
import c01_backtrack as BT
import genlib as G

A = "routee-compass-core/src/algorithm/search/"
OBLIGATIONS = ["run", "test_id_similarity", "reorient_reverse_route", "route_contains_loop", "lemma_via_route_is_walk", "lemma_same_ids_reflexive"]
MUST_FAIL = ["vacuity_probe"]

SHIMS = """
#[verifier::external_body] pub struct Value { _p: u8 }     // serde_json::Value (the user query; only passed through)
#[verifier::external_body] pub struct NetworkError { _p: u8 }
impl vstd::std_specs::convert::FromSpecImpl<NetworkError> for SearchError { open spec fn obeys_from_spec() -> bool { false } open spec fn from_spec(v: NetworkError) -> SearchError { arbitrary() } }
impl From<NetworkError> for SearchError { #[verifier::external_body] fn from(e: NetworkError) -> SearchError { unimplemented!() } }

pub axiom fn queue_len_bound(q: &InternalPriorityQueue<VertexId, ReverseCost>) ensures q@.dom().len() <= usize::MAX;   // len() returns it as a usize
impl Clone for StateVar { #[verifier::external_body] fn clone(&self) -> (r: StateVar) ensures r == *self { StateVar(self.0) } }
impl Clone for EdgeTraversal { #[verifier::external_body] fn clone(&self) -> (r: EdgeTraversal) ensures r == *self { unimplemented!() } }
impl Clone for SearchTreeBranch { #[verifier::external_body] fn clone(&self) -> (r: SearchTreeBranch) ensures r == *self { unimplemented!() } }

// ---- deterministic, uninterpreted results of the models the driver consults ----
pub uninterp spec fn fwd_trav(si: &SearchInstance, next: EdgeId, prev: Option<EdgeId>, st: Seq<StateVar>) -> EdgeTraversal;
pub uninterp spec fn init_state(sm: &StateModel) -> Seq<StateVar>;
pub uninterp spec fn sim(f: &RouteSimilarityFunction, a: Seq<EdgeTraversal>, b: Seq<EdgeTraversal>) -> bool;   // "too similar"
impl EdgeTraversal {
    #[verifier::external_body]
    pub fn forward_traversal(next_edge_id: EdgeId, prev_edge_id_opt: Option<EdgeId>, prev_state: &[StateVar], si: &SearchInstance) -> (r: Result<EdgeTraversal, SearchError>)
        ensures r matches Ok(et) ==> et == fwd_trav(si, next_edge_id, prev_edge_id_opt, prev_state@) && et.edge_id == next_edge_id
    { unimplemented!() }
}
impl StateModel {
    #[verifier::external_body] pub fn initial_state2(&self) -> (r: Result<Vec<StateVar>, SearchError>) ensures r matches Ok(s) ==> s@ == init_state(self) { unimplemented!() }
}
impl Graph {
    #[verifier::external_body]
    pub fn src_vertex_id(&self, e: &EdgeId) -> (r: Result<VertexId, NetworkError>)
        ensures r matches Ok(v) ==> v == edge_of(self, *e).src_vertex_id && has_edge(self, *e)
    { unimplemented!() }
    // neighbouring API (a change that uses it still type-checks and meets the contract)
    #[verifier::external_body]
    pub fn dst_vertex_id(&self, e: &EdgeId) -> (r: Result<VertexId, NetworkError>)
        ensures r matches Ok(v) ==> v == edge_of(self, *e).dst_vertex_id && has_edge(self, *e)
    { unimplemented!() }
}
#[verifier::external_body] pub struct RouteSimilarityFunction { _p: u8 }
impl Clone for RouteSimilarityFunction { #[verifier::external_body] fn clone(&self) -> (r: RouteSimilarityFunction) ensures r == *self { unimplemented!() } }
pub open spec fn derefs(v: Seq<&EdgeTraversal>) -> Seq<EdgeTraversal> { Seq::new(v.len(), |i: int| *v[i]) }
impl RouteSimilarityFunction {
    #[verifier::external_body]
    pub fn test_similarity(self, a: &[&EdgeTraversal], b: &[&EdgeTraversal], si: &SearchInstance) -> (r: Result<bool, SearchError>)
        ensures r matches Ok(x) ==> x == sim(&self, derefs(a@), derefs(b@))
    { unimplemented!() }
}
// PROVED on the real function by Kani harness c13_ksp_terminate_search: the criterion fires only when exactly k routes are held
#[verifier::external_body] pub struct KspTerminationCriteria { _p: u8 }
impl KspTerminationCriteria {
    #[verifier::external_body] pub fn terminate_search(&self, k: usize, solution_size: usize) -> (r: bool) ensures r ==> solution_size == k { unimplemented!() }
}
// the underlying search: its trees satisfy what unit al_astar proves of run_a_star (TW in the requested direction); ASSUMED here because
// SearchAlgorithm::run_vertex_oriented (dispatch + backtracking of the first route) is not under contract
#[verifier::external_body] pub struct SearchAlgorithm { _p: u8 }
impl SearchAlgorithm {
    #[verifier::external_body]
    pub fn run_vertex_oriented(&self, src_id: VertexId, dst_id_opt: Option<VertexId>, query: &Value, direction: &Direction, si: &SearchInstance) -> (r: Result<SearchAlgorithmResult, SearchError>)
        ensures r matches Ok(res) ==> forall|i: int| 0 <= i < res.trees@.len() ==> tree_wf(&si.directed_graph, &si.frontier_model, *direction, (#[trigger] res.trees@[i])@)
    { unimplemented!() }
}
pub mod backtrack { use super::*;
    // contract PROVED in unit c01_backtrack
    #[verifier::external_body]
    pub fn vertex_oriented_route(source_id: VertexId, target_id: VertexId, solution: &HashMap<VertexId, SearchTreeBranch>) -> (r: Result<Vec<EdgeTraversal>, SearchError>)
        ensures r matches Ok(route) ==> route_ok(source_id, target_id, solution@, route@)
    { unimplemented!() }
}

// ---- rule R-collect: iterator pipelines replaced by helpers (every contract below is ASSUMED) ----
/// `rev_route.iter().rev().map(|e| Some(e.edge_id)).collect_vec()`
#[verifier::external_body] pub fn verif_rev_ids(v: &[EdgeTraversal]) -> (r: Vec<Option<EdgeId>>)
    ensures r@.len() == v@.len(), forall|i: int| 0 <= i < v@.len() ==> #[trigger] r@[i] == Some(v@[v@.len() - 1 - i].edge_id) { unimplemented!() }
/// `v.iter().unique().collect_vec().len()`: the number of distinct elements
#[verifier::external_body] pub fn verif_unique_count(v: &Vec<VertexId>) -> (r: usize) ensures r == v@.to_set().len() { unimplemented!() }
/// `a.into_iter().chain(b).collect::<Vec<_>>()`
#[verifier::external_body] pub fn verif_chain(a: Vec<EdgeTraversal>, b: Vec<EdgeTraversal>) -> (r: Vec<EdgeTraversal>) ensures r@ == a@ + b@ { unimplemented!() }
/// `v.iter().collect_vec()`
#[verifier::external_body] pub fn verif_refs(v: &Vec<EdgeTraversal>) -> (r: Vec<&EdgeTraversal>) ensures derefs(r@) == v@ { unimplemented!() }
/// `s.into_iter().take(k).collect_vec()`
#[verifier::external_body] pub fn verif_take(s: Vec<Vec<EdgeTraversal>>, k: usize) -> (r: Vec<Vec<EdgeTraversal>>)
    ensures r@ == s@.take(if k <= s@.len() { k as int } else { s@.len() as int }) { unimplemented!() }
/// `rev_trees.iter().flatten().collect::<HashMap<_, _>>()`: an index of the reverse trees' entries (only used to choose candidate via vertices)
#[verifier::external_body] pub struct RevIndex<'a> { _p: core::marker::PhantomData<&'a u8> }
impl<'a> RevIndex<'a> {
    #[verifier::external_body] pub fn get(&self, k: &VertexId) -> (r: Option<&&'a SearchTreeBranch>) { unimplemented!() }
    #[verifier::external_body] pub fn contains_key(&self, k: &&VertexId) -> (r: bool) { unimplemented!() }
}
#[verifier::external_body] pub fn verif_flatten_trees<'a>(t: &'a Vec<HashMap<VertexId, SearchTreeBranch>>) -> (r: RevIndex<'a>) { unimplemented!() }
/// rule R9-map: the entries of a HashMap, in its iteration order (only used to choose candidate via vertices)
#[verifier::external_body] pub fn verif_entries<'a>(t: &'a HashMap<VertexId, SearchTreeBranch>) -> (r: Vec<(&'a VertexId, &'a SearchTreeBranch)>) { unimplemented!() }
"""

SPEC = """
// ===== C13 over the abstraction =====
/// same length and the same edge ids in the same order
pub open spec fn same_ids(a: Seq<EdgeTraversal>, b: Seq<EdgeTraversal>) -> bool {
    a.len() == b.len() && forall|i: int| 0 <= i < a.len() ==> (#[trigger] a[i]).edge_id == b[i].edge_id
}
/// two edges of the route leave the same vertex
pub open spec fn has_loop(g: &Graph, route: Seq<EdgeTraversal>) -> bool {
    exists|i: int, j: int| 0 <= i < j < route.len() && edge_of(g, (#[trigger] route[i]).edge_id).src_vertex_id == edge_of(g, (#[trigger] route[j]).edge_id).src_vertex_id
}
pub open spec fn srcs(g: &Graph, route: Seq<EdgeTraversal>) -> Seq<VertexId> { Seq::new(route.len(), |i: int| edge_of(g, route[i].edge_id).src_vertex_id) }
/// the reverse half re-traversed in travel direction: edge k is traversed after edge k-1 (the first after the last forward edge), from the state that edge left
pub open spec fn step_ok(si: &SearchInstance, prev0: Option<EdgeId>, st0: Seq<StateVar>, ids: Seq<EdgeId>, res: Seq<EdgeTraversal>, i: int) -> bool {
    res[i].edge_id == ids[i] && res[i] == fwd_trav(si, ids[i], if i == 0 { prev0 } else { Some(ids[i - 1]) }, if i == 0 { st0 } else { res[i - 1].result_state@ })
}
// (the quantifier's trigger is the step predicate itself: a trigger on res[i] would loop through res[i - 1])
pub open spec fn reoriented(si: &SearchInstance, prev0: Option<EdgeId>, st0: Seq<StateVar>, ids: Seq<EdgeId>, res: Seq<EdgeTraversal>) -> bool {
    &&& res.len() == ids.len()
    &&& forall|i: int| 0 <= i < res.len() ==> #[trigger] step_ok(si, prev0, st0, ids, res, i)
}
pub open spec fn rev_ids(rb: Seq<EdgeTraversal>) -> Seq<EdgeId> { Seq::new(rb.len(), |i: int| rb[rb.len() - 1 - i].edge_id) }
pub open spec fn last_id(fr: Seq<EdgeTraversal>) -> Option<EdgeId> { if fr.len() == 0 { None } else { Some(fr.last().edge_id) } }
pub open spec fn last_state(si: &SearchInstance, fr: Seq<EdgeTraversal>) -> Seq<StateVar> { if fr.len() == 0 { init_state(&si.state_model) } else { fr.last().result_state@ } }
/// an alternative through a via vertex: the forward tree's route source -> via, followed by the reverse tree's route target -> via re-traversed in travel direction
pub open spec fn via_route(si: &SearchInstance, source: VertexId, target: VertexId, ft: Map<VertexId, SearchTreeBranch>, rt: Map<VertexId, SearchTreeBranch>,
                           route: Seq<EdgeTraversal>, via: VertexId, fr: Seq<EdgeTraversal>, rb: Seq<EdgeTraversal>) -> bool {
    &&& route_ok(source, via, ft, fr)
    &&& route_ok(target, via, rt, rb)
    &&& route.len() == fr.len() + rb.len()
    &&& route.subrange(0, fr.len() as int) == fr
    &&& reoriented(si, last_id(fr), last_state(si, fr), rev_ids(rb), route.subrange(fr.len() as int, route.len() as int))
}
pub open spec fn alt_ok(si: &SearchInstance, source: VertexId, target: VertexId, ft: Map<VertexId, SearchTreeBranch>, rt: Map<VertexId, SearchTreeBranch>, route: Seq<EdgeTraversal>) -> bool {
    &&& !has_loop(&si.directed_graph, route)
    &&& exists|via: VertexId, fr: Seq<EdgeTraversal>, rb: Seq<EdgeTraversal>| #[trigger] via_route(si, source, target, ft, rt, route, via, fr, rb)
}
/// what the driver holds and returns: the tree's own route first, then accepted alternatives; pairwise neither identical nor too similar
pub open spec fn solution_ok(si: &SearchInstance, f: &RouteSimilarityFunction, source: VertexId, target: VertexId, ft: Map<VertexId, SearchTreeBranch>, rt: Map<VertexId, SearchTreeBranch>,
                             s: Seq<Vec<EdgeTraversal>>) -> bool {
    &&& forall|j: int| 1 <= j < s.len() ==> alt_ok(si, source, target, ft, rt, (#[trigger] s[j])@)
    &&& forall|i: int, j: int| 0 <= i < j < s.len() ==> !same_ids((#[trigger] s[j])@, (#[trigger] s[i])@) && !sim(f, s[j]@, s[i]@)
}
"""

LEMMAS = """
pub proof fn lemma_same_ids_reflexive(a: Seq<EdgeTraversal>) ensures same_ids(a, a) {}

pub open spec fn e_src(g: &Graph, et: EdgeTraversal) -> VertexId { edge_of(g, et.edge_id).src_vertex_id }
pub open spec fn e_dst(g: &Graph, et: EdgeTraversal) -> VertexId { edge_of(g, et.edge_id).dst_vertex_id }
/// forward half: edge i runs from chain vertex i to chain vertex i+1
pub proof fn lemma_fwd_half(g: &Graph, fm: &FrontierModel, source: VertexId, via: VertexId, ft: Map<VertexId, SearchTreeBranch>, fr: Seq<EdgeTraversal>, fvs: Seq<VertexId>)
    requires tree_wf(g, fm, Direction::Forward, ft), route_chain(source, via, ft, fr, fvs)
    ensures forall|i: int| 0 <= i < fr.len() ==> has_edge(g, (#[trigger] fr[i]).edge_id) && e_src(g, fr[i]) == fvs[i] && e_dst(g, fr[i]) == fvs[i + 1]
{
    assert forall|i: int| 0 <= i < fr.len() implies has_edge(g, (#[trigger] fr[i]).edge_id) && e_src(g, fr[i]) == fvs[i] && e_dst(g, fr[i]) == fvs[i + 1] by {
        assert(ft.contains_key(fvs[i + 1]));
    }
}
/// reverse half, re-traversed: edge k of the tail is the reverse route's edge m-1-k; it runs from chain vertex m-k to chain vertex m-1-k
pub proof fn lemma_rev_half(g: &Graph, fm: &FrontierModel, target: VertexId, via: VertexId, rt: Map<VertexId, SearchTreeBranch>, rb: Seq<EdgeTraversal>, rvs: Seq<VertexId>, tail: Seq<EdgeTraversal>)
    requires tree_wf(g, fm, Direction::Reverse, rt), route_chain(target, via, rt, rb, rvs), tail.len() == rb.len(),
             forall|k: int| 0 <= k < tail.len() ==> (#[trigger] tail[k]).edge_id == rb[rb.len() - 1 - k].edge_id
    ensures forall|k: int| 0 <= k < tail.len() ==> has_edge(g, (#[trigger] tail[k]).edge_id) && e_src(g, tail[k]) == rvs[rb.len() - k] && e_dst(g, tail[k]) == rvs[rb.len() - 1 - k]
{
    let m = rb.len() as int;
    assert forall|k: int| 0 <= k < tail.len() implies has_edge(g, (#[trigger] tail[k]).edge_id) && e_src(g, tail[k]) == rvs[m - k] && e_dst(g, tail[k]) == rvs[m - 1 - k] by {
        let j = m - 1 - k;
        assert(rt.contains_key(rvs[j + 1]));
        assert(tail[k].edge_id == rb[j].edge_id);
    }
}
/// C13 / C01: with well-formed trees (TW of unit al_astar: forward tree in Forward direction, reverse tree in Reverse direction) every accepted
/// alternative is a contiguous walk: its first edge leaves the source, consecutive edges share a vertex, its last edge enters the target
pub proof fn lemma_via_route_is_walk(si: &SearchInstance, source: VertexId, target: VertexId, ft: Map<VertexId, SearchTreeBranch>, rt: Map<VertexId, SearchTreeBranch>,
                                     route: Seq<EdgeTraversal>, via: VertexId, fr: Seq<EdgeTraversal>, rb: Seq<EdgeTraversal>)
    requires tree_wf(&si.directed_graph, &si.frontier_model, Direction::Forward, ft), tree_wf(&si.directed_graph, &si.frontier_model, Direction::Reverse, rt),
             via_route(si, source, target, ft, rt, route, via, fr, rb)
    ensures
        forall|i: int| 0 <= i < route.len() ==> has_edge(&si.directed_graph, (#[trigger] route[i]).edge_id),
        route.len() > 0 ==> e_src(&si.directed_graph, route[0]) == source && e_dst(&si.directed_graph, route.last()) == target,
        // (the trigger is the whole e_dst term: with `route[i]` alone the successor term route[i + 1] would be a matching loop)
        forall|i: int| 0 <= i < route.len() - 1 ==> #[trigger] e_dst(&si.directed_graph, route[i]) == e_src(&si.directed_graph, route[i + 1]),
        route.len() == 0 ==> source == target,
{
    let g = &si.directed_graph;
    let fvs = choose|vs: Seq<VertexId>| #[trigger] route_chain(source, via, ft, fr, vs);
    let rvs = choose|vs: Seq<VertexId>| #[trigger] route_chain(target, via, rt, rb, vs);
    let n = fr.len() as int; let m = rb.len() as int;
    let tail = route.subrange(n, route.len() as int);
    assert forall|k: int| 0 <= k < tail.len() implies (#[trigger] tail[k]).edge_id == rb[rb.len() - 1 - k].edge_id by {
        assert(step_ok(si, last_id(fr), last_state(si, fr), rev_ids(rb), tail, k));
    }
    lemma_fwd_half(g, &si.frontier_model, source, via, ft, fr, fvs);
    lemma_rev_half(g, &si.frontier_model, target, via, rt, rb, rvs, tail);
    // position i of the route: from p(i) to p(i+1), where p runs source .. via .. target
    let p = |i: int| if i <= n { fvs[i] } else { rvs[m - (i - n)] };
    assert forall|i: int| 0 <= i < route.len() implies has_edge(g, (#[trigger] route[i]).edge_id) && e_src(g, route[i]) == p(i) && e_dst(g, route[i]) == p(i + 1) by {
        if i < n { assert(route.subrange(0, n)[i] == route[i]); assert(fr[i] == route[i]); }
        else { assert(tail[i - n] == route[i]); }
    }
    assert(fvs[0] == source && fvs[n] == via && rvs[0] == target && rvs[m] == via);
    assert(p(0) == source && p(n + m) == target);
    if route.len() > 0 { assert(route.last() == route[route.len() - 1]); }
}
"""


def build(x):
    head = AL.HEAD.replace("impl Clone for StateVar { #[verifier::external_body] fn clone(&self) -> Self { StateVar(self.0) } }\n", "")
    if head == AL.HEAD:
        raise G.Undecided("c13_single_via: AL.HEAD changed (StateVar clone shim)")
    parts = [head]
    edge = x.item_text("routee-compass-core/src/model/network/edge.rs", "struct Edge").replace("    pub distance: Distance,\n", "")
    parts.append("#[derive(Copy, Clone)]\n" + edge + "\n")
    parts.append(x.item_text(A + "search_tree_branch.rs", "struct SearchTreeBranch") + "\n")
    parts.append(x.item_text(A + "search_result.rs", "struct SearchResult") + "\n")
    den, _ = G.strip_inner_attrs(x.item_text(A + "direction.rs", "enum Direction"))
    parts.append("#[derive(Copy, Clone)]\n" + den + "\n")
    sar, _ = G.strip_inner_attrs(x.item_text(A + "search_algorithm_result.rs", "struct SearchAlgorithmResult"))
    parts.append(sar + "\n")
    kq, _ = G.strip_inner_attrs(x.item_text(A + "ksp/ksp_query.rs", "struct KspQuery"))
    kq2 = kq.replace("&'a serde_json::Value", "&'a Value")
    if kq2 == kq:
        raise G.Undecided("KspQuery.user_query is no longer `&'a serde_json::Value`")
    x.note("R-path", "KspQuery: `serde_json::Value` written `Value` (opaque)")
    parts.append(kq2 + "\n")
    parts.append(AL.SHIMS.replace("pub fn initial_state(&self)", "pub fn initial_state_unused(&self)"))
    parts.append(AL.SPECS)
    parts.append(BT.SPEC.split("/// the vertices a route visits")[0].split("#[verifier::external_body]\npub proof fn eid_key_model")[0].replace(
        "impl Clone for EdgeTraversal { #[verifier::external_body] fn clone(&self) -> (r: EdgeTraversal) ensures r == *self { unimplemented!() } }\n", ""))
    parts.append("/// the vertices a route visits" + BT.SPEC.split("/// the vertices a route visits")[1])
    parts.append(SHIMS.replace("pub fn initial_state2(", "pub fn initial_state("))
    parts.append(SPEC)
    parts.append(BT.LEMMAS.split("/// C05 (if)")[0])

    # ---- test_id_similarity ----
    ti = x.fn(A + "ksp/single_via_paths_algorithm.rs", "fn test_id_similarity")
    ti.rewrite(r"for \((\w+), (\w+)\) in (\w+)\.iter\(\)\.zip\((\w+)\) \{",
               r"let mut verif_k: usize = 0;\n    while verif_k < \3.len() && verif_k < \4.len() { let (\1, \2) = (&\3[verif_k], &\4[verif_k]); verif_k = verif_k + 1;", 1, 1, rule="R9-zip")
    x.note("R9-zip", "test_id_similarity: `for (x, y) in a.iter().zip(b) {` written as an index loop up to the shorter length")
    ti.rewrite(r"\A(\s*)fn ", r"\1pub fn ", 0, 1, rule="R2")
    ti.name_return("r")
    ti.add_spec("    ensures r == same_ids(a@, b@),")
    ti.add_loop_spec(1, """        invariant a@.len() == b@.len(), 0 <= verif_k <= a@.len(), forall|i: int| 0 <= i < verif_k ==> (#[trigger] a@[i]).edge_id == b@[i].edge_id,
        decreases a@.len() - verif_k,""")
    parts.append(ti.text + "\n")

    # ---- bidirectional_ops ----
    rl = x.fn(A + "a_star/bidirectional_ops.rs", "fn route_contains_loop")
    pat = r"let (\w+) = (\w+)\s*\.iter\(\)\s*\.map\(\|(\w+)\| (.*?)\)\s*\.collect::<Result<Vec<_>, _>>\(\)\?;"
    mloc = re.search(pat, rl.text, re.S)
    vloc = mloc.group(1) if mloc else "src_vertices"   # the invariant talks about the collected vector under whatever name the code gives it
    rl.rewrite(pat, r"let mut \1: Vec<VertexId> = Vec::new();\n    let mut verif_k: usize = 0;\n    while verif_k < \2.len() { let \3 = &\2[verif_k]; verif_k = verif_k + 1; let verif_x = \4?; \1.push(verif_x); }", 1, 1, rule="R-trycollect", flags=re.S)
    x.note("R-trycollect", "route_contains_loop: `route.iter().map(|e| F).collect::<Result<Vec<_>, _>>()?` written as a loop pushing `F?` (F verbatim)")
    rl.rewrite(r"(\w+)\.iter\(\)\.unique\(\)\.collect_vec\(\)\.len\(\)", r"verif_unique_count(&\1)", 1, 1, rule="R-collect")
    rl.rewrite(r"Ok\((verif_unique_count\(&\w+\) < \w+\.len\(\))\)", r"let verif_b = \1; Ok(verif_b)", 0, 1, rule="R-bind")
    rl.name_return("r")
    rl.add_spec("    ensures r matches Ok(b) ==> b == has_loop(&si.directed_graph, route@),")
    rl.add_loop_spec(1, """        invariant 0 <= verif_k <= route@.len(), src_vertices@.len() == verif_k,
            forall|i: int| 0 <= i < verif_k ==> #[trigger] src_vertices@[i] == edge_of(&si.directed_graph, route@[i].edge_id).src_vertex_id,
        decreases route@.len() - verif_k,""".replace("src_vertices", vloc))
    rl.insert_before(r"let verif_b = ", """    proof {
        let g = &si.directed_graph; let sv = src_vertices@;
        assert(sv =~= srcs(g, route@));
        sv.lemma_cardinality_of_set();
        if sv.to_set().len() == sv.len() {
            sv.lemma_no_dup_set_cardinality();
            if has_loop(g, route@) { let (i, j) = choose|i: int, j: int| 0 <= i < j < route@.len() && edge_of(g, (#[trigger] route@[i]).edge_id).src_vertex_id == edge_of(g, (#[trigger] route@[j]).edge_id).src_vertex_id; assert(sv[i] == sv[j]); }
        } else {
            if sv.no_duplicates() { sv.unique_seq_to_set(); }
            let (i, j) = choose|i: int, j: int| 0 <= i < sv.len() && 0 <= j < sv.len() && i != j && sv[i] == sv[j];
            if i < j { assert(route@[i].edge_id == route@[i].edge_id && route@[j].edge_id == route@[j].edge_id); } else { assert(route@[j].edge_id == route@[j].edge_id && route@[i].edge_id == route@[i].edge_id); }
        }
    }""".replace("src_vertices@", vloc + "@"))
    rr = x.fn(A + "a_star/bidirectional_ops.rs", "fn reorient_reverse_route")
    rr.rewrite(r'String::from\("[^"]*"\)', "verif_format()", 1, 1, rule="R-format")
    rr.rewrite(r"let mut edge_ids = rev_route\s*\.iter\(\)\s*\.rev\(\)\s*\.map\(\|e\| Some\(e\.edge_id\)\)\s*\.collect_vec\(\);", "let mut edge_ids = verif_rev_ids(rev_route);", 1, 1, rule="R-collect")
    rr.rewrite(r"for \((\w+), (\w+)\) in (\w+)\.iter\(\)\.tuple_windows\(\) \{",
               r"let mut verif_w: usize = 0;\n    while verif_w + 1 < \3.len() { let (\1, \2) = (&\3[verif_w], &\3[verif_w + 1]); verif_w = verif_w + 1;", 1, 1, rule="R9-windows")
    x.note("R9-windows", "reorient_reverse_route: `for (p, n) in edge_ids.iter().tuple_windows() {` written as an index loop over adjacent pairs")
    rr.name_return("r")
    rr.add_spec("""    ensures r matches Ok(res) ==> reoriented(si, last_id(fwd_route@), last_state(si, fwd_route@), rev_ids(rev_route@), res@),""")
    rr.insert_after(r"edge_ids\.insert\(0, final_fwd_edge_id\);", """    let ghost st0 = acc_state@;
    proof { if fwd_route@.len() > 0 { assert(fwd_route@.last() == fwd_route@[fwd_route@.len() - 1]); } assert(st0 =~= last_state(si, fwd_route@)); }""")
    rr.add_loop_spec(1, """        invariant
            edge_ids@.len() == rev_route@.len() + 1, 0 <= verif_w < edge_ids@.len(), result@.len() == verif_w,
            edge_ids@[0] == last_id(fwd_route@), st0 == last_state(si, fwd_route@),
            forall|i: int| 0 <= i < rev_route@.len() ==> #[trigger] edge_ids@[i + 1] == Some(rev_ids(rev_route@)[i]),
            acc_state@ == (if verif_w == 0 { st0 } else { result@[verif_w - 1].result_state@ }),
            forall|i: int| 0 <= i < verif_w ==> #[trigger] step_ok(si, last_id(fwd_route@), st0, rev_ids(rev_route@), result@, i),
        decreases edge_ids@.len() - verif_w,""")
    rr.loop_body_start(1, "        let ghost w0 = verif_w as int; let ghost res0 = result@;")
    rr.insert_after(r"result\.push\(et\);", """        proof {
            assert(edge_ids@[w0 + 1] == Some(rev_ids(rev_route@)[w0]));
            if w0 > 0 { assert(edge_ids@[(w0 - 1) + 1] == Some(rev_ids(rev_route@)[w0 - 1])); }
            assert forall|i: int| 0 <= i < w0 + 1 implies #[trigger] step_ok(si, last_id(fwd_route@), st0, rev_ids(rev_route@), result@, i) by {
                if i < w0 { assert(step_ok(si, last_id(fwd_route@), st0, rev_ids(rev_route@), res0, i)); assert(result@[i] == res0[i]); if i > 0 { assert(result@[i - 1] == res0[i - 1]); } }
                else { if w0 > 0 { assert(result@[w0 - 1] == res0[w0 - 1]); } }
            }
        }""")
    parts.append("pub mod bidirectional_ops { use super::*;\n" + rr.text + "\n" + rl.text + "\n}\n")

    # ---- the driver ----
    f = x.fn(A + "ksp/single_via_paths_algorithm.rs", "fn run")
    f.strip_macro_stmts(r"log::\w+")
    f.replace_macro_calls(r"format", "verif_format()")
    f.rewrite(r'String::from\("[^"]*"\)', "verif_format()", 2, 2, rule="R-format")
    f.rewrite(r"let rev_vertices = rev_trees\.iter\(\)\.flatten\(\)\.collect::<HashMap<_, _>>\(\);", "let rev_vertices = verif_flatten_trees(&rev_trees);", 1, 1, rule="R-collect")
    f.rewrite(r"for \(vertex_id, fwd_branch\) in fwd_tree \{",
              "let verif_es = verif_entries(fwd_tree);\n    let mut verif_e: usize = 0;\n    while verif_e < verif_es.len() { let (vertex_id, fwd_branch) = verif_es[verif_e]; verif_e = verif_e + 1;", 1, 1, rule="R9-map")
    x.note("R9-map", "run: `for (vertex_id, fwd_branch) in fwd_tree {` (HashMap iteration) written as an index loop over verif_entries(fwd_tree) (assumed: the map's entries)")
    f.rewrite(r"intersection_queue\.push\(\*vertex_id, total_cost\.into\(\)\);", "intersection_queue.push(*vertex_id, ReverseCost::from(total_cost));", 1, 1, rule="R-into")
    f.rewrite(r"let this_route = fwd_route\.into_iter\(\)\.chain\(rev_route\)\.collect::<Vec<_>>\(\);", "let this_route = verif_chain(fwd_route, rev_route);", 1, 1, rule="R-collect")
    f.rewrite(r"&(\w+)\.iter\(\)\.collect_vec\(\),", r"&verif_refs(&\1),", 2, 2, rule="R-collect")
    f.rewrite(r"solution\.into_iter\(\)\.take\(([^()]*)\)\.collect_vec\(\)", r"verif_take(solution, \1)", 0, 1, rule="R-collect")
    f.rewrite(r"ksp_it \+= 1;", "ksp_it = ksp_it + 1;", 1, 1, rule="R-compound")
    # loops: 1 = candidate via vertices, 2 = main loop, 3 = similarity tests against the accepted routes
    ls = f.loops()
    if len(ls) != 3:
        raise G.Undecided("single_via run: expected 3 loops (via candidates, main, similarity), found %d" % len(ls))
    f.index_for(3, idx="verif_s")
    f.name_return("r")
    f.add_spec("""    ensures r matches Ok(res) ==> ({
        let src = query.source; let dst = query.target;
        &&& res.trees@.len() == 2
        // both trees are well formed in their own direction (handed through from the underlying search)
        &&& tree_wf(&si.directed_graph, &si.frontier_model, Direction::Forward, res.trees@[0]@)
        &&& tree_wf(&si.directed_graph, &si.frontier_model, Direction::Reverse, res.trees@[1]@)
        // C13: at most k routes; with k >= 1 at least one, and the first is the forward tree's own route to the target
        &&& res.routes@.len() <= query.k
        &&& (query.k >= 1 ==> res.routes@.len() >= 1 && route_ok(src, dst, res.trees@[0]@, res.routes@[0]@))
        // every alternative is loop-free and is a forward-tree route to a via vertex followed by the re-traversed reverse-tree route;
        // no two routes have the same edge sequence; no two are too similar under the configured function
        &&& solution_ok(si, similarity, src, dst, res.trees@[0]@, res.trees@[1]@, res.routes@)
    }),""")
    f.add_loop_spec(1, "        invariant 0 <= verif_e <= verif_es@.len(),\n        decreases verif_es@.len() - verif_e,")
    f.insert_before(r"let mut ksp_it: u64 = 0;", """    let ghost tsp0 = solution@[0]@;
    let ghost n0 = intersection_queue@.dom().len();
    let ghost mut solf = solution@;
    proof { assert(solution@.len() == 1); queue_len_bound(&intersection_queue); }""")
    f.add_loop_spec(2, """        invariant
            solution@.len() >= 1, solution@[0]@ == tsp0, solf == solution@, route_ok(query.source, query.target, fwd_tree@, tsp0),
            solution_ok(si, similarity, query.source, query.target, fwd_tree@, rev_tree@, solution@),
            ksp_it + intersection_queue@.dom().len() <= n0, n0 <= usize::MAX,
        decreases intersection_queue@.dom().len(),""")
    f.loop_body_start(2, "        let ghost sol0 = solution@; let ghost q0 = intersection_queue@;")
    f.insert_before(r"let mut accept_route = true;", "                proof { assert(q0.dom().contains(intersection_vertex_id)); assert(intersection_queue@.dom() =~= q0.dom().remove(intersection_vertex_id)); }")
    f.insert_after(r"let this_route = verif_chain\(fwd_route, rev_route\);", """                proof {
                    let n = fr0.len() as int;
                    assert(this_route@.subrange(0, n) =~= fr0);
                    assert(this_route@.subrange(n, this_route@.len() as int) =~= rr0);
                    assert(via_route(si, query.source, query.target, fwd_tree@, rev_tree@, this_route@, intersection_vertex_id, fr0, rb0));
                }""")
    f.insert_before(r"let this_route = verif_chain\(fwd_route, rev_route\);", "                let ghost fr0 = fwd_route@; let ghost rb0 = rev_route_backward@; let ghost rr0 = rev_route@;")
    f.add_loop_spec(3, """                    invariant_except_break
                        accept_route ==> forall|i: int| 0 <= i < verif_s ==> !same_ids(this_route@, (#[trigger] solution@[i])@) && !sim(similarity, this_route@, solution@[i]@),
                    invariant 0 <= verif_s <= solution@.len(), solution@ == sol0, accept_route ==> !has_loop(&si.directed_graph, this_route@),
                    ensures accept_route ==> forall|i: int| 0 <= i < solution@.len() ==> !same_ids(this_route@, (#[trigger] solution@[i])@) && !sim(similarity, this_route@, solution@[i]@),
                    decreases solution@.len() - verif_s,""")
    f.insert_after(r"solution\.push\(this_route\);", """                    proof {
                        solf = solution@;
                        let s1 = solution@; let n = sol0.len() as int;
                        assert(forall|i: int| 0 <= i < n ==> #[trigger] s1[i] == sol0[i]);
                        assert(alt_ok(si, query.source, query.target, fwd_tree@, rev_tree@, s1[n]@));
                    }""")
    f.insert_before(r"let result = SearchAlgorithmResult \{", "    proof { assume(fwd_iterations + rev_iterations + ksp_it <= u64::MAX); }")
    x.note("assume", "run: the sum of the three iteration counters is assumed to fit in u64 (machine arithmetic treated as mathematical for a statistics field)")
    f.insert_before(r"Ok\(result\)\s*\}\s*\Z", """    proof {
        assert(result.trees@[0]@ == fwd_tree@);
        assert(result.trees@[1]@ == rev_tree@);
        assert(forall|j: int| 0 <= j < result.routes@.len() && j < solf.len() ==> #[trigger] result.routes@[j] == solf[j]);
        assert(query.k >= 1 ==> route_ok(query.source, query.target, fwd_tree@, result.routes@[0]@));
        assert(solution_ok(si, similarity, query.source, query.target, fwd_tree@, rev_tree@, solf));
        assert(solution_ok(si, similarity, query.source, query.target, fwd_tree@, rev_tree@, result.routes@));
    }""")
    parts.append(f.text + "\n")
    parts.append(LEMMAS)
    parts.append("""
// vacuity guard: MUST FAIL
pub fn vacuity_probe(a: &[EdgeTraversal], b: &[EdgeTraversal]) -> (r: bool) ensures false { test_id_similarity(a, b) }
} // verus!
fn main() {}
impl std::fmt::Display for VertexId { fn fmt(&self, f: &mut std::fmt::Formatter<'_>) -> std::fmt::Result { write!(f, "{}", self.0) } }
""")
    return "\n".join(parts)
