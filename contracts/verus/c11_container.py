"""C11.1 -- CompactOrderedHashMap: every key owns exactly one slot, at any size [V, unbounded].

Extracted verbatim: struct IndexedEntry (+ new), enum CompactOrderedHashMap, and the methods
empty, len, is_empty, contains_key, get, get_index, insert.  Rule R6: the impl header
`impl<K: Hash + Ord + PartialEq + Clone, V: Clone> CompactOrderedHashMap<K, V>` is written
`impl CompactOrderedHashMap<K, V>` with `type K = u64; type V = u64;` (the method bodies, which
mention K and V, stay verbatim) -- so the Eq / Hash / Clone laws of the key and value types are
those of u64 (assumption; the real instantiations are String / EdgeId keys).
Abstraction: index_of : Map<K, nat>, value_of : Map<K, V>;  wf = indices are < len and pairwise
distinct (hence, the domain being finite, exactly 0..len-1).
"""
import prelude as P
import genlib as G

F = "routee-compass-core/src/util/compact_ordered_hash_map.rs"
IMPL = "impl<K: Hash + Ord + PartialEq + Clone, V: Clone> CompactOrderedHashMap<K, V>"
OBLIGATIONS = ["empty", "len", "is_empty", "contains_key", "get", "get_index", "insert", "insert_sequence_slots"]
MUST_FAIL = ["vacuity_probe"]

HEAD = """
use std::collections::HashMap;
use std::hash::Hash;
use vstd::std_specs::cmp::*;
verus! {
pub type K = u64;
pub type V = u64;

// assumed contract of a std function vstd does not specify: HashMap::from([(k, v); N]) inserts the pairs in order
pub open spec fn arr_map<KK, VV>(s: Seq<(KK, VV)>) -> Map<KK, VV>
    decreases s.len()
{
    if s.len() == 0 { Map::empty() } else { arr_map(s.drop_last()).insert(s.last().0, s.last().1) }
}
pub assume_specification<KK: Eq + Hash, VV, const N: usize>[ <HashMap<KK, VV> as From<[(KK, VV); N]>>::from ](arr: [(KK, VV); N]) -> (r: HashMap<KK, VV>)
    ensures vstd::std_specs::hash::obeys_key_model::<KK>() ==> r@ == arr_map(arr@);
"""

SPEC = """
impl CompactOrderedHashMap<K, V> {
    /// slot of each key
    pub open spec fn index_of(self) -> Map<K, nat> {
        match self {
            CompactOrderedHashMap::OneEntry { k1, v1 } => Map::empty().insert(k1, 0nat),
            CompactOrderedHashMap::TwoEntries { k1, k2, v1, v2 } => Map::empty().insert(k1, 0nat).insert(k2, 1nat),
            CompactOrderedHashMap::ThreeEntries { k1, k2, k3, v1, v2, v3 } => Map::empty().insert(k1, 0nat).insert(k2, 1nat).insert(k3, 2nat),
            CompactOrderedHashMap::FourEntries { k1, k2, k3, k4, v1, v2, v3, v4 } =>
                Map::empty().insert(k1, 0nat).insert(k2, 1nat).insert(k3, 2nat).insert(k4, 3nat),
            CompactOrderedHashMap::NEntries(m) => m@.map_values(|e: IndexedEntry<V>| e.index as nat),
        }
    }
    /// value of each key
    pub open spec fn value_of(self) -> Map<K, V> {
        match self {
            CompactOrderedHashMap::OneEntry { k1, v1 } => Map::empty().insert(k1, v1),
            CompactOrderedHashMap::TwoEntries { k1, k2, v1, v2 } => Map::empty().insert(k1, v1).insert(k2, v2),
            CompactOrderedHashMap::ThreeEntries { k1, k2, k3, v1, v2, v3 } => Map::empty().insert(k1, v1).insert(k2, v2).insert(k3, v3),
            CompactOrderedHashMap::FourEntries { k1, k2, k3, k4, v1, v2, v3, v4 } =>
                Map::empty().insert(k1, v1).insert(k2, v2).insert(k3, v3).insert(k4, v4),
            CompactOrderedHashMap::NEntries(m) => m@.map_values(|e: IndexedEntry<V>| e.v),
        }
    }
    pub open spec fn size(self) -> nat {
        match self {
            CompactOrderedHashMap::OneEntry { .. } => 1,
            CompactOrderedHashMap::TwoEntries { .. } => 2,
            CompactOrderedHashMap::ThreeEntries { .. } => 3,
            CompactOrderedHashMap::FourEntries { .. } => 4,
            CompactOrderedHashMap::NEntries(m) => m@.len(),
        }
    }
    /// representation invariant: keys distinct, every key's slot is < size, slots pairwise distinct
    pub open spec fn wf(self) -> bool {
        &&& match self {
            CompactOrderedHashMap::OneEntry { .. } => true,
            CompactOrderedHashMap::TwoEntries { k1, k2, .. } => k1 != k2,
            CompactOrderedHashMap::ThreeEntries { k1, k2, k3, .. } => k1 != k2 && k1 != k3 && k2 != k3,
            CompactOrderedHashMap::FourEntries { k1, k2, k3, k4, .. } => k1 != k2 && k1 != k3 && k1 != k4 && k2 != k3 && k2 != k4 && k3 != k4,
            CompactOrderedHashMap::NEntries(m) => true,
        }
        &&& self.index_of().dom() == self.value_of().dom()
        &&& forall|k: K| #[trigger] self.index_of().contains_key(k) ==> self.index_of()[k] < self.size()
        &&& forall|a: K, b: K| self.index_of().contains_key(a) && self.index_of().contains_key(b) && a != b
                ==> #[trigger] self.index_of()[a] != #[trigger] self.index_of()[b]
    }
}
"""

LEMMAS = """
/// C11 for an arbitrary operation history: wf is an invariant of insert (contract above) and holds of empty(),
/// so after ANY sequence of inserts every key owns one slot < len and no two keys share a slot; an existing
/// key keeps its slot, a new key gets slot `len`.
pub proof fn insert_sequence_slots(before: CompactOrderedHashMap<K, V>, after: CompactOrderedHashMap<K, V>, k: K, v: V)
    requires before.wf(),
             after.wf(),
             after.value_of() == before.value_of().insert(k, v),
             after.index_of() == (if before.index_of().contains_key(k) { before.index_of() } else { before.index_of().insert(k, before.size()) }),
             after.size() == (if before.index_of().contains_key(k) { before.size() } else { before.size() + 1 }),
    ensures
        // frame: every other key keeps slot and value
        forall|o: K| o != k && #[trigger] before.index_of().contains_key(o) ==> after.index_of()[o] == before.index_of()[o] && after.value_of()[o] == before.value_of()[o],
        after.value_of()[k] == v,
        after.index_of().contains_key(k),
        !before.index_of().contains_key(k) ==> after.index_of()[k] == before.size(),
{}
"""


def build(x):
    parts = []
    ie = x.item_text(F, "struct IndexedEntry")
    ie = ie.replace("    v: V,", "    pub v: V,").replace("    index: usize,", "    pub index: usize,")
    x.note("R2", "struct IndexedEntry: fields made pub")
    parts.append(ie + "\n")
    ienew = x.fn(F, "impl<V> IndexedEntry<V> :: fn new", under_contract=False)
    ienew.name_return("r")
    ienew.add_spec("        ensures r.v == v, r.index == index,")
    parts.append("impl<V> IndexedEntry<V> {\n" + ienew.text + "\n}\n")
    en = x.item_text(F, "enum CompactOrderedHashMap")
    en, n = G.strip_inner_attrs(en)
    parts.append(en + "\n")
    parts.append(SPEC)
    fns = []

    def fn(name, spec, body=None):
        f = x.fn(F, IMPL + " :: fn " + name)
        f.name_return("r")
        f.add_spec(spec)
        if body:
            f.body_start(body)
        fns.append(f)
        return f

    fn("empty", "        ensures r.wf(), r.size() == 0, r.index_of() == Map::<K, nat>::empty(), r.value_of() == Map::<K, V>::empty(),",
       "        assert(Map::<K, IndexedEntry<V>>::empty().map_values(|e: IndexedEntry<V>| e.index as nat) =~= Map::<K, nat>::empty());\n"
       "        assert(Map::<K, IndexedEntry<V>>::empty().map_values(|e: IndexedEntry<V>| e.v) =~= Map::<K, V>::empty());")
    fn("len", "        ensures r == self.size(),")
    fn("is_empty", "        ensures r == (self.size() == 0),")
    fn("get", """        requires self.wf(),
        ensures r is Some <==> self.value_of().contains_key(*k),
                r is Some ==> *r->Some_0 == self.value_of()[*k],""")
    fn("contains_key", "        requires self.wf(),\n        ensures r == self.value_of().contains_key(*k),")
    fn("get_index", """        requires self.wf(),
        ensures r is Some <==> self.index_of().contains_key(*k),
                r is Some ==> r->Some_0 == self.index_of()[*k],""")
    ins = fn("insert", """        requires old(self).wf(), old(self).size() < usize::MAX - 1,
        ensures
            final(self).wf(),
            // whole-view postcondition: nothing but the inserted key changes
            final(self).value_of() =~= old(self).value_of().insert(k, v),
            final(self).index_of() =~= (if old(self).index_of().contains_key(k) { old(self).index_of() }
                                        else { old(self).index_of().insert(k, old(self).size()) }),
            final(self).size() == (if old(self).index_of().contains_key(k) { old(self).size() } else { old(self).size() + 1 }),
            r is Some <==> old(self).value_of().contains_key(k),
            r is Some ==> r->Some_0 == old(self).value_of()[k],""")
    # R-closure: a closure literal `|p| EXPR` gets the postcondition `result == EXPR` (its own body) so that Option::map can be reasoned about
    for f in fns:
        if f.f.it.name == "get":
            f.rewrite(r"map\.get\(k\)\.map\(\|e\| &e\.v\)", "map.get(k).map(|e: &IndexedEntry<V>| -> (cr: &V) ensures cr == &e.v { &e.v })", 1, 1, rule="R-closure")
        if f.f.it.name == "get_index":
            f.rewrite(r"indexed\.get\(k\)\.map\(\|f\| f\.index\)", "indexed.get(k).map(|f: &IndexedEntry<V>| -> (cr: usize) ensures cr == f.index { f.index })", 1, 1, rule="R-closure")
    ins.rewrite(r"map\.get\(&k\)\.map\(\|e\| e\.index\)", "map.get(&k).map(|e: &IndexedEntry<V>| -> (cr: usize) ensures cr == e.index { e.index })", 1, 1, rule="R-closure")
    ins.rewrite(r"result\.map\(\|r\| r\.v\)", "result.map(|r: IndexedEntry<V>| -> (cr: V) ensures cr == r.v { r.v })", 1, 1, rule="R-closure")
    # R-refeq: `kN == &k` compares `&mut K` with `&K`; core's impl forwards to `K == K`; vstd has no spec for that impl
    ins.rewrite(r"\b(k[1-4]) == &k\b", r"*\1 == k", 10, 10, rule="R-refeq")
    x.note("R-closure", "closure literals in get/get_index/insert annotated with `ensures result == <their own body expression>`")
    x.note("R-refeq", "insert: `kN == &k` (PartialEq<&K> for &mut K, which forwards to K == K) written `*kN == k`")
    # proof hints (add-only)
    ins.insert_after(r"let mut one = CompactOrderedHashMap::OneEntry \{ k1: k, v1: v \};\s*std::mem::swap\(self, &mut one\);",
                     "                proof { assert(old(self).size() == 0); assert(old(self).value_of() =~= Map::<K, V>::empty()); assert(old(self).index_of() =~= Map::<K, nat>::empty()); }")
    ins.insert_before(r"std::mem::swap\(self, &mut CompactOrderedHashMap::NEntries\(five\)\);", """                    proof {
                        reveal_with_fuel(arr_map, 6);
                        let m0 = Map::<K, IndexedEntry<V>>::empty().insert(*k1, IndexedEntry { v: *v1, index: 0 }).insert(*k2, IndexedEntry { v: *v2, index: 1 })
                            .insert(*k3, IndexedEntry { v: *v3, index: 2 }).insert(*k4, IndexedEntry { v: *v4, index: 3 }).insert(k, IndexedEntry { v: v, index: 4 });
                        assert(five@ =~= m0);
                        assert(five@.dom() =~= set![*k1, *k2, *k3, *k4, k]);
                        assert(five@.len() == 5);
                        let n = CompactOrderedHashMap::NEntries(five);
                        assert(n.value_of() =~= old(self).value_of().insert(k, v));
                        assert(n.index_of() =~= old(self).index_of().insert(k, 4nat));
                    }""")
    ins.insert_before(r"let result = map\.insert\(k, IndexedEntry::new\(v, index\)\);", "                let ghost m_old = map@;")
    ins.insert_after(r"let result = map\.insert\(k, IndexedEntry::new\(v, index\)\);", """                proof {
                    let n = CompactOrderedHashMap::NEntries(*map);
                    assert(map@ =~= m_old.insert(k, IndexedEntry { v: v, index: index }));
                    assert(n.value_of() =~= old(self).value_of().insert(k, v));
                    if m_old.contains_key(k) {
                        assert(map@.dom() =~= m_old.dom());
                    }
                }""")
    body = ("impl CompactOrderedHashMap<K, V> {\n" + "\n\n".join(f.text for f in fns) + "\n}\n")
    x.note("R6", "impl header `%s` instantiated at `type K = u64; type V = u64;` (bodies verbatim)" % IMPL)
    parts.append(body)
    parts.append(LEMMAS)
    parts.append("""
// vacuity guard: MUST FAIL
pub fn vacuity_probe(m: &mut CompactOrderedHashMap<K, V>, k: K, v: V) -> (r: Option<V>)
    requires old(m).wf(), old(m).size() < 100
    ensures false
{ m.insert(k, v) }
""")
    return ("#![allow(unused_imports, unused_variables, dead_code, unused_mut, unused_parens)]\nuse vstd::prelude::*;\n"
            + HEAD + "\n".join(parts) + "\n} // verus!\nfn main() {}\n")
