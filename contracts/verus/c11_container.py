"""C11.1 -- CompactOrderedHashMap: every key owns exactly one slot, at any size [V, unbounded].

Extracted verbatim: struct IndexedEntry (+ new), enum CompactOrderedHashMap, and the methods
empty, len, is_empty, contains_key, get, get_index, insert.  Rule R6: the impl header
`impl<K: Hash + Ord + PartialEq + Clone, V: Clone> CompactOrderedHashMap<K, V>` is written
`impl CompactOrderedHashMap<K, V>` with `type K = u64; type V = u64;` (the method bodies, which
mention K and V, stay verbatim) -- so the Eq / Hash / Clone laws of the key and value types are
those of u64 (assumption; the real instantiations are String / EdgeId keys).
Abstraction: index_of : Map<K, nat>, value_of : Map<K, V>;  wf = indices are < len and pairwise
distinct (hence, the domain being finite, exactly 0..len-1).
"""
import prelude as P
import genlib as G

F = "routee-compass-core/src/util/compact_ordered_hash_map.rs"
IMPL = "impl<K: Hash + Ord + PartialEq + Clone, V: Clone> CompactOrderedHashMap<K, V>"
OBLIGATIONS = ["empty", "len", "is_empty", "contains_key", "get", "get_index", "get_pair", "next", "insert", "insert_sequence_slots", "lemma_every_slot_owned", "lemma_onto", "lemma_inj_len", "keys", "lemma_incr_lb", "lemma_incr_ub", "lemma_incr_is_identity"]
MUST_FAIL = ["vacuity_probe"]

HEAD = """
use std::collections::HashMap;
use std::hash::Hash;
use vstd::std_specs::cmp::*;
verus! {
pub type K = u64;
pub type V = u64;

// assumed contract of a std function vstd does not specify: HashMap::from([(k, v); N]) inserts the pairs in order
pub open spec fn arr_map<KK, VV>(s: Seq<(KK, VV)>) -> Map<KK, VV>
    decreases s.len()
{
    if s.len() == 0 { Map::empty() } else { arr_map(s.drop_last()).insert(s.last().0, s.last().1) }
}
/// rule R-collect: `indexed.iter().find(|(_, f)| f.index == index).map(|(k, entry)| (k, &entry.v))` -- ASSUMED: HashMap::iter visits every entry, `find` returns the
/// first visited entry that satisfies the predicate and None only if none does
#[verifier::external_body]
pub fn verif_find_slot<'a>(indexed: &'a HashMap<K, IndexedEntry<V>>, index: usize) -> (r: Option<(&'a K, &'a V)>)
    ensures r matches Some(p) ==> indexed@.contains_key(*p.0) && indexed@[*p.0].index == index && *p.1 == indexed@[*p.0].v,
            r is None ==> forall|k: K| indexed@.contains_key(k) ==> (#[trigger] indexed@[k]).index != index,
{ indexed.iter().find(|(_, f)| f.index == index).map(|(k, entry)| (k, &entry.v)) }
pub assume_specification<KK: Eq + Hash, VV, const N: usize>[ <HashMap<KK, VV> as From<[(KK, VV); N]>>::from ](arr: [(KK, VV); N]) -> (r: HashMap<KK, VV>)
    ensures vstd::std_specs::hash::obeys_key_model::<KK>() ==> r@ == arr_map(arr@);
"""

SPEC = """
impl CompactOrderedHashMap<K, V> {
    /// slot of each key
    pub open spec fn index_of(self) -> Map<K, nat> {
        match self {
            CompactOrderedHashMap::OneEntry { k1, v1 } => Map::empty().insert(k1, 0nat),
            CompactOrderedHashMap::TwoEntries { k1, k2, v1, v2 } => Map::empty().insert(k1, 0nat).insert(k2, 1nat),
            CompactOrderedHashMap::ThreeEntries { k1, k2, k3, v1, v2, v3 } => Map::empty().insert(k1, 0nat).insert(k2, 1nat).insert(k3, 2nat),
            CompactOrderedHashMap::FourEntries { k1, k2, k3, k4, v1, v2, v3, v4 } =>
                Map::empty().insert(k1, 0nat).insert(k2, 1nat).insert(k3, 2nat).insert(k4, 3nat),
            CompactOrderedHashMap::NEntries(m) => m@.map_values(|e: IndexedEntry<V>| e.index as nat),
        }
    }
    /// value of each key
    pub open spec fn value_of(self) -> Map<K, V> {
        match self {
            CompactOrderedHashMap::OneEntry { k1, v1 } => Map::empty().insert(k1, v1),
            CompactOrderedHashMap::TwoEntries { k1, k2, v1, v2 } => Map::empty().insert(k1, v1).insert(k2, v2),
            CompactOrderedHashMap::ThreeEntries { k1, k2, k3, v1, v2, v3 } => Map::empty().insert(k1, v1).insert(k2, v2).insert(k3, v3),
            CompactOrderedHashMap::FourEntries { k1, k2, k3, k4, v1, v2, v3, v4 } =>
                Map::empty().insert(k1, v1).insert(k2, v2).insert(k3, v3).insert(k4, v4),
            CompactOrderedHashMap::NEntries(m) => m@.map_values(|e: IndexedEntry<V>| e.v),
        }
    }
    pub open spec fn size(self) -> nat {
        match self {
            CompactOrderedHashMap::OneEntry { .. } => 1,
            CompactOrderedHashMap::TwoEntries { .. } => 2,
            CompactOrderedHashMap::ThreeEntries { .. } => 3,
            CompactOrderedHashMap::FourEntries { .. } => 4,
            CompactOrderedHashMap::NEntries(m) => m@.len(),
        }
    }
    /// some key owns slot i
    pub open spec fn has_slot(self, i: nat) -> bool { exists|k: K| self.index_of().contains_key(k) && #[trigger] self.index_of()[k] == i }
    /// representation invariant: keys distinct, every key's slot is < size, slots pairwise distinct
    pub open spec fn wf(self) -> bool {
        &&& match self {
            CompactOrderedHashMap::OneEntry { .. } => true,
            CompactOrderedHashMap::TwoEntries { k1, k2, .. } => k1 != k2,
            CompactOrderedHashMap::ThreeEntries { k1, k2, k3, .. } => k1 != k2 && k1 != k3 && k2 != k3,
            CompactOrderedHashMap::FourEntries { k1, k2, k3, k4, .. } => k1 != k2 && k1 != k3 && k1 != k4 && k2 != k3 && k2 != k4 && k3 != k4,
            CompactOrderedHashMap::NEntries(m) => true,
        }
        &&& self.index_of().dom() == self.value_of().dom()
        &&& forall|k: K| #[trigger] self.index_of().contains_key(k) ==> self.index_of()[k] < self.size()
        &&& forall|a: K, b: K| self.index_of().contains_key(a) && self.index_of().contains_key(b) && a != b
                ==> #[trigger] self.index_of()[a] != #[trigger] self.index_of()[b]
    }
}
"""

LEMMAS = """
// ---- pigeonhole (pure mathematics, proved): an injective map from a set of n keys into [0, n) hits every slot ----
pub open spec fn below(d: Set<K>, f: Map<K, nat>, m: nat) -> bool { forall|k: K| #[trigger] d.contains(k) ==> f.contains_key(k) && f[k] < m }
pub open spec fn inj(d: Set<K>, f: Map<K, nat>) -> bool { forall|a: K, b: K| #[trigger] d.contains(a) && #[trigger] d.contains(b) && a != b ==> f[a] != f[b] }
pub proof fn lemma_inj_len(d: Set<K>, f: Map<K, nat>, m: nat)
    requires below(d, f, m), inj(d, f)
    ensures d.len() <= m
    decreases m
{
    if m == 0 {
        assert(d =~= Set::<K>::empty()) by { assert forall|k: K| !d.contains(k) by { if d.contains(k) { assert(f[k] < 0); } } }
    } else if exists|k: K| #[trigger] d.contains(k) && f[k] == (m - 1) as nat {
        let k0 = choose|k: K| #[trigger] d.contains(k) && f[k] == (m - 1) as nat;
        let d1 = d.remove(k0);
        assert(below(d1, f, (m - 1) as nat)) by {
            assert forall|k: K| #[trigger] d1.contains(k) implies f.contains_key(k) && f[k] < (m - 1) as nat by { assert(d.contains(k) && k != k0); assert(d.contains(k0)); assert(f[k] != f[k0]); }
        }
        assert(inj(d1, f)) by { assert forall|a: K, b: K| #[trigger] d1.contains(a) && #[trigger] d1.contains(b) && a != b implies f[a] != f[b] by { assert(d.contains(a) && d.contains(b)); } }
        lemma_inj_len(d1, f, (m - 1) as nat);
    } else {
        assert(below(d, f, (m - 1) as nat)) by {
            assert forall|k: K| #[trigger] d.contains(k) implies f.contains_key(k) && f[k] < (m - 1) as nat by { assert(f[k] < m); assert(f[k] != (m - 1) as nat); }
        }
        lemma_inj_len(d, f, (m - 1) as nat);
    }
}
pub proof fn lemma_onto(d: Set<K>, f: Map<K, nat>, n: nat, i: nat)
    requires below(d, f, n), inj(d, f), d.len() == n, i < n
    ensures exists|k: K| #[trigger] d.contains(k) && f[k] == i
{
    if !(exists|k: K| #[trigger] d.contains(k) && f[k] == i) {
        let g = Map::<K, nat>::new(d, |k: K| if f[k] > i { (f[k] - 1) as nat } else { f[k] });
        assert(below(d, g, (n - 1) as nat)) by {
            assert forall|k: K| #[trigger] d.contains(k) implies g.contains_key(k) && g[k] < (n - 1) as nat by { assert(f[k] < n); assert(f[k] != i); }
        }
        assert(inj(d, g)) by {
            assert forall|a: K, b: K| #[trigger] d.contains(a) && #[trigger] d.contains(b) && a != b implies g[a] != g[b] by { assert(f[a] != f[b]); assert(f[a] != i && f[b] != i); }
        }
        lemma_inj_len(d, g, (n - 1) as nat);
    }
}
/// C11: "the slots are 0..n-1 with none shared or skipped": with the representation invariant EVERY slot below len is owned by a key
pub proof fn lemma_every_slot_owned(m: CompactOrderedHashMap<K, V>, i: nat)
    requires m.wf(), i < m.size()
    ensures m.has_slot(i)
{
    let d = m.index_of().dom();
    let f = m.index_of();
    assert(d.len() == m.size()) by {
        match m {
            CompactOrderedHashMap::OneEntry { k1, v1 } => { assert(d =~= set![k1]); }
            CompactOrderedHashMap::TwoEntries { k1, k2, v1, v2 } => { assert(d =~= set![k1, k2]); }
            CompactOrderedHashMap::ThreeEntries { k1, k2, k3, v1, v2, v3 } => { assert(d =~= set![k1, k2, k3]); }
            CompactOrderedHashMap::FourEntries { k1, k2, k3, k4, v1, v2, v3, v4 } => { assert(d =~= set![k1, k2, k3, k4]); }
            CompactOrderedHashMap::NEntries(mm) => { assert(d =~= mm@.dom()); }
        }
    }
    assert(below(d, f, m.size())) by { assert forall|k: K| #[trigger] d.contains(k) implies f.contains_key(k) && f[k] < m.size() by { assert(m.index_of().contains_key(k)); } }
    assert(inj(d, f)) by { assert forall|a: K, b: K| #[trigger] d.contains(a) && #[trigger] d.contains(b) && a != b implies f[a] != f[b] by { assert(m.index_of().contains_key(a) && m.index_of().contains_key(b)); } }
    lemma_onto(d, f, m.size(), i);
    let k = choose|k: K| #[trigger] d.contains(k) && f[k] == i;
    assert(m.index_of().contains_key(k) && m.index_of()[k] == i);
}

/// C11 for an arbitrary operation history: wf is an invariant of insert (contract above) and holds of empty(),
/// so after ANY sequence of inserts every key owns one slot < len and no two keys share a slot; an existing
/// key keeps its slot, a new key gets slot `len`.
pub proof fn insert_sequence_slots(before: CompactOrderedHashMap<K, V>, after: CompactOrderedHashMap<K, V>, k: K, v: V)
    requires before.wf(),
             after.wf(),
             after.value_of() == before.value_of().insert(k, v),
             after.index_of() == (if before.index_of().contains_key(k) { before.index_of() } else { before.index_of().insert(k, before.size()) }),
             after.size() == (if before.index_of().contains_key(k) { before.size() } else { before.size() + 1 }),
    ensures
        // frame: every other key keeps slot and value
        forall|o: K| o != k && #[trigger] before.index_of().contains_key(o) ==> after.index_of()[o] == before.index_of()[o] && after.value_of()[o] == before.value_of()[o],
        after.value_of()[k] == v,
        after.index_of().contains_key(k),
        !before.index_of().contains_key(k) ==> after.index_of()[k] == before.size(),
{}

// ===== keys(): the keys in slot order (what Graph::out_edges / in_edges and every `for k in map.keys()` rely on) =====
// rule R3-dyn: `KeyIterator<K>` = Box<dyn Iterator<Item = &K>> is represented by an opaque iterator with a ghost sequence of the keys it will yield
#[verifier::external_body] pub struct KeyIter<'a> { _p: core::marker::PhantomData<&'a u8> }
impl<'a> KeyIter<'a> {
    pub uninterp spec fn seq(&self) -> Seq<K>;
    // `Box::new([a, b, ..].into_iter())`: yields the elements of the array in order (assumed: array iteration order)
    #[verifier::external_body] pub fn of<const N: usize>(a: [&'a K; N]) -> (r: KeyIter<'a>)
        ensures r.seq().len() == N, forall|i: int| 0 <= i < N ==> #[trigger] r.seq()[i] == *a@[i] { unimplemented!() }
}
// ASSUMED (itertools): `map.iter().sorted_by_key(|(_, v)| v.index).map(|(k, _)| k)` yields every key of the map exactly once, ordered by ascending index
#[verifier::external_body] pub fn verif_keys_sorted_by_index<'a>(map: &'a HashMap<K, IndexedEntry<V>>) -> (r: KeyIter<'a>)
    ensures r.seq().len() == map@.len(), r.seq().no_duplicates(),
            forall|i: int| 0 <= i < r.seq().len() ==> map@.contains_key(#[trigger] r.seq()[i]),
            forall|i: int, j: int| 0 <= i < j < r.seq().len() ==> map@[r.seq()[i]].index <= map@[r.seq()[j]].index,
{ unimplemented!() }
/// a strictly increasing sequence of n naturals below n is 0, 1, .., n-1 (two inductions)
pub proof fn lemma_incr_lb(a: Seq<nat>, i: int)
    requires 0 <= i < a.len(), forall|p: int, q: int| 0 <= p < q < a.len() ==> a[p] < a[q]
    ensures a[i] >= i
    decreases i
{ if i > 0 { lemma_incr_lb(a, i - 1); } }
pub proof fn lemma_incr_ub(a: Seq<nat>, i: int)
    requires 0 <= i < a.len(), forall|p: int, q: int| 0 <= p < q < a.len() ==> a[p] < a[q]
    ensures a[i] + (a.len() - 1 - i) <= a[a.len() - 1]
    decreases a.len() - i
{ if i < a.len() - 1 { lemma_incr_ub(a, i + 1); } }
pub proof fn lemma_incr_is_identity(a: Seq<nat>, i: int)
    requires 0 <= i < a.len(), forall|p: int| 0 <= p < a.len() ==> a[p] < a.len(), forall|p: int, q: int| 0 <= p < q < a.len() ==> a[p] < a[q]
    ensures a[i] == i
{ lemma_incr_lb(a, i); lemma_incr_ub(a, i); }
"""


def build(x):
    parts = []
    ie = x.item_text(F, "struct IndexedEntry")
    ie = ie.replace("    v: V,", "    pub v: V,").replace("    index: usize,", "    pub index: usize,")
    x.note("R2", "struct IndexedEntry: fields made pub")
    parts.append(ie + "\n")
    ienew = x.fn(F, "impl<V> IndexedEntry<V> :: fn new", under_contract=False)
    ienew.name_return("r")
    ienew.add_spec("        ensures r.v == v, r.index == index,")
    parts.append("impl<V> IndexedEntry<V> {\n" + ienew.text + "\n}\n")
    en = x.item_text(F, "enum CompactOrderedHashMap")
    en, n = G.strip_inner_attrs(en)
    parts.append(en + "\n")
    parts.append(SPEC)
    fns = []

    def fn(name, spec, body=None):
        f = x.fn(F, IMPL + " :: fn " + name)
        f.name_return("r")
        f.add_spec(spec)
        if body:
            f.body_start(body)
        fns.append(f)
        return f

    fn("empty", "        ensures r.wf(), r.size() == 0, r.index_of() == Map::<K, nat>::empty(), r.value_of() == Map::<K, V>::empty(),",
       "        assert(Map::<K, IndexedEntry<V>>::empty().map_values(|e: IndexedEntry<V>| e.index as nat) =~= Map::<K, nat>::empty());\n"
       "        assert(Map::<K, IndexedEntry<V>>::empty().map_values(|e: IndexedEntry<V>| e.v) =~= Map::<K, V>::empty());")
    fn("len", "        ensures r == self.size(),")
    fn("is_empty", "        ensures r == (self.size() == 0),")
    fn("get", """        requires self.wf(),
        ensures r is Some <==> self.value_of().contains_key(*k),
                r is Some ==> *r->Some_0 == self.value_of()[*k],""")
    fn("contains_key", "        requires self.wf(),\n        ensures r == self.value_of().contains_key(*k),")
    fn("get_index", """        requires self.wf(),
        ensures r is Some <==> self.index_of().contains_key(*k),
                r is Some ==> r->Some_0 == self.index_of()[*k],""")
    gp = fn("get_pair", """        requires self.wf(),
        ensures
            // C11 (iteration by ascending index): what is handed out for slot `index` is THE key that owns that slot, with its current value; nothing is handed out
            // only if no key owns the slot
            r matches Some(p) ==> self.index_of().contains_key(*p.0) && self.index_of()[*p.0] == index && *p.1 == self.value_of()[*p.0],
            r is None ==> !self.has_slot(index as nat),""")
    gp.rewrite(r"indexed\s*\.iter\(\)\s*\.find\(\|\(_, f\)\| f\.index == index\)\s*\.map\(\|\(k, entry\)\| \(k, &entry\.v\)\)", "verif_find_slot(indexed, index)", 1, 1, rule="R-collect")
    x.note("R-collect", "get_pair (NEntries): `indexed.iter().find(|(_, f)| f.index == index).map(|(k, entry)| (k, &entry.v))` written verif_find_slot(indexed, index) (assumed: the first entry whose index is `index`, None only if there is none)")
    ky = fn("keys", """        requires self.wf(),
        ensures
            // C11 / C15: keys() yields every key exactly once, the key that owns slot i at position i ("iteration by ascending index"; adjacency lists list every incident edge)
            r.seq().len() == self.size(),
            forall|i: int| 0 <= i < self.size() ==> self.index_of().contains_key(#[trigger] r.seq()[i]) && self.index_of()[r.seq()[i]] == i,""")
    ky.rewrite(r"KeyIterator<K>", "KeyIter<'_>", 1, 1, rule="R3-dyn")
    ky.rewrite(r"Box::new\(\[([^\]]*)\]\.into_iter\(\)\)", r"KeyIter::of([\1])", 1, 4, rule="R3-dyn")
    ky.rewrite(r"let keys = map\.iter\(\)\.sorted_by_key\(\|\(_, v\)\| v\.index\)\.map\(\|\(k, _\)\| k\);\s*Box::new\(keys\)", "let keys = verif_keys_sorted_by_index(map);\n                /*verif:keys-hint*/\n                keys", 1, 1, rule="R-collect")
    x.note("R3-dyn", "keys: `KeyIterator<K>` (Box<dyn Iterator<Item = &K>>) written KeyIter (opaque, ghost sequence); `Box::new([k1, ..].into_iter())` written KeyIter::of([k1, ..])")
    x.note("R-collect", "keys (NEntries): `map.iter().sorted_by_key(|(_, v)| v.index).map(|(k, _)| k)` written verif_keys_sorted_by_index(map) (assumed: every key once, by ascending index)")
    ky.insert_after(r"/\*verif:keys-hint\*/", """
                proof {
                    let sq = keys.seq(); let n = sq.len() as int;
                    let a = Seq::new(sq.len(), |i: int| map@[sq[i]].index as nat);
                    assert forall|p: int| 0 <= p < n implies a[p] < n by { assert(self.index_of().contains_key(sq[p])); }
                    assert forall|p: int, q: int| 0 <= p < q < n implies a[p] < a[q] by {
                        assert(self.index_of().contains_key(sq[p]) && self.index_of().contains_key(sq[q]));
                        assert(sq[p] != sq[q]);
                    }
                    assert forall|i: int| 0 <= i < n implies self.index_of().contains_key(#[trigger] sq[i]) && self.index_of()[sq[i]] == i by { lemma_incr_is_identity(a, i); }
                }""")
    ins = fn("insert", """        requires old(self).wf(), old(self).size() < usize::MAX - 1,
        ensures
            final(self).wf(),
            // whole-view postcondition: nothing but the inserted key changes
            final(self).value_of() =~= old(self).value_of().insert(k, v),
            final(self).index_of() =~= (if old(self).index_of().contains_key(k) { old(self).index_of() }
                                        else { old(self).index_of().insert(k, old(self).size()) }),
            final(self).size() == (if old(self).index_of().contains_key(k) { old(self).size() } else { old(self).size() + 1 }),
            r is Some <==> old(self).value_of().contains_key(k),
            r is Some ==> r->Some_0 == old(self).value_of()[k],""")
    # R-closure: a closure literal `|p| EXPR` gets the postcondition `result == EXPR` (its own body) so that Option::map can be reasoned about
    for f in fns:
        if f.f.it.name == "get":
            f.rewrite(r"map\.get\(k\)\.map\(\|e\| &e\.v\)", "map.get(k).map(|e: &IndexedEntry<V>| -> (cr: &V) ensures cr == &e.v { &e.v })", 1, 1, rule="R-closure")
        if f.f.it.name == "get_index":
            f.rewrite(r"indexed\.get\(k\)\.map\(\|f\| f\.index\)", "indexed.get(k).map(|f: &IndexedEntry<V>| -> (cr: usize) ensures cr == f.index { f.index })", 1, 1, rule="R-closure")
    ins.rewrite(r"map\.get\(&k\)\.map\(\|e\| e\.index\)", "map.get(&k).map(|e: &IndexedEntry<V>| -> (cr: usize) ensures cr == e.index { e.index })", 1, 1, rule="R-closure")
    ins.rewrite(r"result\.map\(\|r\| r\.v\)", "result.map(|r: IndexedEntry<V>| -> (cr: V) ensures cr == r.v { r.v })", 1, 1, rule="R-closure")
    # R-refeq: `kN == &k` compares `&mut K` with `&K`; core's impl forwards to `K == K`; vstd has no spec for that impl
    ins.rewrite(r"\b(k[1-4]) == &k\b", r"*\1 == k", 10, 10, rule="R-refeq")
    x.note("R-closure", "closure literals in get/get_index/insert annotated with `ensures result == <their own body expression>`")
    x.note("R-refeq", "insert: `kN == &k` (PartialEq<&K> for &mut K, which forwards to K == K) written `*kN == k`")
    # proof hints (add-only)
    ins.insert_after(r"let mut one = CompactOrderedHashMap::OneEntry \{ k1: k, v1: v \};\s*std::mem::swap\(self, &mut one\);",
                     "                proof { assert(old(self).size() == 0); assert(old(self).value_of() =~= Map::<K, V>::empty()); assert(old(self).index_of() =~= Map::<K, nat>::empty()); }")
    ins.insert_before(r"std::mem::swap\(self, &mut CompactOrderedHashMap::NEntries\(five\)\);", """                    proof {
                        reveal_with_fuel(arr_map, 6);
                        let m0 = Map::<K, IndexedEntry<V>>::empty().insert(*k1, IndexedEntry { v: *v1, index: 0 }).insert(*k2, IndexedEntry { v: *v2, index: 1 })
                            .insert(*k3, IndexedEntry { v: *v3, index: 2 }).insert(*k4, IndexedEntry { v: *v4, index: 3 }).insert(k, IndexedEntry { v: v, index: 4 });
                        assert(five@ =~= m0);
                        assert(five@.dom() =~= set![*k1, *k2, *k3, *k4, k]);
                        assert(five@.len() == 5);
                        let n = CompactOrderedHashMap::NEntries(five);
                        assert(n.value_of() =~= old(self).value_of().insert(k, v));
                        assert(n.index_of() =~= old(self).index_of().insert(k, 4nat));
                    }""")
    ins.insert_before(r"let result = map\.insert\(k, IndexedEntry::new\(v, index\)\);", "                let ghost m_old = map@;")
    ins.insert_after(r"let result = map\.insert\(k, IndexedEntry::new\(v, index\)\);", """                proof {
                    let n = CompactOrderedHashMap::NEntries(*map);
                    assert(map@ =~= m_old.insert(k, IndexedEntry { v: v, index: index }));
                    assert(n.value_of() =~= old(self).value_of().insert(k, v));
                    if m_old.contains_key(k) {
                        assert(map@.dom() =~= m_old.dom());
                    }
                }""")
    body = ("impl CompactOrderedHashMap<K, V> {\n" + "\n\n".join(f.text for f in fns) + "\n}\n")
    x.note("R6", "impl header `%s` instantiated at `type K = u64; type V = u64;` (bodies verbatim)" % IMPL)
    parts.append(body)
    # ---- the iterator: ascending slots ----
    it_struct = x.item_text(F, "struct CompactOrderedHashMapIter")
    it_struct = it_struct.replace("<'a, K: Hash + Ord + PartialEq + Clone, V: Clone>", "<'a>").replace("    iterable:", "    pub iterable:").replace("    index:", "    pub index:")
    x.note("R6", "struct CompactOrderedHashMapIter / its Iterator impl: generic parameters instantiated at K = V = u64; R3: `impl Iterator .. :: fn next` written as an inherent method; R2: fields made pub")
    parts.append(it_struct + "\n")
    nx = x.fn(F, "impl<'a, K: Hash + Ord + PartialEq + Clone, V: Clone> Iterator for CompactOrderedHashMapIter<'a, K, V> :: fn next")
    nx.rewrite(r"\A(\s*)fn ", r"\1pub fn ", 1, 1, rule="R2")
    nx.rewrite(r"Option<Self::Item>", "Option<(&'a K, &'a V)>", 1, 1, rule="R3")
    nx.rewrite(r"self\.index \+= 1;", "self.index = self.index + 1;", 1, 1, rule="R-compound")
    nx.name_return("r")
    nx.add_spec("""        requires old(self).iterable.wf(),
        ensures
            final(self).iterable == old(self).iterable,
            // C11: the iterator hands out the entry that owns slot `index` and moves to the next slot: entries come in ASCENDING SLOT order, each key with its current
            // value, none twice
            r matches Some(p) ==> old(self).index < old(self).iterable.size() && old(self).iterable.index_of().contains_key(*p.0) && old(self).iterable.index_of()[*p.0] == old(self).index
                && *p.1 == old(self).iterable.value_of()[*p.0] && final(self).index == old(self).index + 1,
            // it stops exactly at the end: every slot below len is owned (pigeonhole lemma), so ALL len entries are handed out
            r is None <==> old(self).index >= old(self).iterable.size(),
            r is None ==> final(self).index == old(self).index,""")
    nx.body_start("        proof { if self.index < self.iterable.size() { lemma_every_slot_owned(*self.iterable, self.index as nat); } }")
    parts.append("impl<'a> CompactOrderedHashMapIter<'a> {\n" + nx.text + "\n}\n")
    parts.append(LEMMAS)
    parts.append("""
// vacuity guard: MUST FAIL
pub fn vacuity_probe(m: &mut CompactOrderedHashMap<K, V>, k: K, v: V) -> (r: Option<V>)
    requires old(m).wf(), old(m).size() < 100
    ensures false
{ m.insert(k, v) }
""")
    return ("#![allow(unused_imports, unused_variables, dead_code, unused_mut, unused_parens)]\nuse vstd::prelude::*;\n"
            + HEAD + "\n".join(parts) + "\n} // verus!\nfn main() {}\n")
