"""C16 (one kernel) -- edge map matching: which candidate `search` returns, and when it returns none [V-real].

Extracted verbatim from routee-compass/src/plugin/input/default/edge_rtree/edge_rtree_input_plugin.rs: search, within_tolerance; DistanceUnit (+ convert, spec table
generated from its match arms as in C09).  OPAQUE with assumed contracts: the r-tree's nearest-neighbour iterator (rule R3-dyn: a ghost sequence of records in the
order the tree yields them -- that this order IS nearest-first is rstar's business and NOT decided), the record's centroid, the great-circle distance (uninterpreted
metres; transcendental), the road-class table and set, the vehicle-restriction table (`restrictions.iter().all(|r| r.valid(p))` as one helper; VehicleRestriction::valid
itself is proved in unit c04_frontier).  Rules: R3-dyn, R9 (the `for` over the iterator as loop/next), R-format, R-collect.
"""
import re
import prelude as P
import genlib as G
import c04_frontier as C4

F = "routee-compass/src/plugin/input/default/edge_rtree/edge_rtree_input_plugin.rs"
OBLIGATIONS = ["search", "within_tolerance", "validate_tolerance", "distance_2"]
MUST_FAIL = ["vacuity_probe"]

SHIMS = """
use std::collections::{HashMap, HashSet};
#[derive(Copy, Clone, PartialEq, Eq)] pub struct EdgeId(pub usize);
#[verifier::external_body] pub struct CoordF32 { _p: u8 }                  // geo_types::Coord<f32>
impl Clone for CoordF32 { #[verifier::external_body] fn clone(&self) -> (r: CoordF32) ensures r == *self { unimplemented!() } }
impl Copy for CoordF32 {}
#[verifier::external_body] pub struct Geometry { _p: u8 }                  // LineString<f32>
pub struct EdgeRtreeRecord { pub edge_id: EdgeId, pub geometry: Geometry }
#[verifier::external_body] pub struct PointF32 { _p: u8 }
pub struct CentroidPoint(pub CoordF32);
pub enum InputPluginError { InputPluginFailed(String), Other }
#[verifier::external_body] pub fn verif_format() -> String { String::new() }
#[verifier::external_body] pub struct VehicleRestriction { _p: u8 }
#[verifier::external_body] pub struct VehicleParameters { _p: u8 }
pub uninterp spec fn geo_point(c: CoordF32) -> PointF32;
pub mod geo { use super::*; #[verifier::external_body] #[allow(non_snake_case)] pub fn Point(c: CoordF32) -> (r: PointF32) ensures r == geo_point(c) { unimplemented!() } }
/// where a record is located: the centroid of its geometry (None for an empty linestring)
pub uninterp spec fn centroid_of(g: &Geometry) -> Option<CoordF32>;
impl Geometry {
    #[verifier::external_body] pub fn centroid(&self) -> (r: Option<CentroidPoint>)
        ensures r is Some <==> centroid_of(self) is Some, r matches Some(p) ==> Some(p.0) == centroid_of(self) { unimplemented!() }
}
/// great-circle distance in metres (uninterpreted: transcendental functions)
pub uninterp spec fn gc_m(a: &CoordF32, b: &CoordF32) -> real;
pub mod haversine { use super::*;
    #[verifier::external_body] pub fn coord_distance_meters(src: &CoordF32, dst: &CoordF32) -> (r: Result<Distance, String>) ensures r matches Ok(d) ==> d@ == gc_m(src, dst) { unimplemented!() }
}
// ---- the r-tree and its nearest-neighbour iterator (R3-dyn): a ghost sequence of the records in the order the tree yields them ----
#[verifier::external_body] pub struct RTree { _p: u8 }
#[verifier::external_body] pub struct NnIter<'a> { _p: core::marker::PhantomData<&'a u8> }
impl RTree {
    pub uninterp spec fn order(&self, p: &PointF32) -> Seq<EdgeRtreeRecord>;
    // neighbouring API (assumed: the first record of the same order)
    #[verifier::external_body] pub fn nearest_neighbor<'a>(&'a self, p: &PointF32) -> (r: Option<&'a EdgeRtreeRecord>)
        ensures r is Some <==> self.order(p).len() > 0, r matches Some(x) ==> *x == self.order(p)[0] { unimplemented!() }
    #[verifier::external_body] pub fn nearest_neighbor_iter_with_distance_2<'a>(&'a self, p: &PointF32) -> (r: NnIter<'a>) ensures r.seq() == self.order(p), r.pos() == 0 { unimplemented!() }
}
impl<'a> NnIter<'a> {
    pub uninterp spec fn seq(&self) -> Seq<EdgeRtreeRecord>;
    pub uninterp spec fn pos(&self) -> int;
    #[verifier::external_body] pub fn into_iter(self) -> (r: NnIter<'a>) ensures r.seq() == self.seq(), r.pos() == self.pos() { unimplemented!() }
    #[verifier::external_body]
    pub fn next(&mut self) -> (r: Option<(&'a EdgeRtreeRecord, f32)>)
        ensures final(self).seq() == old(self).seq(), 0 <= old(self).pos() <= old(self).seq().len(),
                old(self).pos() < old(self).seq().len() ==> r is Some && *r->Some_0.0 == old(self).seq()[old(self).pos()] && final(self).pos() == old(self).pos() + 1,
                old(self).pos() >= old(self).seq().len() ==> r is None && final(self).pos() == old(self).pos(),
    { unimplemented!() }
}
// ---- admissibility of a candidate: road class in the query's set, every restriction on the edge satisfied by the vehicle ----
pub uninterp spec fn class_ok(classes: &Option<HashSet<u8>>, lookup: &Option<Vec<u8>>, e: EdgeId) -> bool;
pub uninterp spec fn truck_ok(vr: &Option<HashMap<EdgeId, Vec<VehicleRestriction>>>, vp: &Option<VehicleParameters>, e: EdgeId) -> bool;
/// rule R-collect: the two admissibility blocks are read through these helpers (assumed: each returns its uninterpreted verdict or an error for a missing table row)
#[verifier::external_body] pub fn verif_valid_class(classes: &Option<HashSet<u8>>, lookup: &Option<Vec<u8>>, e: EdgeId) -> (r: Result<bool, InputPluginError>)
    ensures r matches Ok(b) ==> b == class_ok(classes, lookup, e) { unimplemented!() }
#[verifier::external_body] pub fn verif_valid_truck(vr: &Option<HashMap<EdgeId, Vec<VehicleRestriction>>>, vp: &Option<VehicleParameters>, e: EdgeId) -> (r: bool)
    ensures r == truck_ok(vr, vp, e) { unimplemented!() }

/// C16: the record lies within the tolerance ON THE GROUND: great-circle distance from the coordinate to the record's location, in the tolerance's unit, <= tolerance
pub open spec fn within(tol: Option<(Distance, DistanceUnit)>, c: &CoordF32, rec: EdgeRtreeRecord) -> bool {
    match tol { None => true, Some(t) => centroid_of(&rec.geometry) is Some && conv_DistanceUnit(DistanceUnit::Meters, t.1, gc_m(c, &centroid_of(&rec.geometry)->Some_0)) <= t.0@ }
}
pub open spec fn admissible(rc: &Option<HashSet<u8>>, rl: &Option<Vec<u8>>, vr: &Option<HashMap<EdgeId, Vec<VehicleRestriction>>>, vp: &Option<VehicleParameters>, e: EdgeId) -> bool {
    class_ok(rc, rl, e) && truck_ok(vr, vp, e)
}
"""


F32 = """
// ---- A-REAL for the f32 arithmetic of EdgeRtreeRecord::distance_2 (assumed) ----
pub uninterp spec fn f32_real(x: f32) -> real;
pub axiom fn areal32_obeys() ensures <f32 as MulSpec<f32>>::obeys_mul_spec(), <f32 as AddSpec<f32>>::obeys_add_spec(), <f32 as SubSpec<f32>>::obeys_sub_spec();
pub broadcast axiom fn areal32_mul_req(a: f32, b: f32) ensures #[trigger] a.mul_req(b);
pub broadcast axiom fn areal32_add_req(a: f32, b: f32) ensures #[trigger] a.add_req(b);
pub broadcast axiom fn areal32_sub_req(a: f32, b: f32) ensures #[trigger] a.sub_req(b);
pub broadcast axiom fn areal32_mul(a: f32, b: f32) ensures f32_real(#[trigger] a.mul_spec(b)) == f32_real(a) * f32_real(b);
pub broadcast axiom fn areal32_add(a: f32, b: f32) ensures f32_real(#[trigger] a.add_spec(b)) == f32_real(a) + f32_real(b);
pub broadcast axiom fn areal32_sub(a: f32, b: f32) ensures f32_real(#[trigger] a.sub_spec(b)) == f32_real(a) - f32_real(b);
pub broadcast group areal32 { areal32_mul_req, areal32_add_req, areal32_sub_req, areal32_mul, areal32_add, areal32_sub }
pub uninterp spec fn cx(c: CoordF32) -> real;
pub uninterp spec fn cy(c: CoordF32) -> real;
pub uninterp spec fn pt_coord(p: &PointF32) -> CoordF32;
impl CentroidPoint {
    #[verifier::external_body] pub fn x(&self) -> (r: f32) ensures f32_real(r) == cx(self.0) { unimplemented!() }
    #[verifier::external_body] pub fn y(&self) -> (r: f32) ensures f32_real(r) == cy(self.0) { unimplemented!() }
}
impl PointF32 {
    #[verifier::external_body] pub fn x(&self) -> (r: f32) ensures f32_real(r) == cx(pt_coord(self)) { unimplemented!() }
    #[verifier::external_body] pub fn y(&self) -> (r: f32) ensures f32_real(r) == cy(pt_coord(self)) { unimplemented!() }
}
#[verifier::external_body] pub fn verif_unwrap_centroid(o: Option<CentroidPoint>) -> (r: CentroidPoint) requires o is Some ensures Some(r) == o { unimplemented!() }
"""


def build(x):
    parts, texts = [], []
    parts.append(P.numtype("Distance"))
    fam = C4.family(x, "DistanceUnit", "Distance", "distance_unit.rs")
    texts.append(fam[2])
    parts.append("#[derive(Clone, Copy, PartialEq, Eq)]\n" + fam[0] + "\n")
    parts.append(fam[1])
    parts.append("impl DistanceUnit {\n    %s\n}\n" % fam[2])
    parts.append(x.item_text("routee-compass-core/src/model/unit/builders.rs", "const BASE_DISTANCE_UNIT") + "\n")   # neighbouring API (so that code using it still type-checks)
    parts.append(SHIMS)
    wt = x.fn(F, "fn within_tolerance")
    wt.replace_macro_calls(r"format", "verif_format()")
    wt.rewrite(r"coord: &Coord<f32>,", "coord: &CoordF32,", 1, 1, rule="R-path")
    wt.rewrite(r"\.map_err\(InputPluginError::InputPluginFailed\)\?", ".map_err(|e: String| -> (er: InputPluginError) { InputPluginError::InputPluginFailed(e) })?", 1, 1, rule="R-closure")
    wt.rewrite(r"\A(\s*)fn ", r"\1pub fn ", 0, 1, rule="R2")
    wt.name_return("r")
    wt.add_spec("    ensures r matches Ok(b) ==> b == within(tolerance, coord, *record),")
    wt.body_start("    broadcast use areal, lits; proof { areal_obeys(); }")
    texts.append(wt.text)
    parts.append(wt.text + "\n")
    # ---- the r-tree's own measure: EdgeRtreeRecord::distance_2 ----
    parts.append(F32)
    RF = "routee-compass/src/plugin/input/default/edge_rtree/edge_rtree_record.rs"
    d2 = x.fn(RF, "impl PointDistance for EdgeRtreeRecord :: fn distance_2")
    d2.rewrite(r"\A(\s*)fn ", r"\1pub fn ", 0, 1, rule="R3")
    d2.rewrite(r"point: &Point<f32>", "point: &PointF32", 1, 1, rule="R-path")
    d2.rewrite(r"let this_point = self\s*\.geometry\s*\.centroid\(\)\s*\.unwrap_or_else\(\|\| panic!\([^)]*\)\);", "let this_point = verif_unwrap_centroid(self.geometry.centroid());", 0, 1, rule="R-collect")
    x.note("R-collect", "distance_2: `self.geometry.centroid().unwrap_or_else(|| panic!(..))` written verif_unwrap_centroid(self.geometry.centroid()) (precondition: the linestring is not empty -- an empty one panics in the real code)")
    d2.name_return("r")
    d2.add_spec("""        requires centroid_of(&self.geometry) is Some,
        ensures
            // C16: the measure by which the tree orders its records is the squared coordinate distance from the query point to the record's LOCATION -- the same
            // location (the centroid of its geometry) that the tolerance is measured to
            f32_real(r) == (cx(centroid_of(&self.geometry)->Some_0) - cx(pt_coord(point))) * (cx(centroid_of(&self.geometry)->Some_0) - cx(pt_coord(point)))
                         + (cy(centroid_of(&self.geometry)->Some_0) - cy(pt_coord(point))) * (cy(centroid_of(&self.geometry)->Some_0) - cy(pt_coord(point))),""")
    d2.body_start("        broadcast use areal32; proof { areal32_obeys(); }")
    parts.append("impl EdgeRtreeRecord {\n" + d2.text + "\n}\n")
    x.note("R3", "`impl PointDistance for EdgeRtreeRecord :: fn distance_2` written as an inherent pub fn")
    # ---- the vertex plugin's tolerance check ----
    VF = "routee-compass/src/plugin/input/default/vertex_rtree/plugin.rs"
    vt = x.fn(VF, "fn validate_tolerance")
    vt.replace_macro_calls(r"format", "verif_format()")
    vt.rewrite(r"&Coord<f32>", "&CoordF32", 2, 2, rule="R-path")
    vt.rewrite(r"\.map_err\(InputPluginError::InputPluginFailed\)\?", ".map_err(|e: String| -> (er: InputPluginError) { InputPluginError::InputPluginFailed(e) })?", 1, 1, rule="R-closure")
    vt.rewrite(r"\A(\s*)fn ", r"\1pub fn ", 0, 1, rule="R2")
    vt.name_return("r")
    vt.add_spec("""    ensures
        // C16 (vertex plugin): with a tolerance, the matched vertex is accepted only if its great-circle distance from the coordinate, in the tolerance's unit, is BELOW the tolerance
        r is Ok ==> (tolerance matches Some(t) ==> conv_DistanceUnit(DistanceUnit::Meters, t.1, gc_m(src, dst)) < t.0@),
        tolerance is None ==> r is Ok,""")
    vt.body_start("    broadcast use areal, lits; proof { areal_obeys(); }")
    texts.append(vt.text)
    parts.append(vt.text + "\n")
    f = x.fn(F, "fn search")
    f.replace_macro_calls(r"format", "verif_format()")
    f.rewrite(r"coord: Coord<f32>,", "coord: CoordF32,", 1, 1, rule="R-path")
    f.rewrite(r"rtree: &RTree<EdgeRtreeRecord>,", "rtree: &RTree,", 1, 1, rule="R3-dyn")
    # R-collect: the two admissibility blocks
    pat_c = re.compile(r"let valid_class = match \(road_classes, road_class_lookup\) \{.*?\n        \};", re.S)
    pat_t = re.compile(r"let valid_truck = match \(vehicle_restrictions, vehicle_parameters\) \{.*?\n        \};", re.S)
    if len(pat_c.findall(f.text)) != 1 or len(pat_t.findall(f.text)) != 1:
        raise G.Undecided("lost anchor: the road-class / vehicle-restriction admissibility blocks of search")
    f.rewrite(pat_c.pattern, "let valid_class = verif_valid_class(road_classes, road_class_lookup, record.edge_id)?;", 1, 1, rule="R-collect", flags=re.S)
    f.rewrite(pat_t.pattern, "let valid_truck = verif_valid_truck(vehicle_restrictions, vehicle_parameters, record.edge_id);", 1, 1, rule="R-collect", flags=re.S)
    x.note("R-collect", "search: the `let valid_class = match (..) {..};` and `let valid_truck = match (..) {..};` blocks (table lookups, `restrictions.iter().all(|r| r.valid(p))`) written as verif_valid_class(..)? / verif_valid_truck(..): uninterpreted verdicts per edge id")
    f.desugar_for(1, itname="verif_it")
    f.rewrite(r"\A(\s*)fn ", r"\1pub fn ", 0, 1, rule="R2")
    f.rewrite(r"\A", "#[verifier::exec_allows_no_decreases_clause]\n", 1, 1, rule="note")
    f.name_return("r")
    f.add_spec("""    ensures r matches Ok(m) ==> ({
        let order = rtree.order(&geo_point(coord));
        match m {
            // C16: a match is a candidate of the tree that is admissible AND within the tolerance on the ground, and it is the FIRST admissible one in the tree's order;
            // every candidate before it is within the tolerance too
            Some(e) => exists|k: int| 0 <= k < order.len() && #[trigger] order[k].edge_id == e && within(tolerance, &coord, order[k])
                && admissible(road_classes, road_class_lookup, vehicle_restrictions, vehicle_parameters, e)
                && forall|j: int| 0 <= j < k ==> within(tolerance, &coord, #[trigger] order[j]) && !admissible(road_classes, road_class_lookup, vehicle_restrictions, vehicle_parameters, order[j].edge_id),
            // no match: the candidates are exhausted without an admissible one, or the first candidate that is not within the tolerance was reached before any admissible one
            None => (forall|j: int| 0 <= j < order.len() ==> within(tolerance, &coord, #[trigger] order[j]) && !admissible(road_classes, road_class_lookup, vehicle_restrictions, vehicle_parameters, order[j].edge_id))
                || exists|k: int| 0 <= k < order.len() && !within(tolerance, &coord, #[trigger] order[k])
                    && forall|j: int| 0 <= j < k ==> within(tolerance, &coord, #[trigger] order[j]) && !admissible(road_classes, road_class_lookup, vehicle_restrictions, vehicle_parameters, order[j].edge_id),
        }
    }),""")
    f.add_loop_spec(1, """        invariant verif_it.seq() == rtree.order(&geo_point(coord)), 0 <= verif_it.pos() <= verif_it.seq().len(),
            forall|j: int| 0 <= j < verif_it.pos() ==> within(tolerance, &coord, #[trigger] verif_it.seq()[j]) && !admissible(road_classes, road_class_lookup, vehicle_restrictions, vehicle_parameters, verif_it.seq()[j].edge_id),
        ensures verif_it.pos() == verif_it.seq().len(),""")
    f.loop_body_start(1, "        let ghost k0 = verif_it.pos();")
    f.insert_before(r"return Ok\(Some\(record\.edge_id\)\);", "            proof { assert(verif_it.seq()[k0].edge_id == record.edge_id); }")
    parts.append(f.text + "\n")
    parts.append("""
// vacuity guard: MUST FAIL
pub fn vacuity_probe(c: CoordF32, t: &RTree) -> (r: bool) ensures false { search(c, t, None, &None, &None, &None, &None).is_ok() }
""")
    parts.insert(0, P.literal_axioms(texts, extra=("0.0", "1.0")))
    parts.insert(0, P.f64_real())
    return P.wrap("\n".join(parts))
