"""C08 -- vehicle energy and battery state under contract [V-real].

Extracted verbatim from routee-compass-powertrain: vehicle_ops::{update_soc_percent, as_soc_percent,
soc_from_battery_and_delta}, PredictionModelRecord::predict, phev::get_phev_energy,
ICE::{best_case_energy, consume_energy}, BEV::{best_case_energy, consume_energy}, PHEV::consume_energy; from routee-compass-core:
builders::create_energy, Energy::create, EnergyUnit / DistanceUnit / EnergyRateUnit (+ convert /
accessors, spec tables generated as in C09).  Shims (assumed contracts): StateModel accessors
(frame + arithmetic, cf. C03.4), the prediction model (uninterpreted rate), FloatCachePolicy,
f64::clamp, `&str -> String` conversion.
"""
import prelude as P
import genlib as G
import c04_frontier as C4

PT = "routee-compass-powertrain/src/routee/"
CORE = "routee-compass-core/src/"
U = CORE + "model/unit/"
OBLIGATIONS = ["update_soc_percent", "as_soc_percent", "soc_from_battery_and_delta", "predict", "get_phev_energy", "consume_energy", "best_case_energy",
               "create_energy", "create", "best_case_energy_state", "lemma_soc_stays_in_range", "lemma_soc_unclamped_delta"]
MUST_FAIL = ["vacuity_probe"]

SHIMS = """
pub struct StateVar(pub f64);
#[verifier::external_body] pub struct StateModel { _p: u8 }
#[verifier::external_body] pub struct StateModelError { _p: u8 }
#[verifier::external_body] pub struct TraversalModelError { _p: u8 }
#[verifier::external_body] pub struct UnitError { _p: u8 }
macro_rules! from_err { ($a:ty, $b:ty) => { verus! {
    impl vstd::std_specs::convert::FromSpecImpl<$a> for $b { open spec fn obeys_from_spec() -> bool { false } open spec fn from_spec(v: $a) -> $b { arbitrary() } }
    impl From<$a> for $b { #[verifier::external_body] fn from(e: $a) -> $b { unimplemented!() } }
} } }
from_err!(StateModelError, TraversalModelError);
from_err!(UnitError, TraversalModelError);

// `feature_name.into()` : &str -> String (assumed: same characters)
#[verifier::external_body] pub fn verif_string(s: &str) -> (r: String) ensures r@ == s@ { s.to_string() }
// f64::clamp under A-REAL (assumed)
#[verifier::external_body] pub fn verif_clamp(x: f64, lo: f64, hi: f64) -> (r: f64)
    ensures f64_real(r) == (if f64_real(x) < f64_real(lo) { f64_real(lo) } else if f64_real(x) > f64_real(hi) { f64_real(hi) } else { f64_real(x) })
{ x.clamp(lo, hi) }

// ---- StateModel accessors (assumed; cf. C03.4 / C11.3): a feature name owns one slot; get/set/add touch only that slot ----
pub uninterp spec fn sm_slot(sm: &StateModel, name: Seq<char>) -> int;
pub uninterp spec fn sm_energy_unit(sm: &StateModel, name: Seq<char>) -> EnergyUnit;
pub open spec fn sv(s: Seq<StateVar>, i: int) -> real { f64_real(s[i].0) }
impl StateModel {
    #[verifier::external_body]
    pub fn get_custom_f64(&self, state: &[StateVar], name: &String) -> (r: Result<f64, StateModelError>)
        ensures r matches Ok(v) ==> 0 <= sm_slot(self, name@) < state@.len() && f64_real(v) == sv(state@, sm_slot(self, name@))
    { unimplemented!() }
    #[verifier::external_body]
    pub fn set_custom_f64(&self, state: &mut [StateVar], name: &String, value: &f64) -> (r: Result<(), StateModelError>)
        ensures final(state)@.len() == old(state)@.len(),
                r is Ok ==> 0 <= sm_slot(self, name@) < old(state)@.len() && sv(final(state)@, sm_slot(self, name@)) == f64_real(*value)
                    && forall|i: int| 0 <= i < old(state)@.len() && i != sm_slot(self, name@) ==> #[trigger] final(state)@[i] == old(state)@[i],
    { unimplemented!() }
    #[verifier::external_body]
    pub fn get_energy(&self, state: &[StateVar], name: &String, unit: &EnergyUnit) -> (r: Result<Energy, StateModelError>)
        ensures r matches Ok(v) ==> 0 <= sm_slot(self, name@) < state@.len() && v@ == conv_EnergyUnit(sm_energy_unit(self, name@), *unit, sv(state@, sm_slot(self, name@)))
    { unimplemented!() }
    #[verifier::external_body]
    pub fn add_energy(&self, state: &mut [StateVar], name: &String, energy: &Energy, from_unit: &EnergyUnit) -> (r: Result<(), StateModelError>)
        ensures final(state)@.len() == old(state)@.len(),
                r is Ok ==> 0 <= sm_slot(self, name@) < old(state)@.len()
                    && sv(final(state)@, sm_slot(self, name@)) == sv(old(state)@, sm_slot(self, name@)) + conv_EnergyUnit(*from_unit, sm_energy_unit(self, name@), energy@)
                    && forall|i: int| 0 <= i < old(state)@.len() && i != sm_slot(self, name@) ==> #[trigger] final(state)@[i] == old(state)@[i],
    { unimplemented!() }
}

// ---- the prediction model (smartcore / interpolation; C14) and its cache: opaque ----
#[verifier::external_body] pub struct PredictionModel { _p: u8 }
#[verifier::external_body] pub struct ModelType { _p: u8 }
#[verifier::external_body] pub struct FloatCachePolicy { _p: u8 }
pub uninterp spec fn model_rate(m: &PredictionModel, speed: real, grade: real) -> real;   // the model's energy rate at (speed, grade)
pub uninterp spec fn cached(c: &FloatCachePolicy, key: Seq<f64>) -> real;                  // what the cache holds for a key
impl PredictionModel {
    #[verifier::external_body]
    pub fn predict(&self, speed: (Speed, SpeedUnit), grade: (Grade, GradeUnit)) -> (r: Result<(EnergyRate, EnergyRateUnit), TraversalModelError>)
        ensures r matches Ok(p) ==> p.0@ == model_rate(self, speed.0@, grade.0@)
    { unimplemented!() }
}
impl FloatCachePolicy {
    #[verifier::external_body]
    pub fn get(&self, key: &Vec<f64>) -> (r: Result<Option<f64>, TraversalModelError>)
        ensures r matches Ok(Some(v)) ==> f64_real(v) == cached(self, key@)
    { unimplemented!() }
    /// call-site obligation: what is stored under a key is the model's own rate for that key (so that a later hit returns what a miss computes)
    #[verifier::external_body]
    pub fn update(&self, key: &Vec<f64>, value: f64) -> (r: Result<(), TraversalModelError>)
        requires key@.len() == 2, exists|m: &PredictionModel| #[trigger] model_rate(m, f64_real(key@[0]), f64_real(key@[1])) == f64_real(value) && cache_of(self, m),
    { unimplemented!() }
}
/// the cache belongs to this model and is coherent with it
pub uninterp spec fn cache_of(c: &FloatCachePolicy, m: &PredictionModel) -> bool;
pub open spec fn cache_coherent(c: &FloatCachePolicy, m: &PredictionModel) -> bool {
    cache_of(c, m) && forall|k: Seq<f64>| k.len() == 2 ==> #[trigger] cached(c, k) == model_rate(m, f64_real(k[0]), f64_real(k[1]))
}
"""

RECORD = """
pub struct PredictionModelRecord {
    pub name: String,
    pub prediction_model: PredictionModel,
    pub model_type: ModelType,
    pub speed_unit: SpeedUnit,
    pub grade_unit: GradeUnit,
    pub energy_rate_unit: EnergyRateUnit,
    pub ideal_energy_rate: EnergyRate,
    pub real_world_energy_adjustment: f64,
    pub cache: Option<FloatCachePolicy>,
}
impl PredictionModelRecord {
    pub open spec fn wf(&self) -> bool { self.cache matches Some(c) ==> cache_coherent(&c, &self.prediction_model) }
    /// C08: energy = predicted rate at (speed, grade) x real-world adjustment x distance (converted to the rate's distance unit), in the rate's energy unit
    pub open spec fn energy_spec(&self, speed: real, grade: real, d: real, du: DistanceUnit) -> real {
        (model_rate(&self.prediction_model, speed, grade) * f64_real(self.real_world_energy_adjustment)) * conv_DistanceUnit(du, eru_distance(self.energy_rate_unit), d)
    }
}
pub struct ICE { pub name: String, pub prediction_model_record: PredictionModelRecord }
pub struct BEV { pub name: String, pub prediction_model_record: PredictionModelRecord, pub battery_capacity: Energy, pub starting_battery_energy: Energy, pub battery_energy_unit: EnergyUnit }
pub struct PHEV { pub name: String, pub charge_sustain_model: PredictionModelRecord, pub charge_depleting_model: PredictionModelRecord,
                  pub battery_capacity: Energy, pub starting_battery_energy: Energy, pub battery_energy_unit: EnergyUnit }
pub open spec fn clamp100(x: real) -> real { if x < 0real { 0real } else if x > 100real { 100real } else { x } }
/// C08: new state of charge = clamp(100 * (capacity * soc/100 - delta) / capacity)
pub open spec fn soc_next(soc: real, delta: real, cap: real) -> real { clamp100(((cap * (soc / 100real) - delta) / cap) * 100real) }
"""

ERU = """
pub open spec fn eru_distance(u: EnergyRateUnit) -> DistanceUnit { match u {
    EnergyRateUnit::GallonsGasolinePerMile => DistanceUnit::Miles, EnergyRateUnit::GallonsDieselPerMile => DistanceUnit::Miles,
    EnergyRateUnit::KilowattHoursPerMile => DistanceUnit::Miles, EnergyRateUnit::KilowattHoursPerKilometer => DistanceUnit::Kilometers,
    EnergyRateUnit::KilowattHoursPerMeter => DistanceUnit::Meters } }
pub open spec fn eru_energy(u: EnergyRateUnit) -> EnergyUnit { match u {
    EnergyRateUnit::GallonsGasolinePerMile => EnergyUnit::GallonsGasoline, EnergyRateUnit::GallonsDieselPerMile => EnergyUnit::GallonsDiesel,
    EnergyRateUnit::KilowattHoursPerMile => EnergyUnit::KilowattHours, EnergyRateUnit::KilowattHoursPerKilometer => EnergyUnit::KilowattHours,
    EnergyRateUnit::KilowattHoursPerMeter => EnergyUnit::KilowattHours } }
"""

LEMMAS = """
/// C08: the state of charge always stays within 0..100 percent, from any start, for any energy delta (incl. negative = regeneration)
pub proof fn lemma_soc_stays_in_range(soc: real, delta: real, cap: real)
    ensures 0real <= soc_next(soc, delta, cap) <= 100real
{}
/// C08: whenever it is not clamped, it changes by exactly minus 100 times electric energy used over battery capacity
pub proof fn lemma_soc_unclamped_delta(soc: real, delta: real, cap: real)
    requires cap > 0real, 0real <= soc - 100real * delta / cap <= 100real
    ensures soc_next(soc, delta, cap) == soc - 100real * delta / cap
{
    let a = (cap * (soc / 100real) - delta) / cap;
    assert(a * cap == cap * (soc / 100real) - delta) by (nonlinear_arith) requires cap > 0real, a == (cap * (soc / 100real) - delta) / cap;
    let q = delta / cap;
    assert(q * cap == delta) by (nonlinear_arith) requires cap > 0real, q == delta / cap;
    assert(a == soc / 100real - q) by (nonlinear_arith) requires cap > 0real, a * cap == cap * (soc / 100real) - delta, q * cap == delta;
    assert(100real * delta / cap == 100real * q) by (nonlinear_arith) requires cap > 0real, q * cap == delta, q == delta / cap;
}
"""


def build(x):
    parts, texts = [], []
    for t in ("Distance", "Energy", "EnergyRate", "Speed", "Grade"):
        parts.append(P.numtype(t))
    parts.append(P.field_typed("StateVar"))
    fam = {}
    for enum, val, fname in [("DistanceUnit", "Distance", "distance_unit.rs"), ("EnergyUnit", "Energy", "energy_unit.rs")]:
        fam[enum] = C4.family(x, enum, val, fname)
        texts.append(fam[enum][2])
        parts.append("#[derive(Clone, Copy, PartialEq, Eq)]\n" + fam[enum][0] + "\n")
        parts.append(fam[enum][1])
        parts.append("impl %s {\n    %s\n}\n" % (enum, fam[enum][2]))
    for enum, f in [("SpeedUnit", "speed_unit.rs"), ("GradeUnit", "grade_unit.rs"), ("EnergyRateUnit", "energy_rate_unit.rs")]:
        et, _ = G.strip_inner_attrs(x.item_text(U + f, "enum " + enum))
        parts.append("#[derive(Clone, Copy, PartialEq, Eq)]\n" + et + "\n")
    parts.append(ERU)
    eru_fns = []
    for sel, spec in [("associated_distance_unit", "eru_distance"), ("associated_energy_unit", "eru_energy")]:
        f = x.fn(U + "energy_rate_unit.rs", "impl EnergyRateUnit :: fn " + sel)
        f.name_return("r")
        f.add_spec("        ensures r == %s(*self)," % spec)
        eru_fns.append(f.text)
    parts.append("impl EnergyRateUnit {\n" + "\n".join(eru_fns) + "\n}\n")
    # From<(EnergyRate, Distance)> for Energy, create_energy, Energy::create
    ff = x.fn(U + "energy.rs", "impl From<(EnergyRate, Distance)> for Energy :: fn from")
    ff.name_return("r")
    ff.add_spec("        ensures r@ == value.0@ * value.1@,")
    ff.body_start("        broadcast use areal; proof { areal_obeys(); }")
    parts.append("impl vstd::std_specs::convert::FromSpecImpl<(EnergyRate, Distance)> for Energy { open spec fn obeys_from_spec() -> bool { false } open spec fn from_spec(v: (EnergyRate, Distance)) -> Energy { arbitrary() } }\n"
                 "impl From<(EnergyRate, Distance)> for Energy {\n" + ff.text + "\n}\n")
    texts.append(ff.text)
    ce = x.fn(U + "builders.rs", "fn create_energy")
    ce.name_return("r")
    ce.add_spec("""    ensures r is Ok, r->Ok_0.1 == eru_energy(*energy_rate_unit),
        r->Ok_0.0@ == energy_rate@ * conv_DistanceUnit(*distance_unit, eru_distance(*energy_rate_unit), distance@),""")
    ce.body_start("    broadcast use areal, lits; proof { areal_obeys(); }")
    ce.rewrite(r"let energy = \(\*energy_rate, calc_distance\)\.into\(\);", "let energy = Energy::from((*energy_rate, calc_distance));", 1, 1, rule="R-into")
    texts.append(ce.text)
    parts.append(ce.text + "\n")
    ecr = x.fn(U + "energy.rs", "impl Energy :: fn create")
    ecr.name_return("r")
    ecr.add_spec("""        ensures r is Ok, r->Ok_0.1 == eru_energy(*energy_rate_unit),
            r->Ok_0.0@ == energy_rate@ * conv_DistanceUnit(*distance_unit, eru_distance(*energy_rate_unit), distance@),""")
    parts.append("impl Energy {\n" + ecr.text + "\n}\n")
    parts.append(SHIMS)
    parts.append(RECORD)

    # ---- vehicle_ops ----
    ops = []
    f = x.fn(PT + "vehicle/vehicle_ops.rs", "fn soc_from_battery_and_delta")
    f.rewrite(r"percent_remaining\.clamp\(0\.0, 100\.0\)", "verif_clamp(percent_remaining, 0.0, 100.0)", 1, 1, rule="R-clamp")
    f.name_return("r")
    f.add_spec("    requires max_battery@ != 0real,\n    ensures f64_real(r) == clamp100(((start_battery@ - energy_used@) / max_battery@) * 100real), 0real <= f64_real(r) <= 100real,")
    f.body_start("    broadcast use areal, lits; proof { areal_obeys(); }")
    ops.append(f)
    f = x.fn(PT + "vehicle/vehicle_ops.rs", "fn as_soc_percent")
    f.rewrite(r"percent_remaining\.clamp\(0\.0, 100\.0\)", "verif_clamp(percent_remaining, 0.0, 100.0)", 1, 1, rule="R-clamp")
    f.name_return("r")
    f.add_spec("    requires max_battery@ != 0real,\n    ensures f64_real(r) == clamp100((remaining_battery@ / max_battery@) * 100real), 0real <= f64_real(r) <= 100real,")
    f.body_start("    broadcast use areal, lits; proof { areal_obeys(); }")
    ops.append(f)
    f = x.fn(PT + "vehicle/vehicle_ops.rs", "fn update_soc_percent")
    f.rewrite(r"&feature_name\.into\(\)", "&verif_string(feature_name)", 2, 2, rule="R-into")
    f.name_return("r")
    f.add_spec("""    requires max@ != 0real,
    ensures final(state)@.len() == old(state)@.len(),
        r is Ok ==> ({
            let i = sm_slot(state_model, feature_name@);
            &&& 0 <= i < old(state)@.len()
            // C08: new soc = clamp(old soc - 100 * delta / capacity), only the soc slot changes
            &&& sv(final(state)@, i) == soc_next(sv(old(state)@, i), delta@, max@)
            &&& 0real <= sv(final(state)@, i) <= 100real
            &&& forall|j: int| 0 <= j < old(state)@.len() && j != i ==> #[trigger] final(state)@[j] == old(state)@[j]
        }),""")
    f.body_start("    broadcast use areal, lits; proof { areal_obeys(); }")
    ops.append(f)
    x.note("R-clamp", "vehicle_ops: `x.clamp(0.0, 100.0)` written as verif_clamp(x, 0.0, 100.0) (assumed: A-REAL clamp)")
    x.note("R-into", "vehicle code: `&NAME.into()` (&str -> String) written as &verif_string(NAME) (assumed: same characters)")
    for f in ops:
        texts.append(f.text)
    parts.append("pub mod vehicle_ops {\n use super::*;\n" + "\n".join(f.text for f in ops) + "\n}\n")

    # ---- PredictionModelRecord::predict ----
    pr = x.fn(PT + "prediction/prediction_model_record.rs", "impl PredictionModelRecord :: fn predict")
    pr.name_return("r")
    pr.add_spec("""        requires self.wf(),
        ensures r matches Ok(p) ==> p.1 == eru_energy(self.energy_rate_unit)
            // the same value on a cache hit and on a miss
            && p.0@ == self.energy_spec(speed.0@, grade.0@, distance.0@, distance.1),""")
    pr.body_start("        broadcast use areal, lits; proof { areal_obeys(); }")
    pr.insert_before(r"cache\.update\(", "                        proof { assert(key@.len() == 2); assert(model_rate(&self.prediction_model, f64_real(key@[0]), f64_real(key@[1])) == energy_rate@); }")
    texts.append(pr.text)
    parts.append("impl PredictionModelRecord {\n" + pr.text + "\n}\n")

    # ---- PHEV energy split ----
    ge = x.fn(PT + "vehicle/default/phev.rs", "fn get_phev_energy")
    ge.name_return("r")
    ge.add_spec("""    requires vehicle.charge_depleting_model.wf(), vehicle.charge_sustain_model.wf(),
    ensures r matches Ok(p) ==> ({
        &&& p.1 == eru_energy(vehicle.charge_depleting_model.energy_rate_unit) && p.3 == eru_energy(vehicle.charge_sustain_model.energy_rate_unit)
        // entered with charge remaining: electricity only;  entered empty: liquid fuel only
        &&& (f64_real(battery_soc_percent) > 0real ==> p.2@ == 0real && p.0@ == vehicle.charge_depleting_model.energy_spec(speed.0@, grade.0@, distance.0@, distance.1))
        &&& (f64_real(battery_soc_percent) <= 0real ==> p.0@ == 0real && p.2@ == vehicle.charge_sustain_model.energy_spec(speed.0@, grade.0@, distance.0@, distance.1))
    }),""")
    ge.body_start("    broadcast use areal, lits; proof { areal_obeys(); }")
    texts.append(ge.text)
    parts.append(ge.text + "\n")

    # ---- BEV ----
    bev = []
    bc = x.fn(PT + "vehicle/default/bev.rs", "impl VehicleType for BEV :: fn best_case_energy")
    bc.rewrite(r"\A(\s*)fn ", r"\1pub fn ", 0, 1, rule="R3")
    bc.name_return("r")
    bc.add_spec("""        ensures r matches Ok(p) ==> p.1 == eru_energy(self.prediction_model_record.energy_rate_unit)
            // C08: best case = ideal rate x distance
            && p.0@ == self.prediction_model_record.ideal_energy_rate@ * conv_DistanceUnit(distance.1, eru_distance(self.prediction_model_record.energy_rate_unit), distance.0@),""")
    bev.append(bc)
    cn = x.fn(PT + "vehicle/default/bev.rs", "impl VehicleType for BEV :: fn consume_energy")
    cn.rewrite(r"\A(\s*)fn ", r"\1pub fn ", 0, 1, rule="R3")
    cn.rewrite(r"&(BEV::\w+_FEATURE_NAME)\.into\(\)", r"&verif_string(\1)", 1, None, rule="R-into")
    cn.name_return("r")
    cn.add_spec("""        requires self.prediction_model_record.wf(), self.battery_capacity@ != 0real,
                 sm_slot(state_model, BEV::ENERGY_FEATURE_NAME@) != sm_slot(state_model, BEV::SOC_FEATURE_NAME@),
        ensures final(state)@.len() == old(state)@.len(),
            r is Ok ==> ({
                let e = self.prediction_model_record.energy_spec(speed.0@, grade.0@, distance.0@, distance.1);
                let eu = eru_energy(self.prediction_model_record.energy_rate_unit);
                let (ie, is) = (sm_slot(state_model, BEV::ENERGY_FEATURE_NAME@), sm_slot(state_model, BEV::SOC_FEATURE_NAME@));
                // the energy slot accumulates the predicted energy (in the slot's unit); the soc follows the battery-unit delta
                &&& sv(final(state)@, ie) == sv(old(state)@, ie) + conv_EnergyUnit(eu, sm_energy_unit(state_model, BEV::ENERGY_FEATURE_NAME@), e)
                &&& sv(final(state)@, is) == soc_next(sv(old(state)@, is), conv_EnergyUnit(eu, self.battery_energy_unit, e), self.battery_capacity@)
                &&& 0real <= sv(final(state)@, is) <= 100real
                &&& forall|j: int| 0 <= j < old(state)@.len() && j != ie && j != is ==> #[trigger] final(state)@[j] == old(state)@[j]
            }),""")
    bev.append(cn)
    bs = x.fn(PT + "vehicle/default/bev.rs", "impl VehicleType for BEV :: fn best_case_energy_state")
    bs.rewrite(r"\A(\s*)fn ", r"\1pub fn ", 0, 1, rule="R3")
    bs.rewrite(r"&(BEV::\w+_FEATURE_NAME)\.into\(\)", r"&verif_string(\1)", 1, None, rule="R-into")
    bs.name_return("r")
    bs.add_spec("""        requires self.battery_capacity@ != 0real,
                 sm_slot(state_model, BEV::ENERGY_FEATURE_NAME@) != sm_slot(state_model, BEV::SOC_FEATURE_NAME@),
        ensures final(state)@.len() == old(state)@.len(),
            r is Ok ==> ({
                // C08: "the best-case energy used to order the search is the ideal rate times distance" -- in the units the state is kept in: the energy slot grows by that
                // energy converted FROM THE MODEL'S energy unit to the slot's, the state of charge follows the same energy converted to the battery's unit
                let e = self.prediction_model_record.ideal_energy_rate@ * conv_DistanceUnit(distance.1, eru_distance(self.prediction_model_record.energy_rate_unit), distance.0@);
                let eu = eru_energy(self.prediction_model_record.energy_rate_unit);
                let (ie, is) = (sm_slot(state_model, BEV::ENERGY_FEATURE_NAME@), sm_slot(state_model, BEV::SOC_FEATURE_NAME@));
                &&& sv(final(state)@, ie) == sv(old(state)@, ie) + conv_EnergyUnit(eu, sm_energy_unit(state_model, BEV::ENERGY_FEATURE_NAME@), e)
                &&& sv(final(state)@, is) == soc_next(sv(old(state)@, is), conv_EnergyUnit(eu, self.battery_energy_unit, e), self.battery_capacity@)
                &&& forall|j: int| 0 <= j < old(state)@.len() && j != ie && j != is ==> #[trigger] final(state)@[j] == old(state)@[j]
            }),""")
    bev.append(bs)
    parts.append("impl BEV {\n    pub const ENERGY_FEATURE_NAME: &'static str = \"energy_electric\";\n    pub const SOC_FEATURE_NAME: &'static str = \"battery_state\";\n"
                 + "\n".join(f.text for f in bev) + "\n}\n")
    # ---- ICE ----
    ice = []
    ib = x.fn(PT + "vehicle/default/ice.rs", "impl VehicleType for ICE :: fn best_case_energy")
    ib.rewrite(r"\A(\s*)fn ", r"\1pub fn ", 0, 1, rule="R3")
    ib.name_return("r")
    ib.add_spec("""        ensures r matches Ok(p) ==> p.1 == eru_energy(self.prediction_model_record.energy_rate_unit)
            // C08: best case = ideal rate x distance
            && p.0@ == self.prediction_model_record.ideal_energy_rate@ * conv_DistanceUnit(distance.1, eru_distance(self.prediction_model_record.energy_rate_unit), distance.0@),""")
    ice.append(ib)
    ic = x.fn(PT + "vehicle/default/ice.rs", "impl VehicleType for ICE :: fn consume_energy")
    ic.rewrite(r"\A(\s*)fn ", r"\1pub fn ", 0, 1, rule="R3")
    ic.rewrite(r"&(ICE::\w+_FEATURE_NAME)\.into\(\)", r"&verif_string(\1)", 1, None, rule="R-into")
    ic.name_return("r")
    ic.add_spec("""        requires self.prediction_model_record.wf(),
        ensures final(state)@.len() == old(state)@.len(),
            r is Ok ==> ({
                let e = self.prediction_model_record.energy_spec(speed.0@, grade.0@, distance.0@, distance.1);
                let eu = eru_energy(self.prediction_model_record.energy_rate_unit);
                let ie = sm_slot(state_model, ICE::ENERGY_FEATURE_NAME@);
                // C08: the liquid-fuel slot accumulates the predicted energy of THIS edge (converted to the slot's unit); nothing else changes
                &&& sv(final(state)@, ie) == sv(old(state)@, ie) + conv_EnergyUnit(eu, sm_energy_unit(state_model, ICE::ENERGY_FEATURE_NAME@), e)
                &&& forall|j: int| 0 <= j < old(state)@.len() && j != ie ==> #[trigger] final(state)@[j] == old(state)@[j]
            }),""")
    ice.append(ic)
    ibs = x.fn(PT + "vehicle/default/ice.rs", "impl VehicleType for ICE :: fn best_case_energy_state")
    ibs.rewrite(r"\A(\s*)fn ", r"\1pub fn ", 0, 1, rule="R3")
    ibs.rewrite(r"&(ICE::\w+_FEATURE_NAME)\.into\(\)", r"&verif_string(\1)", 1, None, rule="R-into")
    ibs.name_return("r")
    ibs.add_spec("""        ensures final(state)@.len() == old(state)@.len(),
            r is Ok ==> ({
                let e = self.prediction_model_record.ideal_energy_rate@ * conv_DistanceUnit(distance.1, eru_distance(self.prediction_model_record.energy_rate_unit), distance.0@);
                let eu = eru_energy(self.prediction_model_record.energy_rate_unit);
                let ie = sm_slot(state_model, ICE::ENERGY_FEATURE_NAME@);
                &&& sv(final(state)@, ie) == sv(old(state)@, ie) + conv_EnergyUnit(eu, sm_energy_unit(state_model, ICE::ENERGY_FEATURE_NAME@), e)
                &&& forall|j: int| 0 <= j < old(state)@.len() && j != ie ==> #[trigger] final(state)@[j] == old(state)@[j]
            }),""")
    ice.append(ibs)
    parts.append("impl ICE {\n    pub const ENERGY_FEATURE_NAME: &'static str = \"energy_liquid\";\n" + "\n".join(f.text for f in ice) + "\n}\n")
    x.note("R3", "`impl VehicleType for BEV/PHEV` methods written as inherent pub fns; the two &'static str constants copied by value; Arc<..> removed")
    # ---- PHEV::consume_energy ----
    pc = x.fn(PT + "vehicle/default/phev.rs", "impl VehicleType for PHEV :: fn consume_energy")
    pc.rewrite(r"\A(\s*)fn ", r"\1pub fn ", 0, 1, rule="R3")
    pc.rewrite(r"&PHEV::(\w+)\.into\(\)", r"&verif_string(PHEV::\1)", 3, 3, rule="R-into")
    pc.name_return("r")
    pc.add_spec("""        requires self.charge_depleting_model.wf(), self.charge_sustain_model.wf(), self.battery_capacity@ != 0real,
                 sm_slot(state_model, PHEV::ELECTRIC_FEATURE_NAME@) != sm_slot(state_model, PHEV::SOC_FEATURE_NAME@),
                 sm_slot(state_model, PHEV::LIQUID_FEATURE_NAME@) != sm_slot(state_model, PHEV::SOC_FEATURE_NAME@),
                 sm_slot(state_model, PHEV::LIQUID_FEATURE_NAME@) != sm_slot(state_model, PHEV::ELECTRIC_FEATURE_NAME@),
        ensures final(state)@.len() == old(state)@.len(),
            r is Ok ==> ({
                let (ie, il, is) = (sm_slot(state_model, PHEV::ELECTRIC_FEATURE_NAME@), sm_slot(state_model, PHEV::LIQUID_FEATURE_NAME@), sm_slot(state_model, PHEV::SOC_FEATURE_NAME@));
                let soc0 = sv(old(state)@, is);
                let ee = self.charge_depleting_model.energy_spec(speed.0@, grade.0@, distance.0@, distance.1);
                let el = self.charge_sustain_model.energy_spec(speed.0@, grade.0@, distance.0@, distance.1);
                let (ue, ul) = (eru_energy(self.charge_depleting_model.energy_rate_unit), eru_energy(self.charge_sustain_model.energy_rate_unit));
                // an edge entered with charge remaining draws only electricity, an edge entered empty only liquid fuel
                &&& (soc0 > 0real ==> sv(final(state)@, ie) == sv(old(state)@, ie) + conv_EnergyUnit(ue, sm_energy_unit(state_model, PHEV::ELECTRIC_FEATURE_NAME@), ee)
                        && sv(final(state)@, il) == sv(old(state)@, il) + conv_EnergyUnit(ul, sm_energy_unit(state_model, PHEV::LIQUID_FEATURE_NAME@), 0real)
                        && sv(final(state)@, is) == soc_next(soc0, conv_EnergyUnit(ue, self.battery_energy_unit, ee), self.battery_capacity@))
                &&& (soc0 <= 0real ==> sv(final(state)@, il) == sv(old(state)@, il) + conv_EnergyUnit(ul, sm_energy_unit(state_model, PHEV::LIQUID_FEATURE_NAME@), el)
                        && sv(final(state)@, ie) == sv(old(state)@, ie) + conv_EnergyUnit(ue, sm_energy_unit(state_model, PHEV::ELECTRIC_FEATURE_NAME@), 0real)
                        && sv(final(state)@, is) == soc_next(soc0, conv_EnergyUnit(ue, self.battery_energy_unit, 0real), self.battery_capacity@))
                &&& 0real <= sv(final(state)@, is) <= 100real
            }),""")
    pb = x.fn(PT + "vehicle/default/phev.rs", "impl VehicleType for PHEV :: fn best_case_energy")
    pb.rewrite(r"\A(\s*)fn ", r"\1pub fn ", 0, 1, rule="R3")
    pb.name_return("r")
    pb.add_spec("""        ensures r matches Ok(p) ==> p.1 == eru_energy(self.charge_depleting_model.energy_rate_unit)
            // C08: best case of a plug-in hybrid = the ideal ELECTRIC rate x distance
            && p.0@ == self.charge_depleting_model.ideal_energy_rate@ * conv_DistanceUnit(distance.1, eru_distance(self.charge_depleting_model.energy_rate_unit), distance.0@),""")
    ps = x.fn(PT + "vehicle/default/phev.rs", "impl VehicleType for PHEV :: fn best_case_energy_state")
    ps.rewrite(r"\A(\s*)fn ", r"\1pub fn ", 0, 1, rule="R3")
    ps.rewrite(r"&PHEV::ELECTRIC_FEATURE_NAME\.into\(\)", "&verif_string(PHEV::ELECTRIC_FEATURE_NAME)", 1, 1, rule="R-into")
    ps.name_return("r")
    ps.add_spec("""        requires self.battery_capacity@ != 0real,
                 sm_slot(state_model, PHEV::ELECTRIC_FEATURE_NAME@) != sm_slot(state_model, PHEV::SOC_FEATURE_NAME@),
        ensures final(state)@.len() == old(state)@.len(),
            r is Ok ==> ({
                let e = self.charge_depleting_model.ideal_energy_rate@ * conv_DistanceUnit(distance.1, eru_distance(self.charge_depleting_model.energy_rate_unit), distance.0@);
                let eu = eru_energy(self.charge_depleting_model.energy_rate_unit);
                let (ie, is) = (sm_slot(state_model, PHEV::ELECTRIC_FEATURE_NAME@), sm_slot(state_model, PHEV::SOC_FEATURE_NAME@));
                &&& sv(final(state)@, ie) == sv(old(state)@, ie) + conv_EnergyUnit(eu, sm_energy_unit(state_model, PHEV::ELECTRIC_FEATURE_NAME@), e)
                &&& sv(final(state)@, is) == soc_next(sv(old(state)@, is), conv_EnergyUnit(eu, self.battery_energy_unit, e), self.battery_capacity@)
                &&& forall|j: int| 0 <= j < old(state)@.len() && j != ie && j != is ==> #[trigger] final(state)@[j] == old(state)@[j]
            }),""")
    parts.append("impl PHEV {\n    pub const LIQUID_FEATURE_NAME: &'static str = \"energy_liquid\";\n    pub const ELECTRIC_FEATURE_NAME: &'static str = \"energy_electric\";\n    pub const SOC_FEATURE_NAME: &'static str = \"battery_state\";\n"
                 + pc.text + "\n" + pb.text + "\n" + ps.text + "\n}\n")
    # the three constants must be the code's
    for cname, fname, val in [("ENERGY_FEATURE_NAME", "bev.rs", "energy_electric"), ("SOC_FEATURE_NAME", "bev.rs", "battery_state"),
                              ("LIQUID_FEATURE_NAME", "phev.rs", "energy_liquid"), ("ELECTRIC_FEATURE_NAME", "phev.rs", "energy_electric"), ("SOC_FEATURE_NAME", "phev.rs", "battery_state"), ("ENERGY_FEATURE_NAME", "ice.rs", "energy_liquid")]:
        t = x.src(PT + "vehicle/default/" + fname).text
        import re as _re
        if not _re.search(r"const %s: &'static str = \"%s\";" % (cname, val), t):
            raise G.Undecided("feature-name constant %s in %s changed" % (cname, fname))
    # neighbouring API: the crate's epsilon constant, copied verbatim from energy_model_ops.rs (a change that starts using it still type-checks and meets the contracts)
    import re as _re2
    ops_src = x.src("routee-compass-powertrain/src/routee/energy_model_ops.rs").text
    mz = _re2.search(r"pub const ZERO_ENERGY: f64 = ([0-9.eE+-]+);", ops_src)
    if mz:
        parts.append("pub const ZERO_ENERGY: f64 = %s;\n// A-REAL: the constant denotes its decimal value, which is strictly positive\npub broadcast axiom fn lit_zero_energy() ensures #[trigger] f64_real(ZERO_ENERGY) > 0real;\n" % mz.group(1))
        x.note("copy", "energy_model_ops.rs :: const ZERO_ENERGY = %s (with the axiom that it denotes a strictly positive real)" % mz.group(1))
    parts.append(LEMMAS)
    parts.append("""
// vacuity guard: MUST FAIL
pub fn vacuity_probe(a: &Energy, b: &Energy, c: &Energy) -> (r: f64) requires c@ != 0real ensures false { vehicle_ops::soc_from_battery_and_delta(a, b, c) }
""")
    parts.insert(0, P.literal_axioms(texts, extra=("0.0", "1.0", "100.0")))
    parts.insert(0, P.f64_real())
    return P.wrap("\n".join(parts))
