"""C07 -- VehicleCostRate::map_value for EVERY rate, Combined at any width and nesting depth [V-real, recursion].

Extracted verbatim: enum VehicleCostRate, VehicleCostRate::map_value.  Rules: R-fold (the `mappings.iter().fold(Cost::new(state.0), |acc, f| B)` of the Combined arm written as the
loop it denotes, B verbatim), R1, R4 (Cost / StateVar as one-f64 shims, A-REAL).  Termination of the recursion through `Vec<VehicleCostRate>` is PROVED.
"""
import re
import prelude as P
import genlib as G

F = "routee-compass-core/src/model/cost/vehicle/vehicle_cost_rate.rs"
OBLIGATIONS = ["map_value", "lemma_factor_then_offset"]
MUST_FAIL = ["vacuity_probe"]

SPEC = """
#[derive(Copy, Clone)] pub struct StateVar(pub f64);
/// C07: what a rate maps a state value (a delta) to: nothing, the value, the value times a factor, the value plus an offset, or the rates applied one after the other
pub open spec fn rate_spec(r: VehicleCostRate, x: real) -> real
    decreases r
{
    match r {
        VehicleCostRate::Zero => 0real,
        VehicleCostRate::Raw => x,
        VehicleCostRate::Factor { factor } => x * f64_real(factor),
        VehicleCostRate::Offset { offset } => x + f64_real(offset),
        VehicleCostRate::Combined(ms) => chain_spec(ms@, ms@.len() as int, x),
    }
}
pub open spec fn chain_spec(ms: Seq<VehicleCostRate>, n: int, x: real) -> real
    decreases ms, n
{ if n <= 0 || n > ms.len() { x } else { rate_spec(ms[n - 1], chain_spec(ms, n - 1, x)) } }
"""

LEMMAS = """
/// e.g. [factor f, offset o] maps x to x * f + o (user-defined order)
pub proof fn lemma_factor_then_offset(ms: Seq<VehicleCostRate>, f: f64, o: f64, x: real)
    requires ms.len() == 2, ms[0] == (VehicleCostRate::Factor { factor: f }), ms[1] == (VehicleCostRate::Offset { offset: o })
    ensures chain_spec(ms, 2, x) == x * f64_real(f) + f64_real(o)
{
    assert(chain_spec(ms, 0, x) == x);
    assert(chain_spec(ms, 1, x) == rate_spec(ms[0], chain_spec(ms, 0, x)));
    assert(chain_spec(ms, 2, x) == rate_spec(ms[1], chain_spec(ms, 1, x)));
}
"""


def build(x):
    parts, texts = [], []
    parts.append(P.numtype("Cost"))
    parts.append(P.field_typed("StateVar"))
    en, n = G.strip_inner_attrs(x.item_text(F, "enum VehicleCostRate"))
    x.note("R1", "vehicle_cost_rate.rs: dropped %d serde attributes / doc comments of enum VehicleCostRate" % n)
    parts.append(en + "\n")
    parts.append(SPEC)
    f = x.fn(F, "impl VehicleCostRate :: fn map_value")
    pat = re.compile(r"VehicleCostRate::Combined\(mappings\) => \{\s*mappings\.iter\(\)\.fold\((Cost::new\(state\.0\)), \|acc, f\| \{\s*(.*?)\s*\}\)\s*\}", re.S)
    if len(pat.findall(f.text)) != 1:
        raise G.Undecided("lost anchor: the fold of the Combined arm of map_value")
    loop = ("VehicleCostRate::Combined(mappings) => {\n                proof { assert(decreases_to!(*self => *mappings)); }\n                let mut acc = \\1;\n                let mut verif_i: usize = 0;\n"
            "                while verif_i < mappings.len() {\n                    let f = &mappings[verif_i];\n"
            "                    proof { broadcast use vstd::std_specs::vec::axiom_vec_index_decreases; assert(decreases_to!(*mappings => mappings@[verif_i as int])); }\n"
            "                    acc = { \\2 };\n                    verif_i = verif_i + 1;\n                }\n                acc\n            }")
    f.rewrite(pat.pattern, loop, 1, 1, rule="R-fold", flags=re.S)
    x.note("R-fold", "map_value: `mappings.iter().fold(INIT, |acc, f| { B })` written as `let mut acc = INIT; while i < mappings.len() { let f = &mappings[i]; acc = { B }; i += 1 } acc` (B verbatim)")
    def arm(m):
        op, name = m.group(1), m.group(2)
        ax = "mul" if op == "*" else "add"
        return ("=> { let verif_v: f64 = *%s; proof { areal_%s_req(state.0, verif_v); areal_%s(state.0, verif_v); } Cost::new(state.0 %s verif_v) }," % (name, ax, ax, op))
    f.rewrite(r"=> Cost::new\(state\.0 ([*+]) (factor|offset)\),", arm, 2, 2, rule="R-refeq")
    x.note("R-refeq", "map_value: `state.0 * factor` / `state.0 + offset` with a `&f64` right operand written with the `&f64` operand let-bound by value (`let verif_v: f64 = *factor;`): core's `impl Mul<&f64> for f64` forwards to the value impl, and a local f64 carries the typing this Verus build omits for enum fields")
    f.name_return("r")
    f.add_spec("""        ensures r@ == rate_spec(*self, f64_real(state.0)),
        decreases self,""")
    f.body_start("        broadcast use areal, lits; proof { areal_obeys(); }")
    f.add_loop_spec(1, """                    invariant 0 <= verif_i <= mappings@.len(), decreases_to!(*self => *mappings),
                        acc@ == chain_spec(mappings@, verif_i as int, f64_real(state.0)),
                    decreases mappings@.len() - verif_i,""")
    f.loop_body_start(1, "                    broadcast use areal, lits; proof { areal_obeys(); }")
    texts.append(f.text)
    parts.append("impl VehicleCostRate {\n" + f.text + "\n}\n")
    parts.append(LEMMAS)
    parts.append("""
// vacuity guard: MUST FAIL
pub fn vacuity_probe(r: &VehicleCostRate, s: StateVar) -> (c: Cost) ensures false { r.map_value(s) }
""")
    parts.insert(0, P.literal_axioms(texts, extra=("0.0", "1.0")))
    parts.insert(0, P.f64_real())
    return P.wrap("\n".join(parts))
