"""C07 ("plus the configured per-edge and per-turn surcharges") -- NetworkCostRate::traversal_cost / access_cost for EVERY rate [V-real, recursion].

Extracted verbatim: enum NetworkCostRate, NetworkCostRate::traversal_cost, NetworkCostRate::access_cost.  The lookup tables (`HashMap<EdgeId, Cost>`,
`HashMap<(EdgeId, EdgeId), Cost>`) are opaque maps (R3-dyn); the Combined arms' `mappings.iter().map(|f| F).collect::<Result<Vec<Cost>, _>>()?` and
`mapped.iter().fold(Cost::ZERO, |a, b| a + *b)` are written as the loops they denote (R-trycollect, R-fold; F and the fold body verbatim); `.to_owned()` of a `&Cost`
is a dereference (R-into).  Termination of the recursion through `Vec<NetworkCostRate>` is proved.
"""
import re
import prelude as P
import genlib as G

F = "routee-compass-core/src/model/cost/network/network_cost_rate.rs"
OBLIGATIONS = ["traversal_cost", "access_cost"]
MUST_FAIL = ["vacuity_probe"]

SHIMS = """
#[verifier::external_body] pub struct CostModelError { _p: u8 }
#[derive(Clone, Copy, PartialEq, Eq)] pub struct EdgeId(pub usize);
#[derive(Clone, Copy)] pub struct StateVar(pub f64);
pub struct Edge { pub edge_id: EdgeId }                                   // R3: the field these functions read
// ---- a lookup table as an abstract map (R3-dyn) ----
#[verifier::external_body] #[verifier::reject_recursive_types(K)] #[verifier::reject_recursive_types(V)] pub struct HashMap<K, V> { _k: std::marker::PhantomData<(K, V)> }
impl<K, V> HashMap<K, V> {
    pub uninterp spec fn view(&self) -> Map<K, V>;
    #[verifier::external_body] pub fn get(&self, k: &K) -> (r: Option<&V>)
        ensures r is Some <==> self@.contains_key(*k), r matches Some(v) ==> *v == self@[*k] { unimplemented!() }
}
"""

SPEC = """
/// C07: the surcharge a network rate lists for TRAVERSING an edge: the table row of the edge (nothing when it has none); pair tables do not charge traversals;
/// a combined rate charges the SUM of its members
pub open spec fn trav_spec(r: NetworkCostRate, e: EdgeId) -> real decreases r {
    match r {
        NetworkCostRate::Zero => 0real,
        NetworkCostRate::EdgeLookup { lookup } => if lookup@.contains_key(e) { lookup@[e]@ } else { 0real },
        NetworkCostRate::EdgeEdgeLookup { lookup } => 0real,
        NetworkCostRate::Combined(ms) => trav_sum(ms@, ms@.len() as int, e),
    }
}
pub open spec fn trav_sum(ms: Seq<NetworkCostRate>, n: int, e: EdgeId) -> real decreases ms, n
{ if n <= 0 || n > ms.len() { 0real } else { trav_sum(ms, n - 1, e) + trav_spec(ms[n - 1], e) } }
/// ... and for ENTERING edge e2 from edge e1: the table row of the pair; per-edge tables do not charge accesses
pub open spec fn acc_spec(r: NetworkCostRate, e1: EdgeId, e2: EdgeId) -> real decreases r {
    match r {
        NetworkCostRate::Zero => 0real,
        NetworkCostRate::EdgeLookup { lookup } => 0real,
        NetworkCostRate::EdgeEdgeLookup { lookup } => if lookup@.contains_key((e1, e2)) { lookup@[(e1, e2)]@ } else { 0real },
        NetworkCostRate::Combined(ms) => acc_sum(ms@, ms@.len() as int, e1, e2),
    }
}
pub open spec fn acc_sum(ms: Seq<NetworkCostRate>, n: int, e1: EdgeId, e2: EdgeId) -> real decreases ms, n
{ if n <= 0 || n > ms.len() { 0real } else { acc_sum(ms, n - 1, e1, e2) + acc_spec(ms[n - 1], e1, e2) } }
pub open spec fn vsum(v: Seq<Cost>, n: int) -> real decreases n { if n <= 0 { 0real } else { vsum(v, n - 1) + v[n - 1]@ } }
"""


def combined(f, x, call_regex, member_spec, sum_spec, args):
    """the Combined arm: collect-then-fold written as two loops"""
    pat = re.compile(r"let mapped = mappings\s*\.iter\(\)\s*\.map\(\|f\| (" + call_regex + r")\)\s*\.collect::<Result<Vec<Cost>, CostModelError>>\(\)\?;\s*let cost = mapped\.iter\(\)\.fold\((Cost::\w+), \|a, b\| ([^;]*?)\);", re.S)
    if len(pat.findall(f.text)) != 1:
        raise G.Undecided("lost anchor: the collect / fold of the Combined arm of %s" % f.origin)
    loop = ("proof { assert(decreases_to!(*self => *mappings)); }\n"
            "                let mut mapped: Vec<Cost> = Vec::new();\n                let mut verif_i: usize = 0;\n"
            "                while verif_i < mappings.len()\n"
            "                    invariant 0 <= verif_i <= mappings@.len(), decreases_to!(*self => *mappings), mapped@.len() == verif_i,\n"
            "                        forall|k: int| 0 <= k < verif_i ==> (#[trigger] mapped@[k])@ == %(ms)s(mappings@[k], %(args)s),\n"
            "                    decreases mappings@.len() - verif_i,\n"
            "                {\n                    let f = &mappings[verif_i];\n"
            "                    proof { broadcast use vstd::std_specs::vec::axiom_vec_index_decreases; assert(decreases_to!(*mappings => mappings@[verif_i as int])); }\n"
            "                    let verif_x = (\\1)?;\n                    mapped.push(verif_x);\n                    verif_i = verif_i + 1;\n                }\n"
            "                let mut verif_acc = \\2;\n                let mut verif_j: usize = 0;\n"
            "                while verif_j < mapped.len()\n"
            "                    invariant 0 <= verif_j <= mapped@.len(), mapped@.len() == mappings@.len(), verif_acc@ == %(ss)s(mappings@, verif_j as int, %(args)s),\n"
            "                        forall|k: int| 0 <= k < mapped@.len() ==> (#[trigger] mapped@[k])@ == %(ms)s(mappings@[k], %(args)s),\n"
            "                    decreases mapped@.len() - verif_j,\n"
            "                {\n                    broadcast use areal, lits; proof { areal_obeys(); }\n                    let b = &mapped[verif_j];\n                    let a = verif_acc;\n                    verif_acc = { \\3 };\n                    verif_j = verif_j + 1;\n                }\n"
            "                let cost = verif_acc;") % dict(ms=member_spec, ss=sum_spec, args=args)
    f.rewrite(pat.pattern, loop, 1, 1, rule="R-trycollect", flags=re.S)


def build(x):
    parts, texts = [], []
    parts.append(P.numtype("Cost"))
    parts.append(SHIMS)
    en, n = G.strip_inner_attrs(x.item_text(F, "enum NetworkCostRate"))
    x.note("R1", "network_cost_rate.rs: dropped %d serde attributes / doc comments of enum NetworkCostRate" % n)
    parts.append(en + "\n")
    parts.append(SPEC)
    x.note("R-trycollect", "traversal_cost / access_cost (Combined): `mappings.iter().map(|f| F).collect::<Result<Vec<Cost>, _>>()?` written as a loop pushing `(F)?`; `mapped.iter().fold(Cost::ZERO, |a, b| a + *b)` as the loop it denotes (F and the fold body verbatim)")
    fns = []
    tc = x.fn(F, "impl NetworkCostRate :: fn traversal_cost")
    tc.rewrite(r"lookup\.get\(&edge\.edge_id\)\.unwrap_or\(&Cost::(\w+)\)\.to_owned\(\)", r"*lookup.get(&edge.edge_id).unwrap_or(&Cost::\1)", 0, 1, rule="R-into")
    x.note("R-into", "traversal_cost: `.to_owned()` of a `&Cost` written as a dereference")
    combined(tc, x, r"f\.\w+\([^()]*\)", "trav_spec", "trav_sum", "edge.edge_id")
    tc.name_return("r")
    tc.add_spec("""        ensures r matches Ok(c) ==> c@ == trav_spec(*self, edge.edge_id), r is Ok,
        decreases self,""")
    tc.body_start("        broadcast use areal, lits; proof { areal_obeys(); }")
    fns.append(tc.text)
    ac = x.fn(F, "impl NetworkCostRate :: fn access_cost")
    combined(ac, x, r"f\.\w+\([^()]*\)", "acc_spec", "acc_sum", "prev_edge.edge_id, next_edge.edge_id")
    ac.name_return("r")
    ac.add_spec("""        ensures r matches Ok(c) ==> c@ == acc_spec(*self, prev_edge.edge_id, next_edge.edge_id), r is Ok,
        decreases self,""")
    ac.body_start("        broadcast use areal, lits; proof { areal_obeys(); }")
    fns.append(ac.text)
    texts += fns
    parts.append("impl NetworkCostRate {\n" + "\n".join(fns) + "\n}\n")
    parts.append("""
// vacuity guard: MUST FAIL
pub fn vacuity_probe(r: &NetworkCostRate, s: StateVar, e: &Edge) -> (b: bool) ensures false { r.traversal_cost(s, s, e).is_ok() }
""")
    parts.insert(0, P.literal_axioms(texts, extra=("0.0", "1.0")))
    parts.insert(0, P.f64_real())
    return P.wrap("\n".join(parts))
