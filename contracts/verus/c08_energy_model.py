"""C08 -- EnergyTraversalModel::traverse_edge / estimate_traversal: what the vehicle is asked to consume [V-real].

Extracted verbatim from routee-compass-powertrain/src/routee: energy_traversal_model.rs :: traverse_edge, estimate_traversal;
energy_model_ops.rs :: get_grade; from routee-compass-core: DistanceUnit / TimeUnit / SpeedUnit (+ convert, spec tables generated as in C09),
SpeedUnit::associated_time_unit / associated_distance_unit, From<(Distance, Time)> for Speed, struct Edge.
ASSUMED: the time model (any change of the state vector), the vehicle (uninterpreted deterministic step of the state, keyed by the speed, grade and
distance it is GIVEN -- BEV / PHEV::consume_energy themselves are proved in unit c08_vehicle), StateModel::get_time (contract proved in unit c03_statemodel),
haversine (uninterpreted metres).  Rules: R3 / R3-dyn (`Arc<dyn ..>` components as opaque shims), R-into, R-format, R-tovec.
"""
import re
import prelude as P
import genlib as G
import c04_frontier as C4
import c09_units as C9

R = "routee-compass-powertrain/src/routee/"
U = "routee-compass-core/src/model/unit/"
N = "routee-compass-core/src/model/network/"
OBLIGATIONS = ["traverse_edge", "estimate_traversal", "get_grade", "from"]
MUST_FAIL = ["vacuity_probe"]

SHIMS = """
use std::sync::Arc;
#[derive(Copy, Clone)] pub struct StateVar(pub f64);
#[derive(Copy, Clone, PartialEq, Eq)] pub struct VertexId(pub usize);
#[derive(Copy, Clone, PartialEq, Eq)] pub struct EdgeId(pub usize);
impl EdgeId { pub fn as_usize(&self) -> (r: usize) ensures r == self.0 { self.0 } }
#[verifier::external_body] pub struct StateModel { _p: u8 }
#[verifier::external_body] pub struct StateModelError { _p: u8 }
#[verifier::external_body] pub struct Coord { _p: u8 }
pub struct Vertex { pub vertex_id: VertexId, pub coordinate: Coord }
pub enum TraversalModelError { BuildError(String), TraversalModelFailure(String), Other }
impl vstd::std_specs::convert::FromSpecImpl<StateModelError> for TraversalModelError { open spec fn obeys_from_spec() -> bool { false } open spec fn from_spec(v: StateModelError) -> TraversalModelError { arbitrary() } }
impl From<StateModelError> for TraversalModelError { #[verifier::external_body] fn from(e: StateModelError) -> TraversalModelError { unimplemented!() } }
#[verifier::external_body] pub fn verif_format() -> String { String::new() }
#[verifier::external_body] pub fn verif_string(s: &str) -> (r: String) ensures r@ == s@ { s.to_string() }
#[verifier::external_body] pub fn verif_to_vec(s: &Vec<StateVar>) -> (r: Vec<StateVar>) ensures r@ == s@ { s.to_vec() }
pub open spec fn sv(s: Seq<StateVar>, i: int) -> real { f64_real(s[i].0) }
// ---- StateModel::get_time: contract PROVED in unit c03_statemodel ----
pub uninterp spec fn sm_slot(sm: &StateModel, name: Seq<char>) -> int;
pub uninterp spec fn sm_tunit(sm: &StateModel, name: Seq<char>) -> TimeUnit;
impl StateModel {
    #[verifier::external_body]
    pub fn get_time(&self, state: &[StateVar], name: &String, unit: &TimeUnit) -> (r: Result<Time, StateModelError>)
        ensures r matches Ok(v) ==> 0 <= sm_slot(self, name@) < state@.len() && v@ == conv_TimeUnit(sm_tunit(self, name@), *unit, sv(state@, sm_slot(self, name@)))
    { unimplemented!() }
}
// ---- the time model and the vehicle: opaque, deterministic (R3-dyn) ----
#[verifier::external_body] pub struct TimeModel { _p: u8 }
#[verifier::external_body] pub struct Vehicle { _p: u8 }
pub uninterp spec fn time_step(m: &TimeModel, edge: Edge, s: Seq<StateVar>) -> Seq<StateVar>;
pub uninterp spec fn time_estimate(m: &TimeModel, a: Vertex, b: Vertex, s: Seq<StateVar>) -> Seq<StateVar>;
/// what the vehicle does to the state when asked to consume energy for (speed, grade, distance) in the given units
pub uninterp spec fn vehicle_step(v: &Vehicle, speed: real, su: SpeedUnit, grade: real, gu: GradeUnit, d: real, du: DistanceUnit, s: Seq<StateVar>) -> Seq<StateVar>;
pub uninterp spec fn vehicle_best_case(v: &Vehicle, d: real, du: DistanceUnit, s: Seq<StateVar>) -> Seq<StateVar>;
impl TimeModel {
    #[verifier::external_body]
    pub fn traverse_edge(&self, trajectory: (&Vertex, &Edge, &Vertex), state: &mut Vec<StateVar>, state_model: &StateModel) -> (r: Result<(), TraversalModelError>)
        ensures r is Ok ==> final(state)@ == time_step(self, *trajectory.1, old(state)@) { unimplemented!() }
    #[verifier::external_body]
    pub fn estimate_traversal(&self, od: (&Vertex, &Vertex), state: &mut Vec<StateVar>, state_model: &StateModel) -> (r: Result<(), TraversalModelError>)
        ensures r is Ok ==> final(state)@ == time_estimate(self, *od.0, *od.1, old(state)@) { unimplemented!() }
}
impl Vehicle {
    #[verifier::external_body]
    pub fn consume_energy(&self, speed: (Speed, SpeedUnit), grade: (Grade, GradeUnit), distance: (Distance, DistanceUnit), state: &mut Vec<StateVar>, state_model: &StateModel) -> (r: Result<(), TraversalModelError>)
        ensures r is Ok ==> final(state)@ == vehicle_step(self, speed.0@, speed.1, grade.0@, grade.1, distance.0@, distance.1, old(state)@) { unimplemented!() }
    #[verifier::external_body]
    pub fn best_case_energy_state(&self, distance: (Distance, DistanceUnit), state: &mut Vec<StateVar>, state_model: &StateModel) -> (r: Result<(), TraversalModelError>)
        ensures r is Ok ==> final(state)@ == vehicle_best_case(self, distance.0@, distance.1, old(state)@) { unimplemented!() }
}
pub struct EnergyModelService {
    pub time_model_speed_unit: SpeedUnit, pub grade_table: Arc<Option<Box<[Grade]>>>, pub grade_table_grade_unit: GradeUnit,
    pub time_unit: TimeUnit, pub distance_unit: DistanceUnit,
}
pub struct EnergyTraversalModel { pub energy_model_service: Arc<EnergyModelService>, pub time_model: Arc<TimeModel>, pub vehicle: Arc<Vehicle> }
pub uninterp spec fn hav_m(a: &Coord, b: &Coord) -> real;
pub mod haversine { use super::*;
    #[verifier::external_body]
    pub fn coord_distance(src: &Coord, dst: &Coord, distance_unit: DistanceUnit) -> (r: Result<Distance, String>)
        ensures r matches Ok(d) ==> d@ == conv_DistanceUnit(DistanceUnit::Meters, distance_unit, hav_m(src, dst))
    { unimplemented!() }
}
pub open spec fn su_time(u: SpeedUnit) -> TimeUnit { match u { SpeedUnit::KilometersPerHour => TimeUnit::Hours, SpeedUnit::MilesPerHour => TimeUnit::Hours, SpeedUnit::MetersPerSecond => TimeUnit::Seconds } }
pub open spec fn su_dist(u: SpeedUnit) -> DistanceUnit { match u { SpeedUnit::KilometersPerHour => DistanceUnit::Kilometers, SpeedUnit::MilesPerHour => DistanceUnit::Miles, SpeedUnit::MetersPerSecond => DistanceUnit::Meters } }
pub open spec fn grade_at(t: Option<Box<[Grade]>>, e: EdgeId) -> real { match t { None => 0real, Some(g) => g@[e.0 as int]@ } }
"""


def build(x):
    parts, texts = [], []
    for t in ("Distance", "Time", "Speed", "Grade"):
        parts.append(P.numtype(t))
    parts.append(P.field_typed("StateVar"))
    fam = {}
    for enum, val, fname in [("DistanceUnit", "Distance", "distance_unit.rs"), ("TimeUnit", "Time", "time_unit.rs"), ("SpeedUnit", "Speed", "speed_unit.rs")]:
        fam[enum] = C4.family(x, enum, val, fname)
        texts.append(fam[enum][2])
        parts.append("#[derive(Clone, Copy, PartialEq, Eq)]\n" + fam[enum][0] + "\n")
        parts.append(fam[enum][1])
        parts.append("impl %s {\n    %s\n}\n" % (enum, fam[enum][2]))
    gu, _ = G.strip_inner_attrs(x.item_text(U + "grade_unit.rs", "enum GradeUnit"))
    parts.append("#[derive(Clone, Copy, PartialEq, Eq)]\n" + gu + "\n")
    parts += [x.item_text(U + "builders.rs", "const " + c) + "\n" for c in ("BASE_DISTANCE_UNIT", "BASE_TIME_UNIT", "BASE_SPEED_UNIT")]
    acc = []
    for n, spec in [("associated_time_unit", "su_time"), ("associated_distance_unit", "su_dist")]:
        f = x.fn(U + "speed_unit.rs", "impl SpeedUnit :: fn " + n)
        f.name_return("r")
        f.add_spec("        ensures r == %s(*self)," % spec)
        acc.append(f.text)
    ff = x.fn(U + "speed.rs", "impl From<(Distance, Time)> for Speed :: fn from")
    ff.name_return("r")
    ff.add_spec("        ensures f64_real(value.1.0) != 0real ==> r@ == value.0@ / value.1@,")
    ff.body_start("        broadcast use areal; proof { areal_obeys(); }")
    texts.append(ff.text)
    edge = x.item_text(N + "edge.rs", "struct Edge")
    parts.append("#[derive(Copy, Clone)]\n" + edge + "\n")
    parts.append(SHIMS)
    parts.append("impl SpeedUnit {\n" + "\n".join(acc) + "\n}\n")
    parts.append("impl vstd::std_specs::convert::FromSpecImpl<(Distance, Time)> for Speed { open spec fn obeys_from_spec() -> bool { false } open spec fn from_spec(v: (Distance, Time)) -> Speed { arbitrary() } }\n"
                 "impl From<(Distance, Time)> for Speed {\n" + ff.text + "\n}\n")
    gg = x.fn(R + "energy_model_ops.rs", "fn get_grade")
    gg.replace_macro_calls(r"format", "verif_format()")
    gg.name_return("r")
    gg.add_spec("""    ensures r matches Ok(g) ==> g@ == grade_at(*grade_table, edge_id) && (grade_table matches Some(t) ==> edge_id.0 < t@.len()),
            grade_table is None ==> r is Ok,""")
    gg.body_start("    broadcast use areal, lits; proof { areal_obeys(); }")
    texts.append(gg.text)
    parts.append(gg.text + "\n")
    src = x.src(R + "energy_traversal_model.rs").text
    if not re.search(r"const TIME: &'static str = \"time\";", src):
        raise G.Undecided("feature-name constant TIME in energy_traversal_model.rs changed")
    te = x.fn(R + "energy_traversal_model.rs", "impl TraversalModel for EnergyTraversalModel :: fn traverse_edge")
    te.rewrite(r"\A(\s*)fn ", r"\1pub fn ", 0, 1, rule="R3")
    te.rewrite(r"&Self::TIME\.into\(\)", "&verif_string(Self::TIME)", 2, 2, rule="R-into")
    te.rewrite(r"let prev = state\.to_vec\(\);", "let prev = verif_to_vec(state);", 1, 1, rule="R-tovec")
    te.name_return("r")
    te.add_spec("""        ensures r is Ok ==> ({
            let svc = &self.energy_model_service; let edge = *trajectory.1;
            let su = svc.time_model_speed_unit;
            let s1 = time_step(&*self.time_model, edge, old(state)@);
            let it = sm_slot(state_model, Self::TIME@);
            // the time the time model added for this edge, in the speed unit's own time unit
            let dt = conv_TimeUnit(sm_tunit(state_model, Self::TIME@), su_time(su), sv(s1, it)) - conv_TimeUnit(sm_tunit(state_model, Self::TIME@), su_time(su), sv(old(state)@, it));
            // C08: the vehicle is asked to consume energy for THIS edge: its length (in the service's distance unit), the grade of the edge from the grade table
            // (0 without a table), and the speed = length in the speed unit's own distance unit / that time
            dt != 0real ==> final(state)@ == vehicle_step(&*self.vehicle,
                conv_DistanceUnit(BASE_DISTANCE_UNIT, su_dist(su), edge.distance@) / dt, su,
                grade_at(*svc.grade_table, edge.edge_id), svc.grade_table_grade_unit,
                conv_DistanceUnit(BASE_DISTANCE_UNIT, svc.distance_unit, edge.distance@), svc.distance_unit, s1)
        }),""")
    te.body_start("        broadcast use areal, lits; proof { areal_obeys(); }")
    es = x.fn(R + "energy_traversal_model.rs", "impl TraversalModel for EnergyTraversalModel :: fn estimate_traversal")
    es.rewrite(r"\A(\s*)fn ", r"\1pub fn ", 0, 1, rule="R3")
    es.replace_macro_calls(r"format", "verif_format()")
    es.rewrite(r"\.map_err\(\|e\| \{", ".map_err(|e: String| -> (er: TraversalModelError) {", 1, 1, rule="R-closure")
    es.name_return("r")
    es.add_spec("""        ensures r is Ok ==> ({
            let svc = &self.energy_model_service;
            let d = conv_DistanceUnit(DistanceUnit::Meters, svc.distance_unit, hav_m(&od.0.coordinate, &od.1.coordinate));
            &&& d == 0real ==> final(state)@ == old(state)@
            // the estimate is the time model's estimate followed by the vehicle's best case for the straight-line length
            &&& d != 0real ==> final(state)@ == vehicle_best_case(&*self.vehicle, d, svc.distance_unit, time_estimate(&*self.time_model, *od.0, *od.1, old(state)@))
        }),""")
    es.body_start("        broadcast use areal, lits; proof { areal_obeys(); }")
    for f in (te, es):
        texts.append(f.text)
    parts.append("impl EnergyTraversalModel {\n    pub const TIME: &'static str = \"time\";\n" + te.text + "\n" + es.text + "\n}\n")
    x.note("R3", "`impl TraversalModel for EnergyTraversalModel` methods written as inherent pub fns; `Arc<dyn TraversalModel>` / `Arc<dyn VehicleType>` as opaque deterministic shims (R3-dyn); the &'static str constant copied by value (checked against the source)")
    parts.append("""
// vacuity guard: MUST FAIL
pub fn vacuity_probe(t: &Option<Box<[Grade]>>, e: EdgeId) -> (r: bool) ensures false { get_grade(t, e).is_ok() }
""")
    parts.insert(0, P.literal_axioms(texts, extra=("0.0", "1.0")))
    parts.insert(0, P.f64_real())
    return P.wrap("\n".join(parts))
