"""helpers shared by the Verus unit builders"""
import re, sys, os
sys.path.insert(0, os.path.join(os.path.dirname(os.path.abspath(__file__)), "..", "..", "lib"))
import rsx
from driver import Undecided


def enum_variants(enum_text):
    """variant names of a field-less enum, from its verbatim text"""
    toks = rsx.tokenize(enum_text)
    i = next(k for k, t in enumerate(toks) if t.s == "{")
    out = []
    j = i + 1
    while toks[j].s != "}":
        if toks[j].s == "#":
            j = rsx.match_close(toks, j + 1) + 1
            continue
        if toks[j].k == "doc":
            j += 1
            continue
        if toks[j].k == "id":
            out.append(toks[j].s)
            j += 1
            if toks[j].s in ("(", "{"):
                raise Undecided("enum with payload not supported here")
            if toks[j].s == ",":
                j += 1
            continue
        j += 1
    return out


def strip_inner_attrs(text):
    """drop `#[...]` attributes and doc comments inside an item body (rule R1)"""
    toks = rsx.tokenize(text)
    cut = []
    i = 0
    while i < len(toks):
        if toks[i].s == "#" and i + 1 < len(toks) and toks[i + 1].s == "[":
            c = rsx.match_close(toks, i + 1)
            cut.append((toks[i].a, toks[c].b))
            i = c + 1
            continue
        if toks[i].k == "doc":
            cut.append((toks[i].a, toks[i].b))
        i += 1
    for a, b in reversed(cut):
        text = text[:a] + text[b:]
    return text, len(cut)


def match_arms(fn_text, enum_name):
    """arms of the single `match (self, target) { (A::X, A::Y) => EXPR, ... }` of a convert function.
    returns list of (from_variant, to_variant, expr_text)"""
    toks = rsx.tokenize(fn_text)
    ms = [i for i, t in enumerate(toks) if t.k == "id" and t.s == "match"]
    if len(ms) != 1:
        raise Undecided("convert function: expected exactly one match, found %d" % len(ms))
    i = ms[0]
    hdr = rsx.norm(fn_text[toks[i + 1].a:toks[rsx.match_close(toks, i + 1)].b])
    if hdr != "(self,target)":
        raise Undecided("convert function: match scrutinee is %s, expected (self, target)" % hdr)
    o = rsx.match_close(toks, i + 1) + 1
    if toks[o].s != "{":
        raise Undecided("convert function: match without block")
    c = rsx.match_close(toks, o)
    # alias: `use X as S;`
    alias = {enum_name: enum_name}
    for m in re.finditer(r"use\s+(\w+)\s+as\s+(\w+)\s*;", fn_text):
        alias[m.group(2)] = m.group(1)
    arms = []
    j = o + 1
    while j < c:
        if toks[j].s != "(":
            raise Undecided("convert function: arm pattern is not a tuple at offset %d" % toks[j].a)
        pc = rsx.match_close(toks, j)
        pat = rsx.norm(fn_text[toks[j].a:toks[pc].b])
        m = re.fullmatch(r"\((\w+)::(\w+),(\w+)::(\w+)\)", pat)
        if not m or alias.get(m.group(1)) != enum_name or alias.get(m.group(3)) != enum_name:
            raise Undecided("convert function: unsupported arm pattern %s" % pat)
        if toks[pc + 1].s != "=>":
            raise Undecided("convert function: arm guard not supported")
        k = pc + 2
        start = k
        while k < c and toks[k].s != ",":
            if toks[k].s in ("(", "[", "{"):
                k = rsx.match_close(toks, k)
            k += 1
        expr = fn_text[toks[start].a:toks[k - 1].b]
        arms.append((m.group(2), m.group(4), expr))
        j = k + 1
    return arms


def real_expr(expr, var="value", out="v"):
    """translate an arm expression over `*value`, decimal literals, + - * / and parentheses into a `real` spec expression"""
    toks = rsx.tokenize(expr)
    res = []
    i = 0
    prev_operand = False
    while i < len(toks):
        t = toks[i]
        if t.k == "p" and t.s == "*" and not prev_operand and i + 1 < len(toks) and toks[i + 1].s == var:
            res.append(out)
            i += 2
            prev_operand = True
            continue
        if t.k == "id" and t.s == var:
            res.append(out)
            prev_operand = True
        elif t.k == "num":
            s = t.s.replace("_", "")
            s = re.sub(r"f64$", "", s)
            if not re.fullmatch(r"\d+(\.\d+)?", s):
                raise Undecided("unsupported literal %s in arm expression %r" % (t.s, expr))
            res.append(s + "real")
            prev_operand = True
        elif t.k == "p" and t.s in ("+", "-", "*", "/"):
            res.append(t.s)
            prev_operand = False
        elif t.k == "p" and t.s in ("(", ")"):
            res.append(t.s)
            prev_operand = (t.s == ")")
        else:
            raise Undecided("unsupported token %r in arm expression %r" % (t.s, expr))
        i += 1
    return " ".join(res)


def conv_spec(name, enum_name, arms):
    lines = ["pub open spec fn %s(a: %s, b: %s, v: real) -> real {" % (name, enum_name, enum_name), "    match (a, b) {"]
    for f, t, e in arms:
        lines.append("        (%s::%s, %s::%s) => %s," % (enum_name, f, enum_name, t, real_expr(e)))
    lines += ["    }", "}"]
    return "\n".join(lines) + "\n"
