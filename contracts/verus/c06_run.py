"""C06 / C19 / C12 -- CompassApp::run: the stages of a batch and what reaches the caller and the response writer [V, R-ghost].

Extracted verbatim: CompassApp::run.  What is NOT in it: the three rayon / itertools pipelines -- the input-plugin stage (`par_chunks .. partition_map .. unzip`),
run_batch_with_responses and run_batch_without_responses -- are opaque helpers whose contracts ARE THE ASSUMPTION ABOUT RAYON (every element is processed exactly once,
results keep the order of the input; Kani has no threads, Verus has no model of rayon): each query contributes the queries input processing made of it and the
error responses of those a plugin rejected; every balanced query is run once and written once; with responses kept, one response per balanced query comes back.  Progress bars, logging and `eprintln!`
are dropped (R7).  A ghost counter of `write_response` calls is threaded through (R-ghost).  What remains is the verbatim ORDER of the stages, the `?` exits, the early
return and the choice between the two persistence policies -- the places where a wiring slip silently loses responses or records.
"""
import re
import genlib as G

F = "routee-compass/src/app/compass/compass_app.rs"
OBLIGATIONS = ["run"]
MUST_FAIL = ["vacuity_probe"]

HEAD = """#![allow(unused_imports, unused_variables, dead_code, unused_mut, unused_parens, unused_assignments)]
use vstd::prelude::*;
use std::sync::Arc;
verus! {
#[verifier::external_body] pub struct Value { _p: u8 }                 // serde_json::Value
#[verifier::external_body] pub struct CompassAppError { _p: u8 }
#[verifier::external_body] pub struct InputPlugins { _p: u8 }          // Vec<Arc<dyn InputPlugin>>
#[verifier::external_body] pub struct OutputPlugins { _p: u8 }         // Vec<Arc<dyn OutputPlugin>>
#[verifier::external_body] pub struct SearchApp { _p: u8 }
#[verifier::external_body] pub struct ResponseSink { _p: u8 }
#[verifier::external_body] pub struct ResponseOutputPolicy { _p: u8 }
#[verifier::external_body] pub struct ProgressBar { _p: u8 }           // Arc<Mutex<kdam::Bar>>
#[derive(Clone, Copy)] pub enum ResponsePersistencePolicy { PersistResponseInMemory, DiscardResponseFromMemory }
#[derive(Clone, Copy)] pub enum SearchOrientation { Vertex, Edge }
pub enum CompassConfigurationField { Parallelism, ResponsePersistencePolicy, ResponseOutputPolicy }
impl CompassConfigurationField {
    pub uninterp spec fn name(&self) -> Seq<char>;
    #[verifier::external_body] pub fn to_str(&self) -> (r: &'static str) ensures r@ == self.name() { unimplemented!() }
}
/// R3: the fields `run` reads
pub struct CompassApp {
    pub search_app: SearchApp,
    pub input_plugins: InputPlugins,
    pub output_plugins: OutputPlugins,
    pub parallelism: usize,
    pub search_orientation: SearchOrientation,
    pub response_persistence_policy: ResponsePersistencePolicy,
    pub response_output_policy: ResponseOutputPolicy,
}
/// rule R-ghost: how many times the response writer was asked to write (erased at run time)
pub tracked struct Log { pub ghost writes: nat }
// ---- run configuration: what the caller overrides for this run (None: not overridden) ----
pub uninterp spec fn cfg<T>(config: Option<&Value>, key: Seq<char>) -> Option<Option<T>>;
#[verifier::external_body] pub fn get_optional_run_config<T>(key: &&str, ctx: &&str, config: Option<&Value>) -> (r: Result<Option<T>, CompassAppError>)
    ensures r is Ok <==> cfg::<T>(config, key@) is Some, r matches Ok(v) ==> Some(v) == cfg::<T>(config, key@) { unimplemented!() }
impl Clone for ResponseOutputPolicy { #[verifier::external_body] fn clone(&self) -> (r: Self) ensures r == *self { unimplemented!() } }
impl ResponseOutputPolicy { #[verifier::external_body] pub fn build(&self) -> Result<ResponseSink, CompassAppError> { unimplemented!() } }   // unit c19_sink
impl ResponseSink {
    /// unit c19_sink has the contract of the real function; here: one more write asked of the writer (on failure too: the attempt was made)
    #[verifier::external_body] pub fn write_response(&self, response: &mut Value, Tracked(log): Tracked<&mut Log>) -> (r: Result<(), CompassAppError>)
        ensures final(log).writes == old(log).writes + 1 { unimplemented!() }
}
#[verifier::external_body] pub fn verif_progress_bar(total: usize) -> Result<ProgressBar, CompassAppError> { unimplemented!() }
/// the chunk size handed to rayon (its `>= 1` is a Kani obligation of C12, rule R10)
#[verifier::external_body] pub fn verif_chunk_size(n: usize, parallelism: usize) -> (r: usize) ensures r >= 1 { unimplemented!() }
// ---- the input-plugin stage: ASSUMED (rayon par_chunks + itertools partition_map + unzip): every query is processed exactly once, order kept ----
/// what input processing (apply_input_plugins) makes of one query: the queries to run (the query itself, or the ones it was expanded into, minus those a plugin
/// rejected) and the error responses of the rejected ones
pub uninterp spec fn expansions(q: Value, p: &InputPlugins) -> (Seq<Value>, Seq<Value>);
pub open spec fn accepted_total(qs: Seq<Value>, p: &InputPlugins, n: int) -> nat decreases n
{ if n <= 0 || n > qs.len() { 0 } else { accepted_total(qs, p, n - 1) + expansions(qs[n - 1], p).0.len() } }
pub open spec fn rejected_total(qs: Seq<Value>, p: &InputPlugins, n: int) -> nat decreases n
{ if n <= 0 || n > qs.len() { 0 } else { rejected_total(qs, p, n - 1) + expansions(qs[n - 1], p).1.len() } }
pub open spec fn total2(v: Seq<Vec<Vec<Value>>>, n: int) -> nat decreases n { if n <= 0 || n > v.len() { 0 } else { total2(v, n - 1) + total1(v[n - 1]@, v[n - 1]@.len() as int) } }
pub open spec fn total1(v: Seq<Vec<Value>>, n: int) -> nat decreases n { if n <= 0 || n > v.len() { 0 } else { total1(v, n - 1) + v[n - 1]@.len() } }
#[verifier::external_body]
pub fn verif_input_stage(queries: &Vec<Value>, chunk: usize, plugins: &InputPlugins, pb: &ProgressBar) -> (r: (Vec<Vec<Vec<Value>>>, Vec<Vec<Value>>))
    requires chunk >= 1
    ensures total2(r.0@, r.0@.len() as int) == accepted_total(queries@, plugins, queries@.len() as int),
            total1(r.1@, r.1@.len() as int) == rejected_total(queries@, plugins, queries@.len() as int),
{ unimplemented!() }
#[verifier::external_body] pub fn verif_flatten2(v: Vec<Vec<Vec<Value>>>) -> (r: Vec<Value>) ensures r@.len() == total2(v@, v@.len() as int) { unimplemented!() }
#[verifier::external_body] pub fn verif_flatten1(v: Vec<Vec<Value>>) -> (r: Vec<Value>) ensures r@.len() == total1(v@, v@.len() as int) { unimplemented!() }
#[verifier::external_body] pub fn verif_total(v: &Vec<Vec<Value>>) -> (r: usize) ensures r == total1(v@, v@.len() as int) { unimplemented!() }
#[verifier::external_body] pub fn verif_index_mut(v: &mut Vec<Value>, i: usize) -> (r: &mut Value) requires i < old(v)@.len() ensures final(v)@.len() == old(v)@.len() { &mut v[i] }
pub mod ops { use super::*;
    /// contract proved in unit c06_balance: the bins partition the batch; no bins for an empty batch; parallelism 0 is an error; otherwise never an error
    #[verifier::external_body] pub fn apply_load_balancing_policy(queries: &Vec<Value>, parallelism: usize, default: f64) -> (r: Result<Vec<Vec<Value>>, CompassAppError>)
        ensures r matches Ok(b) ==> total1(b@, b@.len() as int) == queries@.len() && (queries@.len() == 0 ==> b@.len() == 0) && (queries@.len() > 0 ==> b@.len() > 0),
                parallelism > 0 ==> r is Ok { unimplemented!() }
}
// ---- the two batch runners: ASSUMED (rayon par_iter + collect): every balanced query is run once and its response written once; with responses kept, one per query ----
#[verifier::external_body] pub struct ResponseIter { _p: u8 }          // Box<dyn Iterator<Item = Value>>
impl ResponseIter { pub uninterp spec fn count(&self) -> nat; }
#[verifier::external_body]
pub fn run_batch_with_responses(load_balanced_inputs: &Vec<Vec<Value>>, search_orientation: &SearchOrientation, output_plugins: &OutputPlugins, search_app: &SearchApp,
    response_writer: &ResponseSink, pb: ProgressBar, Tracked(log): Tracked<&mut Log>) -> (r: Result<ResponseIter, CompassAppError>)
    ensures r matches Ok(it) ==> it.count() == total1(load_balanced_inputs@, load_balanced_inputs@.len() as int)
            && final(log).writes == old(log).writes + total1(load_balanced_inputs@, load_balanced_inputs@.len() as int),
{ unimplemented!() }
#[verifier::external_body]
pub fn run_batch_without_responses(load_balanced_inputs: &Vec<Vec<Value>>, search_orientation: &SearchOrientation, output_plugins: &OutputPlugins, search_app: &SearchApp,
    response_writer: &ResponseSink, pb: ProgressBar, Tracked(log): Tracked<&mut Log>) -> (r: Result<ResponseIter, CompassAppError>)
    ensures r matches Ok(it) ==> it.count() == 0
            && final(log).writes == old(log).writes + total1(load_balanced_inputs@, load_balanced_inputs@.len() as int),
{ unimplemented!() }
#[verifier::external_body] pub fn verif_collect(it: ResponseIter) -> (r: Vec<Value>) ensures r@.len() == it.count() { unimplemented!() }
/// `iter.chain(error_inputs).collect()`
#[verifier::external_body] pub fn verif_chain_collect(it: ResponseIter, tail: Vec<Value>) -> (r: Vec<Value>) ensures r@.len() == it.count() + tail@.len() { unimplemented!() }
"""


def build(x):
    parts = [HEAD]
    f = x.fn(F, "impl CompassApp :: fn run")
    f.rewrite(r"queries: Vec<serde_json::Value>,", "queries: Vec<Value>,", 1, 1, rule="R-path")
    f.rewrite(r"config: Option<&serde_json::Value>,\s*\) -> Result<Vec<serde_json::Value>, CompassAppError>", "config: Option<&Value>,\n        Tracked(log): Tracked<&mut Log>,\n    ) -> Result<Vec<Value>, CompassAppError>", 1, 1, rule="R-ghost")
    f.strip_macro_stmts(r"log::\w+")
    f.strip_macro_stmts(r"eprintln")
    f.rewrite(r"\.unwrap_or_else\(\|\| self\.response_output_policy\.clone\(\)\)", ".unwrap_or_else(|| -> (verif_c: ResponseOutputPolicy) ensures verif_c == self.response_output_policy { self.response_output_policy.clone() })", 1, 1, rule="R-closure")
    # progress bars (R7)
    pb = r"let (\w+) = Bar::builder\(\)\s*\.total\((\w+(?:\.len\(\))?)\)(?:\s*\.\w+\((?:\"[^\"]*\")?\))*\s*\.map_err\(\|e\| \{\s*CompassAppError::InternalError\(format!\((?:[^()]|\([^()]*\))*\)\)\s*\}\)\?;\s*let (\w+) = Arc::new\(Mutex::new\(\1\)\);"
    f.rewrite(pb, r"let \3 = verif_progress_bar(\2)?;", 2, 2, rule="R7")
    x.note("R7", "run: the two progress bars (`Bar::builder()..build().map_err(..)?; Arc::new(Mutex::new(..))`) written verif_progress_bar(total)? (can fail, as in the real code); log::info! / eprintln! statements removed; the `proc_batch_sizes` vector that only feeds a log statement removed")
    f.rewrite(r"let plugin_chunk_size =\s*\(\(queries\.len\(\) as f64 / self\.parallelism as f64\)\.ceil\(\) as usize\)\.max\(1\);", "let plugin_chunk_size = verif_chunk_size(queries.len(), self.parallelism);", 1, 1, rule="R-cast")
    # the input stage
    pat = re.compile(r"let input_plugin_result: \(Vec<_>, Vec<_>\) = queries\s*\.par_chunks\(plugin_chunk_size\).*\.unzip\(\);(?=\s*(?://[^\n]*\n\s*)*let \(processed_inputs_nested, error_inputs_nested\))", re.S)
    if len(pat.findall(f.text)) != 1:
        raise G.Undecided("lost anchor: the input-plugin stage of CompassApp::run")
    f.rewrite(pat.pattern, "let input_plugin_result: (Vec<Vec<Vec<Value>>>, Vec<Vec<Value>>) = verif_input_stage(&queries, plugin_chunk_size, &self.input_plugins, &input_pb_shared);", 1, 1, rule="R-rayon", flags=re.S)
    x.note("R-rayon", "run: the input-plugin stage `queries.par_chunks(n).map(|qs| qs.iter().map(|q| apply_input_plugins(q, ..)).partition_map(..)).unzip()` written verif_input_stage(..); run_batch_with_responses / run_batch_without_responses are opaque -- ASSUMED: rayon processes every element exactly once and keeps the order")
    f.rewrite(r"processed_inputs_nested\s*\.into_iter\(\)\s*\.flatten\(\)\s*\.flatten\(\)\s*\.collect\(\)", "verif_flatten2(processed_inputs_nested)", 1, 1, rule="R-collect")
    f.rewrite(r"error_inputs_nested\.into_iter\(\)\.flatten\(\)\.collect\(\)", "verif_flatten1(error_inputs_nested)", 1, 1, rule="R-collect")
    f.rewrite(r"let proc_batch_sizes = load_balanced_inputs\s*\.iter\(\)\s*\.map\(\|qs\| qs\.len\(\)\)\s*\.collect::<Vec<_>>\(\);", "", 0, 1, rule="R7")
    f.rewrite(r"load_balanced_inputs\s*\.iter\(\)\s*\.flatten\(\)\s*\.collect::<Vec<_>>\(\)\s*\.len\(\)", "verif_total(&load_balanced_inputs)", 1, 1, rule="R-collect")
    # the loop that writes the rejected queries' responses
    loop_pat = r"for error_response in error_inputs\.iter_mut\(\) \{"
    f.rewrite(loop_pat, "let mut verif_k: usize = 0;\n        while verif_k < error_inputs.len()\n            invariant verif_k <= error_inputs@.len(), error_inputs@.len() == verif_n_err, log.writes == old(log).writes + verif_k,\n            decreases error_inputs@.len() - verif_k,\n        { let error_response = verif_index_mut(&mut error_inputs, verif_k); verif_k = verif_k + 1;", 0, 1, rule="R9-index")
    x.note("R9-index", "run: `for error_response in error_inputs.iter_mut() { B }` written as an index loop with `let error_response = &mut error_inputs[k]` (through verif_index_mut); B verbatim")
    f.insert_before(r"let mut verif_k: usize = 0;", "let ghost verif_n_err = error_inputs@.len();\n        ", count=1) if "verif_k" in f.text else None
    f.rewrite(r"\.write_response\((\w+)\)", r".write_response(\1, Tracked(log))", 0, 4, rule="R-ghost")
    f.rewrite(r"(run_batch_with(?:out)?_responses)\(((?:[^()]|\([^()]*\))*?),?\s*\)\?", r"\1(\2, Tracked(log))?", 0, 2, rule="R-ghost")
    x.note("R-ghost", "run: a ghost parameter `Tracked(log): Tracked<&mut Log>` (a counter of write_response calls) is added to the signature and passed to write_response and to the two batch runners")
    f.rewrite(r"run_query_result\.chain\(error_inputs\)\.collect\(\)", "verif_chain_collect(run_query_result, error_inputs)", 0, 1, rule="R-collect")
    f.rewrite(r"run_query_result\.collect\(\)", "verif_collect(run_query_result)", 0, 1, rule="R-collect")
    f.name_return("r")
    f.add_spec("""        ensures
            // C06: one response per query reaches the caller -- every rejected query's error response, and (with responses kept in memory) one response per query that
            // input processing made of the accepted ones -- and
            // C19: the response writer is asked to write EVERY response of the batch exactly once: rejected and run, whether or not responses are kept
            r matches Ok(v) ==> ({
                let persist = (match cfg::<ResponsePersistencePolicy>(config, CompassConfigurationField::ResponsePersistencePolicy.name()) { Some(Some(p)) => p, _ => self.response_persistence_policy }) is PersistResponseInMemory;
                let accepted = accepted_total(queries@, &self.input_plugins, queries@.len() as int);
                let rejected = rejected_total(queries@, &self.input_plugins, queries@.len() as int);
                &&& v@.len() == (if persist { accepted } else { 0nat }) + rejected
                &&& final(log).writes == old(log).writes + accepted + rejected
            }),""")
    parts.append("impl CompassApp {\n" + f.text + "\n}\n")
    parts.append("""
// vacuity guard: MUST FAIL
pub fn vacuity_probe(a: &CompassApp, q: Vec<Value>, Tracked(log): Tracked<&mut Log>) -> (b: bool) ensures false { a.run(q, None, Tracked(log)).is_ok() }
} // verus!
fn main() {}
""")
    return "\n".join(parts)
