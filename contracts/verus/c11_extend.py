"""C11.2 -- StateModel::extend: the per-query model is the configured one with every declared entry inserted [V, unbounded].

Extracted verbatim from routee-compass-core/src/model/state/state_model.rs: StateModel::extend, StateModel::len / is_empty /
contains_key.  The feature container is represented by the contract PROVED in unit c11_container (insert on the abstract
(slot map, value map, size)), with String keys viewed as Seq<char>.
Rules: R-collect (the cloning pipeline `self.0.iter().map(|(k, v)| (k.clone(), v.clone())).collect::<CompactOrderedHashMap<_, _>>()`
written verif_clone_map(&self.0): ASSUMED to give an equal container -- iteration in slot order and re-insertion, cf. the C11
witnesses), R-flatmap (`entries.into_iter().flat_map(|(name, new)| M).collect::<Vec<_>>()` with M: Option<_> written as the loop
`for (name, new) in entries { if let Some(v) = M { overwrites.push(v) } }`, M verbatim), R-format (error text).
"""
import re
import sys, os
import genlib as G
sys.path.insert(0, os.path.join(os.path.dirname(os.path.abspath(__file__)), "..", "..", "lib"))
import rsx

F = "routee-compass-core/src/model/state/state_model.rs"
OBLIGATIONS = ["extend", "len", "is_empty", "contains_key", "lemma_extend_keeps_slots", "lemma_extend_last_declaration_wins"]
MUST_FAIL = ["vacuity_probe"]

HEAD = """#![allow(unused_imports, unused_variables, dead_code, unused_mut, unused_parens, unused_assignments)]
use vstd::prelude::*;
use vstd::std_specs::cmp::*;
verus! {
#[verifier::external_body] pub struct StateFeature { _p: u8 }
/// StateFeature's hand-written PartialEq (compares kind and unit only): uninterpreted -- equal-by-eq does NOT mean identical
pub uninterp spec fn feat_eq(a: StateFeature, b: StateFeature) -> bool;
impl PartialEqSpecImpl for StateFeature { open spec fn obeys_eq_spec() -> bool { true } open spec fn eq_spec(&self, o: &StateFeature) -> bool { feat_eq(*self, *o) } }
impl PartialEq for StateFeature { #[verifier::external_body] fn eq(&self, o: &StateFeature) -> (r: bool) { unimplemented!() } }
impl Clone for StateFeature { #[verifier::external_body] fn clone(&self) -> (r: StateFeature) ensures r == *self { unimplemented!() } }
pub enum StateModelError { BuildError(String), Other }
#[verifier::external_body] pub fn verif_format() -> String { String::new() }

// ---- CompactOrderedHashMap<String, StateFeature> by its contract (unit c11_container) ----
pub struct MapView { pub idx: Map<Seq<char>, nat>, pub val: Map<Seq<char>, StateFeature>, pub size: nat }
/// the abstract effect of CompactOrderedHashMap::insert, exactly as proved in unit c11_container
pub open spec fn ins(s: MapView, k: Seq<char>, v: StateFeature) -> MapView {
    MapView { idx: if s.idx.contains_key(k) { s.idx } else { s.idx.insert(k, s.size) }, val: s.val.insert(k, v),
              size: if s.idx.contains_key(k) { s.size } else { s.size + 1 } }
}
pub open spec fn mv_wf(s: MapView) -> bool {
    &&& s.idx.dom() == s.val.dom()
    &&& forall|k: Seq<char>| #[trigger] s.idx.contains_key(k) ==> s.idx[k] < s.size
    &&& forall|a: Seq<char>, b: Seq<char>| s.idx.contains_key(a) && s.idx.contains_key(b) && a != b ==> #[trigger] s.idx[a] != #[trigger] s.idx[b]
}
#[verifier::external_body] pub struct FeatureMap { _p: u8 }
impl FeatureMap {
    pub uninterp spec fn view(&self) -> MapView;
    #[verifier::external_body] pub fn insert(&mut self, k: String, v: StateFeature) -> (r: Option<StateFeature>)
        requires mv_wf(old(self)@), old(self)@.size < usize::MAX - 1,
        ensures mv_wf(final(self)@), final(self)@ == ins(old(self)@, k@, v),
                r is Some <==> old(self)@.val.contains_key(k@), r is Some ==> r->Some_0 == old(self)@.val[k@],
    { unimplemented!() }
    #[verifier::external_body] pub fn len(&self) -> (r: usize) ensures r == self@.size { unimplemented!() }
    #[verifier::external_body] pub fn is_empty(&self) -> (r: bool) ensures r == (self@.size == 0) { unimplemented!() }
    #[verifier::external_body] pub fn contains_key(&self, k: &String) -> (r: bool) requires mv_wf(self@) ensures r == self@.val.contains_key(k@) { unimplemented!() }
    #[verifier::external_body] pub fn get(&self, k: &String) -> (r: Option<&StateFeature>) requires mv_wf(self@)
        ensures r is Some <==> self@.val.contains_key(k@), r is Some ==> *r->Some_0 == self@.val[k@] { unimplemented!() }
}
/// rule R-collect (ASSUMED): cloning every (key, value) in slot order and collecting gives an equal container
#[verifier::external_body] pub fn verif_clone_map(m: &FeatureMap) -> (r: FeatureMap) ensures r@ == m@ { unimplemented!() }

pub struct StateModel(pub FeatureMap);

/// the declared entries inserted one after the other
pub open spec fn ins_all(s: MapView, es: Seq<(String, StateFeature)>, n: int) -> MapView
    decreases n
{ if n <= 0 { s } else { ins(ins_all(s, es, n - 1), es[n - 1].0@, es[n - 1].1) } }
/// some declared entry meets an existing feature of the same name that is different under StateFeature's ==
pub open spec fn conflict(s: MapView, es: Seq<(String, StateFeature)>, n: int) -> bool {
    exists|j: int| 0 <= j < n && #[trigger] ins_all(s, es, j).val.contains_key(es[j].0@) && !feat_eq(ins_all(s, es, j).val[es[j].0@], es[j].1)
}
pub proof fn lemma_ins_wf(s: MapView, k: Seq<char>, v: StateFeature)
    requires mv_wf(s)
    ensures mv_wf(ins(s, k, v))
{ assert(ins(s, k, v).idx.dom() =~= ins(s, k, v).val.dom()); }
pub proof fn lemma_ins_all_wf(s: MapView, es: Seq<(String, StateFeature)>, n: int)
    requires mv_wf(s), 0 <= n <= es.len()
    ensures mv_wf(ins_all(s, es, n)), ins_all(s, es, n).size <= s.size + n
    decreases n
{ if n > 0 { lemma_ins_all_wf(s, es, n - 1); lemma_ins_wf(ins_all(s, es, n - 1), es[n - 1].0@, es[n - 1].1); } }
"""

LEMMAS = """
/// C11: extending a model never moves an existing feature to another slot, and new names are appended
pub proof fn lemma_extend_keeps_slots(s: MapView, es: Seq<(String, StateFeature)>, n: int)
    requires mv_wf(s), 0 <= n <= es.len()
    ensures forall|k: Seq<char>| #[trigger] s.idx.contains_key(k) ==> ins_all(s, es, n).idx.contains_key(k) && ins_all(s, es, n).idx[k] == s.idx[k],
            ins_all(s, es, n).size >= s.size,
            forall|k: Seq<char>| #[trigger] ins_all(s, es, n).idx.contains_key(k) && !s.idx.contains_key(k) ==> ins_all(s, es, n).idx[k] >= s.size,
    decreases n
{ if n > 0 { lemma_extend_keeps_slots(s, es, n - 1); lemma_ins_all_wf(s, es, n - 1); } }
/// C11: after extension a name carries the LAST feature declared for it (unit and initial value included), or the configured one if never declared
pub proof fn lemma_extend_last_declaration_wins(s: MapView, es: Seq<(String, StateFeature)>, n: int, j: int)
    requires 0 <= j < n <= es.len(), forall|j2: int| j < j2 < n ==> (#[trigger] es[j2]).0@ != es[j].0@
    ensures ins_all(s, es, n).val.contains_key(es[j].0@), ins_all(s, es, n).val[es[j].0@] == es[j].1
    decreases n
{ if n - 1 > j { lemma_extend_last_declaration_wins(s, es, n - 1, j); } }
"""


def build(x):
    parts = [HEAD]
    f = x.fn(F, "impl StateModel :: fn extend")
    f.replace_macro_calls(r"format", "verif_format()")
    # R-collect
    f.rewrite(r"let mut map = self\s*\.0\s*\.iter\(\)\s*\.map\(\|\(k, v\)\| \(k\.clone\(\), v\.clone\(\)\)\)\s*\.collect::<CompactOrderedHashMap<_, _>>\(\);",
              "let mut map = verif_clone_map(&self.0);", 1, 1, rule="R-collect")
    x.note("R-collect", "StateModel::extend: `self.0.iter().map(|(k, v)| (k.clone(), v.clone())).collect::<CompactOrderedHashMap<_, _>>()` written verif_clone_map(&self.0) (assumed: an equal container)")
    # R-flatmap
    m = re.search(r"let overwrites = entries\s*\.into_iter\(\)\s*\.flat_map\(", f.text)
    if not m or len(re.findall(r"\.flat_map\(", f.text)) != 1:
        raise G.Undecided("lost anchor: `let overwrites = entries.into_iter().flat_map(` in StateModel::extend")
    toks = f.toks
    ob = next(i for i, t in enumerate(toks) if t.a == m.end() - 1)
    cb = rsx.match_close(toks, ob)
    closure = f.text[toks[ob].b:toks[cb].a]
    tail = re.match(r"\)\s*\.collect::<Vec<_>>\(\);", f.text[toks[cb].a:])
    cm = re.match(r"\s*\|\((\w+), (\w+)\)\|\s*(match .*\})\s*\Z", closure, re.S)
    if not tail or not cm:
        raise G.Undecided("StateModel::extend: the flat_map closure is not `|(a, b)| match .. { .. }` followed by .collect::<Vec<_>>()")
    a, b, body = cm.groups()
    loop = ("let mut overwrites: Vec<(String, StateFeature, StateFeature)> = Vec::new();\n"
            "        for verif_p in verif_it: entries {\n            let (%s, %s) = verif_p;\n            let verif_o = %s;\n"
            "            if let Some(verif_v) = verif_o { overwrites.push(verif_v); }\n        }") % (a, b, body)
    start, end = m.start(), toks[cb].a + tail.end()
    pat = re.escape(f.text[start:end])
    f.rewrite(pat, lambda _m: loop, 1, 1, rule="R-flatmap")
    x.note("R-flatmap", "StateModel::extend: `entries.into_iter().flat_map(|(name, new)| M).collect::<Vec<_>>()` written as `for (name, new) in entries { if let Some(v) = M { overwrites.push(v) } }` (M verbatim)")
    f.rewrite(r"let msg = overwrites\s*\.iter\(\)\s*\.map\(\|\(k, old, new\)\| verif_format\(\)\)\s*\.join\(\", \"\);", "let msg = verif_format();", 1, 1, rule="R-format")
    f.name_return("r")
    f.add_spec("""        requires mv_wf(self.0@), self.0@.size + entries@.len() < usize::MAX - 1,
        ensures
            // C11: the extended model is the configured container with every declared (name, feature) inserted in order:
            // an existing name keeps its slot and takes the declared feature, a new name gets the next free slot
            r matches Ok(m) ==> m.0@ == ins_all(self.0@, entries@, entries@.len() as int) && mv_wf(m.0@),
            // refused exactly when a declaration meets a same-named feature that differs under StateFeature's ==
            r is Err <==> conflict(self.0@, entries@, entries@.len() as int),""")
    f.body_start("        let ghost es = entries@;")
    f.add_loop_spec(1, """            invariant
                verif_it.seq() == es, 0 <= verif_it.index@ <= es.len(), self.0@.size + es.len() < usize::MAX - 1, mv_wf(self.0@),
                map@ == ins_all(self.0@, es, verif_it.index@), mv_wf(map@), map@.size <= self.0@.size + verif_it.index@,
                (overwrites@.len() > 0) <==> conflict(self.0@, es, verif_it.index@),""")
    f.loop_body_start(1, "            let ghost i0 = verif_it.index@; let ghost c0 = conflict(self.0@, es, i0); proof { lemma_ins_all_wf(self.0@, es, i0); }")
    f.insert_after(r"if let Some\(verif_v\) = verif_o \{ overwrites\.push\(verif_v\); \}", """
            proof {
                let hit = ins_all(self.0@, es, i0).val.contains_key(es[i0].0@) && !feat_eq(ins_all(self.0@, es, i0).val[es[i0].0@], es[i0].1);
                if hit { assert(conflict(self.0@, es, i0 + 1)); }
                if c0 { let j = choose|j: int| 0 <= j < i0 && #[trigger] ins_all(self.0@, es, j).val.contains_key(es[j].0@) && !feat_eq(ins_all(self.0@, es, j).val[es[j].0@], es[j].1); assert(0 <= j < i0 + 1); assert(conflict(self.0@, es, i0 + 1)); }
                if conflict(self.0@, es, i0 + 1) && !c0 {
                    let j = choose|j: int| 0 <= j < i0 + 1 && #[trigger] ins_all(self.0@, es, j).val.contains_key(es[j].0@) && !feat_eq(ins_all(self.0@, es, j).val[es[j].0@], es[j].1);
                    if j < i0 { assert(conflict(self.0@, es, i0)); }
                    assert(j == i0);
                }
            }""")
    fns = [f.text]
    for name, spec in [("len", "ensures r == self.0@.size,"), ("is_empty", "ensures r == (self.0@.size == 0),"),
                       ("contains_key", "requires mv_wf(self.0@),\n        ensures r == self.0@.val.contains_key(k@),")]:
        g = x.fn(F, "impl StateModel :: fn " + name)
        g.name_return("r")
        g.add_spec("        " + spec)
        fns.append(g.text)
    parts.append("impl StateModel {\n" + "\n".join(fns) + "\n}\n")
    parts.append(LEMMAS)
    parts.append("""
// vacuity guard: MUST FAIL
pub fn vacuity_probe(m: &StateModel, e: Vec<(String, StateFeature)>) -> (r: bool) requires mv_wf(m.0@), m.0@.size + e@.len() < 1000 ensures false { m.extend(e).is_ok() }
} // verus!
fn main() {}
""")
    return "\n".join(parts)
