"""C16 -- the two map-matching plugins' `process`: what is written into the query, when it is an error, and that nothing else of the query changes [V].

Extracted verbatim: VertexRTree::nearest_vertex, `impl InputPlugin for RTreePlugin :: fn process` (vertex plugin), `impl InputPlugin for EdgeRtreeInputPlugin :: fn process`
(edge plugin) -- R3: trait methods written as inherent methods.  Callees are seen through their CONTRACTS only: `search` and `validate_tolerance` carry what unit
c16_edge_match proves of the real functions (here: a deterministic result `search_res` / the verdict `vertex_within`); the r-tree's nearest neighbour, the query
accessors of InputJsonExtensions (serde_json), RoadClassParser::read_query and VehicleParameters::from_query are deterministic opaque reads; `add_origin_vertex` etc.
set ONE top-level key of the query (their bodies: `map.insert(key, id)`).
"""
import re
import genlib as G

VF = "routee-compass/src/plugin/input/default/vertex_rtree/plugin.rs"
EF = "routee-compass/src/plugin/input/default/edge_rtree/edge_rtree_input_plugin.rs"
OBLIGATIONS = ["nearest_vertex", "RTreePlugin::new", "RTreePlugin::process", "EdgeRtreeInputPlugin::process"]
MUST_FAIL = ["vacuity_probe"]

HEAD = """#![allow(unused_imports, unused_variables, dead_code, unused_mut, unused_parens, unused_assignments)]
use vstd::prelude::*;
verus! {
#[verifier::external_body] pub struct Value { _p: u8 }                 // serde_json::Value (the query)
#[verifier::external_body] #[derive(Clone, Copy)] pub struct CoordF32 { _p: u8 }   // geo::Coord<f32>
#[verifier::external_body] #[derive(Clone, Copy)] pub struct Distance { _p: u8 }
#[verifier::external_body] #[derive(Clone, Copy)] pub struct DistanceUnit { _p: u8 }
#[verifier::external_body] pub struct ErrText { _p: u8 }
#[verifier::external_body] pub struct PluginErr { _p: u8 }
pub enum InputPluginError { InputPluginFailed(ErrText), Other }
#[derive(Clone, Copy)] pub struct VertexId(pub usize);
#[derive(Clone, Copy)] pub struct EdgeId(pub usize);
/// R3: `coordinate: InternalCoord<f32>` (Deref to geo::Coord<f32>) is the coordinate itself
pub struct Vertex { pub vertex_id: VertexId, pub coordinate: CoordF32 }
#[verifier::external_body] pub fn verif_format() -> ErrText { unimplemented!() }
// ---- the query (InputJsonExtensions over serde_json::Value): deterministic reads; each `add_*` sets ONE top-level key ----
pub uninterp spec fn origin_coord(q: Value) -> Option<CoordF32>;
/// None: malformed (one of the two fields without the other, or ill-typed)
pub uninterp spec fn dest_coord(q: Value) -> Option<Option<CoordF32>>;
pub uninterp spec fn key_origin_vertex() -> Seq<char>;
pub uninterp spec fn key_destination_vertex() -> Seq<char>;
pub uninterp spec fn key_origin_edge() -> Seq<char>;
pub uninterp spec fn key_destination_edge() -> Seq<char>;
/// serde_json::Value::from(id)
pub uninterp spec fn json_id(i: usize) -> Value;
impl Value {
    pub uninterp spec fn fields(&self) -> Map<Seq<char>, Value>;
    #[verifier::external_body] pub fn get_origin_coordinate(&self) -> (r: Result<CoordF32, InputPluginError>)
        ensures r is Ok <==> origin_coord(*self) is Some, r matches Ok(c) ==> Some(c) == origin_coord(*self) { unimplemented!() }
    #[verifier::external_body] pub fn get_destination_coordinate(&self) -> (r: Result<Option<CoordF32>, InputPluginError>)
        ensures r is Ok <==> dest_coord(*self) is Some, r matches Ok(c) ==> Some(c) == dest_coord(*self) { unimplemented!() }
    #[verifier::external_body] pub fn add_origin_vertex(&mut self, vertex_id: VertexId) -> (r: Result<(), InputPluginError>)
        ensures r is Ok ==> final(self).fields() == old(self).fields().insert(key_origin_vertex(), json_id(vertex_id.0)), r is Err ==> *final(self) == *old(self) { unimplemented!() }
    #[verifier::external_body] pub fn add_destination_vertex(&mut self, vertex_id: VertexId) -> (r: Result<(), InputPluginError>)
        ensures r is Ok ==> final(self).fields() == old(self).fields().insert(key_destination_vertex(), json_id(vertex_id.0)), r is Err ==> *final(self) == *old(self) { unimplemented!() }
    #[verifier::external_body] pub fn add_origin_edge(&mut self, edge_id: EdgeId) -> (r: Result<(), InputPluginError>)
        ensures r is Ok ==> final(self).fields() == old(self).fields().insert(key_origin_edge(), json_id(edge_id.0)), r is Err ==> *final(self) == *old(self) { unimplemented!() }
    #[verifier::external_body] pub fn add_destination_edge(&mut self, edge_id: EdgeId) -> (r: Result<(), InputPluginError>)
        ensures r is Ok ==> final(self).fields() == old(self).fields().insert(key_destination_edge(), json_id(edge_id.0)), r is Err ==> *final(self) == *old(self) { unimplemented!() }
}
// ---- vertex side ----
#[verifier::external_body] pub struct RTreeV { _p: u8 }                // rstar::RTree<RTreeVertex>
pub struct RTreeVertex { pub vertex: Vertex }
/// ASSUMED (rstar): the record nearest to the point under the records' squared coordinate distance (None for an empty tree)
pub uninterp spec fn nn_v(t: &RTreeV, p: CoordF32) -> Option<RTreeVertex>;
impl RTreeV {
    #[verifier::external_body] pub fn nearest_neighbor<'a>(&'a self, p: &CoordF32) -> (r: Option<&'a RTreeVertex>)
        ensures r is Some <==> nn_v(self, *p) is Some, r matches Some(v) ==> Some(*v) == nn_v(self, *p) { unimplemented!() }
}
pub struct VertexRTree { pub rtree: RTreeV }
pub struct RTreePlugin { pub vertex_rtree: VertexRTree, pub tolerance: Option<(Distance, DistanceUnit)> }
// ---- RTreePlugin::new ----
#[verifier::external_body] pub struct Path { _p: u8 }
/// BASE_DISTANCE_UNIT (metres)
pub uninterp spec fn base_distance_unit() -> DistanceUnit;
#[verifier::external_body] pub fn verif_base_distance_unit() -> (r: DistanceUnit) ensures r == base_distance_unit() { unimplemented!() }
/// rule R-io: reading the vertex file and bulk-loading the tree yields ANY tree or an error
#[verifier::external_body] pub fn verif_load_vertex_tree(vertex_file: &Path) -> Result<VertexRTree, InputPluginError> { unimplemented!() }
impl vstd::std_specs::convert::FromSpecImpl<InputPluginError> for PluginError {
    open spec fn obeys_from_spec() -> bool { false }
    open spec fn from_spec(v: InputPluginError) -> PluginError { arbitrary() }
}
pub enum PluginError { Input(InputPluginError), Other }
impl From<InputPluginError> for PluginError { #[verifier::external_body] fn from(e: InputPluginError) -> PluginError { unimplemented!() } }
/// the verdict of validate_tolerance (unit c16_edge_match proves of the real function: Ok only if the great-circle distance, in the tolerance's unit, is below the tolerance)
pub uninterp spec fn vertex_within(src: CoordF32, dst: CoordF32, tol: Option<(Distance, DistanceUnit)>) -> bool;
#[verifier::external_body] pub fn validate_tolerance(src: &CoordF32, dst: &CoordF32, tolerance: &Option<(Distance, DistanceUnit)>) -> (r: Result<(), InputPluginError>)
    ensures r is Ok <==> vertex_within(*src, *dst, *tolerance) { unimplemented!() }
// ---- edge side ----
#[verifier::external_body] pub struct RTree { _p: u8 }                 // rstar::RTree<EdgeRtreeRecord>
#[verifier::external_body] pub struct ClassSet { _p: u8 }              // HashSet<u8>
#[verifier::external_body] pub struct ClassLookup { _p: u8 }           // Vec<u8>
#[verifier::external_body] pub struct Restrictions { _p: u8 }          // HashMap<EdgeId, Vec<VehicleRestriction>>
#[verifier::external_body] pub struct VehicleParameters { _p: u8 }
#[verifier::external_body] pub struct RoadClassParser { _p: u8 }
#[verifier::external_body] pub struct FrontierModelError { _p: u8 }
pub uninterp spec fn classes_of(p: &RoadClassParser, q: Value) -> Option<Option<ClassSet>>;
pub uninterp spec fn vp_of(q: Value) -> Option<VehicleParameters>;
impl RoadClassParser {
    #[verifier::external_body] pub fn read_query(&self, q: &Value) -> (r: Result<Option<ClassSet>, PluginErr>)
        ensures r is Ok <==> classes_of(self, *q) is Some, r matches Ok(c) ==> Some(c) == classes_of(self, *q) { unimplemented!() }
}
impl VehicleParameters {
    #[verifier::external_body] pub fn from_query(q: &Value) -> (r: Result<VehicleParameters, FrontierModelError>)
        ensures r is Ok <==> vp_of(*q) is Some, r matches Ok(v) ==> Some(v) == vp_of(*q) { unimplemented!() }
}
/// what the real `search` returns (deterministic). Unit c16_edge_match proves of it: Some(e) is the FIRST admissible candidate in the tree's order and lies within the
/// tolerance on the ground; None means no admissible candidate was met before the tolerance was exceeded
pub uninterp spec fn search_res(c: CoordF32, t: &RTree, tol: Option<(Distance, DistanceUnit)>, rl: Option<ClassLookup>, rc: Option<ClassSet>, vr: Option<Restrictions>, vp: Option<VehicleParameters>) -> Option<Option<EdgeId>>;
#[verifier::external_body] pub fn search(coord: CoordF32, rtree: &RTree, tolerance: Option<(Distance, DistanceUnit)>, road_class_lookup: &Option<ClassLookup>, road_classes: &Option<ClassSet>,
    vehicle_restrictions: &Option<Restrictions>, vehicle_parameters: &Option<VehicleParameters>) -> (r: Result<Option<EdgeId>, InputPluginError>)
    ensures r is Ok <==> search_res(coord, rtree, tolerance, *road_class_lookup, *road_classes, *vehicle_restrictions, *vehicle_parameters) is Some,
        r matches Ok(m) ==> Some(m) == search_res(coord, rtree, tolerance, *road_class_lookup, *road_classes, *vehicle_restrictions, *vehicle_parameters) { unimplemented!() }
#[verifier::external_body] pub fn matching_error(coord: &CoordF32, tolerance: Option<(Distance, DistanceUnit)>) -> InputPluginError { unimplemented!() }
/// R3: the fields `process` reads
pub struct EdgeRtreeInputPlugin {
    pub rtree: RTree,
    pub tolerance: Option<(Distance, DistanceUnit)>,
    pub road_class_lookup: Option<ClassLookup>,
    pub road_class_parser: RoadClassParser,
    pub vehicle_restrictions: Option<Restrictions>,
}
"""


def errs(f, n):
    f.rewrite(r"\.ok_or_else\(\|\| \{\s*InputPluginError::InputPluginFailed\(format!\((?:[^()]|\([^()]*\))*\)\)\s*\}\)", ".ok_or_else(|| -> (er: InputPluginError) { InputPluginError::InputPluginFailed(verif_format()) })", n, n, rule="R-format")


def build(x):
    parts = [HEAD]
    # ---- VertexRTree::nearest_vertex ----
    nv = x.fn(VF, "impl VertexRTree :: fn nearest_vertex")
    nv.rewrite(r"point: Coord<f32>", "point: CoordF32", 1, 1, rule="R-path")
    nv.name_return("r")
    nv.add_spec("        ensures r is Some <==> nn_v(&self.rtree, point) is Some, r matches Some(v) ==> nn_v(&self.rtree, point) matches Some(rv) && *v == rv.vertex,")
    parts.append("impl VertexRTree {\n" + nv.text + "\n}\n")
    # ---- vertex plugin ----
    vp = x.fn(VF, "impl InputPlugin for RTreePlugin :: fn process")
    x.note("R3", "`impl InputPlugin for RTreePlugin :: fn process` and `impl InputPlugin for EdgeRtreeInputPlugin :: fn process` written as inherent pub fns")
    vp.rewrite(r"\A(\s*)fn ", r"\1pub fn ", 1, 1, rule="R2")
    vp.rewrite(r"query: &mut serde_json::Value", "query: &mut Value", 1, 1, rule="R-path")
    errs(vp, 2)
    vp.name_return("r")
    vp.add_spec("""        ensures
            // C16: on success the origin (and, when the query has a destination coordinate, the destination) is the tree's NEAREST vertex to the coordinate, it passed
            // the tolerance check, ITS id is what the query receives -- and every other field of the query is as it was
            r is Ok ==> (origin_coord(*old(query)) matches Some(c) && (nn_v(&self.vertex_rtree.rtree, c) matches Some(v) && vertex_within(c, v.vertex.coordinate, self.tolerance)
                && match dest_coord(*old(query)) {
                    Some(None) => final(query).fields() == old(query).fields().insert(key_origin_vertex(), json_id(v.vertex.vertex_id.0)),
                    Some(Some(d)) => (nn_v(&self.vertex_rtree.rtree, d) matches Some(w) && vertex_within(d, w.vertex.coordinate, self.tolerance)
                        && final(query).fields() == old(query).fields().insert(key_origin_vertex(), json_id(v.vertex.vertex_id.0)).insert(key_destination_vertex(), json_id(w.vertex.vertex_id.0))),
                    None => false,
                })),
            // a coordinate whose nearest vertex fails the tolerance check is an error, never a match; so is an empty tree
            (origin_coord(*old(query)) matches Some(c) && (nn_v(&self.vertex_rtree.rtree, c) matches Some(v) && !vertex_within(c, v.vertex.coordinate, self.tolerance))) ==> r is Err,
            (dest_coord(*old(query)) matches Some(Some(d)) && (nn_v(&self.vertex_rtree.rtree, d) matches Some(w) && !vertex_within(d, w.vertex.coordinate, self.tolerance))) ==> r is Err,
            (origin_coord(*old(query)) matches Some(c) && nn_v(&self.vertex_rtree.rtree, c) is None) ==> r is Err,""")
    nw = x.fn(VF, "impl RTreePlugin :: fn new")
    pat = re.compile(r"let vertices: Box<\[Vertex\]> =.*?let vertex_rtree = VertexRTree::new\(vertices\.to_vec\(\)\);", re.S)
    nw.rewrite(pat.pattern, "let vertex_rtree = verif_load_vertex_tree(vertex_file)?;", 1, 1, rule="R-io", flags=re.S)
    x.note("R-io", "RTreePlugin::new: reading the vertex file and `VertexRTree::new(..)` written verif_load_vertex_tree(vertex_file)? (any tree, or an error)")
    nw.rewrite(r"BASE_DISTANCE_UNIT", "verif_base_distance_unit()", 0, 2, rule="R-path")
    nw.name_return("r")
    nw.add_spec("""        ensures
            // C16: a configured tolerance is ALWAYS in force -- in the configured unit, in metres when no unit is given; without a tolerance value there is none
            r matches Ok(p) ==> p.tolerance == (match (tolerance_distance, distance_unit) {
                (Some(t), Some(u)) => Some((t, u)),
                (Some(t), None) => Some((t, base_distance_unit())),
                _ => None::<(Distance, DistanceUnit)>,
            }),""")
    parts.append("impl RTreePlugin {\n" + nw.text + "\n" + vp.text + "\n}\n")
    # ---- edge plugin ----
    ep = x.fn(EF, "impl InputPlugin for EdgeRtreeInputPlugin :: fn process")
    ep.rewrite(r"\A(\s*)fn ", r"\1pub fn ", 1, 1, rule="R2")
    ep.rewrite(r"query: &mut serde_json::Value", "query: &mut Value", 1, 1, rule="R-path")
    ep.rewrite(r"\.map_err\(\|e\| \{\s*InputPluginError::InputPluginFailed\(format!\((?:[^()]|\([^()]*\))*\)\)\s*\}\)", ".map_err(|e: PluginErr| -> (er: InputPluginError) { InputPluginError::InputPluginFailed(verif_format()) })", 1, 1, rule="R-format")
    ep.rewrite(r"\.ok_or_else\(\|\| matching_error\(&(\w+), self\.tolerance\)\)", r".ok_or_else(|| -> (er: InputPluginError) { matching_error(&\1, self.tolerance) })", 0, 2, rule="R-closure")
    ep.rewrite(r"\.map\(Some\)", ".map(|verif_e: EdgeId| -> (verif_s: Option<EdgeId>) ensures verif_s == Some(verif_e) { Some(verif_e) })", 1, 1, rule="R-closure")
    x.note("R-closure", "edge process: `.map(Some)` written as the closure `|e| Some(e)` with that postcondition; the two `|| matching_error(..)` closures get a return-type annotation")
    ep.name_return("r")
    S = "self.tolerance, self.road_class_lookup, classes_of(&self.road_class_parser, *old(query))->Some_0, self.vehicle_restrictions, vp_of(*old(query))"
    ep.add_spec("""        ensures
            // C16: on success the origin (and destination) edge written into the query is what `search` returned for the query's coordinate, road classes and vehicle
            // parameters and the plugin's tree, tolerance and restriction tables -- and every other field of the query is as it was
            r is Ok ==> classes_of(&self.road_class_parser, *old(query)) is Some && (origin_coord(*old(query)) matches Some(c)
                && (search_res(c, &self.rtree, %(S)s) matches Some(Some(e1))
                && match dest_coord(*old(query)) {
                    Some(None) => final(query).fields() == old(query).fields().insert(key_origin_edge(), json_id(e1.0)),
                    Some(Some(d)) => (search_res(d, &self.rtree, %(S)s) matches Some(Some(e2))
                        && final(query).fields() == old(query).fields().insert(key_origin_edge(), json_id(e1.0)).insert(key_destination_edge(), json_id(e2.0))),
                    None => false,
                })),
            // no admissible candidate within the tolerance (search returned None) is an error, never a match
            (classes_of(&self.road_class_parser, *old(query)) is Some && (origin_coord(*old(query)) matches Some(c) && search_res(c, &self.rtree, %(S)s) == Some(None::<EdgeId>)))
                ==> r is Err,
            (classes_of(&self.road_class_parser, *old(query)) is Some && origin_coord(*old(query)) is Some && (dest_coord(*old(query)) matches Some(Some(d)) && search_res(d, &self.rtree, %(S)s) == Some(None::<EdgeId>)))
                ==> r is Err,""" % dict(S=S))
    parts.append("impl EdgeRtreeInputPlugin {\n" + ep.text + "\n}\n")
    parts.append("""
// vacuity guard: MUST FAIL
pub fn vacuity_probe(p: &RTreePlugin, e: &EdgeRtreeInputPlugin, q: &mut Value) -> (b: bool) ensures false { let a = p.process(q).is_ok(); let c = e.process(q).is_ok(); a && c }
} // verus!
fn main() {}
""")
    return "\n".join(parts)
