"""C07 ("under sum aggregation the charged cost equals the sum over features of weight times rated state change plus the configured per-edge and per-turn
surcharges") -- cost_ops::calculate_vehicle_costs / calculate_network_traversal_costs / calculate_network_access_costs and CostAggregation::agg_iter [V-real].

Extracted verbatim: the three functions of cost_ops.rs and CostAggregation::agg_iter.  The LAZY iterator `indices.iter().map(|(name, idx)| { B })` handed to agg_iter
is an opaque iterator over a GHOST sequence of results (rule R3-dyn) built by `verif_lazy_map(indices, closure)`: its i-th element is whatever the closure returns for
indices[i] (vstd's closure `ensures`); the closure is the verbatim body B, annotated with the term it must compute and CHECKED against that annotation (R-closure);
its tuple pattern `|(name, idx)|` is written `|p| { let name = &p.0; let idx = &p.1; B }` (this Verus build only takes variables as closure parameters).
`slice.get(i)` is one helper (R-collect); `a * w` with `w: &f64` is written `a * *w` (R-refop: core's forwarding impl).
A-REAL.  VehicleCostRate::map_value is `rate_spec` (unit c07_rate proves what it is for every rate); NetworkCostRate::traversal_cost / access_cost are uninterpreted
surcharges per rate and edge (pair).
"""
import re
import prelude as P
import genlib as G

CO = "routee-compass-core/src/model/cost/cost_ops.rs"
CA = "routee-compass-core/src/model/cost/cost_aggregation.rs"
OBLIGATIONS = ["agg_iter", "calculate_vehicle_costs", "calculate_network_traversal_costs", "calculate_network_access_costs", "lemma_sum_is_linear_in_a_weight"]
MUST_FAIL = ["vacuity_probe"]

SHIMS = """
#[verifier::external_body] pub struct CostModelError { _p: u8 }
#[verifier::external_body] pub struct VehicleCostRate { _p: u8 }
#[verifier::external_body] pub struct NetworkCostRate { _p: u8 }
#[verifier::external_body] pub struct Edge { _p: u8 }
#[derive(Clone, Copy)] pub enum CostAggregation { Sum, Mul }
/// VehicleCostRate::map_value as mathematics (unit c07_rate: zero, the value, value x factor, value + offset, or the members one after the other)
pub uninterp spec fn rate_spec(r: VehicleCostRate, x: real) -> real;
/// the surcharge a network rate lists for traversing an edge / for entering an edge from another (None: the lookup fails)
pub uninterp spec fn net_trav(r: NetworkCostRate, e: Edge) -> Option<real>;
pub uninterp spec fn net_acc(r: NetworkCostRate, e1: Edge, e2: Edge) -> Option<real>;
impl VehicleCostRate {
    #[verifier::external_body] pub fn map_value(&self, state: StateVar) -> (r: Cost) ensures r@ == rate_spec(*self, state@) { unimplemented!() }
}
impl NetworkCostRate {
    #[verifier::external_body] pub fn traversal_cost(&self, prev: StateVar, next: StateVar, edge: &Edge) -> (r: Result<Cost, CostModelError>)
        ensures r is Ok <==> net_trav(*self, *edge) is Some, r matches Ok(c) ==> Some(c@) == net_trav(*self, *edge) { unimplemented!() }
    #[verifier::external_body] pub fn access_cost(&self, prev: StateVar, next: StateVar, prev_edge: &Edge, next_edge: &Edge) -> (r: Result<Cost, CostModelError>)
        ensures r is Ok <==> net_acc(*self, *prev_edge, *next_edge) is Some, r matches Ok(c) ==> Some(c@) == net_acc(*self, *prev_edge, *next_edge) { unimplemented!() }
}
#[verifier::external_body] pub fn verif_err() -> CostModelError { unimplemented!() }
/// `slice.get(i)`
#[verifier::external_body] pub fn verif_get<T>(s: &[T], i: usize) -> (r: Option<&T>) ensures i < s@.len() ==> r == Some(&s@[i as int]), i >= s@.len() ==> r is None { s.get(i) }
// ---- the lazy iterator handed to agg_iter (R3-dyn): a ghost sequence of the results the closure yields, element by element ----
#[verifier::external_body] pub struct LazyCosts<'a> { _p: core::marker::PhantomData<&'a u8> }
impl<'a> LazyCosts<'a> {
    pub uninterp spec fn seq(&self) -> Seq<Result<(&'a String, Cost), CostModelError>>;
    pub uninterp spec fn pos(&self) -> int;
    #[verifier::external_body]
    pub fn next(&mut self) -> (r: Option<Result<(&'a String, Cost), CostModelError>>)
        ensures final(self).seq() == old(self).seq(), 0 <= old(self).pos() <= old(self).seq().len(),
            old(self).pos() < old(self).seq().len() ==> r == Some(old(self).seq()[old(self).pos()]) && final(self).pos() == old(self).pos() + 1,
            old(self).pos() >= old(self).seq().len() ==> r is None && final(self).pos() == old(self).pos(),
    { unimplemented!() }
    #[verifier::external_body] pub fn into_iter(self) -> (r: LazyCosts<'a>) ensures r.seq() == self.seq(), r.pos() == self.pos() { unimplemented!() }
    /// Iterator::peekable / Peekable::peek: looking at the next element does not consume it
    #[verifier::external_body] pub fn peekable(self) -> (r: LazyCosts<'a>) ensures r.seq() == self.seq(), r.pos() == self.pos() { unimplemented!() }
    #[verifier::external_body] pub fn peek(&mut self) -> (r: Option<&Result<(&'a String, Cost), CostModelError>>)
        ensures final(self).seq() == old(self).seq(), final(self).pos() == old(self).pos(), r is None <==> old(self).pos() >= old(self).seq().len() { unimplemented!() }
}
/// ASSUMED (Iterator::map is lazy and order-preserving): element i is what the closure returns for v[i]
#[verifier::external_body]
pub fn verif_lazy_map<'a, F: Fn(&'a (String, usize)) -> Result<(&'a String, Cost), CostModelError>>(v: &'a [(String, usize)], f: F) -> (r: LazyCosts<'a>)
    requires forall|i: int| 0 <= i < v@.len() ==> f.requires((&#[trigger] v@[i],)),
    ensures r.pos() == 0, r.seq().len() == v@.len(), forall|i: int| 0 <= i < v@.len() ==> f.ensures((&v@[i],), #[trigger] r.seq()[i]),
{ unimplemented!() }
"""

SPEC = """
// ---- the mathematics ----
pub open spec fn all_some(ts: Seq<Option<real>>) -> bool { forall|i: int| 0 <= i < ts.len() ==> (#[trigger] ts[i]) is Some }
pub open spec fn sum_to(ts: Seq<Option<real>>, n: int) -> real decreases n { if n <= 0 { 0real } else { sum_to(ts, n - 1) + ts[n - 1]->Some_0 } }
pub open spec fn prod_to(ts: Seq<Option<real>>, n: int) -> real decreases n { if n <= 0 { 1real } else { prod_to(ts, n - 1) * ts[n - 1]->Some_0 } }
/// sum: the sum of the terms; mul: their product, and nothing for no term at all
pub open spec fn agg_spec(a: CostAggregation, ts: Seq<Option<real>>) -> real {
    match a { CostAggregation::Sum => sum_to(ts, ts.len() as int), CostAggregation::Mul => if ts.len() == 0 { 0real } else { prod_to(ts, ts.len() as int) } }
}
pub open spec fn terms_of(s: Seq<Result<(&String, Cost), CostModelError>>) -> Seq<Option<real>> {
    Seq::new(s.len(), |i: int| match s[i] { Ok(x) => Some(x.1@), Err(_) => None::<real> })
}
/// C07: the term of one feature: its weight times the RATED CHANGE OF STATE in its slot (None: the slot is outside one of the vectors)
pub open spec fn veh_term(prev: Seq<StateVar>, next: Seq<StateVar>, w: Seq<f64>, r: Seq<VehicleCostRate>, p: (String, usize)) -> Option<real> {
    let i = p.1 as int;
    if i < prev.len() && i < next.len() && i < r.len() && i < w.len() { Some(rate_spec(r[i], next[i]@ - prev[i]@) * f64_real(w[i])) } else { None }
}
/// ... its weight times the surcharge its network rate lists for the edge
pub open spec fn trav_term(prev: Seq<StateVar>, next: Seq<StateVar>, e: Edge, w: Seq<f64>, r: Seq<NetworkCostRate>, p: (String, usize)) -> Option<real> {
    let i = p.1 as int;
    if i < prev.len() && i < next.len() && i < r.len() && i < w.len() && net_trav(r[i], e) is Some { Some(net_trav(r[i], e)->Some_0 * f64_real(w[i])) } else { None }
}
/// ... its weight (1 when it has none) times the surcharge its network rate lists for the pair of edges; a feature without a network rate adds nothing
pub open spec fn acc_term(prev: Seq<StateVar>, next: Seq<StateVar>, e1: Edge, e2: Edge, w: Seq<f64>, r: Seq<NetworkCostRate>, p: (String, usize)) -> Option<real> {
    let i = p.1 as int;
    if i >= r.len() { Some(0real) }
    else if i < prev.len() && i < next.len() && net_acc(r[i], e1, e2) is Some { Some(net_acc(r[i], e1, e2)->Some_0 * (if i < w.len() { f64_real(w[i]) } else { 1real })) }
    else { None }
}
"""

LEMMAS = """
/// C07: "linear in the weights and ignores zero-weight features" -- the sum of terms t_i = x_i * w_i changes by x_k * (w' - w) when the weight of feature k changes,
/// and a zero weight contributes nothing
pub proof fn lemma_sum_is_linear_in_a_weight(xs: Seq<real>, w1: Seq<real>, w2: Seq<real>, k: int, n: int)
    requires 0 <= k < n <= xs.len(), xs.len() == w1.len(), w1.len() == w2.len(), forall|i: int| 0 <= i < xs.len() && i != k ==> w1[i] == w2[i]
    ensures sum_to(Seq::new(xs.len(), |i: int| Some(xs[i] * w2[i])), n) == sum_to(Seq::new(xs.len(), |i: int| Some(xs[i] * w1[i])), n) + xs[k] * (w2[k] - w1[k])
    decreases n
{
    let t1 = Seq::new(xs.len(), |i: int| Some(xs[i] * w1[i]));
    let t2 = Seq::new(xs.len(), |i: int| Some(xs[i] * w2[i]));
    if n - 1 == k {
        lemma_sum_same(xs, w1, w2, k, n - 1);
        assert(xs[k] * w2[k] == xs[k] * w1[k] + xs[k] * (w2[k] - w1[k])) by (nonlinear_arith);
    } else {
        lemma_sum_is_linear_in_a_weight(xs, w1, w2, k, n - 1);
        assert(t1[n - 1] == t2[n - 1]);
    }
}
pub proof fn lemma_sum_same(xs: Seq<real>, w1: Seq<real>, w2: Seq<real>, k: int, n: int)
    requires 0 <= n <= k < xs.len(), xs.len() == w1.len(), w1.len() == w2.len(), forall|i: int| 0 <= i < xs.len() && i != k ==> w1[i] == w2[i]
    ensures sum_to(Seq::new(xs.len(), |i: int| Some(xs[i] * w2[i])), n) == sum_to(Seq::new(xs.len(), |i: int| Some(xs[i] * w1[i])), n)
    decreases n
{
    if n > 0 {
        lemma_sum_same(xs, w1, w2, k, n - 1);
        assert(Seq::new(xs.len(), |i: int| Some(xs[i] * w1[i]))[n - 1] == Seq::new(xs.len(), |i: int| Some(xs[i] * w2[i]))[n - 1]);
    }
}
"""


def closure_rewrite(f, x, params, ensures):
    """`indices.iter().map(|(name, IDX)| BODY)` -> verif_lazy_map(indices, |verif_p| -> (cr: ..) ensures .. { let name = &verif_p.0; let IDX = &verif_p.1; BODY })"""
    pat = re.compile(r"indices\.iter\(\)\.map\(\|\(name, (\w+)\)\| (.*?)\);\s*\n\s*cost_aggregation\.agg_iter\(costs\)", re.S)
    if len(pat.findall(f.text)) != 1:
        raise G.Undecided("lost anchor: the lazy `indices.iter().map(|(name, idx)| ..)` handed to agg_iter in %s" % f.origin)
    def repl(m):
        return ("verif_lazy_map(indices, |verif_p: &'a (String, usize)| -> (cr: Result<(&'a String, Cost), CostModelError>)\n        ensures %s\n    { let name = &verif_p.0; let %s = &verif_p.1; "
                % (ensures, m.group(1))) + m.group(2) + " });\n    proof { VERIF_HINT }\n    cost_aggregation.agg_iter(costs)"
    f.rewrite(pat.pattern, repl, 1, 1, rule="R-closure", flags=re.S)
    f.rewrite(r"\.ok_or_else\(\|\| (?:\{\s*)?CostModelError::\w+\((?:[^()]|\([^()]*\))*\)(?:\s*\})?\)", ".ok_or_else(|| -> (er: CostModelError) { verif_err() })", 2, 4, rule="R-format")
    f.rewrite(r"(\w+)\s*\.get\(\*(\w+)\)", r"verif_get(\1, *\2)", 2, 6, rule="R-collect")
    f.rewrite(r"\* (weight|coefficient);", r"* *\1;", 1, 1, rule="R-refop")
    f.rewrite(r"pub fn (\w+)\(", r"pub fn \1<'a>(", 1, 1, rule="R-annot")
    f.rewrite(r"indices: &\[\(String, usize\)\],", "indices: &'a [(String, usize)],", 1, 1, rule="R-annot")
    x.note("R-annot", "%s: the lifetime of `indices` is named (`'a`) so that the closure's return type can be written" % f.origin)


def build(x):
    parts, texts = [], []
    parts.append(P.numtype("Cost"))
    parts.append(P.numtype("StateVar", consts=(), ops=("sub",)))
    parts.append(SHIMS)
    parts.append(SPEC)
    # ---- CostAggregation::agg_iter ----
    ag = x.fn(CA, "impl CostAggregation :: fn agg_iter")
    ag.rewrite(r"costs: impl Iterator<Item = Result<\(&'a String, Cost\), CostModelError>>,", "costs: LazyCosts<'a>,", 1, 1, rule="R3-dyn")
    x.note("R3-dyn", "agg_iter: `costs: impl Iterator<Item = Result<(&'a String, Cost), CostModelError>>` written `costs: LazyCosts<'a>` (an opaque iterator over a ghost sequence of results)")
    ag.desugar_for(2, itname="verif_it2")
    ag.desugar_for(1, itname="verif_it1")
    ag.rewrite(r"\A", "#[verifier::exec_allows_no_decreases_clause]\n", 1, 1, rule="note")
    x.note("termination", "agg_iter: the loops over the opaque iterator are accepted without a termination proof")
    ag.name_return("r")
    ag.add_spec("""        requires costs.pos() == 0,
        ensures
            // every element is consumed in order; the first failing element fails the aggregation; otherwise sum / product of the elements' costs (nothing for no element)
            r matches Ok(c) ==> all_some(terms_of(costs.seq())) && c@ == agg_spec(*self, terms_of(costs.seq())),
            !all_some(terms_of(costs.seq())) ==> r is Err,""")
    ag.add_loop_spec(1, """                    invariant verif_it1.seq() == costs.seq(), 0 <= verif_it1.pos() <= verif_it1.seq().len(),
                        forall|i: int| 0 <= i < verif_it1.pos() ==> (#[trigger] terms_of(costs.seq())[i]) is Some,
                        sum@ == sum_to(terms_of(costs.seq()), verif_it1.pos()),
                    ensures verif_it1.pos() == verif_it1.seq().len(),""")
    ag.add_loop_spec(2, """                    invariant verif_it2.seq() == costs_seq, 0 <= verif_it2.pos() <= verif_it2.seq().len(),
                        forall|i: int| 0 <= i < verif_it2.pos() ==> (#[trigger] terms_of(costs_seq)[i]) is Some,
                        product@ == prod_to(terms_of(costs_seq), verif_it2.pos()),
                    ensures verif_it2.pos() == verif_it2.seq().len(),""")
    ag.loop_body_start(1, "                    broadcast use areal, lits; proof { areal_obeys(); } let ghost verif_k = verif_it1.pos();")
    ag.loop_body_start(2, "                    broadcast use areal, lits; proof { areal_obeys(); } let ghost verif_k = verif_it2.pos();")
    ag.insert_after(r"sum = sum \+ cost;", "\n                    proof { assert(terms_of(costs.seq())[verif_k] == Some(cost@)); assert(sum_to(terms_of(costs.seq()), verif_k + 1) == sum_to(terms_of(costs.seq()), verif_k) + cost@); }")
    ag.insert_after(r"product = Cost::new\(product\.as_f64\(\) \* cost\.as_f64\(\)\);", "\n                    proof { assert(terms_of(costs_seq)[verif_k] == Some(cost@)); assert(prod_to(terms_of(costs_seq), verif_k + 1) == prod_to(terms_of(costs_seq), verif_k) * cost@); }")
    ag.insert_before(r"let mut costs = costs\.peekable\(\);", "let ghost costs_seq = costs.seq();\n                ")
    ag.body_start("        broadcast use areal, lits; proof { areal_obeys(); }")
    texts.append(ag.text)
    parts.append("impl CostAggregation {\n" + ag.text + "\n}\n")
    # ---- the three calculators ----
    fns = []
    for name, ens, hint, post in [
        ("calculate_vehicle_costs",
         "(cr is Ok <==> veh_term(prev_state@, next_state@, weights@, rates@, *verif_p) is Some), cr matches Ok(t) ==> Some(t.1@) == veh_term(prev_state@, next_state@, weights@, rates@, *verif_p)",
         "assert(terms_of(costs.seq()) =~= Seq::new(indices@.len(), |i: int| veh_term(prev_state@, next_state@, weights@, rates@, indices@[i])));",
         "Seq::new(indices@.len(), |i: int| veh_term(state_sequence.0@, state_sequence.1@, weights@, rates@, indices@[i]))"),
        ("calculate_network_traversal_costs",
         "(cr is Ok <==> trav_term(prev_state@, next_state@, *edge, weights@, rates@, *verif_p) is Some), cr matches Ok(t) ==> Some(t.1@) == trav_term(prev_state@, next_state@, *edge, weights@, rates@, *verif_p)",
         "assert(terms_of(costs.seq()) =~= Seq::new(indices@.len(), |i: int| trav_term(prev_state@, next_state@, *edge, weights@, rates@, indices@[i])));",
         "Seq::new(indices@.len(), |i: int| trav_term(state_sequence.0@, state_sequence.1@, *edge, weights@, rates@, indices@[i]))"),
        ("calculate_network_access_costs",
         "(cr is Ok <==> acc_term(prev_state@, next_state@, *prev_edge, *next_edge, weights@, rates@, *verif_p) is Some), cr matches Ok(t) ==> Some(t.1@) == acc_term(prev_state@, next_state@, *prev_edge, *next_edge, weights@, rates@, *verif_p)",
         "assert(terms_of(costs.seq()) =~= Seq::new(indices@.len(), |i: int| acc_term(prev_state@, next_state@, *prev_edge, *next_edge, weights@, rates@, indices@[i])));",
         "Seq::new(indices@.len(), |i: int| acc_term(state_sequence.0@, state_sequence.1@, *edge_sequence.0, *edge_sequence.1, weights@, rates@, indices@[i]))"),
    ]:
        f = x.fn(CO, "fn " + name)
        closure_rewrite(f, x, None, ens)
        f.rewrite(r"VERIF_HINT", hint, 1, 1, rule="note")
        if name == "calculate_network_access_costs":
            f.rewrite(r"\.unwrap_or\(&1\.0\)", ".unwrap_or(&1.0f64)", 0, 1, rule="R-annot")
        f.name_return("r")
        f.add_spec("""    ensures
        // C07: the aggregate (sum, or product) over the features IN ORDER of the term of each feature; a slot outside a vector (a failing lookup) fails the whole cost
        r matches Ok(c) ==> all_some(%(p)s) && c@ == agg_spec(*cost_aggregation, %(p)s),
        !all_some(%(p)s) ==> r is Err,""" % dict(p=post))
        f.body_start("    broadcast use areal, lits; proof { areal_obeys(); }")
        texts.append(f.text)
        fns.append(f.text)
    x.note("R-closure", "cost_ops: `indices.iter().map(|(name, idx)| B)` written verif_lazy_map(indices, |p| -> (cr) ensures <the feature's term> { let name = &p.0; let idx = &p.1; B }) -- the body B is verbatim and is CHECKED against the annotated term")
    x.note("R-refop", "cost_ops: `cost * weight` with `weight: &f64` written `cost * *weight`")
    parts.append("\n".join(fns))
    parts.append(LEMMAS)
    parts.append("""
// vacuity guard: MUST FAIL
pub fn vacuity_probe<'a>(p: &[StateVar], n: &[StateVar], i: &'a [(String, usize)], w: &[f64], r: &[VehicleCostRate], a: &CostAggregation) -> (b: bool) ensures false { calculate_vehicle_costs((p, n), i, w, r, a).is_ok() }
""")
    parts.insert(0, P.literal_axioms(texts, extra=("0.0", "1.0")))
    parts.insert(0, P.f64_real())
    return P.wrap("\n".join(parts))
