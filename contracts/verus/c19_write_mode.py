"""C19 (the named mechanism "header written once when the file is created") -- WriteMode::open_file, write_header, open_append [V].

Extracted verbatim: enum WriteMode, WriteMode::open_file, write_header, open_append.  The file system is a GHOST map from paths to contents threaded through the
functions (rule R-ghost: an extra `Tracked<&mut Fs>` parameter, erased at run time); `path.exists()`, `std::fs::write(path, s)` and
`OpenOptions::new().append(true).open(path)` are shims over it with the ASSUMED semantics of std (exists = the path is in the map; write = the path now holds
exactly s; open in append mode = the path must exist and its contents stay).
"""
import re
import genlib as G

F = "routee-compass/src/app/compass/response/write_mode.rs"
OBLIGATIONS = ["open_file", "write_header", "open_append", "lemma_appending_runs_keep_everything"]
MUST_FAIL = ["vacuity_probe"]

HEAD = """#![allow(unused_imports, unused_variables, dead_code, unused_mut, unused_parens, unused_assignments)]
use vstd::prelude::*;
verus! {
#[verifier::external_body] pub struct Path { _p: u8 }
#[verifier::external_body] pub struct File { _p: u8 }
#[verifier::external_body] pub struct IoError { _p: u8 }
#[verifier::external_body] pub struct CompassAppError { _p: u8 }
#[verifier::external_body] pub struct ResponseOutputFormat { _p: u8 }
/// rule R-ghost: the file system as the functions see it: path -> contents (erased at run time)
pub tracked struct Fs { pub ghost files: Map<int, Seq<char>> }
/// every other file is left alone
pub open spec fn others_untouched(a: Fs, b: Fs, p: int) -> bool {
    forall|q: int| q != p ==> (b.files.contains_key(q) <==> a.files.contains_key(q)) && (a.files.contains_key(q) ==> #[trigger] b.files[q] == a.files[q])
}
impl Path {
    pub uninterp spec fn id(&self) -> int;
    /// ASSUMED (std::path::Path::exists)
    #[verifier::external_body] pub fn exists(&self, Tracked(fs): Tracked<&mut Fs>) -> (r: bool) ensures *final(fs) == *old(fs), r == old(fs).files.contains_key(self.id()) { unimplemented!() }
}
impl File { pub uninterp spec fn path(&self) -> int; }
impl ResponseOutputFormat {
    pub uninterp spec fn header(&self) -> Option<Seq<char>>;
    #[verifier::external_body] pub fn initial_file_contents(&self) -> (r: Option<String>)
        ensures r is Some <==> self.header() is Some, r matches Some(s) ==> Some(s@) == self.header() { unimplemented!() }
}
/// what a new file starts with: the format's header, or nothing
pub open spec fn header_of(f: &ResponseOutputFormat) -> Seq<char> { match f.header() { Some(h) => h, None => Seq::<char>::empty() } }
#[verifier::external_body] pub fn verif_empty_string() -> (r: String) ensures r@ == Seq::<char>::empty() { String::new() }
/// ASSUMED (std::fs::write): on success the path holds exactly `contents`; on failure the path may have been created or truncated, nothing else changes
#[verifier::external_body] pub fn verif_fs_write(path: &Path, contents: String, Tracked(fs): Tracked<&mut Fs>) -> (r: Result<(), IoError>)
    ensures r is Ok ==> final(fs).files == old(fs).files.insert(path.id(), contents@),
        others_untouched(*old(fs), *final(fs), path.id()) { unimplemented!() }
/// ASSUMED (OpenOptions::new().append(true).open): fails for a path that does not exist; never changes any contents
#[verifier::external_body] pub fn verif_open_append(path: &Path, Tracked(fs): Tracked<&mut Fs>) -> (r: Result<File, IoError>)
    ensures *final(fs) == *old(fs), r matches Ok(f) ==> f.path() == path.id() && old(fs).files.contains_key(path.id()), !old(fs).files.contains_key(path.id()) ==> r is Err { unimplemented!() }
#[verifier::external_body] pub fn verif_err_io(e: IoError) -> CompassAppError { unimplemented!() }
#[verifier::external_body] pub fn verif_err_exists() -> CompassAppError { unimplemented!() }

"""

LEMMAS = """
/// C19 (repeated runs appending to the same file): the first run in append mode creates the file with the header; every later run opens it WITHOUT touching what is
/// there -- so the header stays single and every record of the earlier runs stays (records are then appended through the handle: unit c19_sink)
pub proof fn lemma_appending_runs_keep_everything(before: Fs, after: Fs, p: int, f: &ResponseOutputFormat)
    requires append_post(before, after, p, f)
    ensures before.files.contains_key(p) ==> after.files[p] == before.files[p],
        !before.files.contains_key(p) ==> after.files[p] == header_of(f),
        after.files.contains_key(p),
{}
"""

SPEC = """
/// what a successful open in append mode leaves behind
pub open spec fn append_post(a: Fs, b: Fs, p: int, f: &ResponseOutputFormat) -> bool {
    &&& b.files.contains_key(p)
    &&& a.files.contains_key(p) ==> b.files[p] == a.files[p]
    &&& !a.files.contains_key(p) ==> b.files[p] == header_of(f)
    &&& others_untouched(a, b, p)
}
"""


def build(x):
    parts = [HEAD, SPEC]
    en, n = G.strip_inner_attrs(x.item_text(F, "enum WriteMode"))
    parts.append(en + "\n")
    # write_header
    wh = x.fn(F, "fn write_header")
    wh.rewrite(r"\A(\s*)fn ", r"\1pub fn ", 1, 1, rule="R2")
    wh.rewrite(r"fn write_header\(path: &Path, format: &ResponseOutputFormat\)", "fn write_header(path: &Path, format: &ResponseOutputFormat, Tracked(fs): Tracked<&mut Fs>)", 1, 1, rule="R-ghost")
    wh.rewrite(r"\.unwrap_or_else\(\|\| String::from\(\"\"\)\)", ".unwrap_or_else(|| -> (es: String) ensures es@ == Seq::<char>::empty() { verif_empty_string() })", 1, 1, rule="R-closure")
    wh.rewrite(r"std::fs::write\(path, header\)", "verif_fs_write(path, header, Tracked(fs))", 1, 1, rule="R-io")
    wh.rewrite(r"\.map_err\(\|e\| \{\s*CompassAppError::InternalError\(format!\((?:[^()]|\([^()]*\))*\)\)\s*\}\)", ".map_err(|e: IoError| -> (er: CompassAppError) { verif_err_io(e) })", 1, 1, rule="R-format")
    wh.name_return("r")
    wh.add_spec("""    ensures r is Ok ==> final(fs).files == old(fs).files.insert(path.id(), header_of(format)),
        others_untouched(*old(fs), *final(fs), path.id()),""")
    parts.append(wh.text + "\n")
    # open_append
    oa = x.fn(F, "fn open_append")
    oa.rewrite(r"\A(\s*)fn ", r"\1pub fn ", 1, 1, rule="R2")
    oa.rewrite(r"fn open_append\(path: &Path\)", "fn open_append(path: &Path, Tracked(fs): Tracked<&mut Fs>)", 1, 1, rule="R-ghost")
    oa.rewrite(r"OpenOptions::new\(\)\.append\(true\)\.open\(path\)", "verif_open_append(path, Tracked(fs))", 1, 1, rule="R-io")
    oa.rewrite(r"\.map_err\(\|e\| \{\s*CompassAppError::InternalError\(format!\((?:[^()]|\([^()]*\))*\)\)\s*\}\)", ".map_err(|e: IoError| -> (er: CompassAppError) { verif_err_io(e) })", 1, 1, rule="R-format")
    oa.name_return("r")
    oa.add_spec("""    ensures *final(fs) == *old(fs), r matches Ok(f) ==> f.path() == path.id() && old(fs).files.contains_key(path.id()), !old(fs).files.contains_key(path.id()) ==> r is Err,""")
    parts.append(oa.text + "\n")
    x.note("R-io", "write_header / open_append: `std::fs::write(path, header)` and `OpenOptions::new().append(true).open(path)` written verif_fs_write / verif_open_append over the ghost file system (assumed semantics of std)")
    # open_file
    f = x.fn(F, "impl WriteMode :: fn open_file")
    f.rewrite(r"format: &ResponseOutputFormat,\s*\)", "format: &ResponseOutputFormat,\n        Tracked(fs): Tracked<&mut Fs>,\n    )", 1, 1, rule="R-ghost")
    f.rewrite(r"path\.exists\(\)", "path.exists(Tracked(fs))", 0, 6, rule="R-ghost")
    f.rewrite(r"write_header\(path, format\)", "write_header(path, format, Tracked(fs))", 0, 6, rule="R-ghost")
    f.rewrite(r"open_append\(path\)", "open_append(path, Tracked(fs))", 0, 6, rule="R-ghost")
    x.note("R-ghost", "open_file / write_header / open_append: a ghost parameter `Tracked(fs): Tracked<&mut Fs>` is added to the signatures and passed to `path.exists()`, `write_header(..)`, `open_append(..)`; it is erased at run time")
    f.rewrite(r"CompassAppError::CompassConfigurationError\(\s*CompassConfigurationError::UserConfigurationError\(format!\((?:[^()]|\([^()]*\)|\((?:[^()]|\([^()]*\))*\))*\)\),\s*\)", "verif_err_exists()", 1, 1, rule="R-format")
    f.name_return("r")
    f.add_spec("""        ensures
            others_untouched(*old(fs), *final(fs), path.id()),
            r matches Ok(h) ==> h.path() == path.id(),
            // C19: append mode writes the header only when it CREATES the file; an existing file -- its header and every record of earlier runs -- is left exactly as it is
            self is Append && r is Ok ==> append_post(*old(fs), *final(fs), path.id(), format),
            self is Append && old(fs).files.contains_key(path.id()) ==> *final(fs) == *old(fs),
            // overwrite mode starts the file again with its header
            self is Overwrite && r is Ok ==> final(fs).files.contains_key(path.id()) && final(fs).files[path.id()] == header_of(format),
            // error mode refuses an existing file and leaves it untouched; a new file starts with the header
            self is Error && old(fs).files.contains_key(path.id()) ==> r is Err && *final(fs) == *old(fs),
            self is Error && r is Ok ==> final(fs).files.contains_key(path.id()) && final(fs).files[path.id()] == header_of(format),""")
    parts.append("impl WriteMode {\n" + f.text + "\n}\n")
    parts.append(LEMMAS)
    parts.append("""
// vacuity guard: MUST FAIL
pub fn vacuity_probe(m: &WriteMode, p: &Path, f: &ResponseOutputFormat, Tracked(fs): Tracked<&mut Fs>) -> (b: bool) ensures false { m.open_file(p, f, Tracked(fs)).is_ok() }
} // verus!
fn main() {}
""")
    return "\n".join(parts)
