"""C15 (configuration clause) -- DefaultGraphBuilder::build: the network is loaded from THE files and WITH the counts the configuration names [V, glue].

Extracted verbatim: `impl DefaultGraphBuilder :: fn build`.  serde_json::Value is opaque; the configuration readers (`get_config_path`,
`get_config_serde_optional`) are deterministic uninterpreted reads per (key, type); `Graph::from_files` is represented by an uninterpreted deterministic function
of its five arguments (`loaded`; what it does with them is decided by unit c15_graph and the loader witnesses).
"""
import re
import genlib as G

F = "routee-compass/src/app/compass/config/graph_builder.rs"
OBLIGATIONS = ["build"]
MUST_FAIL = ["vacuity_probe"]

HEAD = """#![allow(unused_imports, unused_variables, dead_code, unused_mut, unused_parens, unused_assignments)]
use vstd::prelude::*;
verus! {
#[verifier::external_body] pub struct Value { _p: u8 }                 // serde_json::Value
#[verifier::external_body] pub struct PathBuf { _p: u8 }               // std::path::PathBuf
#[verifier::external_body] pub struct Graph { _p: u8 }
#[verifier::external_body] pub struct NetworkError { _p: u8 }
#[verifier::external_body] pub struct CompassConfigurationError { _p: u8 }
impl vstd::std_specs::convert::FromSpecImpl<NetworkError> for CompassConfigurationError { open spec fn obeys_from_spec() -> bool { false } open spec fn from_spec(v: NetworkError) -> CompassConfigurationError { arbitrary() } }
impl From<NetworkError> for CompassConfigurationError { #[verifier::external_body] fn from(e: NetworkError) -> CompassConfigurationError { unimplemented!() } }
pub enum CompassConfigurationField { Graph, Other }
impl CompassConfigurationField { #[verifier::external_body] pub fn to_string(&self) -> String { unimplemented!() } }

/// the path the configuration holds under `key` (None: missing, ill-typed or not an existing file) -- deterministic read
pub uninterp spec fn cfg_path(p: Value, key: Seq<char>) -> Option<PathBuf>;
/// the optional value of type T the configuration holds under `key` (outer None: ill-typed) -- deterministic read
pub uninterp spec fn cfg_opt<T>(p: Value, key: Seq<char>) -> Option<Option<T>>;
impl Value {
    #[verifier::external_body] pub fn get_config_path(&self, key: &&str, parent: &String) -> (r: Result<PathBuf, CompassConfigurationError>)
        ensures r matches Ok(v) ==> cfg_path(*self, (*key)@) == Some(v), r is Err ==> cfg_path(*self, (*key)@) is None { unimplemented!() }
    #[verifier::external_body] pub fn get_config_serde_optional<T>(&self, key: &&str, parent: &String) -> (r: Result<Option<T>, CompassConfigurationError>)
        ensures r matches Ok(v) ==> cfg_opt::<T>(*self, (*key)@) == Some(v), r is Err ==> cfg_opt::<T>(*self, (*key)@) is None { unimplemented!() }
}
/// Graph::from_files(edge file, vertex file, number of edges, number of vertices, verbose): the network it loads (None: an error) -- what it does with its arguments is
/// decided elsewhere (unit c15_graph, loader witnesses); here only WHICH arguments it gets
pub uninterp spec fn loaded(edge_list_csv: PathBuf, vertex_list_csv: PathBuf, n_edges: Option<usize>, n_vertices: Option<usize>, verbose: Option<bool>) -> Option<Graph>;
impl Graph {
    #[verifier::external_body] pub fn from_files(edge_list_csv: &PathBuf, vertex_list_csv: &PathBuf, n_edges: Option<usize>, n_vertices: Option<usize>, verbose: Option<bool>) -> (r: Result<Graph, NetworkError>)
        ensures r matches Ok(g) ==> loaded(*edge_list_csv, *vertex_list_csv, n_edges, n_vertices, verbose) == Some(g), r is Err ==> loaded(*edge_list_csv, *vertex_list_csv, n_edges, n_vertices, verbose) is None { unimplemented!() }
}
pub struct DefaultGraphBuilder {}
"""


def build(x):
    parts = [HEAD]
    f = x.fn(F, "impl DefaultGraphBuilder :: fn build")
    f.rewrite(r"params: &serde_json::Value", "params: &Value", 1, 1, rule="R-path")
    f.name_return("r")
    f.add_spec("""        ensures
            // C15: a graph is built only from a configuration that names both files, and it is the network loaded from THE edge file and THE vertex file of the
            // configuration with ITS number of edges as the number of edges and ITS number of vertices as the number of vertices (absent: counted from the files)
            r matches Ok(g) ==> (cfg_path(*params, "edge_list_input_file"@) matches Some(ep) && cfg_path(*params, "vertex_list_input_file"@) matches Some(vp)
                && cfg_opt::<usize>(*params, "n_edges"@) matches Some(ne) && cfg_opt::<usize>(*params, "n_vertices"@) matches Some(nv)
                && cfg_opt::<bool>(*params, "verbose"@) matches Some(vb) && loaded(ep, vp, ne, nv, vb) == Some(g)),""")
    parts.append("impl DefaultGraphBuilder {\n" + f.text + "\n}\n")
    parts.append("""
// vacuity guard: MUST FAIL
pub fn vacuity_probe(p: &Value) -> (b: bool) ensures false { DefaultGraphBuilder::build(p).is_ok() }
} // verus!
fn main() {}
""")
    return "\n".join(parts)
