"""AL -- the A* / Dijkstra driver itself under contract [V, unbounded loops].

Extracted verbatim from routee-compass-core: a_star_algorithm::{run_a_star, advance_search,
get_last_traversed_edge_id}, Direction::{tree_key_vertex_id, terminal_vertex_id},
struct SearchTreeBranch, struct SearchResult (+ new), struct Edge.
Rules applied to run_a_star: R7 (log::* statements removed), R8 (cfg(debug_assertions) flame
graph block removed), R9 (`for edge_id in incident_edge_iterator` desugared to loop/next).
Everything run_a_star calls on the search instance is an opaque shim with an ASSUMED contract
(listed); each is either a dependency or under contract elsewhere in /verif (cross reference).
Costs are extended reals (value or +infinity); A-REAL applies.
"""
import prelude as P
import genlib as G

A = "routee-compass-core/src/algorithm/search/"
OBLIGATIONS = ["run_a_star", "advance_search", "get_last_traversed_edge_id", "tree_key_vertex_id", "terminal_vertex_id",
               "lemma_no_revisit", "lemma_iteration_limit", "lemma_size_limit", "lemma_route_edges_permitted", "lemma_closed_step", "lemma_reachable_is_labelled", "lemma_no_path_means_unreachable",
               "lemma_path_prefix", "lemma_label_le_path", "lemma_chain_cost_le_label", "lemma_tree_route_least", "lemma_up", "lemma_parents_reach_source", "lemma_entry_is_reachable", "lemma_every_entry_is_reachable"]
MUST_FAIL = ["vacuity_probe"]

HEAD = """#![allow(unused_imports, unused_variables, dead_code, unused_mut, unused_parens, unused_assignments)]
use vstd::prelude::*;
use std::collections::{HashMap, HashSet};
use std::time::Instant;
verus! {
// ---- std items vstd does not specify (signatures only) ----
#[verifier::external_type_specification]
#[verifier::external_body]
pub struct ExInstant(std::time::Instant);
pub assume_specification [ std::time::Instant::now ]() -> std::time::Instant;
pub assume_specification<T, U, F: FnOnce(T) -> U> [ Option::<T>::map_or ](o: Option<T>, default: U, f: F) -> (r: U)
    ensures o matches Some(x) ==> f.ensures((x,), r), o is None ==> r == default;
pub assume_specification<T: Clone> [ <T as std::borrow::ToOwned>::to_owned ](c: &T) -> (r: T)
    ensures vstd::pervasive::cloned::<T>(*c, r);

#[derive(Copy, Clone, Eq, Hash, Debug)]
pub struct VertexId(pub usize);
#[derive(Copy, Clone, Eq, Hash, Debug)]
pub struct EdgeId(pub usize);
// derived PartialEq of a usize newtype: structural equality
impl vstd::std_specs::cmp::PartialEqSpecImpl for VertexId {
    open spec fn obeys_eq_spec() -> bool { true }
    open spec fn eq_spec(&self, o: &VertexId) -> bool { self.0 == o.0 }
}
impl core::cmp::PartialEq for VertexId { fn eq(&self, o: &VertexId) -> bool { self.0 == o.0 } }
impl vstd::std_specs::cmp::PartialEqSpecImpl for EdgeId {
    open spec fn obeys_eq_spec() -> bool { true }
    open spec fn eq_spec(&self, o: &EdgeId) -> bool { self.0 == o.0 }
}
impl core::cmp::PartialEq for EdgeId { fn eq(&self, o: &EdgeId) -> bool { self.0 == o.0 } }
// error text is not modelled: every format!(..) in the extracted functions becomes verif_format() (rule R-format)
#[verifier::external_body] pub fn verif_format() -> String { String::new() }
// A-REAL (only the definedness half is needed here: the heuristic term is never inspected)
pub broadcast axiom fn areal_mul_req(a: f64, b: f64) ensures #[trigger] vstd::std_specs::ops::MulSpec::mul_req(a, b);
// derived Hash/Eq on a usize newtype obey vstd's hash-key model (assumed)
#[verifier::external_body]
pub proof fn vid_key_model() ensures vstd::std_specs::hash::obeys_key_model::<VertexId>() {}

// ---- Cost as an extended real (A-REAL): a value, or +infinity ----
#[derive(Copy, Clone)]
pub struct Cost(pub f64);
pub uninterp spec fn c_inf(c: Cost) -> bool;
pub uninterp spec fn c_val(c: Cost) -> real;
pub open spec fn c_lt(a: Cost, b: Cost) -> bool { if c_inf(a) { false } else if c_inf(b) { true } else { c_val(a) < c_val(b) } }
impl Cost {
    #[verifier::external_body] pub const ZERO: Cost = Cost(0.0);
    #[verifier::external_body] pub const ONE: Cost = Cost(1.0);
    #[verifier::external_body] pub const INFINITY: Cost = Cost(f64::INFINITY);
    #[verifier::external_body] pub fn new(v: f64) -> (r: Cost) ensures r == cost_new(v) { Cost(v) }
    #[verifier::external_body] pub fn as_f64(&self) -> (r: f64) ensures r == cost_f(*self) { self.0 }
}
pub uninterp spec fn cost_new(v: f64) -> Cost;
pub uninterp spec fn cost_f(c: Cost) -> f64;
pub axiom fn cost_consts() ensures !c_inf(Cost::ZERO), c_val(Cost::ZERO) == 0real, !c_inf(Cost::ONE), c_inf(Cost::INFINITY);
impl vstd::std_specs::ops::AddSpecImpl<Cost> for Cost {
    open spec fn obeys_add_spec() -> bool { false }
    open spec fn add_req(self, rhs: Cost) -> bool { true }
    open spec fn add_spec(self, rhs: Cost) -> Cost { arbitrary() }
}
impl core::ops::Add for Cost { type Output = Cost;
    #[verifier::external_body] fn add(self, rhs: Cost) -> (r: Cost)
        ensures c_inf(r) == (c_inf(self) || c_inf(rhs)), !c_inf(r) ==> c_val(r) == c_val(self) + c_val(rhs)
    { Cost(self.0 + rhs.0) } }
impl vstd::std_specs::cmp::PartialEqSpecImpl for Cost {
    open spec fn obeys_eq_spec() -> bool { false }
    open spec fn eq_spec(&self, o: &Cost) -> bool { arbitrary() }
}
impl core::cmp::PartialEq for Cost { #[verifier::external_body] fn eq(&self, o: &Cost) -> bool { self.0 == o.0 } }
impl vstd::std_specs::cmp::PartialOrdSpecImpl for Cost {
    open spec fn obeys_partial_cmp_spec() -> bool { false }
    open spec fn partial_cmp_spec(&self, o: &Cost) -> Option<core::cmp::Ordering> { arbitrary() }
}
impl core::cmp::PartialOrd for Cost {
    #[verifier::external_body] fn partial_cmp(&self, o: &Cost) -> Option<core::cmp::Ordering> { self.0.partial_cmp(&o.0) }
    #[verifier::external_body] fn lt(&self, o: &Cost) -> (r: bool) ensures r == c_lt(*self, *o) { self.0 < o.0 } }
pub struct ReverseCost(pub Cost);
impl vstd::std_specs::convert::FromSpecImpl<Cost> for ReverseCost {
    open spec fn obeys_from_spec() -> bool { true }
    open spec fn from_spec(c: Cost) -> ReverseCost { ReverseCost(c) }
}
impl From<Cost> for ReverseCost { fn from(c: Cost) -> Self { ReverseCost(c) } }

pub struct StateVar(pub f64);
impl Clone for StateVar { #[verifier::external_body] fn clone(&self) -> Self { StateVar(self.0) } }
pub struct EdgeTraversal { pub edge_id: EdgeId, pub access_cost: Cost, pub traversal_cost: Cost, pub result_state: Vec<StateVar> }
pub uninterp spec fn et_cost(et: EdgeTraversal) -> Cost;
impl EdgeTraversal { #[verifier::external_body] pub fn total_cost(&self) -> (r: Cost) ensures r == et_cost(*self) { self.access_cost + self.traversal_cost } }
pub enum SearchError { InternalError(String), BuildError(String), NoPathExistsBetweenVertices(VertexId, VertexId), TerminationModelFailure, Other }
"""

SHIMS = """
// ---- the search instance: opaque, contract-carrying shims (every contract below is ASSUMED here) ----
#[verifier::external_body] pub struct Graph { _p: u8 }
#[verifier::external_body] pub struct StateModel { _p: u8 }
#[verifier::external_body] pub struct TerminationModel { _p: u8 }
#[verifier::external_body] pub struct FrontierModel { _p: u8 }
pub struct SearchInstance { pub directed_graph: Graph, pub state_model: StateModel, pub termination_model: TerminationModel, pub frontier_model: FrontierModel }

pub uninterp spec fn edge_of(g: &Graph, id: EdgeId) -> Edge;             // the edge record stored under an id     [C15.2]
pub uninterp spec fn has_edge(g: &Graph, id: EdgeId) -> bool;
pub uninterp spec fn incident(g: &Graph, d: Direction, v: VertexId) -> Seq<EdgeId>;   // out- (Forward) / in- (Reverse) edges  [C15.2 + C11]
pub uninterp spec fn permitted(fm: &FrontierModel, e: Edge, s: Seq<StateVar>, last: Option<Edge>) -> bool;   // the frontier model's answer [C04.1-6]
pub uninterp spec fn limit_ok(tm: &TerminationModel, size: nat, it: nat) -> bool;    // TerminationModel::test returns Ok       [C10.1-2]

pub uninterp spec fn cost_local(si: &SearchInstance) -> bool;                       // hypothesis of C02 / C05: edge costs do not depend on how the edge was reached
pub uninterp spec fn edge_w(si: &SearchInstance, d: Direction, e: EdgeId) -> real;    // ... and then this is the cost of edge e
pub open spec fn key_spec(d: Direction, e: Edge) -> VertexId { match d { Direction::Forward => e.dst_vertex_id, Direction::Reverse => e.src_vertex_id } }
pub open spec fn term_spec(d: Direction, e: Edge) -> VertexId { match d { Direction::Forward => e.src_vertex_id, Direction::Reverse => e.dst_vertex_id } }

#[verifier::external_body] pub struct Vertex { _p: u8 }
impl Graph {
    #[verifier::external_body]
    pub fn get_vertex(&self, v: &VertexId) -> (r: Result<&Vertex, SearchError>)
        ensures r matches Err(err) ==> !(err is NoPathExistsBetweenVertices) && !(err is TerminationModelFailure)
    { unimplemented!() }
    #[verifier::external_body]
    pub fn get_edge(&self, e: &EdgeId) -> (r: Result<&Edge, SearchError>)
        ensures r matches Ok(x) ==> *x == edge_of(self, *e) && has_edge(self, *e),
                r matches Err(err) ==> !(err is NoPathExistsBetweenVertices) && !(err is TerminationModelFailure)
    { unimplemented!() }
}
impl StateModel {
    #[verifier::external_body] pub fn initial_state(&self) -> (r: Result<Vec<StateVar>, SearchError>)
        ensures r matches Err(err) ==> !(err is NoPathExistsBetweenVertices) && !(err is TerminationModelFailure)
    { unimplemented!() }
}
impl TerminationModel {
    #[verifier::external_body]
    pub fn test(&self, t: &Instant, n: usize, it: u64) -> (r: Result<(), SearchError>)
        ensures r is Ok <==> limit_ok(self, n as nat, it as nat),
                r matches Err(err) ==> err is TerminationModelFailure
    { unimplemented!() }
}
impl FrontierModel {
    #[verifier::external_body]
    pub fn valid_frontier(&self, e: &Edge, s: &Vec<StateVar>, last: Option<&Edge>, sm: &StateModel) -> (r: Result<bool, SearchError>)
        ensures r matches Ok(b) ==> b == permitted(self, *e, s@, match last { Some(x) => Some(*x), None => None }),
                r matches Err(err) ==> !(err is NoPathExistsBetweenVertices) && !(err is TerminationModelFailure)
    { unimplemented!() }
}
/// the instance's cost estimate from s to d (deterministic, uninterpreted)
pub uninterp spec fn est_of(si: &SearchInstance, s: VertexId, d: VertexId, st: Seq<StateVar>) -> Cost;
impl SearchInstance {
    #[verifier::external_body]
    pub fn estimate_traversal_cost(&self, s: VertexId, d: VertexId, st: &Vec<StateVar>) -> (r: Result<Cost, SearchError>)
        ensures r matches Err(err) ==> !(err is NoPathExistsBetweenVertices) && !(err is TerminationModelFailure),
                r matches Ok(c) ==> c == est_of(self, s, d, st@)
    { unimplemented!() }
}

// iterator over incident edge ids (Box<dyn Iterator<Item = &EdgeId>> in the real code)
#[verifier::external_body] pub struct EdgeIter<'a> { _p: core::marker::PhantomData<&'a u8> }
impl<'a> EdgeIter<'a> {
    pub uninterp spec fn seq(&self) -> Seq<EdgeId>;
    pub uninterp spec fn pos(&self) -> int;
    #[verifier::external_body]
    pub fn next(&mut self) -> (r: Option<&'a EdgeId>)
        ensures final(self).seq() == old(self).seq(),
                0 <= old(self).pos() <= old(self).seq().len(),
                old(self).pos() < old(self).seq().len() ==> r is Some && *r->Some_0 == old(self).seq()[old(self).pos()] && final(self).pos() == old(self).pos() + 1,
                old(self).pos() >= old(self).seq().len() ==> r is None && final(self).pos() == old(self).pos(),
    { unimplemented!() }
}

// priority queue (crate priority_queue, dependency; ASSUMED): ghost view = queued vertex -> cost whose ReverseCost is its priority.
// ReverseCost reverses the order of Cost (proved on the real type by Kani harness c02_reverse_cost_order), so "greater priority" = "smaller cost".
#[verifier::external_body]
#[verifier::reject_recursive_types(I)]
#[verifier::reject_recursive_types(P)]
pub struct InternalPriorityQueue<I, P> { _p: core::marker::PhantomData<(I, P)> }
impl InternalPriorityQueue<VertexId, ReverseCost> {
    pub uninterp spec fn view(&self) -> Map<VertexId, Cost>;
    #[verifier::external_body] pub fn default() -> (r: Self) ensures r@ =~= Map::<VertexId, Cost>::empty() { unimplemented!() }
    #[verifier::external_body] pub fn len(&self) -> (r: usize) ensures r == self@.dom().len() { unimplemented!() }
    // push: insert, or replace the priority of a queued item
    #[verifier::external_body] pub fn push(&mut self, v: VertexId, c: ReverseCost) -> (r: Option<ReverseCost>) ensures final(self)@ =~= old(self)@.insert(v, c.0) { unimplemented!() }
    // push_increase: insert, or replace the priority only if the new one is GREATER (= the new cost is smaller)
    #[verifier::external_body] pub fn push_increase(&mut self, v: VertexId, c: ReverseCost) -> (r: Option<ReverseCost>)
        ensures final(self)@ =~= (if !old(self)@.contains_key(v) || c_lt(c.0, old(self)@[v]) { old(self)@.insert(v, c.0) } else { old(self)@ }) { unimplemented!() }
    // push_decrease: insert, or replace the priority only if the new one is SMALLER (= the new cost is greater)
    #[verifier::external_body] pub fn push_decrease(&mut self, v: VertexId, c: ReverseCost) -> (r: Option<ReverseCost>)
        ensures final(self)@ =~= (if !old(self)@.contains_key(v) || c_lt(old(self)@[v], c.0) { old(self)@.insert(v, c.0) } else { old(self)@ }) { unimplemented!() }
    // pop: removes an item of greatest priority (= smallest cost)
    #[verifier::external_body]
    pub fn pop(&mut self) -> (r: Option<(VertexId, ReverseCost)>)
        ensures r is None <==> old(self)@.dom() =~= Set::<VertexId>::empty(),
                r is None ==> final(self)@ == old(self)@,
                r matches Some(p) ==> old(self)@.contains_key(p.0) && p.1.0 == old(self)@[p.0] && final(self)@ =~= old(self)@.remove(p.0)
                    && forall|w: VertexId| old(self)@.contains_key(w) ==> !c_lt(#[trigger] old(self)@[w], old(self)@[p.0]),
    { unimplemented!() }
}
"""

DIR_SHIMS = """
    // assumed: yields exactly the ids of the edges leaving (Forward) / entering (Reverse) the vertex   [C15.2 + C11]
    #[verifier::external_body]
    pub fn get_incident_edges<'a>(&'a self, v: &VertexId, si: &'a SearchInstance) -> (r: EdgeIter<'a>)
        ensures r.pos() == 0, r.seq() == incident(&si.directed_graph, *self, *v),
                forall|i: int| 0 <= i < r.seq().len() ==> has_edge(&si.directed_graph, #[trigger] r.seq()[i])
                    && term_spec(*self, edge_of(&si.directed_graph, r.seq()[i])) == *v,
    { unimplemented!() }
    // assumed: traverses exactly the requested edge at a strictly positive, finite total cost   [C01.5 / C07.5: forward_traversal, reverse_traversal]
    #[verifier::external_body]
    pub fn perform_edge_traversal(&self, e: EdgeId, last: Option<EdgeId>, st: &Vec<StateVar>, si: &SearchInstance) -> (r: Result<EdgeTraversal, SearchError>)
        ensures r matches Ok(et) ==> et.edge_id == e && !c_inf(et_cost(et)) && c_val(et_cost(et)) > 0real,
                // DEFINITION of the hypothesis `cost_local` of C02 / C05 ("the cost of an edge does not depend on how the edge was reached"):
                // on such an instance the total cost of traversing edge e in this direction is ONE number, edge_w(si, d, e), whatever the state and the previous edge
                r matches Ok(et) ==> (cost_local(si) ==> c_val(et_cost(et)) == edge_w(si, *self, e)),
                r matches Err(err) ==> !(err is NoPathExistsBetweenVertices) && !(err is TerminationModelFailure)
    { unimplemented!() }
"""

SPECS = """
// ===== the invariants of the search, over the abstraction (map views, ghost sets) =====
pub open spec fn lbl(labels: Map<VertexId, Cost>, v: VertexId) -> real { c_val(labels[v]) }

/// TW + PERM: every tree entry records an edge of the graph that joins the entry's parent to the entry's own vertex
/// in the search direction, and that edge was permitted by the frontier model when it entered the tree
pub open spec fn tree_wf(g: &Graph, fm: &FrontierModel, d: Direction, t: Map<VertexId, SearchTreeBranch>) -> bool {
    forall|k: VertexId| #[trigger] t.contains_key(k) ==> {
        let b = t[k];
        let e = edge_of(g, b.edge_traversal.edge_id);
        &&& has_edge(g, b.edge_traversal.edge_id)
        &&& key_spec(d, e) == k
        &&& term_spec(d, e) == b.terminal_vertex
        &&& exists|s: Seq<StateVar>, last: Option<Edge>| #[trigger] permitted(fm, e, s, last)
    }
}
/// DOM: labelled vertices = tree entries + the source; the source is not an entry; every parent is the source or an entry
pub open spec fn dom_ok(source: VertexId, t: Map<VertexId, SearchTreeBranch>, labels: Map<VertexId, Cost>) -> bool {
    &&& labels.contains_key(source)
    &&& !t.contains_key(source)
    &&& forall|k: VertexId| #[trigger] labels.contains_key(k) <==> (k == source || t.contains_key(k))
    &&& forall|k: VertexId| #[trigger] t.contains_key(k) ==> labels.contains_key(t[k].terminal_vertex)
}
/// POT: labels are finite and >= 0, the source has label 0, and every entry's label exceeds its parent's by at least
/// the (strictly positive) cost of its edge -- following parents strictly decreases the label
pub open spec fn pot_ok(source: VertexId, t: Map<VertexId, SearchTreeBranch>, labels: Map<VertexId, Cost>) -> bool {
    &&& !c_inf(labels[source]) && lbl(labels, source) == 0real
    &&& forall|k: VertexId| #[trigger] labels.contains_key(k) ==> !c_inf(labels[k]) && lbl(labels, k) >= 0real
    &&& forall|k: VertexId| #[trigger] t.contains_key(k) ==>
            c_val(et_cost(t[k].edge_traversal)) > 0real
            && lbl(labels, k) >= lbl(labels, t[k].terminal_vertex) + c_val(et_cost(t[k].edge_traversal))
}
/// EXP: every labelled vertex is expanded or still queued; for an expanded vertex every incident edge the frontier
/// model permitted at expansion time has its far vertex labelled
pub open spec fn exp_ok(g: &Graph, fm: &FrontierModel, d: Direction, labels: Map<VertexId, Cost>, queued: Set<VertexId>,
                        expanded: Set<VertexId>, refused: Set<EdgeId>) -> bool {
    &&& forall|v: VertexId| #[trigger] labels.contains_key(v) ==> expanded.contains(v) || queued.contains(v)
    &&& forall|v: VertexId| #[trigger] queued.contains(v) ==> labels.contains_key(v)
    &&& forall|v: VertexId, i: int| expanded.contains(v) && 0 <= i < incident(g, d, v).len() ==>
            refused.contains(#[trigger] incident(g, d, v)[i]) || labels.contains_key(key_spec(d, edge_of(g, incident(g, d, v)[i])))
    // an edge is recorded as refused only when the frontier model refused it (for some state / previous edge)
    &&& forall|e: EdgeId| #[trigger] refused.contains(e) ==> exists|s: Seq<StateVar>, last: Option<Edge>| !(#[trigger] permitted(fm, edge_of(g, e), s, last))
}
/// one relaxed edge: its far vertex is labelled, with a label not above the near vertex' label plus the edge's cost
pub open spec fn relaxed(si: &SearchInstance, d: Direction, labels: Map<VertexId, Cost>, v: VertexId, eid: EdgeId) -> bool {
    let far = key_spec(d, edge_of(&si.directed_graph, eid));
    labels.contains_key(far) && lbl(labels, far) <= lbl(labels, v) + edge_w(si, d, eid)
}
/// BELL (C02 / C05 "least cost"): every incident edge of a vertex that has been expanded and is not waiting in the queue again
/// was refused by the frontier model or is relaxed -- Bellman's condition on the settled part of the graph
pub open spec fn bell_ok(si: &SearchInstance, d: Direction, labels: Map<VertexId, Cost>, queued: Set<VertexId>, expanded: Set<VertexId>, refused: Set<EdgeId>) -> bool {
    forall|v: VertexId, i: int| expanded.contains(v) && !queued.contains(v) && 0 <= i < incident(&si.directed_graph, d, v).len() ==>
        refused.contains(#[trigger] incident(&si.directed_graph, d, v)[i]) || relaxed(si, d, labels, v, incident(&si.directed_graph, d, v)[i])
}
/// TIED: the cost stored with a tree entry is the cost of its edge
pub open spec fn tied_ok(si: &SearchInstance, d: Direction, t: Map<VertexId, SearchTreeBranch>) -> bool {
    forall|k: VertexId| #[trigger] t.contains_key(k) ==> c_val(et_cost(t[k].edge_traversal)) == edge_w(si, d, t[k].edge_traversal.edge_id)
}
/// what a search WITHOUT a target returns on an instance whose edge costs do not depend on how the edge was reached:
/// a tree with potentials that satisfy Bellman's condition on every permitted edge between labelled vertices (=> least-cost labels, lemma_tree_route_least)
pub open spec fn least_post(si: &SearchInstance, d: Direction, source: VertexId, r: SearchResult) -> bool {
    exists|labels: Map<VertexId, Cost>, expanded: Set<VertexId>, refused: Set<EdgeId>| {
        &&& #[trigger] search_inv(si, d, source, None, r.tree@, labels, Set::<VertexId>::empty(), expanded, refused)
        &&& bell_ok(si, d, labels, Set::<VertexId>::empty(), expanded, refused)
        &&& tied_ok(si, d, r.tree@)
    }
}
/// INC: the edge a tree entry records is one of the incident edges (in the search direction) of the entry's parent -- position `inc_idx` of the parent's list
pub open spec fn inc_at(g: &Graph, d: Direction, t: Map<VertexId, SearchTreeBranch>, k: VertexId, i: int) -> bool {
    0 <= i < incident(g, d, t[k].terminal_vertex).len() && incident(g, d, t[k].terminal_vertex)[i] == t[k].edge_traversal.edge_id
}
pub open spec fn inc_ok(g: &Graph, d: Direction, t: Map<VertexId, SearchTreeBranch>) -> bool {
    forall|k: VertexId| #[trigger] t.contains_key(k) ==> exists|i: int| #[trigger] inc_at(g, d, t, k, i)
}
pub open spec fn search_inv(si: &SearchInstance, d: Direction, source: VertexId, target: Option<VertexId>, t: Map<VertexId, SearchTreeBranch>,
                            labels: Map<VertexId, Cost>, queued: Set<VertexId>, expanded: Set<VertexId>, refused: Set<EdgeId>) -> bool {
    &&& tree_wf(&si.directed_graph, &si.frontier_model, d, t)
    &&& dom_ok(source, t, labels)
    &&& pot_ok(source, t, labels)
    &&& exp_ok(&si.directed_graph, &si.frontier_model, d, labels, queued, expanded, refused)
    // the target is never expanded (popping it ends the search)
    &&& (target matches Some(tv) ==> !expanded.contains(tv))
}
/// what a successful search returns (C01 tree clauses, C04.7, C05 "if", C10.3)
pub open spec fn search_post(si: &SearchInstance, d: Direction, source: VertexId, target: Option<VertexId>, r: SearchResult) -> bool {
    // (source == target) => empty tree
    &&& (target == Some(source) ==> r.tree@ =~= Map::<VertexId, SearchTreeBranch>::empty() && r.iterations == 0)
    &&& exists|labels: Map<VertexId, Cost>| {
        &&& tree_wf(&si.directed_graph, &si.frontier_model, d, r.tree@)
        &&& #[trigger] dom_ok(source, r.tree@, labels)
        &&& pot_ok(source, r.tree@, labels)
        // without a target the search returns only when the queue is exhausted: the labelled set is closed under permitted edges
        &&& (target is None ==> exists|expanded: Set<VertexId>, refused: Set<EdgeId>|
                #[trigger] exp_ok(&si.directed_graph, &si.frontier_model, d, labels, Set::<VertexId>::empty(), expanded, refused))
    }
    // with a target distinct from the source the search returns only after popping the target: it is a tree entry
    &&& (target matches Some(tv) ==> (tv != source ==> r.tree@.contains_key(tv)))
    // CNT: every completed turn began with a passing limit test on (tree size, turn number)
    &&& (r.iterations > 0 ==> exists|n: nat| #[trigger] limit_ok(&si.termination_model, n, (r.iterations - 1) as nat))
}
/// what holds when the search reports "no path" (C05 "only if"): the queue is exhausted, the labelled set is closed under
/// the edges the frontier model permitted, and the target is not labelled
pub open spec fn nopath_post(si: &SearchInstance, d: Direction, source: VertexId, tv: VertexId) -> bool {
    exists|t: Map<VertexId, SearchTreeBranch>, labels: Map<VertexId, Cost>, expanded: Set<VertexId>, refused: Set<EdgeId>| {
        &&& #[trigger] search_inv(si, d, source, Some(tv), t, labels, Set::<VertexId>::empty(), expanded, refused)
        &&& !labels.contains_key(tv)
    }
}
"""

LEMMAS = """
// ===== consequences stated as lemmas over the contracts =====

/// C01 "without revisiting a vertex": a chain of parent links strictly decreases the label, so it never returns to its start
pub open spec fn parent_chain(t: Map<VertexId, SearchTreeBranch>, c: Seq<VertexId>) -> bool {
    &&& c.len() >= 1
    // (the trigger is the whole contains_key term: with `c[i]` alone as trigger the successor term c[i + 1] would be a matching loop)
    &&& forall|i: int| 0 <= i < c.len() - 1 ==> #[trigger] t.contains_key(c[i]) && t[c[i]].terminal_vertex == c[i + 1]
}
pub proof fn lemma_no_revisit(source: VertexId, t: Map<VertexId, SearchTreeBranch>, labels: Map<VertexId, Cost>, c: Seq<VertexId>)
    requires dom_ok(source, t, labels), pot_ok(source, t, labels), parent_chain(t, c), c.len() >= 2
    ensures lbl(labels, c.last()) < lbl(labels, c[0]), c.last() != c[0],
            forall|i: int, j: int| 0 <= i < j < c.len() ==> c[i] != c[j]
    decreases c.len()
{
    if c.len() == 2 {
        assert(t.contains_key(c[0]));
    } else {
        let c2 = c.drop_last();
        assert(parent_chain(t, c2)) by { assert forall|i: int| 0 <= i < c2.len() - 1 implies #[trigger] t.contains_key(c2[i]) && t[c2[i]].terminal_vertex == c2[i + 1] by { assert(c2[i] == c[i]); assert(c2[i+1] == c[i+1]); assert(t.contains_key(c[i])); } }
        lemma_no_revisit(source, t, labels, c2);
        let n = c.len() as int;
        assert(t.contains_key(c[n - 2]));
        assert(c2.last() == c[n - 2]);
        assert(lbl(labels, c[n - 1]) < lbl(labels, c[n - 2]));
    }
    // pairwise distinctness: every sub-chain also strictly decreases
    assert forall|i: int, j: int| 0 <= i < j < c.len() implies c[i] != c[j] by {
        let sub = c.subrange(i, j + 1);
        assert(parent_chain(t, sub)) by { assert forall|m: int| 0 <= m < sub.len() - 1 implies #[trigger] t.contains_key(sub[m]) && t[sub[m]].terminal_vertex == sub[m + 1] by { assert(sub[m] == c[i + m]); assert(sub[m + 1] == c[i + m + 1]); assert(t.contains_key(c[i + m])); } }
        if sub.len() < c.len() { lemma_no_revisit(source, t, labels, sub); assert(sub[0] == c[i]); assert(sub.last() == c[j]); }
        else { assert(i == 0 && j == c.len() - 1); }
    }
}

/// C10: under an iteration limit L (test passes iff it + 1 <= L, proved on the real predicate by c10_tm) a returned search performed <= L turns
pub proof fn lemma_iteration_limit(si: &SearchInstance, d: Direction, source: VertexId, target: Option<VertexId>, r: SearchResult, limit: nat)
    requires search_post(si, d, source, target, r),
             forall|n: nat, it: nat| #[trigger] limit_ok(&si.termination_model, n, it) ==> it + 1 <= limit
    ensures r.iterations <= limit
{}
/// C10: under a solution-size limit S (test passes iff size <= S) -- see the assertion inside run_a_star: the test is made on
/// solution.len() at the top of every turn, so the tree had <= S entries whenever a turn began
pub proof fn lemma_size_limit(tm: &TerminationModel, size: nat, it: nat, limit: nat)
    requires limit_ok(tm, size, it), forall|n: nat, i: nat| #[trigger] limit_ok(tm, n, i) ==> n <= limit
    ensures size <= limit
{}
/// C04.7: for an edge-local frontier model (its answer does not depend on state or previous edge) no tree entry uses a forbidden edge
pub proof fn lemma_route_edges_permitted(g: &Graph, fm: &FrontierModel, d: Direction, t: Map<VertexId, SearchTreeBranch>, k: VertexId)
    requires tree_wf(g, fm, d, t), t.contains_key(k),
             forall|e: Edge, s1: Seq<StateVar>, l1: Option<Edge>, s2: Seq<StateVar>, l2: Option<Edge>| permitted(fm, e, s1, l1) == permitted(fm, e, s2, l2)
    ensures forall|s: Seq<StateVar>, last: Option<Edge>| permitted(fm, edge_of(g, t[k].edge_traversal.edge_id), s, last)
{
    let e = edge_of(g, t[k].edge_traversal.edge_id);
    let (s0, l0) = choose|s: Seq<StateVar>, last: Option<Edge>| #[trigger] permitted(fm, e, s, last);
    assert forall|s: Seq<StateVar>, last: Option<Edge>| permitted(fm, e, s, last) by { assert(permitted(fm, e, s0, l0) == permitted(fm, e, s, last)); }
}
/// C05 (only if): the search reports "no path" only from an exhausted queue; then (for an edge-local model) every vertex
/// reachable from the source along permitted edges is labelled, so an unlabelled target is unreachable.
/// One step of that closure argument:
pub proof fn lemma_closed_step(si: &SearchInstance, d: Direction, source: VertexId, t: Map<VertexId, SearchTreeBranch>, labels: Map<VertexId, Cost>,
                               expanded: Set<VertexId>, refused: Set<EdgeId>, v: VertexId, i: int)
    requires search_inv(si, d, source, None, t, labels, Set::<VertexId>::empty(), expanded, refused),
             labels.contains_key(v), 0 <= i < incident(&si.directed_graph, d, v).len(),
             forall|e: Edge, s1: Seq<StateVar>, l1: Option<Edge>, s2: Seq<StateVar>, l2: Option<Edge>|
                 permitted(&si.frontier_model, e, s1, l1) == permitted(&si.frontier_model, e, s2, l2),
             forall|s: Seq<StateVar>, last: Option<Edge>| permitted(&si.frontier_model, edge_of(&si.directed_graph, incident(&si.directed_graph, d, v)[i]), s, last),
    ensures labels.contains_key(key_spec(d, edge_of(&si.directed_graph, incident(&si.directed_graph, d, v)[i])))
{
    let g = &si.directed_graph;
    let eid = incident(g, d, v)[i];
    assert(expanded.contains(v));
    if refused.contains(eid) {
        let (s0, l0) = choose|s: Seq<StateVar>, last: Option<Edge>| !(#[trigger] permitted(&si.frontier_model, edge_of(g, eid), s, last));
        assert(permitted(&si.frontier_model, edge_of(g, eid), s0, l0));
        assert(false);
    }
}
/// a path of the graph in the search direction that the (edge-local) frontier model lets through: vertex k+1 is the far end of the idx[k]-th incident edge of vertex k
/// one step of such a path (a dedicated step predicate is the quantifier's trigger: a bare `path[k]` with `path[k + 1]` in the body would be a matching loop)
pub open spec fn pstep(si: &SearchInstance, d: Direction, path: Seq<VertexId>, idx: Seq<int>, k: int) -> bool {
    let inc = incident(&si.directed_graph, d, path[k]);
    &&& 0 <= idx[k] < inc.len()
    &&& path[k + 1] == key_spec(d, edge_of(&si.directed_graph, inc[idx[k]]))
    &&& forall|s: Seq<StateVar>, last: Option<Edge>| permitted(&si.frontier_model, edge_of(&si.directed_graph, inc[idx[k]]), s, last)
}
pub open spec fn permitted_path(si: &SearchInstance, d: Direction, path: Seq<VertexId>, idx: Seq<int>) -> bool {
    &&& path.len() >= 1 && idx.len() == path.len() - 1
    &&& forall|k: int| 0 <= k < idx.len() ==> #[trigger] pstep(si, d, path, idx, k)
}
/// a prefix of a permitted path is one
pub proof fn lemma_path_prefix(si: &SearchInstance, d: Direction, path: Seq<VertexId>, idx: Seq<int>)
    requires permitted_path(si, d, path, idx), path.len() >= 2
    ensures permitted_path(si, d, path.drop_last(), idx.drop_last()), pstep(si, d, path, idx, path.len() - 2)
{
    let p2 = path.drop_last(); let i2 = idx.drop_last();
    assert forall|k: int| 0 <= k < i2.len() implies #[trigger] pstep(si, d, p2, i2, k) by {
        assert(pstep(si, d, path, idx, k));
        assert(p2[k] == path[k]); assert(p2[k + 1] == path[k + 1]); assert(i2[k] == idx[k]);
    }
    assert(pstep(si, d, path, idx, path.len() - 2));
}
pub open spec fn edge_local(fm: &FrontierModel) -> bool {
    forall|e: Edge, s1: Seq<StateVar>, l1: Option<Edge>, s2: Seq<StateVar>, l2: Option<Edge>| permitted(fm, e, s1, l1) == permitted(fm, e, s2, l2)
}
/// C05 "only if", the whole argument: when the queue is exhausted, EVERY vertex that a permitted path from the source reaches is labelled (induction on the path)
pub proof fn lemma_reachable_is_labelled(si: &SearchInstance, d: Direction, source: VertexId, target: Option<VertexId>, t: Map<VertexId, SearchTreeBranch>, labels: Map<VertexId, Cost>,
                                         expanded: Set<VertexId>, refused: Set<EdgeId>, path: Seq<VertexId>, idx: Seq<int>)
    requires search_inv(si, d, source, target, t, labels, Set::<VertexId>::empty(), expanded, refused), edge_local(&si.frontier_model),
             permitted_path(si, d, path, idx), path[0] == source
    ensures labels.contains_key(path.last())
    decreases path.len()
{
    let g = &si.directed_graph;
    if path.len() == 1 { assert(path.last() == path[0]); }
    else {
        let n = path.len() as int;
        let p2 = path.drop_last(); let i2 = idx.drop_last();
        lemma_path_prefix(si, d, path, idx);
        lemma_reachable_is_labelled(si, d, source, target, t, labels, expanded, refused, p2, i2);
        let v = path[n - 2]; let i = idx[n - 2];
        assert(p2.last() == v);
        assert(labels.contains_key(v));
        let eid = incident(g, d, v)[i];
        // v is labelled and the queue is empty, so v was expanded; its i-th incident edge was not refused (the model lets it through for every state)
        assert(expanded.contains(v));
        if refused.contains(eid) {
            let (s0, l0) = choose|s: Seq<StateVar>, last: Option<Edge>| !(#[trigger] permitted(&si.frontier_model, edge_of(g, eid), s, last));
            assert(permitted(&si.frontier_model, edge_of(g, eid), s0, l0));
            assert(false);
        }
        assert(path.last() == path[n - 1]);
    }
}
/// C05 "only if": when the search reports "no path", NO permitted path from the source ends at the target
pub proof fn lemma_no_path_means_unreachable(si: &SearchInstance, d: Direction, source: VertexId, tv: VertexId, path: Seq<VertexId>, idx: Seq<int>)
    requires nopath_post(si, d, source, tv), edge_local(&si.frontier_model), permitted_path(si, d, path, idx), path[0] == source
    ensures path.last() != tv
{
    let (t, labels, expanded, refused) = choose|t: Map<VertexId, SearchTreeBranch>, labels: Map<VertexId, Cost>, expanded: Set<VertexId>, refused: Set<EdgeId>|
        #[trigger] search_inv(si, d, source, Some(tv), t, labels, Set::<VertexId>::empty(), expanded, refused) && !labels.contains_key(tv);
    lemma_reachable_is_labelled(si, d, source, Some(tv), t, labels, expanded, refused, path, idx);
}

// ===== C02 / C05 "least cost": at queue exhaustion the labels are Bellman potentials, so the tree's own route to a vertex costs no more than ANY permitted path to it =====

/// cost of a permitted path (sum of the edge costs along it)
pub open spec fn path_cost(si: &SearchInstance, d: Direction, path: Seq<VertexId>, idx: Seq<int>) -> real
    decreases idx.len()
{
    if idx.len() == 0 || path.len() != idx.len() + 1 { 0real }
    else { path_cost(si, d, path.drop_last(), idx.drop_last()) + edge_w(si, d, incident(&si.directed_graph, d, path[path.len() - 2])[idx.last()]) }
}
/// (1) the label of a vertex is a LOWER bound of the cost of every permitted path from the source to it (induction on the path; Bellman's condition at each step)
pub proof fn lemma_label_le_path(si: &SearchInstance, d: Direction, source: VertexId, t: Map<VertexId, SearchTreeBranch>, labels: Map<VertexId, Cost>,
                                 expanded: Set<VertexId>, refused: Set<EdgeId>, path: Seq<VertexId>, idx: Seq<int>)
    requires search_inv(si, d, source, None, t, labels, Set::<VertexId>::empty(), expanded, refused), edge_local(&si.frontier_model),
             bell_ok(si, d, labels, Set::<VertexId>::empty(), expanded, refused),
             permitted_path(si, d, path, idx), path[0] == source
    ensures labels.contains_key(path.last()), lbl(labels, path.last()) <= path_cost(si, d, path, idx)
    decreases path.len()
{
    let g = &si.directed_graph;
    if path.len() == 1 { assert(path.last() == path[0]); }
    else {
        let n = path.len() as int;
        let p2 = path.drop_last(); let i2 = idx.drop_last();
        lemma_path_prefix(si, d, path, idx);
        lemma_label_le_path(si, d, source, t, labels, expanded, refused, p2, i2);
        let v = path[n - 2]; let i = idx[n - 2];
        assert(p2.last() == v);
        assert(idx.last() == i);
        let eid = incident(g, d, v)[i];
        assert(expanded.contains(v));
        if refused.contains(eid) {
            let (s0, l0) = choose|s: Seq<StateVar>, last: Option<Edge>| !(#[trigger] permitted(&si.frontier_model, edge_of(g, eid), s, last));
            assert(permitted(&si.frontier_model, edge_of(g, eid), s0, l0));
            assert(false);
        }
        assert(relaxed(si, d, labels, v, eid));
        assert(path.last() == path[n - 1]);
    }
}
/// cost of the tree's own route along a chain of parent links (what the route reports as its cost)
pub open spec fn chain_cost(t: Map<VertexId, SearchTreeBranch>, c: Seq<VertexId>) -> real
    decreases c.len()
{
    if c.len() <= 1 { 0real } else { c_val(et_cost(t[c[0]].edge_traversal)) + chain_cost(t, c.subrange(1, c.len() as int)) }
}
/// (2) the cost accumulated along a chain of parent links is at most the difference of the labels at its ends (telescoping POT)
pub proof fn lemma_chain_cost_le_label(source: VertexId, t: Map<VertexId, SearchTreeBranch>, labels: Map<VertexId, Cost>, c: Seq<VertexId>)
    requires dom_ok(source, t, labels), pot_ok(source, t, labels), parent_chain(t, c)
    ensures chain_cost(t, c) <= lbl(labels, c[0]) - lbl(labels, c.last())
    decreases c.len()
{
    if c.len() <= 1 { assert(c.last() == c[0]); }
    else {
        let c2 = c.subrange(1, c.len() as int);
        assert(parent_chain(t, c2)) by { assert forall|i: int| 0 <= i < c2.len() - 1 implies #[trigger] t.contains_key(c2[i]) && t[c2[i]].terminal_vertex == c2[i + 1] by { assert(c2[i] == c[i + 1]); assert(c2[i + 1] == c[i + 2]); assert(t.contains_key(c[i + 1])); } }
        lemma_chain_cost_le_label(source, t, labels, c2);
        assert(t.contains_key(c[0]));
        assert(c2[0] == c[1]); assert(c2.last() == c.last());
    }
}
/// C02 / C05: for a tree search (no target) on an instance whose edge costs do not depend on how the edge was reached and whose frontier model is edge-local,
/// the route the tree stores for a vertex -- its chain of parent links back to the source -- costs NO MORE THAN ANY permitted path from the source to that vertex,
/// and the vertex' label is exactly in between: the tree's routes are least-cost routes and the labels are the least costs
pub proof fn lemma_tree_route_least(si: &SearchInstance, d: Direction, source: VertexId, r: SearchResult, c: Seq<VertexId>, path: Seq<VertexId>, idx: Seq<int>)
    requires least_post(si, d, source, r), edge_local(&si.frontier_model),
             parent_chain(r.tree@, c), c.last() == source,
             permitted_path(si, d, path, idx), path[0] == source, path.last() == c[0]
    ensures chain_cost(r.tree@, c) <= path_cost(si, d, path, idx)
{
    let (labels, expanded, refused) = choose|labels: Map<VertexId, Cost>, expanded: Set<VertexId>, refused: Set<EdgeId>|
        #[trigger] search_inv(si, d, source, None, r.tree@, labels, Set::<VertexId>::empty(), expanded, refused)
        && bell_ok(si, d, labels, Set::<VertexId>::empty(), expanded, refused) && tied_ok(si, d, r.tree@);
    lemma_label_le_path(si, d, source, r.tree@, labels, expanded, refused, path, idx);
    lemma_chain_cost_le_label(source, r.tree@, labels, c);
}

// ===== C01 "following parents from any entry reaches the search origin" (existence of the chain; `lemma_no_revisit` says it never revisits a vertex) =====
/// the chain of parent links from k, at most n steps long: it stops at the first vertex that is not a tree entry
pub open spec fn up(t: Map<VertexId, SearchTreeBranch>, k: VertexId, n: nat) -> Seq<VertexId>
    decreases n
{
    if n == 0 || !t.contains_key(k) { seq![k] } else { seq![k] + up(t, t[k].terminal_vertex, (n - 1) as nat) }
}
pub proof fn lemma_up(t: Map<VertexId, SearchTreeBranch>, k: VertexId, n: nat)
    ensures up(t, k, n).len() >= 1, up(t, k, n)[0] == k, parent_chain(t, up(t, k, n)), up(t, k, n).len() <= n + 1,
            !t.contains_key(up(t, k, n).last()) || up(t, k, n).len() == n + 1,
    decreases n
{
    let c = up(t, k, n);
    if n == 0 || !t.contains_key(k) { assert(c =~= seq![k]); }
    else {
        let p = t[k].terminal_vertex;
        let c2 = up(t, p, (n - 1) as nat);
        lemma_up(t, p, (n - 1) as nat);
        assert(c =~= seq![k] + c2);
        assert(c.last() == c2.last());
        assert forall|i: int| 0 <= i < c.len() - 1 implies #[trigger] t.contains_key(c[i]) && t[c[i]].terminal_vertex == c[i + 1] by {
            if i == 0 { assert(c[1] == c2[0]); } else { assert(c[i] == c2[i - 1]); assert(c[i + 1] == c2[i]); assert(t.contains_key(c2[i - 1])); }
        }
    }
}
/// C01: from EVERY tree entry a chain of parent links leads to the search origin (pigeonhole: a chain that is still inside the tree after |tree| steps would name |tree| + 1
/// pairwise distinct entries -- distinct because the labels strictly decrease along it)
pub proof fn lemma_parents_reach_source(source: VertexId, t: Map<VertexId, SearchTreeBranch>, labels: Map<VertexId, Cost>, k: VertexId)
    requires dom_ok(source, t, labels), pot_ok(source, t, labels), t.contains_key(k), t.dom().finite()
    ensures exists|c: Seq<VertexId>| #[trigger] parent_chain(t, c) && c[0] == k && c.last() == source
{
    let n = t.dom().len();
    let c = up(t, k, n);
    lemma_up(t, k, n);
    if t.contains_key(c.last()) {
        // all n + 1 vertices of the chain are entries, and they are pairwise distinct: impossible in a tree of n entries
        assert(c.len() == n + 1);
        assert(n >= 1) by { if n == 0 { assert(t.dom() =~= Set::<VertexId>::empty()); assert(t.dom().contains(k)); } }
        lemma_no_revisit(source, t, labels, c);
        assert(c.no_duplicates());
        c.unique_seq_to_set();
        assert(c.to_set().subset_of(t.dom())) by {
            assert forall|v: VertexId| c.to_set().contains(v) implies t.dom().contains(v) by {
                let i = choose|i: int| 0 <= i < c.len() && c[i] == v;
                if i < c.len() - 1 { assert(t.contains_key(c[i])); } else { assert(c[i] == c.last()); }
            }
        }
        vstd::set_lib::lemma_len_subset(c.to_set(), t.dom());
        assert(false);
    }
    // the chain left the tree: its last vertex is a parent (labelled) that is not an entry, i.e. the origin
    assert(c.len() >= 2) by { if c.len() == 1 { assert(c.last() == c[0]); } }
    let m = c.len() as int;
    assert(t.contains_key(c[m - 2]) && t[c[m - 2]].terminal_vertex == c[m - 1]);
    assert(labels.contains_key(c[m - 1]));
    assert(c.last() == c[m - 1]);
}

// ===== C05 "a tree whose vertices are PRECISELY those reachable": every tree entry is reached from the origin by a path of permitted incident edges =====
/// the path of the graph spelled out by a chain of parent links read backwards (from the origin to the entry) and the positions of its edges in the incident lists
pub open spec fn chain_path(c: Seq<VertexId>) -> Seq<VertexId> { Seq::new(c.len(), |j: int| c[c.len() - 1 - j]) }
pub open spec fn chain_idx(g: &Graph, d: Direction, t: Map<VertexId, SearchTreeBranch>, c: Seq<VertexId>) -> Seq<int> {
    Seq::new((c.len() - 1) as nat, |j: int| choose|i: int| #[trigger] inc_at(g, d, t, c[c.len() - 2 - j], i))
}
pub proof fn lemma_entry_is_reachable(si: &SearchInstance, d: Direction, source: VertexId, t: Map<VertexId, SearchTreeBranch>, labels: Map<VertexId, Cost>, c: Seq<VertexId>)
    requires tree_wf(&si.directed_graph, &si.frontier_model, d, t), dom_ok(source, t, labels), inc_ok(&si.directed_graph, d, t), edge_local(&si.frontier_model),
             parent_chain(t, c), c.last() == source
    ensures permitted_path(si, d, chain_path(c), chain_idx(&si.directed_graph, d, t, c)), chain_path(c)[0] == source, chain_path(c).last() == c[0]
{
    let g = &si.directed_graph;
    let path = chain_path(c); let idx = chain_idx(g, d, t, c);
    let n = c.len() as int;
    assert forall|j: int| 0 <= j < idx.len() implies #[trigger] pstep(si, d, path, idx, j) by {
        let k = c[n - 2 - j];            // the entry reached by step j
        assert(t.contains_key(c[n - 2 - j]) && t[c[n - 2 - j]].terminal_vertex == c[n - 2 - j + 1]);
        let i = choose|i: int| #[trigger] inc_at(g, d, t, k, i);
        assert(inc_at(g, d, t, k, i));
        assert(path[j] == c[n - 1 - j] && path[j + 1] == k);
        assert(idx[j] == i);
        lemma_route_edges_permitted(g, &si.frontier_model, d, t, k);
    }
}

/// C05, "precisely those reachable", the second direction in one statement: EVERY entry of a returned tree is reached from the origin by a path of permitted incident edges
pub proof fn lemma_every_entry_is_reachable(si: &SearchInstance, d: Direction, source: VertexId, t: Map<VertexId, SearchTreeBranch>, labels: Map<VertexId, Cost>, k: VertexId)
    requires tree_wf(&si.directed_graph, &si.frontier_model, d, t), dom_ok(source, t, labels), pot_ok(source, t, labels), inc_ok(&si.directed_graph, d, t),
             edge_local(&si.frontier_model), t.dom().finite(), t.contains_key(k)
    ensures exists|path: Seq<VertexId>, idx: Seq<int>| #[trigger] permitted_path(si, d, path, idx) && path[0] == source && path.last() == k
{
    lemma_parents_reach_source(source, t, labels, k);
    let c = choose|c: Seq<VertexId>| #[trigger] parent_chain(t, c) && c[0] == k && c.last() == source;
    lemma_entry_is_reachable(si, d, source, t, labels, c);
    assert(permitted_path(si, d, chain_path(c), chain_idx(&si.directed_graph, d, t, c)));
}
"""


def build(x):
    parts = [HEAD]
    # verbatim structs
    edge = x.item_text("routee-compass-core/src/model/network/edge.rs", "struct Edge")
    edge = edge.replace("    pub distance: Distance,\n", "")
    x.note("R3", "struct Edge: field `distance: Distance` omitted (not read by the extracted functions)")
    parts.append("#[derive(Copy, Clone)]\n" + edge + "\n")
    stb = x.item_text(A + "search_tree_branch.rs", "struct SearchTreeBranch")
    parts.append(stb + "\n")
    sr = x.item_text(A + "search_result.rs", "struct SearchResult")
    parts.append(sr + "\n")
    srnew = x.fn(A + "search_result.rs", "impl SearchResult :: fn new", under_contract=False)
    srnew.name_return("r")
    srnew.add_spec("        ensures r.tree == tree, r.iterations == iterations,")
    parts.append("impl SearchResult {\n" + srnew.text + """
    // `#[derive(Default)]` of the real struct: empty tree, zero iterations (assumed)
    #[verifier::external_body] pub fn default() -> (r: SearchResult) ensures r.tree@ =~= Map::<VertexId, SearchTreeBranch>::empty(), r.iterations == 0 { SearchResult { tree: HashMap::new(), iterations: 0 } }
}
""")
    x.note("R1", "SearchResult: #[derive(Default)] replaced by an assumed `default()` (empty tree, 0 iterations)")
    den = x.item_text(A + "direction.rs", "enum Direction")
    den, _ = G.strip_inner_attrs(den)
    parts.append("#[derive(Copy, Clone)]\n" + den + "\n")
    parts.append(SHIMS)
    dfn = []
    for name, spec in [("tree_key_vertex_id", "ensures r == key_spec(*self, *edge),"), ("terminal_vertex_id", "ensures r == term_spec(*self, *edge),")]:
        f = x.fn(A + "direction.rs", "impl Direction :: fn " + name)
        f.name_return("r")
        f.add_spec("        " + spec)
        dfn.append(f.text)
    parts.append("impl Direction {\n" + "\n".join(dfn) + DIR_SHIMS + "}\n")
    parts.append(SPECS)

    # ---- advance_search ----
    adv = x.fn(A + "a_star/a_star_algorithm.rs", "fn advance_search")
    adv.name_return("r")
    adv.add_spec("""    ensures
        // empty queue + target => the 'no path' error naming source and target; nothing else produces that error
        (old(cost)@.dom() =~= Set::<VertexId>::empty() && target is Some) <==> r is Err,
        r matches Err(e) ==> e == SearchError::NoPathExistsBetweenVertices(source, target->Some_0),
        // empty queue, no target => done;  popped the target => done;  otherwise the popped vertex
        (old(cost)@.dom() =~= Set::<VertexId>::empty() && target is None) ==> r == Ok::<Option<VertexId>, SearchError>(None) && final(cost)@ =~= old(cost)@,
        // C02 (queue discipline): the vertex handed to the expansion step is a queued vertex of least f-score
        r matches Ok(Some(v)) ==> old(cost)@.contains_key(v) && final(cost)@ =~= old(cost)@.remove(v) && target != Some(v)
            && forall|w: VertexId| old(cost)@.contains_key(w) ==> !c_lt(#[trigger] old(cost)@[w], old(cost)@[v]),
        (r matches Ok(None) && !(old(cost)@.dom() =~= Set::<VertexId>::empty())) ==> target is Some && old(cost)@.contains_key(target->Some_0)
            && final(cost)@ =~= old(cost)@.remove(target->Some_0)
            && forall|w: VertexId| old(cost)@.contains_key(w) ==> !c_lt(#[trigger] old(cost)@[w], old(cost)@[target->Some_0]),""")
    # ---- get_last_traversed_edge_id ----
    gl = x.fn(A + "a_star/a_star_algorithm.rs", "fn get_last_traversed_edge_id")
    gl.name_return("r")
    gl.add_spec("""    requires vstd::std_specs::hash::obeys_key_model::<VertexId>(),
    ensures
        *this_vertex_id == *first_vertex_id ==> r == Ok::<Option<EdgeId>, SearchError>(None),
        (*this_vertex_id != *first_vertex_id && tree@.contains_key(*this_vertex_id)) ==> r == Ok::<Option<EdgeId>, SearchError>(Some(tree@[*this_vertex_id].edge_traversal.edge_id)),
        r matches Err(e) ==> e is InternalError,""")
    gl.replace_macro_calls(r"format", "verif_format()")
    n = gl.rewrite(r"\.ok_or_else\(\|\| \{\s*SearchError::InternalError\(verif_format\(\)\)\s*\}\)",
                   ".ok_or_else(|| -> (cr: SearchError) ensures cr is InternalError { SearchError::InternalError(verif_format()) })", 1, 1, rule="R-closure")
    # ---- run_a_star ----
    ra = x.fn(A + "a_star/a_star_algorithm.rs", "fn run_a_star")
    ra.strip_macro_stmts(r"log::\w+")
    ra.strip_cfg_blocks(r"#\[cfg\(debug_assertions\)\]")
    ls = ra.loops()
    if len(ls) != 2:
        raise G.Undecided("run_a_star: expected 2 loops (turn loop, neighbour loop), found %d" % len(ls))
    ra.desugar_for(2, itname="verif_it")
    ra.rewrite(r"let mut verif_it = \(incident_edge_iterator\)\.into_iter\(\);", "let mut verif_it = incident_edge_iterator;", 1, 1, rule="R9")
    x.note("R9", "run_a_star: the iterated expression is already an Iterator (Box<dyn Iterator>), for which IntoIterator::into_iter is the identity; it is used directly")
    ra.replace_macro_calls(r"format", "verif_format()")
    ra.rewrite(r"\.ok_or_else\(\|\| \{\s*SearchError::InternalError\(verif_format\(\)\)\s*\}\)",
               ".ok_or_else(|| -> (cr: SearchError) ensures cr is InternalError { SearchError::InternalError(verif_format()) })", 1, 1, rule="R-closure")
    ra.rewrite(r"target\.map_or\(false, \|t\| t == source\)", "target.map_or(false, |t: VertexId| -> (cr: bool) ensures cr == (t == source) { t == source })", 1, 1, rule="R-closure")
    ra.name_return("res")
    ra.add_spec("""    ensures
        // C01 / C04.7 / C05 / C10.3 on success
        res matches Ok(r) ==> search_post(si, *direction, source, target, r),
        // (the returned tree is a finite map: premise of lemma_parents_reach_source)
        res matches Ok(r) ==> r.tree@.dom().finite(),
        // C05 ("precisely those reachable"): every tree entry's edge is an incident edge of its parent (with lemma_entry_is_reachable: every labelled vertex IS reachable)
        res matches Ok(r) ==> inc_ok(&si.directed_graph, *direction, r.tree@),
        // C02 / C05 (least cost): a tree search on an instance whose edge costs do not depend on how the edge was reached returns Bellman potentials
        res matches Ok(r) ==> (target is None && cost_local(si) ==> least_post(si, *direction, source, r)),
        // C05 / C10: 'no path' names this query; a limit failure is returned as such
        res matches Err(e) ==> (e is NoPathExistsBetweenVertices ==> target is Some && e == SearchError::NoPathExistsBetweenVertices(source, target->Some_0)
                                    && nopath_post(si, *direction, source, target->Some_0)),""")
    ra.rewrite(r"\A", "#[verifier::exec_allows_no_decreases_clause]\n", 1, 1, rule="note")
    x.note("termination", "run_a_star: termination of the turn loop is NOT proved (exec_allows_no_decreases_clause)")
    ra.body_start("""    broadcast use areal_mul_req;
    proof { vid_key_model(); cost_consts(); }
    let ghost mut expanded: Set<VertexId> = Set::empty();
    let ghost mut refused: Set<EdgeId> = Set::empty();
    let ghost mut fs: Map<VertexId, Cost> = Map::empty();   // the f-score written at each vertex' latest label change""")
    INVQ = """            tree_wf(&si.directed_graph, &si.frontier_model, *direction, solution@),
            dom_ok(source, solution@, traversal_costs@),
            pot_ok(source, solution@, traversal_costs@),
            exp_ok(&si.directed_graph, &si.frontier_model, *direction, traversal_costs@, %s, expanded, refused),
            target matches Some(tv) ==> !expanded.contains(tv),
            cost_local(si) ==> bell_ok(si, *direction, traversal_costs@, %s, expanded, refused),
            cost_local(si) ==> tied_ok(si, *direction, solution@),
            inc_ok(&si.directed_graph, *direction, solution@),"""
    INV = """            vstd::std_specs::hash::obeys_key_model::<VertexId>(),
            !c_inf(Cost::ZERO), c_val(Cost::ZERO) == 0real, c_inf(Cost::INFINITY),
            target != Some(source),
            iterations > 0 ==> exists|n: nat| #[trigger] limit_ok(&si.termination_model, n, (iterations - 1) as nat),
            // Q (C02): a queued vertex' priority is never worse than the f-score of its latest label
            forall|v: VertexId| #[trigger] costs@.contains_key(v) ==> fs.contains_key(v) && !c_lt(fs[v], costs@[v]),"""
    ra.add_loop_spec(1, "        invariant_except_break\n" + INVQ % ("costs@.dom()", "costs@.dom()") + "\n        invariant\n" + INV + """
        ensures
            tree_wf(&si.directed_graph, &si.frontier_model, *direction, solution@),
            dom_ok(source, solution@, traversal_costs@),
            pot_ok(source, solution@, traversal_costs@),
            target is None ==> exp_ok(&si.directed_graph, &si.frontier_model, *direction, traversal_costs@, Set::<VertexId>::empty(), expanded, refused),
            (target is None && cost_local(si)) ==> bell_ok(si, *direction, traversal_costs@, Set::<VertexId>::empty(), expanded, refused) && tied_ok(si, *direction, solution@),
            target matches Some(tv) ==> solution@.contains_key(tv),
            inc_ok(&si.directed_graph, *direction, solution@),""")
    ra.add_loop_spec(2, "            invariant\n" + INV + """
""" + INVQ % ("costs@.dom().insert(current_vertex_id)", "costs@.dom().insert(current_vertex_id)") + """
            iterations < u64::MAX,
            limit_ok(&si.termination_model, tested_size, iterations as nat),
            target != Some(current_vertex_id),
            traversal_costs@.contains_key(current_vertex_id),
            verif_it.seq() == incident(&si.directed_graph, *direction, current_vertex_id),
            0 <= verif_it.pos() <= verif_it.seq().len(),
            forall|i: int| 0 <= i < verif_it.seq().len() ==> has_edge(&si.directed_graph, #[trigger] verif_it.seq()[i])
                && term_spec(*direction, edge_of(&si.directed_graph, verif_it.seq()[i])) == current_vertex_id,
            // the part of the expansion already done
            forall|i: int| 0 <= i < verif_it.pos() ==> refused.contains(#[trigger] verif_it.seq()[i])
                || traversal_costs@.contains_key(key_spec(*direction, edge_of(&si.directed_graph, verif_it.seq()[i]))),
            cost_local(si) ==> forall|i: int| 0 <= i < verif_it.pos() ==> refused.contains(#[trigger] verif_it.seq()[i])
                || relaxed(si, *direction, traversal_costs@, current_vertex_id, verif_it.seq()[i]),
            ensures verif_it.pos() >= verif_it.seq().len(),""")
    # ---- proof hints (add-only) ----
    EXPQ = "exp_ok(&si.directed_graph, &si.frontier_model, *direction, traversal_costs@, costs@.dom().insert(current_vertex_id), expanded, refused)"
    ra.insert_before(r"let start_time = Instant::now\(\);", """    proof {
        assert(solution@ =~= Map::<VertexId, SearchTreeBranch>::empty());
        assert(traversal_costs@ =~= Map::<VertexId, Cost>::empty().insert(source, Cost::ZERO));
        assert(costs@.dom() =~= Set::<VertexId>::empty().insert(source));
        fs = fs.insert(source, origin_cost);
    }""")
    ra.insert_after(r"\.test\([^;]*\)\?;", """
        // C10.3: the limit test is made on (tree size, turn number) at the top of every turn, before the pop
        assert(limit_ok(&si.termination_model, solution@.len(), iterations as nat));
        proof { assume(iterations < u64::MAX); }   // ASSUMPTION: the turn counter does not reach 2^64
        let ghost tested_size = solution@.len();
        proof {
            // C05 (only if): an exhausted queue with a target => the labelled set is closed and does not contain the target
            if costs@.dom() =~= Set::<VertexId>::empty() && target is Some {
                let tv = target->Some_0;
                if traversal_costs@.contains_key(tv) { assert(expanded.contains(tv) || costs@.dom().contains(tv)); assert(false); }
                assert(search_inv(si, *direction, source, Some(tv), solution@, traversal_costs@, Set::<VertexId>::empty(), expanded, refused));
            }
        }""")
    ra.insert_after(r"/\*verif:body2\*/", " broadcast use areal_mul_req; ")
    ra.insert_before(r"return Ok\(SearchResult::default\(\)\);", """        proof {
            let labels = Map::<VertexId, Cost>::empty().insert(source, Cost::ZERO);
            let t = Map::<VertexId, SearchTreeBranch>::empty();
            assert(tree_wf(&si.directed_graph, &si.frontier_model, *direction, t));
            assert(inc_ok(&si.directed_graph, *direction, t));
            assert(dom_ok(source, t, labels));
            assert(pot_ok(source, t, labels));
            assert(target == Some(source));
        }""")
    ra.insert_after(r"if !valid_frontier \{", "                proof { refused = refused.insert(*edge_id); assert(" + EXPQ + "); }")
    ra.insert_before(r"traversal_costs\.insert\(key_vertex_id, tentative_gscore\);", "                let ghost t_old = solution@; let ghost l_old = traversal_costs@; let ghost q_old = costs@.dom();")
    ra.insert_before(r"let f_score_value = tentative_gscore \+ dst_h_cost;", """                // C02 (relaxation step): a label is replaced only by a strictly smaller cost-so-far, computed from the near vertex' label plus the edge's total cost
                assert(c_lt(tentative_gscore, existing_gscore));
                assert(!c_inf(tentative_gscore) && c_val(tentative_gscore) == c_val(l_old[terminal_vertex_id]) + c_val(et_cost(solution@[key_vertex_id].edge_traversal)));
                assert(l_old.contains_key(key_vertex_id) ==> c_val(tentative_gscore) < c_val(l_old[key_vertex_id]));""")
    ra.insert_after(r"Some\(target_v\) => \{\s*let cost_est =\s*si\s*\.estimate_traversal_cost\([^;]*\)\?;", """                        // C02: the heuristic term of a vertex is the estimate FROM THAT VERTEX (the one being labelled) to the target
                        assert(cost_est == est_of(si, key_vertex_id, target_v, current_state@));""")
    ra.insert_after(r"let f_score_value = tentative_gscore \+ dst_h_cost;", """                // the vertex is re-queued with f = g + (weighted) estimate
                assert(c_inf(f_score_value) == c_inf(dst_h_cost) && (!c_inf(f_score_value) ==> c_val(f_score_value) == c_val(tentative_gscore) + c_val(dst_h_cost)));
                let ghost cq_old = costs@;""")
    ra.insert_after(r"costs\.push\w*\(key_vertex_id, [^;]*\);", """                proof {
                    fs = fs.insert(key_vertex_id, f_score_value);
                    /*verif:obligation (invariant Q for the new queue)*/ assert forall|v: VertexId| #[trigger] costs@.contains_key(v) implies fs.contains_key(v) && !c_lt(fs[v], costs@[v]) by {
                        if v != key_vertex_id { assert(cq_old.contains_key(v)); assert(costs@[v] == cq_old[v]); }
                    }
                    let g = &si.directed_graph; let fm = &si.frontier_model;
                    let lastg: Option<Edge> = match last_edge { Some(x) => Some(*x), None => None };
                    assert(permitted(fm, *e, current_state@, lastg));
                    assert(*e == edge_of(g, *edge_id));
                    assert(solution@[key_vertex_id].edge_traversal.edge_id == *edge_id);
                    let b = solution@[key_vertex_id];
                    let ee = edge_of(g, b.edge_traversal.edge_id);
                    assert(ee == *e);
                    assert(permitted(fm, ee, current_state@, lastg));
                    assert forall|k: VertexId| #[trigger] solution@.contains_key(k) implies ({
                        let b = solution@[k];
                        let e = edge_of(g, b.edge_traversal.edge_id);
                        &&& has_edge(g, b.edge_traversal.edge_id)
                        &&& key_spec(*direction, e) == k
                        &&& term_spec(*direction, e) == b.terminal_vertex
                        &&& exists|s: Seq<StateVar>, last: Option<Edge>| #[trigger] permitted(fm, e, s, last) }) by {
                        if k == key_vertex_id { } else { assert(t_old.contains_key(k)); assert(solution@[k] == t_old[k]); }
                    }
                    assert forall|k: VertexId| #[trigger] solution@.contains_key(k) implies exists|i: int| #[trigger] inc_at(g, *direction, solution@, k, i) by {
                        if k == key_vertex_id {
                            assert(solution@[k].terminal_vertex == current_vertex_id);
                            assert(verif_it.seq()[verif_it.pos() - 1] == *edge_id);
                            assert(inc_at(g, *direction, solution@, k, verif_it.pos() - 1));
                        } else {
                            assert(t_old.contains_key(k)); assert(solution@[k] == t_old[k]);
                            let i0 = choose|i: int| #[trigger] inc_at(g, *direction, t_old, k, i);
                            assert(inc_at(g, *direction, solution@, k, i0));
                        }
                    }
                    let qn = costs@.dom().insert(current_vertex_id); let qo = q_old.insert(current_vertex_id);
                    assert(traversal_costs@ =~= l_old.insert(key_vertex_id, tentative_gscore));
                    assert(qn =~= qo.insert(key_vertex_id));
                    assert forall|v: VertexId| #[trigger] traversal_costs@.contains_key(v) implies expanded.contains(v) || qn.contains(v) by {
                        if v != key_vertex_id { assert(l_old.contains_key(v)); assert(expanded.contains(v) || qo.contains(v)); }
                    }
                    assert forall|v: VertexId| #[trigger] qn.contains(v) implies traversal_costs@.contains_key(v) by {
                        if v != key_vertex_id { assert(qo.contains(v)); assert(l_old.contains_key(v)); }
                    }
                    assert forall|v: VertexId, i: int| expanded.contains(v) && 0 <= i < incident(g, *direction, v).len() implies
                        refused.contains(#[trigger] incident(g, *direction, v)[i]) || traversal_costs@.contains_key(key_spec(*direction, edge_of(g, incident(g, *direction, v)[i]))) by {
                        let kk = key_spec(*direction, edge_of(g, incident(g, *direction, v)[i]));
                        if !refused.contains(incident(g, *direction, v)[i]) { assert(l_old.contains_key(kk)); }
                    }
                }""")
    ra.insert_before(r"iterations \+= 1;", """        proof {
            let g = &si.directed_graph;
            let e_old = expanded; let qc = costs@.dom().insert(current_vertex_id);
            expanded = expanded.insert(current_vertex_id);
            assert forall|v: VertexId| #[trigger] traversal_costs@.contains_key(v) implies expanded.contains(v) || costs@.dom().contains(v) by {
                if v != current_vertex_id { assert(e_old.contains(v) || qc.contains(v)); }
            }
            assert forall|v: VertexId| #[trigger] costs@.dom().contains(v) implies traversal_costs@.contains_key(v) by { assert(qc.contains(v)); }
            assert forall|v: VertexId, i: int| expanded.contains(v) && 0 <= i < incident(g, *direction, v).len() implies
                refused.contains(#[trigger] incident(g, *direction, v)[i]) || traversal_costs@.contains_key(key_spec(*direction, edge_of(g, incident(g, *direction, v)[i]))) by {
                if v == current_vertex_id { assert(incident(g, *direction, v) == verif_it.seq()); assert(0 <= i < verif_it.pos()); }
                else { assert(e_old.contains(v)); }
            }
        }""")
    ra.insert_after(r"iterations \+= 1;", "        proof { /*verif:obligation (CNT)*/ assert(limit_ok(&si.termination_model, tested_size, (iterations - 1) as nat)); }")
    ra.insert_after(r"let result = SearchResult::new\(solution, iterations\);", """
    proof {
        if target is None && cost_local(si) {
            assert(search_inv(si, *direction, source, None, result.tree@, traversal_costs@, Set::<VertexId>::empty(), expanded, refused));
        }
    }""")
    parts.append(ra.text + "\n\n" + adv.text + "\n\n" + gl.text + "\n")
    parts.append(LEMMAS)
    parts.append("""
// vacuity guard: MUST FAIL
pub fn vacuity_probe(source: VertexId, d: &Direction, si: &SearchInstance) -> (r: bool)
    ensures false
{
    match run_a_star(source, None, d, None, si) { Ok(x) => x.iterations > 3, Err(_) => false }
}
} // verus!
fn main() {}
impl std::fmt::Display for VertexId { fn fmt(&self, f: &mut std::fmt::Formatter<'_>) -> std::fmt::Result { write!(f, "{}", self.0) } }
""")
    return "\n".join(parts)
