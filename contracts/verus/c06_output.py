"""C06 (one clause) -- compass_app::apply_output_processing: what a query's response is made of [V, unbounded in the number of plugins].

Extracted verbatim: apply_output_processing, run_single_query.  serde_json::Value, the search result, SearchApp and the plugins are opaque;
out_ops::create_initial_output / package_error and OutputPlugin::process are uninterpreted deterministic functions (assumed contracts).
Rules: R-path (serde_json::Value -> Value), R3-dyn (`&[Arc<dyn OutputPlugin>]` as a slice of an opaque plugin type), R9-index.
"""
import genlib as G

F = "routee-compass/src/app/compass/compass_app.rs"
OBLIGATIONS = ["apply_output_processing", "run_single_query"]
MUST_FAIL = ["vacuity_probe"]

HEAD = """#![allow(unused_imports, unused_variables, dead_code, unused_mut, unused_parens, unused_assignments)]
use vstd::prelude::*;
verus! {
#[verifier::external_body] pub struct Value { _p: u8 }                 // serde_json::Value
#[verifier::external_body] pub struct SearchOutcome { _p: u8 }         // Result<(SearchAppResult, SearchInstance), CompassAppError>
#[verifier::external_body] pub struct SearchApp { _p: u8 }
#[verifier::external_body] pub struct SearchOrientation { _p: u8 }
#[verifier::external_body] pub struct OutputPluginError { _p: u8 }
#[verifier::external_body] pub struct CompassAppError { _p: u8 }
#[verifier::external_body] pub struct OutputPlugin { _p: u8 }          // Arc<dyn OutputPlugin>
pub uninterp spec fn initial_output(request: Value, result: SearchOutcome, app: &SearchApp) -> Result<Value, Value>;
pub uninterp spec fn plugin_step(p: &OutputPlugin, out: Value, result: SearchOutcome) -> Result<Value, OutputPluginError>;
pub uninterp spec fn pkg_err(request: Value, e: OutputPluginError) -> Value;     // {"request": <request>, "error": <text of e>}
pub uninterp spec fn search_outcome(app: &SearchApp, query: Value, o: &SearchOrientation) -> SearchOutcome;
pub mod out_ops { use super::*;
    #[verifier::external_body] pub fn create_initial_output(request_json: &Value, result: &SearchOutcome, search_app: &SearchApp) -> (r: Result<Value, Value>)
        ensures r == initial_output(*request_json, *result, search_app) { unimplemented!() }
    #[verifier::external_body] pub fn package_error(request_json: &Value, e: OutputPluginError) -> (r: Value) ensures r == pkg_err(*request_json, e) { unimplemented!() }
}
impl OutputPlugin {
    #[verifier::external_body] pub fn process(&self, output: &mut Value, result: &SearchOutcome) -> (r: Result<(), OutputPluginError>)
        ensures r is Ok ==> plugin_step(self, *old(output), *result) == Ok::<Value, OutputPluginError>(*final(output)),
                r matches Err(e) ==> plugin_step(self, *old(output), *result) == Err::<Value, OutputPluginError>(e),
    { unimplemented!() }
}
impl SearchApp {
    #[verifier::external_body] pub fn run(&self, query: &Value, o: &SearchOrientation) -> (r: SearchOutcome) ensures r == search_outcome(self, *query, o) { unimplemented!() }
}
/// C06: the response of one query -- the initial output with the plugins applied in order; the FIRST plugin failure turns it into an error
/// response packaged with the ORIGINAL request (never with a half-built output); a failed initial output is returned as it is
pub open spec fn response_of(request: Value, result: SearchOutcome, app: &SearchApp, ps: Seq<OutputPlugin>) -> Value {
    match initial_output(request, result, app) { Err(ev) => ev, Ok(v) => fold_plugins(request, result, ps, v, 0) }
}
pub open spec fn fold_plugins(request: Value, result: SearchOutcome, ps: Seq<OutputPlugin>, cur: Value, k: int) -> Value
    decreases ps.len() - k
{
    if k < 0 || k >= ps.len() { cur } else { match plugin_step(&ps[k], cur, result) { Err(e) => pkg_err(request, e), Ok(nv) => fold_plugins(request, result, ps, nv, k + 1) } }
}
"""


def build(x):
    parts = [HEAD]
    f = x.fn(F, "fn apply_output_processing")
    f.rewrite(r"&serde_json::Value", "&Value", 1, 1, rule="R-path")
    f.rewrite(r"-> serde_json::Value", "-> Value", 1, 1, rule="R-path")
    f.rewrite(r"result: Result<\(SearchAppResult, SearchInstance\), CompassAppError>,", "result: SearchOutcome,", 1, 1, rule="R3-dyn")
    f.rewrite(r"output_plugins: &\[Arc<dyn OutputPlugin>\],", "output_plugins: &[OutputPlugin],", 1, 1, rule="R3-dyn")
    x.note("R3-dyn", "apply_output_processing / run_single_query: `&[Arc<dyn OutputPlugin>]` written `&[OutputPlugin]` (opaque plugin, uninterpreted deterministic step); the search result type is opaque")
    f.index_for(1, idx="verif_k")
    f.name_return("r")
    f.add_spec("    ensures r == response_of(*request_json, result, search_app, output_plugins@),")
    f.add_loop_spec(1, """        invariant 0 <= verif_k <= output_plugins@.len(),
            initial_output(*request_json, result, search_app) is Ok,
            response_of(*request_json, result, search_app, output_plugins@) == fold_plugins(*request_json, result, output_plugins@, initial, verif_k as int),
        decreases output_plugins@.len() - verif_k,""")
    parts.append(f.text + "\n")
    g = x.fn(F, "fn run_single_query")
    g.rewrite(r"&serde_json::Value", "&Value", 1, 1, rule="R-path")
    g.rewrite(r"Result<serde_json::Value, CompassAppError>", "Result<Value, CompassAppError>", 1, 1, rule="R-path")
    g.rewrite(r"output_plugins: &\[Arc<dyn OutputPlugin>\],", "output_plugins: &[OutputPlugin],", 1, 1, rule="R3-dyn")
    g.name_return("r")
    g.add_spec("""    ensures
        // C06: one query always yields one response value (never an Err that would abort the batch), and it is the response of THIS query's search
        r is Ok, r->Ok_0 == response_of(*query, search_outcome(search_app, *query, search_orientation), search_app, output_plugins@),""")
    parts.append(g.text + "\n")
    parts.append("""
// vacuity guard: MUST FAIL
pub fn vacuity_probe(q: &Value, o: &SearchOrientation, ps: &[OutputPlugin], app: &SearchApp) -> (r: bool) ensures false { run_single_query(q, o, ps, app).is_ok() }
} // verus!
fn main() {}
""")
    return "\n".join(parts)
