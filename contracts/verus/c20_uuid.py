"""C20 (identifier clause) -- UUIDOutputPlugin::process: "the attached origin and destination identifiers are the ones stored for the matched vertices" [V].

Extracted verbatim: struct UUIDOutputPlugin, `impl OutputPlugin for UUIDOutputPlugin :: fn process` (R3: written as an inherent method).  serde_json::Value is opaque
with an abstract view (top-level fields); `output.get_od_vertex_ids()` is a deterministic read of the matched vertex ids from the response (uninterpreted);
`self.uuids.get(i).cloned()` is one helper (the i-th row or None); `output[&key] = serde_json::Value::String(s)` sets that one key.
"""
import re
import genlib as G

F = "routee-compass/src/plugin/output/default/uuid/plugin.rs"
OBLIGATIONS = ["process"]
MUST_FAIL = ["vacuity_probe"]

HEAD = """#![allow(unused_imports, unused_variables, dead_code, unused_mut, unused_parens, unused_assignments)]
use vstd::prelude::*;
verus! {
#[verifier::external_body] pub struct Value { _p: u8 }                 // serde_json::Value
#[verifier::external_body] pub struct SearchAppResult { _p: u8 }
#[verifier::external_body] pub struct SearchInstance { _p: u8 }
#[verifier::external_body] pub struct CompassAppError { _p: u8 }
#[verifier::external_body] pub struct ErrText { _p: u8 }
pub enum OutputPluginError { OutputPluginFailed(ErrText), Other }
#[derive(Clone, Copy)] pub struct VertexId(pub usize);
/// the vertex ids the query was matched to, as the response's `request` section holds them (None: missing or ill-typed)
pub uninterp spec fn od_of(v: Value) -> Option<(VertexId, VertexId)>;
/// serde_json::Value::String(s)
pub uninterp spec fn json_string(s: Seq<char>) -> Value;
impl Value {
    pub uninterp spec fn fields(&self) -> Map<Seq<char>, Value>;
    #[verifier::external_body] pub fn get_od_vertex_ids(&self) -> (r: Result<(VertexId, VertexId), OutputPluginError>)
        ensures r is Ok <==> od_of(*self) is Some, r matches Ok(p) ==> Some(p) == od_of(*self) { unimplemented!() }
}
/// `output[&key] = v` (serde_json IndexMut on an object): sets that one key
#[verifier::external_body] pub fn verif_set(output: &mut Value, key: &String, v: Value) ensures final(output).fields() == old(output).fields().insert(key@, v) { unimplemented!() }
#[verifier::external_body] pub fn verif_json_string(s: String) -> (r: Value) ensures r == json_string(s@) { unimplemented!() }
/// `table.get(i).cloned()`: row i of the table, or None beyond its end
#[verifier::external_body] pub fn verif_get_cloned(table: &Box<[String]>, i: usize) -> (r: Option<String>)
    ensures i < table@.len() ==> r == Some(table@[i as int]), i >= table@.len() ==> r is None { unimplemented!() }
#[verifier::external_body] pub fn verif_format() -> ErrText { unimplemented!() }
"""


def build(x):
    parts = [HEAD]
    st = x.item_text(F, "struct UUIDOutputPlugin")
    st = re.sub(r"(?m)^(\s+)(?!pub )(\w+:)", r"\1pub \2", st)
    x.note("R2", "struct UUIDOutputPlugin: fields made pub")
    parts.append(st + "\n")
    f = x.fn(F, "impl OutputPlugin for UUIDOutputPlugin :: fn process")
    x.note("R3", "`impl OutputPlugin for UUIDOutputPlugin :: fn process` written as an inherent pub fn")
    f.rewrite(r"\A(\s*)fn ", r"\1pub fn ", 1, 1, rule="R2")
    f.rewrite(r"output: &mut serde_json::Value,", "output: &mut Value,", 1, 1, rule="R-path")
    f.rewrite(r"self\s*\.uuids\s*\.get\((\w+)\.0\)\s*\.cloned\(\)", r"verif_get_cloned(&self.uuids, \1.0)", 2, 2, rule="R-collect")
    x.note("R-collect", "process: `self.uuids.get(id.0).cloned()` written verif_get_cloned(&self.uuids, id.0) (row id.0 of the table, or None beyond its end)")
    f.rewrite(r"\.ok_or_else\(\|\| \{\s*OutputPluginError::OutputPluginFailed\(format!\((?:[^()]|\([^()]*\))*\)\)\s*\}\)", ".ok_or_else(|| -> (er: OutputPluginError) { OutputPluginError::OutputPluginFailed(verif_format()) })", 2, 2, rule="R-format")
    f.rewrite(r"output\[&self\.(\w+)\] = serde_json::Value::String\(([^;]*)\);", r"verif_set(output, &self.\1, verif_json_string(\2));", 2, 2, rule="R-collect")
    x.note("R-collect", "process: `output[&self.key] = serde_json::Value::String(s);` written verif_set(output, &self.key, verif_json_string(s)) (sets that one top-level key)")
    f.name_return("r")
    f.add_spec("""        ensures
            // a failed search: nothing is attached, nothing fails
            search_result is Err ==> r is Ok && *final(output) == *old(output),
            // C20: the identifiers attached are rows `origin id` and `destination id` of the table -- the ones stored for the MATCHED vertices -- under the plugin's two keys;
            // no other field of the response changes
            search_result is Ok && r is Ok ==> (od_of(*old(output)) matches Some(od) && od.0.0 < self.uuids@.len() && od.1.0 < self.uuids@.len()
                && final(output).fields() == old(output).fields().insert(self.o_key@, json_string(self.uuids@[od.0.0 as int]@)).insert(self.d_key@, json_string(self.uuids@[od.1.0 as int]@))),
            // a vertex beyond the end of the table is an error -- never a neighbour's identifier -- and the response is left as it was
            search_result is Ok && (od_of(*old(output)) matches Some(od) && (od.0.0 >= self.uuids@.len() || od.1.0 >= self.uuids@.len())) ==> r is Err && *final(output) == *old(output),
            search_result is Ok && od_of(*old(output)) is None ==> r is Err && *final(output) == *old(output),""")
    parts.append("impl UUIDOutputPlugin {\n" + f.text + "\n}\n")
    parts.append("""
// vacuity guard: MUST FAIL
pub fn vacuity_probe(p: &UUIDOutputPlugin, o: &mut Value, s: &Result<(SearchAppResult, SearchInstance), CompassAppError>) -> (b: bool) ensures false { p.process(o, s).is_ok() }
} // verus!
fn main() {}
""")
    return "\n".join(parts)
