"""C03 ("time is ... plus the configured delay of each turn actually taken (classified from the headings of the two edges)") -- the turn-delay access model [V].

Extracted verbatim: TurnDelayAccessModelEngine::get_delay, get_headings, `impl AccessModel for TurnDelayAccessModel :: fn access_edge` (R3: inherent method).
Callees through their contracts: EdgeHeading::bearing_to_destination (Kani function contract, unit c03_heading), Turn::from_angle (Kani, complete over i16, unit
c03_turn), StateModel::add_time (Verus, unit c03_statemodel) -- here deterministic uninterpreted functions; the delay table (`HashMap<Turn, Time>`) is an abstract map.
"""
import re
import genlib as G

E = "routee-compass-core/src/model/access/default/turn_delays/turn_delay_access_model_engine.rs"
M = "routee-compass-core/src/model/access/default/turn_delays/turn_delay_access_model.rs"
OBLIGATIONS = ["get_headings", "get_delay", "access_edge"]
MUST_FAIL = ["vacuity_probe"]

HEAD = """#![allow(unused_imports, unused_variables, dead_code, unused_mut, unused_parens, unused_assignments)]
use vstd::prelude::*;
use std::sync::Arc;
verus! {
#[verifier::external_body] pub struct Vertex { _p: u8 }
#[verifier::external_body] pub struct StateVar { _p: u8 }
#[verifier::external_body] pub struct StateModel { _p: u8 }
#[verifier::external_body] pub struct StateModelError { _p: u8 }
#[verifier::external_body] pub struct ErrText { _p: u8 }
#[verifier::external_body] #[derive(Clone, Copy)] pub struct EdgeHeading { _p: u8 }
#[verifier::external_body] #[derive(Clone, Copy)] pub struct Turn { _p: u8 }
#[verifier::external_body] #[derive(Clone, Copy)] pub struct Time { _p: u8 }
#[verifier::external_body] pub struct TimeUnit { _p: u8 }
#[derive(Clone, Copy)] pub struct EdgeId(pub usize);
impl EdgeId { pub fn as_usize(&self) -> (r: usize) ensures r == self.0 { self.0 } }
pub struct Edge { pub edge_id: EdgeId }                                   // R3: the field these functions read
pub enum AccessModelError { RuntimeError { name: ErrText, error: ErrText }, StateError(StateModelError), Other }
impl vstd::std_specs::convert::FromSpecImpl<StateModelError> for AccessModelError {
    open spec fn obeys_from_spec() -> bool { false }
    open spec fn from_spec(v: StateModelError) -> AccessModelError { arbitrary() }
}
impl From<StateModelError> for AccessModelError { #[verifier::external_body] fn from(e: StateModelError) -> AccessModelError { unimplemented!() } }
#[verifier::external_body] pub fn verif_text() -> ErrText { unimplemented!() }
/// the compass angle from one edge's end heading to the next edge's start heading (unit c03_heading: wrapped into -180..=180)
pub uninterp spec fn bearing(from: EdgeHeading, to: EdgeHeading) -> i16;
/// the turn class of an angle (unit c03_turn: the documented intervals; None outside -180..=180)
pub uninterp spec fn turn_of(angle: i16) -> Option<Turn>;
impl EdgeHeading {
    #[verifier::external_body] pub fn bearing_to_destination(&self, destination: &EdgeHeading) -> (r: i16) ensures r == bearing(*self, *destination) { unimplemented!() }
}
impl Turn {
    #[verifier::external_body] pub fn from_angle(angle: i16) -> (r: Result<Turn, AccessModelError>)
        ensures r is Ok <==> turn_of(angle) is Some, r matches Ok(t) ==> Some(t) == turn_of(angle) { unimplemented!() }
}
// ---- the delay table as an abstract map (R3-dyn) ----
#[verifier::external_body] pub struct DelayTable { _p: u8 }              // HashMap<Turn, Time>
impl DelayTable {
    pub uninterp spec fn view(&self) -> Map<Turn, Time>;
    #[verifier::external_body] pub fn get(&self, t: &Turn) -> (r: Option<&Time>)
        ensures r is Some <==> self@.contains_key(*t), r matches Some(d) ==> *d == self@[*t] { unimplemented!() }
}
pub enum TurnDelayModel { TabularDiscrete { table: DelayTable, time_unit: TimeUnit } }
/// `slice.get(i)`
#[verifier::external_body] pub fn verif_get<T>(s: &[T], i: usize) -> (r: Option<&T>) ensures i < s@.len() ==> r == Some(&s@[i as int]), i >= s@.len() ==> r is None { s.get(i) }
/// StateModel::add_time (unit c03_statemodel: the named slot grows by the increment converted to the feature's unit, nothing else changes)
pub uninterp spec fn add_time_spec(m: &StateModel, s: Seq<StateVar>, name: Seq<char>, t: Time, u: &TimeUnit) -> Option<Seq<StateVar>>;
impl StateModel {
    #[verifier::external_body] pub fn add_time(&self, state: &mut Vec<StateVar>, name: &String, time: &Time, from_unit: &TimeUnit) -> (r: Result<(), StateModelError>)
        ensures r is Ok <==> add_time_spec(self, old(state)@, name@, *time, from_unit) is Some,
            r is Ok ==> Some(final(state)@) == add_time_spec(self, old(state)@, name@, *time, from_unit) { unimplemented!() }
}
"""

SPEC = """
/// C03: the delay of the turn ACTUALLY TAKEN from edge `src` into edge `dst`: the table row of the class of the angle between THEIR headings
pub open spec fn delay_of(eng: &TurnDelayAccessModelEngine, src: EdgeId, dst: EdgeId) -> Option<Time> {
    if src.0 < eng.edge_headings@.len() && dst.0 < eng.edge_headings@.len() {
        match turn_of(bearing(eng.edge_headings@[src.0 as int], eng.edge_headings@[dst.0 as int])) {
            Some(t) => match eng.turn_delay_model { TurnDelayModel::TabularDiscrete { table, time_unit } => if table@.contains_key(t) { Some(table@[t]) } else { None } },
            None => None,
        }
    } else { None }
}
"""


def build(x):
    parts = [HEAD]
    st = x.item_text(E, "struct TurnDelayAccessModelEngine")
    parts.append(st + "\n")
    ms = x.item_text(M, "struct TurnDelayAccessModel")
    parts.append(ms + "\n")
    parts.append(SPEC)
    gh = x.fn(E, "fn get_headings")
    gh.rewrite(r"headings_table\s*\.get\(edge_id\.as_usize\(\)\)", "verif_get(headings_table, edge_id.as_usize())", 1, 1, rule="R-collect")
    gh.rewrite(r"\.ok_or_else\(\|\| AccessModelError::RuntimeError \{\s*name: String::from\(\"[^\"]*\"\),\s*error: format!\((?:[^()]|\([^()]*\))*\),\s*\}\)", ".ok_or_else(|| -> (er: AccessModelError) { AccessModelError::RuntimeError { name: verif_text(), error: verif_text() } })", 1, 1, rule="R-format")
    gh.name_return("r")
    gh.add_spec("""    ensures r is Ok <==> edge_id.0 < headings_table@.len(), r matches Ok(h) ==> h == headings_table@[edge_id.0 as int],""")
    parts.append(gh.text + "\n")
    gd = x.fn(E, "impl TurnDelayAccessModelEngine :: fn get_delay")
    pat = re.compile(r"\.ok_or_else\(\|\| \{\s*let name = String::from\(\"[^\"]*\"\);\s*let error = format!\((?:[^()]|\([^()]*\))*\);\s*AccessModelError::RuntimeError \{ name, error \}\s*\}\)", re.S)
    gd.rewrite(pat.pattern, ".ok_or_else(|| -> (er: AccessModelError) { AccessModelError::RuntimeError { name: verif_text(), error: verif_text() } })", 1, 1, rule="R-format", flags=re.S)
    gd.name_return("r")
    gd.add_spec("""        ensures
            // the delay is the table's row for the class of the angle from the heading of the edge LEFT (traversal.1) to the heading of the edge ENTERED (traversal.3),
            // in the table's own time unit; a missing heading, an unclassifiable angle or a missing row is an error, never a default delay
            r is Ok <==> delay_of(self, traversal.1.edge_id, traversal.3.edge_id) is Some,
            r matches Ok(p) ==> Some(p.0) == delay_of(self, traversal.1.edge_id, traversal.3.edge_id)
                && (self.turn_delay_model matches TurnDelayModel::TabularDiscrete { table, time_unit } && *p.1 == time_unit),""")
    parts.append("impl TurnDelayAccessModelEngine {\n" + gd.text + "\n}\n")
    ae = x.fn(M, "impl AccessModel for TurnDelayAccessModel :: fn access_edge")
    x.note("R3", "`impl AccessModel for TurnDelayAccessModel :: fn access_edge` written as an inherent pub fn")
    ae.rewrite(r"\A(\s*)fn ", r"\1pub fn ", 1, 1, rule="R2")
    ae.name_return("r")
    ae.add_spec("""        ensures
            // C03: accessing edge traversal.3 from edge traversal.1 adds THAT turn's delay, in the table's unit, to the model's time feature -- and nothing else
            r is Ok ==> (delay_of(&*self.engine, traversal.1.edge_id, traversal.3.edge_id) matches Some(d)
                && (self.engine.turn_delay_model matches TurnDelayModel::TabularDiscrete { table, time_unit }
                && Some(final(state)@) == add_time_spec(state_model, old(state)@, self.engine.time_feature_name@, d, &time_unit))),
            delay_of(&*self.engine, traversal.1.edge_id, traversal.3.edge_id) is None ==> r is Err && final(state)@ == old(state)@,""")
    parts.append("impl TurnDelayAccessModel {\n" + ae.text + "\n}\n")
    parts.append("""
// vacuity guard: MUST FAIL
pub fn vacuity_probe(m: &TurnDelayAccessModel, t: (&Vertex, &Edge, &Vertex, &Edge, &Vertex), s: &mut Vec<StateVar>, sm: &StateModel) -> (b: bool) ensures false { m.access_edge(t, s, sm).is_ok() }
} // verus!
fn main() {}
""")
    return "\n".join(parts)
