"""C10 -- TerminationModel::terminate_search for EVERY model, Combined at any width and nesting depth [V, recursion].

Extracted verbatim: enum TerminationModel, TerminationModel::terminate_search.  Rules: R-fold (the `models.iter().try_fold(false, |acc, m| F.map(|r| acc || r))` of the
Combined arm written as the loop it denotes: an Err of a member is returned at once, otherwise acc = acc || r), R-io (the two statements that read the clock and compare
the elapsed time with the limit are one opaque read that returns ANY verdict), R1.  Termination of the recursion through `Vec<TerminationModel>` is PROVED
(decreases self; vstd's axiom_vec_index_decreases).
"""
import re
import genlib as G

F = "routee-compass-core/src/model/termination/termination_model.rs"
OBLIGATIONS = ["terminate_search", "lemma_iteration_limit_member", "lemma_size_limit_member"]
MUST_FAIL = ["vacuity_probe"]

HEAD = """#![allow(unused_imports, unused_variables, dead_code, unused_mut, unused_parens, unused_assignments)]
use vstd::prelude::*;
use std::time::{Duration, Instant};
verus! {
#[verifier::external_type_specification] #[verifier::external_body] pub struct ExInstant(std::time::Instant);
#[verifier::external_body] pub struct TerminationModelError { _p: u8 }
/// rule R-io: reading the clock and comparing the elapsed time with the limit yields ANY verdict
#[verifier::external_body] pub fn verif_over_time(start_time: &Instant, limit: &Duration) -> bool { Instant::now().duration_since(*start_time) > *limit }
"""

SPEC = """
/// a size or iteration member, at any depth, whose limit is exceeded (members of the runtime kind are left out: the clock is not modelled)
pub open spec fn must_fire(m: TerminationModel, size: nat, it: nat) -> bool
    decreases m
{
    match m {
        TerminationModel::QueryRuntimeLimit { .. } => false,
        TerminationModel::SolutionSizeLimit { limit } => size > limit,
        TerminationModel::IterationsLimit { limit } => it + 1 > limit,
        TerminationModel::Combined { models } => any_fires(models@, models@.len() as int, size, it),
    }
}
pub open spec fn any_fires(ms: Seq<TerminationModel>, n: int, size: nat, it: nat) -> bool
    decreases ms, n
{ if n <= 0 || n > ms.len() { false } else { any_fires(ms, n - 1, size, it) || must_fire(ms[n - 1], size, it) } }
/// no member of the runtime kind anywhere
pub open spec fn clockless(m: TerminationModel) -> bool
    decreases m
{
    match m {
        TerminationModel::QueryRuntimeLimit { .. } => false,
        TerminationModel::Combined { models } => all_clockless(models@, models@.len() as int),
        _ => true,
    }
}
pub open spec fn all_clockless(ms: Seq<TerminationModel>, n: int) -> bool
    decreases ms, n
{ if n <= 0 || n > ms.len() { true } else { all_clockless(ms, n - 1) && clockless(ms[n - 1]) } }
"""

LEMMAS = """
/// C10: an iteration-limit member anywhere inside a combined model stops the search at its limit
pub proof fn lemma_iteration_limit_member(ms: Seq<TerminationModel>, k: int, limit: u64, size: nat, it: nat)
    requires 0 <= k < ms.len(), ms[k] == (TerminationModel::IterationsLimit { limit }), it + 1 > limit
    ensures any_fires(ms, ms.len() as int, size, it)
{ assert(must_fire(ms[k], size, it)); assert(any_fires(ms, k + 1, size, it)); lemma_any_fires_mono(ms, k + 1, ms.len() as int, size, it); }
pub proof fn lemma_size_limit_member(ms: Seq<TerminationModel>, k: int, limit: usize, size: nat, it: nat)
    requires 0 <= k < ms.len(), ms[k] == (TerminationModel::SolutionSizeLimit { limit }), size > limit
    ensures any_fires(ms, ms.len() as int, size, it)
{ assert(must_fire(ms[k], size, it)); assert(any_fires(ms, k + 1, size, it)); lemma_any_fires_mono(ms, k + 1, ms.len() as int, size, it); }
pub proof fn lemma_all_clockless_member(ms: Seq<TerminationModel>, n: int, i: int)
    requires 0 <= i < n <= ms.len(), all_clockless(ms, n)
    ensures clockless(ms[i])
    decreases n
{ if i < n - 1 { lemma_all_clockless_member(ms, n - 1, i); } }
pub proof fn lemma_any_fires_mono(ms: Seq<TerminationModel>, a: int, b: int, size: nat, it: nat)
    requires 0 <= a <= b <= ms.len(), any_fires(ms, a, size, it)
    ensures any_fires(ms, b, size, it)
    decreases b - a
{ if a < b { lemma_any_fires_mono(ms, a, b - 1, size, it); } }
"""


def build(x):
    parts = [HEAD]
    en, n = G.strip_inner_attrs(x.item_text(F, "enum TerminationModel"))
    x.note("R1", "termination_model.rs: dropped %d serde attributes / doc comments of enum TerminationModel" % n)
    parts.append("#[allow(inconsistent_fields)]\n" + en + "\n")
    parts.append(SPEC)
    f = x.fn(F, "impl TerminationModel :: fn terminate_search")
    f.rewrite(r"let dur = Instant::now\(\)\.duration_since\(\*start_time\);\s*Ok\(dur > \*limit\)", "Ok(verif_over_time(start_time, limit))", 1, 1, rule="R-io")
    x.note("R-io", "terminate_search: `let dur = Instant::now().duration_since(*start_time); Ok(dur > *limit)` written Ok(verif_over_time(start_time, limit)) (opaque: ANY verdict)")
    pat = re.compile(r"T::Combined \{ models \} => models\.iter\(\)\.try_fold\(false, \|acc, m\| \{\s*(m\.terminate_search\([^)]*\))\s*\.map\(\|r\| ([^()]*)\)\s*\}\),", re.S)
    if len(pat.findall(f.text)) != 1:
        raise G.Undecided("lost anchor: the try_fold of the Combined arm of terminate_search")
    loop = ("T::Combined { models } => {\n                proof { assert(decreases_to!(*self => *models)); }\n                let mut acc = false;\n                let mut verif_i: usize = 0;\n"
            "                while verif_i < models.len() {\n                    let m = &models[verif_i];\n"
            "                    proof { broadcast use vstd::std_specs::vec::axiom_vec_index_decreases; assert(decreases_to!(*models => models@[verif_i as int]));\n"
            "                            if all_clockless(models@, models@.len() as int) { lemma_all_clockless_member(models@, models@.len() as int, verif_i as int); } }\n"
            "                    acc = match \\1 { Ok(r) => (\\2), Err(verif_e) => return Err(verif_e) };\n                    verif_i = verif_i + 1;\n                }\n                Ok(acc)\n            }")
    f.rewrite(pat.pattern, loop, 1, 1, rule="R-fold", flags=re.S)
    x.note("R-fold", "terminate_search: `models.iter().try_fold(false, |acc, m| F.map(|r| acc || r))` written as `let mut acc = false; while i < models.len() { let m = &models[i]; acc = match F { Ok(r) => acc || r, Err(e) => return Err(e) }; i += 1 } Ok(acc)` (F verbatim)")
    f.name_return("r")
    f.add_spec("""        requires iteration < u64::MAX,
        ensures r matches Ok(b) ==> ({
            // whenever a size or iteration member at any depth is over its limit, the model fires
            &&& (must_fire(*self, solution_size as nat, iteration as nat) ==> b)
            // and a model without runtime members fires ONLY then
            &&& (clockless(*self) ==> b == must_fire(*self, solution_size as nat, iteration as nat))
        }),
            // a model without runtime members never fails
            clockless(*self) ==> r is Ok,
        decreases self,""")
    f.add_loop_spec(1, """                    invariant 0 <= verif_i <= models@.len(), iteration < u64::MAX, decreases_to!(*self => *models), clockless(*self) == all_clockless(models@, models@.len() as int),
                        any_fires(models@, verif_i as int, solution_size as nat, iteration as nat) ==> acc,
                        all_clockless(models@, verif_i as int) ==> acc == any_fires(models@, verif_i as int, solution_size as nat, iteration as nat),
                    decreases models@.len() - verif_i,""")
    parts.append("impl TerminationModel {\n" + f.text + "\n}\n")
    parts.append(LEMMAS)
    parts.append("""
// vacuity guard: MUST FAIL
pub fn vacuity_probe(m: &TerminationModel, t: &Instant) -> (r: bool) ensures false { m.terminate_search(t, 3, 4).is_ok() }
} // verus!
fn main() {}
""")
    return "\n".join(parts)
