"""C02 (time heuristic) -- the speed-table traversal model: true edge time vs. estimated time [V-real].

Extracted verbatim from routee-compass-core: speed_traversal_engine.rs {struct SpeedTraversalEngine,
SpeedTraversalEngine::new, get_max_speed}, speed_traversal_model.rs {traverse_edge, estimate_traversal,
get_speed}, unit/builders.rs::create_time, Time::create, From<(Distance, Speed)> for Time, DistanceUnit /
TimeUnit / SpeedUnit (+ convert, spec tables generated from the match arms as in C09), struct Edge.

Rules: R-fold (the `iter().fold(init, |acc, row| B)` of get_max_speed written as the loop it denotes, B verbatim),
R-io (the statement reading the table file replaced by an opaque read returning ANY table or an error), R6 (`P:
AsRef<Path>` instantiated by an opaque path type), R-into, R-format, R3.
Shims (assumed): StateModel::add_time / add_distance (contracts PROVED in unit c03_statemodel), haversine
coord_distance (uninterpreted great-circle metres, converted with the real table).
"""
import re
import prelude as P
import genlib as G
import c04_frontier as C4
import c09_units as C9

T = "routee-compass-core/src/model/traversal/default/"
U = "routee-compass-core/src/model/unit/"
N = "routee-compass-core/src/model/network/"
OBLIGATIONS = ["get_max_speed", "new", "get_speed", "traverse_edge", "estimate_traversal", "create_time", "create",
               "lemma_estimate_not_above_edge_time", "lemma_time_additive", "lemma_route_time_lower_bound"]
MUST_FAIL = ["vacuity_probe"]

SHIMS = """
#[derive(Copy, Clone)] pub struct StateVar(pub f64);
#[derive(Copy, Clone, PartialEq, Eq)] pub struct VertexId(pub usize);
#[derive(Copy, Clone, PartialEq, Eq)] pub struct EdgeId(pub usize);
impl EdgeId { pub fn as_usize(&self) -> (r: usize) ensures r == self.0 { self.0 } }
#[verifier::external_body] pub struct StateModel { _p: u8 }
#[verifier::external_body] pub struct StateModelError { _p: u8 }
#[verifier::external_body] pub struct Coord { _p: u8 }
pub struct Vertex { pub vertex_id: VertexId, pub coordinate: Coord }
pub enum TraversalModelError { BuildError(String), TraversalModelFailure(String), Other }
macro_rules! from_err { ($a:ty, $b:ty) => { verus! {
    impl vstd::std_specs::convert::FromSpecImpl<$a> for $b { open spec fn obeys_from_spec() -> bool { false } open spec fn from_spec(v: $a) -> $b { arbitrary() } }
    impl From<$a> for $b { #[verifier::external_body] fn from(e: $a) -> $b { unimplemented!() } }
} } }
from_err!(StateModelError, TraversalModelError);
from_err!(UnitError, TraversalModelError);
#[verifier::external_body] pub fn verif_format() -> String { String::new() }
#[verifier::external_body] pub fn verif_string(s: &str) -> (r: String) ensures r@ == s@ { s.to_string() }

// ---- StateModel::add_time / add_distance: contracts proved in unit c03_statemodel (assumed here) ----
pub uninterp spec fn sm_slot(sm: &StateModel, name: Seq<char>) -> int;
pub uninterp spec fn sm_tunit(sm: &StateModel, name: Seq<char>) -> TimeUnit;
pub uninterp spec fn sm_dunit(sm: &StateModel, name: Seq<char>) -> DistanceUnit;
pub open spec fn sv(s: Seq<StateVar>, i: int) -> real { f64_real(s[i].0) }
pub open spec fn only_slot(o: Seq<StateVar>, n: Seq<StateVar>, i: int) -> bool {
    n.len() == o.len() && forall|j: int| 0 <= j < o.len() && j != i ==> #[trigger] n[j] == o[j]
}
impl StateModel {
    #[verifier::external_body]
    pub fn add_time(&self, state: &mut [StateVar], name: &String, time: &Time, from_unit: &TimeUnit) -> (r: Result<(), StateModelError>)
        ensures final(state)@.len() == old(state)@.len(),
                r is Ok ==> 0 <= sm_slot(self, name@) < old(state)@.len() && only_slot(old(state)@, final(state)@, sm_slot(self, name@))
                    && sv(final(state)@, sm_slot(self, name@)) == sv(old(state)@, sm_slot(self, name@)) + conv_TimeUnit(*from_unit, sm_tunit(self, name@), time@),
    { unimplemented!() }
    #[verifier::external_body]
    pub fn add_distance(&self, state: &mut [StateVar], name: &String, distance: &Distance, from_unit: &DistanceUnit) -> (r: Result<(), StateModelError>)
        ensures final(state)@.len() == old(state)@.len(),
                r is Ok ==> 0 <= sm_slot(self, name@) < old(state)@.len() && only_slot(old(state)@, final(state)@, sm_slot(self, name@))
                    && sv(final(state)@, sm_slot(self, name@)) == sv(old(state)@, sm_slot(self, name@)) + conv_DistanceUnit(*from_unit, sm_dunit(self, name@), distance@),
    { unimplemented!() }
}
// ---- great-circle distance: uninterpreted metres (transcendental functions; C16 is not applicable), converted with the real table ----
pub uninterp spec fn hav_m(a: &Coord, b: &Coord) -> real;
pub mod haversine { use super::*;
    #[verifier::external_body]
    pub fn coord_distance(src: &Coord, dst: &Coord, distance_unit: DistanceUnit) -> (r: Result<Distance, String>)
        ensures r matches Ok(d) ==> d@ == conv_DistanceUnit(DistanceUnit::Meters, distance_unit, hav_m(src, dst)) && hav_m(src, dst) >= 0real
    { unimplemented!() }
}
// ---- rule R-io: reading the speed table file yields ANY table, or an error ----
#[verifier::external_body] pub struct VerifPath { _p: u8 }
#[verifier::external_body] pub fn verif_read_speed_table(p: &VerifPath) -> (r: Result<Box<[Speed]>, TraversalModelError>) { unimplemented!() }
"""

SPEC = """
/// time = distance / speed exactly as create_time computes it (C09 proves it is the physical quotient within 0.31 %)
pub open spec fn time_spec(s: real, su: SpeedUnit, d: real, du: DistanceUnit, tu: TimeUnit) -> real {
    conv_TimeUnit(TimeUnit::Seconds, tu, conv_DistanceUnit(du, DistanceUnit::Meters, d) / conv_SpeedUnit(su, SpeedUnit::MetersPerSecond, s))
}
/// C02: the speed used for estimates is an upper bound of every speed in the table (and positive), so that the estimated
/// time of a stretch is never above the time any edge takes for the same length
pub open spec fn engine_wf(e: &SpeedTraversalEngine) -> bool {
    e.max_speed@ > 0real && (forall|i: int| 0 <= i < e.speed_table@.len() ==> (#[trigger] e.speed_table@[i])@ <= e.max_speed@)
        && (exists|i: int| 0 <= i < e.speed_table@.len() && (#[trigger] e.speed_table@[i])@ == e.max_speed@)
}
"""

LEMMAS = """
/// C02: for the same length, the estimate (at max_speed) is never above the time at any slower positive speed
pub proof fn lemma_estimate_not_above_edge_time(s: real, smax: real, su: SpeedUnit, d: real, du: DistanceUnit, tu: TimeUnit)
    requires 0real < s <= smax, d >= 0real
    ensures time_spec(smax, su, d, du, tu) <= time_spec(s, su, d, du, tu), time_spec(s, su, d, du, tu) >= 0real
{
    SpeedUnit_linear(su, SpeedUnit::MetersPerSecond, s, smax);
    SpeedUnit_linear(su, SpeedUnit::MetersPerSecond, smax, 0real);
    DistanceUnit_linear(du, DistanceUnit::Meters, d, 0real);
    DistanceUnit_linear(du, DistanceUnit::Meters, 0real, d);
    let a = conv_SpeedUnit(su, SpeedUnit::MetersPerSecond, s);
    let b = conv_SpeedUnit(su, SpeedUnit::MetersPerSecond, smax);
    let k = conv_SpeedUnit(su, SpeedUnit::MetersPerSecond, 1real);
    let dm = conv_DistanceUnit(du, DistanceUnit::Meters, d);
    assert(a > 0real) by (nonlinear_arith) requires a == k * s, k > 0real, s > 0real;
    assert(a <= b);
    assert(dm >= 0real);
    let (qa, qb) = (dm / a, dm / b);
    assert(qa * a == dm && qb * b == dm) by (nonlinear_arith) requires a > 0real, b > 0real, qa == dm / a, qb == dm / b;
    assert(qb >= 0real) by (nonlinear_arith) requires qb * b == dm, b > 0real, dm >= 0real;
    assert(qb <= qa) by (nonlinear_arith) requires qa * a == dm, qb * b == dm, 0real < a <= b, qb >= 0real;
    TimeUnit_linear(TimeUnit::Seconds, tu, qb, qa);
    TimeUnit_linear(TimeUnit::Seconds, tu, 0real, qa);
    assert(qa >= 0real);
}
/// the time of a stretch at one speed is additive in the length
pub proof fn lemma_time_additive(s: real, su: SpeedUnit, d1: real, d2: real, du: DistanceUnit, tu: TimeUnit)
    requires s > 0real
    ensures time_spec(s, su, d1 + d2, du, tu) == time_spec(s, su, d1, du, tu) + time_spec(s, su, d2, du, tu)
{
    SpeedUnit_linear(su, SpeedUnit::MetersPerSecond, s, 0real);
    DistanceUnit_linear(du, DistanceUnit::Meters, d1, d2);
    let a = conv_SpeedUnit(su, SpeedUnit::MetersPerSecond, s);
    let k = conv_SpeedUnit(su, SpeedUnit::MetersPerSecond, 1real);
    assert(a > 0real) by (nonlinear_arith) requires a == k * s, k > 0real, s > 0real;
    let (m1, m2) = (conv_DistanceUnit(du, DistanceUnit::Meters, d1), conv_DistanceUnit(du, DistanceUnit::Meters, d2));
    let (q1, q2, q) = (m1 / a, m2 / a, (m1 + m2) / a);
    assert(q == q1 + q2) by (nonlinear_arith) requires a > 0real, q1 == m1 / a, q2 == m2 / a, q == (m1 + m2) / a;
    TimeUnit_linear(TimeUnit::Seconds, tu, q1, q2);
}
/// C02 (time component of the heuristic): along any route whose edges have positive table speeds <= smax, the summed edge
/// times are at least the estimate for the summed length -- hence at least the estimate for any shorter (straight-line) length
pub open spec fn route_time(es: Seq<(real, real)>, su: SpeedUnit, du: DistanceUnit, tu: TimeUnit) -> real
    decreases es.len()
{ if es.len() == 0 { 0real } else { route_time(es.drop_last(), su, du, tu) + time_spec(es.last().1, su, es.last().0, du, tu) } }
pub open spec fn route_len(es: Seq<(real, real)>) -> real
    decreases es.len()
{ if es.len() == 0 { 0real } else { route_len(es.drop_last()) + es.last().0 } }
pub proof fn lemma_route_time_lower_bound(es: Seq<(real, real)>, smax: real, su: SpeedUnit, du: DistanceUnit, tu: TimeUnit)
    requires forall|k: int| 0 <= k < es.len() ==> (#[trigger] es[k]).0 >= 0real && 0real < es[k].1 <= smax, smax > 0real
    ensures route_time(es, su, du, tu) >= time_spec(smax, su, route_len(es), du, tu), route_len(es) >= 0real
    decreases es.len()
{
    if es.len() == 0 {
        DistanceUnit_linear(du, DistanceUnit::Meters, 0real, 0real);
        SpeedUnit_linear(su, SpeedUnit::MetersPerSecond, smax, 0real);
        let b = conv_SpeedUnit(su, SpeedUnit::MetersPerSecond, smax);
        let k = conv_SpeedUnit(su, SpeedUnit::MetersPerSecond, 1real);
        assert(b > 0real) by (nonlinear_arith) requires b == k * smax, k > 0real, smax > 0real;
        assert(0real / b == 0real) by (nonlinear_arith) requires b > 0real;
        TimeUnit_linear(TimeUnit::Seconds, tu, 0real, 0real);
    } else {
        let p = es.drop_last();
        assert forall|k: int| 0 <= k < p.len() implies (#[trigger] p[k]).0 >= 0real && 0real < p[k].1 <= smax by { assert(p[k] == es[k]); }
        lemma_route_time_lower_bound(p, smax, su, du, tu);
        lemma_estimate_not_above_edge_time(es.last().1, smax, su, es.last().0, du, tu);
        lemma_time_additive(smax, su, route_len(p), es.last().0, du, tu);
    }
}
"""


def build(x):
    parts, texts = [], []
    for t in ("Distance", "Time", "Speed"):
        parts.append(P.numtype(t))
    parts.append(P.field_typed("StateVar"))
    fam = {}
    for enum, val, fname in [("DistanceUnit", "Distance", "distance_unit.rs"), ("TimeUnit", "Time", "time_unit.rs"), ("SpeedUnit", "Speed", "speed_unit.rs")]:
        fam[enum] = C4.family(x, enum, val, fname)
        texts.append(fam[enum][2])
        parts.append("#[derive(Clone, Copy, PartialEq, Eq)]\n" + fam[enum][0] + "\n")
        parts.append(fam[enum][1])
        parts.append("impl %s {\n    %s\n}\n" % (enum, fam[enum][2]))
    mh = x.fn(U + "speed_unit.rs", "impl SpeedUnit :: fn max_american_highway_speed", under_contract=False)
    texts.append(mh.text)
    parts.append("impl SpeedUnit {\n" + mh.text + "\n}\n")
    for enum in fam:
        vs = G.enum_variants(fam[enum][0])
        parts.append(C9.LEMMAS % C9.lemma_args(enum, vs))
    ue = x.item_text(U + "unit_error.rs", "enum UnitError")
    ue, _ = G.strip_inner_attrs(ue)
    parts.append(ue + "\n")
    parts += [x.item_text(U + "builders.rs", "const " + c) + "\n" for c in ("BASE_DISTANCE_UNIT", "BASE_TIME_UNIT", "BASE_SPEED_UNIT")]
    ff = x.fn(U + "time.rs", "impl From<(Distance, Speed)> for Time :: fn from")
    ff.name_return("r")
    ff.add_spec("        ensures f64_real(value.1.0) != 0real ==> r@ == value.0@ / value.1@,")
    ff.body_start("        broadcast use areal; proof { areal_obeys(); }")
    texts.append(ff.text)
    parts.append("impl vstd::std_specs::convert::FromSpecImpl<(Distance, Speed)> for Time { open spec fn obeys_from_spec() -> bool { false } open spec fn from_spec(v: (Distance, Speed)) -> Time { arbitrary() } }\n"
                 "impl From<(Distance, Speed)> for Time {\n" + ff.text + "\n}\n")
    parts.append(SPEC.split("/// C02: the speed used")[0])
    CT = """    ensures
        (conv_SpeedUnit(*speed_unit, SpeedUnit::MetersPerSecond, speed@) <= 0real
            || conv_DistanceUnit(*distance_unit, DistanceUnit::Meters, distance@) <= 0real) <==> r is Err,
        r is Ok ==> r->Ok_0@ == time_spec(speed@, *speed_unit, distance@, *distance_unit, *time_unit),"""
    ct = x.fn(U + "builders.rs", "fn create_time")
    ct.name_return("r")
    ct.add_spec(CT)
    ct.body_start("    broadcast use areal, lits; proof { areal_obeys(); }")
    ct.rewrite(r"let time = \(d, s\)\.into\(\);", "let time = Time::from((d, s));", 1, 1, rule="R-into")
    texts.append(ct.text)
    parts.append("pub mod builders { use super::*;\n" + ct.text + "\n}\n")
    tc = x.fn(U + "time.rs", "impl Time :: fn create")
    tc.name_return("r")
    tc.add_spec(CT)
    parts.append("impl Time {\n" + tc.text + "\n}\n")
    edge = x.item_text(N + "edge.rs", "struct Edge")
    parts.append("#[derive(Copy, Clone)]\n" + edge + "\n")
    parts.append(SHIMS)

    # ---- engine ----
    eng = x.item_text(T + "speed_traversal_engine.rs", "struct SpeedTraversalEngine")
    parts.append(eng + "\n")
    parts.append("/// C02: the speed used" + SPEC.split("/// C02: the speed used")[1])
    gm = x.fn(T + "speed_traversal_engine.rs", "fn get_max_speed")
    gm.replace_macro_calls(r"format", "verif_format()")
    # rule R-fold
    pat = re.compile(r"let (\([^)]*\)) =\s*(\w+)\s*\.iter\(\)\s*\.fold\((\([^|]*\)),\s*\|(\([^|]*\)),\s*(\w+)\|\s*\{(.*?)\n\s*\}\);", re.S)
    m = pat.search(gm.text)
    if not m or len(pat.findall(gm.text)) != 1:
        raise G.Undecided("lost anchor: `let (..) = <slice>.iter().fold(<init>, |<acc>, <row>| {..});` in get_max_speed")
    res_pat, recv, init, acc_pat, item, body = m.groups()
    loop = ("let mut verif_acc = %s;\n    let mut verif_i: usize = 0;\n    while verif_i < %s.len() {\n        let %s = &%s[verif_i];\n        let %s = verif_acc;\n"
            "        verif_acc = {%s\n        };\n        verif_i = verif_i + 1;\n    }\n    let %s = verif_acc;") % (init, recv, item, recv, acc_pat, body, res_pat)
    gm.rewrite(pat.pattern, lambda _m: loop, 1, 1, rule="R-fold", flags=re.S)
    x.note("R-fold", "get_max_speed: `speed_table.iter().fold(INIT, |ACC, row| { B })` written as `let mut verif_acc = INIT; while i < len { let row = &speed_table[i]; let ACC = verif_acc; verif_acc = { B }; i += 1 }` (B verbatim)")
    gm.name_return("r")
    gm.add_spec("""    requires speed_table@.len() < 0x7fff_ffff,   // the fold counts rows in an i32
    ensures
        r matches Ok(m) ==> m@ > 0real && (forall|i: int| 0 <= i < speed_table@.len() ==> (#[trigger] speed_table@[i])@ <= m@)
            && (exists|i: int| 0 <= i < speed_table@.len() && (#[trigger] speed_table@[i])@ == m@),
        speed_table@.len() == 0 ==> r is Err,""")
    gm.body_start("    broadcast use areal, lits; proof { areal_obeys(); }")
    gm.add_loop_spec(1, """        invariant
            0 <= verif_i <= speed_table@.len(), speed_table@.len() < 0x7fff_ffff, verif_acc.1 == verif_i,
            verif_acc.0@ >= 0real,
            forall|i: int| 0 <= i < verif_i ==> (#[trigger] speed_table@[i])@ <= verif_acc.0@,
            verif_acc.0@ == 0real || (exists|i: int| 0 <= i < verif_i && (#[trigger] speed_table@[i])@ == verif_acc.0@),
        decreases speed_table@.len() - verif_i,""")
    gm.loop_body_start(1, "        broadcast use areal, lits; proof { areal_obeys(); }\n        let ghost acc_prev = verif_acc;")
    gm.insert_before(r"verif_i = verif_i \+ 1;", "        proof { if verif_acc.0@ != acc_prev.0@ { assert(speed_table@[verif_i as int]@ == verif_acc.0@); } }\n")
    texts.append(gm.text)
    parts.append(gm.text + "\n")

    nw = x.fn(T + "speed_traversal_engine.rs", "impl SpeedTraversalEngine :: fn new")
    nw.rewrite(r"pub fn new<P: AsRef<Path>>\(\s*speed_table_path: &P,", "pub fn new(\n        speed_table_path: &VerifPath,", 1, 1, rule="R6")
    x.note("R6", "SpeedTraversalEngine::new: `P: AsRef<Path>` instantiated by an opaque path type")
    nw.rewrite(r"let speed_table: Box<\[Speed\]> =\s*read_utils::read_raw_file\(speed_table_path, read_decoders::default, None\)\.map_err\(.*?\)\?;",
               "let speed_table: Box<[Speed]> = verif_read_speed_table(speed_table_path)?;", 1, 1, rule="R-io", flags=re.S)
    x.note("R-io", "SpeedTraversalEngine::new: the statement `let speed_table = read_utils::read_raw_file(..).map_err(..)?;` replaced by an opaque read that returns ANY table or an error")
    nw.name_return("r")
    nw.add_spec("""        ensures r matches Ok(e) ==> engine_wf(&e) && e.speed_unit == speed_unit
            && e.distance_unit == (if distance_unit_opt is Some { distance_unit_opt->Some_0 } else { BASE_DISTANCE_UNIT })
            && e.time_unit == (if time_unit_opt is Some { time_unit_opt->Some_0 } else { BASE_TIME_UNIT }),""")
    nw.insert_after(r"verif_read_speed_table\(speed_table_path\)\?;", "\n        proof { assume(speed_table@.len() < 0x7fff_ffff); }\n        let ghost tbl = speed_table@;")
    nw.insert_before(r"Ok\(model\)", "proof { assert(model.speed_table@ == tbl); if exists|i: int| 0 <= i < tbl.len() && (#[trigger] tbl[i])@ == model.max_speed@ { let i = choose|i: int| 0 <= i < tbl.len() && (#[trigger] tbl[i])@ == model.max_speed@; assert(model.speed_table@[i]@ == model.max_speed@); } }\n        ")
    parts.append("impl SpeedTraversalEngine {\n" + nw.text + "\n}\n")

    # ---- model ----
    gs = x.fn(T + "speed_traversal_model.rs", "fn get_speed")
    gs.replace_macro_calls(r"format", "verif_format()")
    gs.name_return("r")
    gs.add_spec("    ensures r is Ok <==> edge_id.0 < speed_table@.len(), r matches Ok(s) ==> s == speed_table@[edge_id.0 as int],")
    parts.append(gs.text + "\n")
    src = x.src(T + "speed_traversal_model.rs").text
    for cname, val in [("DISTANCE", "distance"), ("TIME", "time")]:
        if not re.search(r"const %s: &'static str = \"%s\";" % (cname, val), src):
            raise G.Undecided("feature-name constant %s in speed_traversal_model.rs changed" % cname)
    FRAME = """
                &&& it != id && 0 <= it < old(state)@.len() && 0 <= id < old(state)@.len()
                &&& forall|j: int| 0 <= j < old(state)@.len() && j != it && j != id ==> #[trigger] final(state)@[j] == old(state)@[j]"""
    te = x.fn(T + "speed_traversal_model.rs", "impl TraversalModel for SpeedTraversalModel :: fn traverse_edge")
    te.rewrite(r"\A(\s*)fn ", r"\1pub fn ", 0, 1, rule="R3")
    te.rewrite(r"&Self::(\w+)\.into\(\)", r"&verif_string(Self::\1)", 2, 2, rule="R-into")
    te.name_return("r")
    te.add_spec("""        requires sm_slot(state_model, Self::TIME@) != sm_slot(state_model, Self::DISTANCE@),
        ensures final(state)@.len() == old(state)@.len(),
            r is Ok ==> ({
                let e = &self.engine; let edge = trajectory.1;
                let (it, id) = (sm_slot(state_model, Self::TIME@), sm_slot(state_model, Self::DISTANCE@));
                let d = conv_DistanceUnit(BASE_DISTANCE_UNIT, e.distance_unit, edge.distance@);
                &&& edge.edge_id.0 < e.speed_table@.len()
                // C03/C02: the edge's time is its length over ITS table speed; both accumulators grow by the converted amounts
                &&& sv(final(state)@, it) == sv(old(state)@, it) + conv_TimeUnit(e.time_unit, sm_tunit(state_model, Self::TIME@),
                        time_spec(e.speed_table@[edge.edge_id.0 as int]@, e.speed_unit, d, e.distance_unit, e.time_unit))
                &&& sv(final(state)@, id) == sv(old(state)@, id) + conv_DistanceUnit(e.distance_unit, sm_dunit(state_model, Self::DISTANCE@), d)""" + FRAME + """
            }),""")
    es = x.fn(T + "speed_traversal_model.rs", "impl TraversalModel for SpeedTraversalModel :: fn estimate_traversal")
    es.rewrite(r"\A(\s*)fn ", r"\1pub fn ", 0, 1, rule="R3")
    es.rewrite(r"&Self::(\w+)\.into\(\)", r"&verif_string(Self::\1)", 2, 2, rule="R-into")
    es.replace_macro_calls(r"format", "verif_format()")
    es.rewrite(r"\.map_err\(\|e\| \{", ".map_err(|e: String| -> (er: TraversalModelError) {", 1, 1, rule="R-closure")
    es.name_return("r")
    es.add_spec("""        requires sm_slot(state_model, Self::TIME@) != sm_slot(state_model, Self::DISTANCE@),
        ensures final(state)@.len() == old(state)@.len(),
            r is Ok ==> ({
                let e = &self.engine;
                let (it, id) = (sm_slot(state_model, Self::TIME@), sm_slot(state_model, Self::DISTANCE@));
                let d = conv_DistanceUnit(DistanceUnit::Meters, e.distance_unit, hav_m(&od.0.coordinate, &od.1.coordinate));
                &&& d == 0real ==> final(state)@ == old(state)@
                // C02: the estimate is the straight-line length over the engine's max_speed
                &&& d != 0real ==> sv(final(state)@, it) == sv(old(state)@, it) + conv_TimeUnit(e.time_unit, sm_tunit(state_model, Self::TIME@),
                        time_spec(e.max_speed@, e.speed_unit, d, e.distance_unit, e.time_unit))
                    && sv(final(state)@, id) == sv(old(state)@, id) + conv_DistanceUnit(e.distance_unit, sm_dunit(state_model, Self::DISTANCE@), d)
                    && ({""" + FRAME + """ })
            }),""")
    for f in (te, es):
        f.body_start("        broadcast use areal, lits; proof { areal_obeys(); }")
        texts.append(f.text)
    parts.append("pub struct SpeedTraversalModel { pub engine: Arc<SpeedTraversalEngine> }\n"
                 "impl SpeedTraversalModel {\n    pub const DISTANCE: &'static str = \"distance\";\n    pub const TIME: &'static str = \"time\";\n"
                 + te.text + "\n" + es.text + "\n}\n")
    x.note("R3", "`impl TraversalModel for SpeedTraversalModel` methods written as inherent pub fns; the two &'static str constants copied by value (checked against the source)")
    parts.append(LEMMAS)
    parts.append("""
// vacuity guard: MUST FAIL
pub fn vacuity_probe(t: &[Speed]) -> (r: bool) requires t@.len() < 100 ensures false { get_max_speed(t).is_ok() }
""")
    parts.insert(0, P.literal_axioms(texts, extra=("0.0", "1.0")))
    parts.insert(0, P.f64_real())
    return P.wrap("use std::sync::Arc;\n" + "\n".join(parts)).replace("verus! {\nuse std::sync::Arc;", "use std::sync::Arc;\nverus! {", 1)
