"""C07.4 / C07.5 / C03.6 -- the cost model and the per-edge cost split, [V-real].

Extracted verbatim: struct CostModel, CostModel::{traversal_cost, access_cost, cost_estimate},
Cost::{enforce_strictly_positive, enforce_non_negative}, struct EdgeTraversal,
EdgeTraversal::{total_cost, forward_traversal, reverse_traversal}, struct Edge,
SearchInstance::estimate_traversal_cost.
Assumed (shims, each listed): cost_ops::calculate_* return "the aggregated weighted cost" as an
uninterpreted real (their arithmetic is checked on the real code by the Kani unit c07_cm);
Graph accessors; the access / traversal models as state transformers.
"""
import prelude as P
import genlib as G

CORE = "routee-compass-core/src/"
OBLIGATIONS = ["enforce_strictly_positive", "enforce_non_negative", "traversal_cost", "access_cost", "cost_estimate",
               "total_cost", "forward_traversal", "reverse_traversal", "estimate_traversal_cost", "total_cost_positive"]
MUST_FAIL = ["vacuity_probe"]

SHIMS = """
// ---- opaque shims (assumed contracts) ----
#[derive(Copy, Clone)] pub struct StateVar(pub f64);
#[derive(Copy, Clone, PartialEq, Eq)] pub struct EdgeId(pub usize);
#[derive(Copy, Clone, PartialEq, Eq)] pub struct VertexId(pub usize);
#[verifier::external_body] pub struct Vertex { _p: u8 }
#[verifier::external_body] pub struct VehicleCostRate { _p: u8 }
#[verifier::external_body] pub struct NetworkCostRate { _p: u8 }
#[verifier::external_body] pub struct CostAggregation { _p: u8 }
#[verifier::external_body] pub struct CostModelError { _p: u8 }
#[verifier::external_body] pub struct SearchError { _p: u8 }
#[verifier::external_body] pub struct StateModel { _p: u8 }
#[verifier::external_body] pub struct Graph { _p: u8 }
#[verifier::external_body] pub struct AccessModel { _p: u8 }
#[verifier::external_body] pub struct TraversalModel { _p: u8 }
pub type TraversalState = Vec<StateVar>;

impl vstd::std_specs::convert::FromSpecImpl<CostModelError> for SearchError {
    open spec fn obeys_from_spec() -> bool { false }
    open spec fn from_spec(v: CostModelError) -> SearchError { arbitrary() }
}
impl From<CostModelError> for SearchError { #[verifier::external_body] fn from(e: CostModelError) -> SearchError { unimplemented!() } }

// what the (unverified here) cost_ops functions compute, as uninterpreted reals over their arguments
pub uninterp spec fn veh_cost(prev: Seq<StateVar>, next: Seq<StateVar>, fi: Seq<(String, usize)>, w: Seq<f64>, r: Seq<VehicleCostRate>, agg: CostAggregation) -> real;
pub uninterp spec fn net_trav_cost(prev: Seq<StateVar>, next: Seq<StateVar>, e: Edge, fi: Seq<(String, usize)>, w: Seq<f64>, r: Seq<NetworkCostRate>, agg: CostAggregation) -> real;
pub uninterp spec fn net_acc_cost(prev: Seq<StateVar>, next: Seq<StateVar>, e1: Edge, e2: Edge, fi: Seq<(String, usize)>, w: Seq<f64>, r: Seq<NetworkCostRate>, agg: CostAggregation) -> real;

pub mod cost_ops {
    use super::*;
    #[verifier::external_body]
    pub fn calculate_vehicle_costs(state_sequence: (&[StateVar], &[StateVar]), indices: &[(String, usize)], weights: &[f64],
        rates: &[VehicleCostRate], cost_aggregation: &CostAggregation) -> (r: Result<Cost, CostModelError>)
        ensures r is Ok ==> r->Ok_0@ == veh_cost(state_sequence.0@, state_sequence.1@, indices@, weights@, rates@, *cost_aggregation)
    { unimplemented!() }
    #[verifier::external_body]
    pub fn calculate_network_traversal_costs(state_sequence: (&[StateVar], &[StateVar]), edge: &Edge, indices: &[(String, usize)], weights: &[f64],
        rates: &[NetworkCostRate], cost_aggregation: &CostAggregation) -> (r: Result<Cost, CostModelError>)
        ensures r is Ok ==> r->Ok_0@ == net_trav_cost(state_sequence.0@, state_sequence.1@, *edge, indices@, weights@, rates@, *cost_aggregation)
    { unimplemented!() }
    #[verifier::external_body]
    pub fn calculate_network_access_costs(state_sequence: (&[StateVar], &[StateVar]), edge_sequence: (&Edge, &Edge), indices: &[(String, usize)], weights: &[f64],
        rates: &[NetworkCostRate], cost_aggregation: &CostAggregation) -> (r: Result<Cost, CostModelError>)
        ensures r is Ok ==> r->Ok_0@ == net_acc_cost(state_sequence.0@, state_sequence.1@, *edge_sequence.0, *edge_sequence.1, indices@, weights@, rates@, *cost_aggregation)
    { unimplemented!() }
}

// the floor and the clip, as mathematics (MIN_COST is the tiny positive floor)
pub open spec fn floor_pos(x: real) -> real { if x <= 0real { 0.0000000001real } else { x } }
pub open spec fn clip0(x: real) -> real { if x < 0real { 0real } else { x } }

// the statement of C07 for one CostModel, in terms of the aggregated costs
pub open spec fn trav_total(cm: &CostModel, e: Edge, p: Seq<StateVar>, q: Seq<StateVar>) -> real {
    floor_pos(veh_cost(p, q, cm.feature_indices@, cm.weights@, cm.vehicle_rates@, cm.cost_aggregation)
        + net_trav_cost(p, q, e, cm.feature_indices@, cm.weights@, cm.network_rates@, cm.cost_aggregation))
}
/// C07: "the cost charged for accessing plus traversing the edge ... equals the sum over features of weight times rated state change plus the configured per-edge AND
/// PER-TURN surcharges whenever that sum is positive, and a tiny positive floor otherwise" -- `pair` is the (previous, next) pair of edges of the access, if any
pub open spec fn edge_total(cm: &CostModel, e: Edge, pair: Option<(Edge, Edge)>, p: Seq<StateVar>, q: Seq<StateVar>) -> real {
    floor_pos(veh_cost(p, q, cm.feature_indices@, cm.weights@, cm.vehicle_rates@, cm.cost_aggregation)
        + net_trav_cost(p, q, e, cm.feature_indices@, cm.weights@, cm.network_rates@, cm.cost_aggregation)
        + (match pair { Some(pr) => net_acc_cost(p, q, pr.0, pr.1, cm.feature_indices@, cm.weights@, cm.network_rates@, cm.cost_aggregation), None => 0real }))
}
pub open spec fn acc_total(cm: &CostModel, e1: Edge, e2: Edge, p: Seq<StateVar>, q: Seq<StateVar>) -> real {
    floor_pos(veh_cost(p, q, cm.feature_indices@, cm.weights@, cm.vehicle_rates@, cm.cost_aggregation)
        + net_acc_cost(p, q, e1, e2, cm.feature_indices@, cm.weights@, cm.network_rates@, cm.cost_aggregation))
}
pub open spec fn est_total(cm: &CostModel, p: Seq<StateVar>, q: Seq<StateVar>) -> real {
    clip0(veh_cost(p, q, cm.feature_indices@, cm.weights@, cm.vehicle_rates@, cm.cost_aggregation))
}
"""

SI_SHIMS = """
// ---- the search instance as seen by EdgeTraversal (assumed contracts; Arc<..> / dyn removed) ----
pub struct SearchInstance {
    pub directed_graph: Graph,
    pub state_model: StateModel,
    pub traversal_model: TraversalModel,
    pub access_model: AccessModel,
    pub cost_model: CostModel,
}
pub uninterp spec fn g_edge(g: &Graph, id: EdgeId) -> Edge;
pub uninterp spec fn g_has_edge(g: &Graph, id: EdgeId) -> bool;
pub uninterp spec fn access_state(am: &AccessModel, e1: Edge, e2: Edge, s: Seq<StateVar>) -> Seq<StateVar>;
pub uninterp spec fn traverse_state(tm: &TraversalModel, e: Edge, s: Seq<StateVar>) -> Seq<StateVar>;
pub uninterp spec fn estimate_state(tm: &TraversalModel, src: &Vertex, dst: &Vertex, s: Seq<StateVar>) -> Seq<StateVar>;
impl Graph {
    #[verifier::external_body]
    pub fn get_edge(&self, edge_id: &EdgeId) -> (r: Result<&Edge, SearchError>)
        ensures r is Ok ==> *r->Ok_0 == g_edge(self, *edge_id) && r->Ok_0.edge_id == *edge_id
    { unimplemented!() }
    #[verifier::external_body]
    pub fn get_vertex(&self, vertex_id: &VertexId) -> (r: Result<&Vertex, SearchError>) { unimplemented!() }
    #[verifier::external_body]
    pub fn edge_triplet(&self, edge_id: &EdgeId) -> (r: Result<(&Vertex, &Edge, &Vertex), SearchError>)
        ensures r is Ok ==> *r->Ok_0.1 == g_edge(self, *edge_id) && r->Ok_0.1.edge_id == *edge_id
    { unimplemented!() }
}
impl AccessModel {
    #[verifier::external_body]
    pub fn access_edge(&self, traversal: (&Vertex, &Edge, &Vertex, &Edge, &Vertex), state: &mut Vec<StateVar>, state_model: &StateModel) -> (r: Result<(), SearchError>)
        ensures r is Ok ==> final(state)@ == access_state(self, *traversal.1, *traversal.3, old(state)@)
    { unimplemented!() }
}
impl TraversalModel {
    #[verifier::external_body]
    pub fn traverse_edge(&self, trajectory: (&Vertex, &Edge, &Vertex), state: &mut Vec<StateVar>, state_model: &StateModel) -> (r: Result<(), SearchError>)
        ensures r is Ok ==> final(state)@ == traverse_state(self, *trajectory.1, old(state)@)
    { unimplemented!() }
    #[verifier::external_body]
    pub fn estimate_traversal(&self, od: (&Vertex, &Vertex), state: &mut Vec<StateVar>, state_model: &StateModel) -> (r: Result<(), SearchError>)
        ensures r is Ok ==> final(state)@ == estimate_state(self, od.0, od.1, old(state)@)
    { unimplemented!() }
}
#[verifier::external_body]
pub fn slice_to_vec(s: &[StateVar]) -> (r: Vec<StateVar>) ensures r@ == s@ { s.to_vec() }

// the C07/C03 statement for one edge traversal
pub open spec fn traversal_post(si: &SearchInstance, id: EdgeId, e1: Option<Edge>, e2_is_prev: bool, prev_state: Seq<StateVar>, et: EdgeTraversal) -> bool {
    let e = g_edge(&si.directed_graph, id);
    let s1 = match e1 { Some(o) => if e2_is_prev { access_state(&si.access_model, e, o, prev_state) } else { access_state(&si.access_model, o, e, prev_state) }, None => prev_state };
    let s2 = traverse_state(&si.traversal_model, e, s1);
    &&& et.edge_id == id
    &&& et.result_state@ == s2
    &&& (e1 is None ==> et.access_cost@ == 0real)
    &&& (e1 is Some ==> et.access_cost@ == (if e2_is_prev { acc_total(&si.cost_model, e, e1->Some_0, prev_state, s1) } else { acc_total(&si.cost_model, e1->Some_0, e, prev_state, s1) }))
    // access share + traversal share == the floored total charged for the edge, which is strictly positive
    &&& et.access_cost@ + et.traversal_cost@ == edge_total(&si.cost_model, e, (match e1 { Some(o) => Some(if e2_is_prev { (e, o) } else { (o, e) }), None => None::<(Edge, Edge)> }), prev_state, s2)
    &&& et.access_cost@ + et.traversal_cost@ > 0real
}
"""


def build(x):
    parts = []
    texts = []
    parts.append(P.numtype("Cost", consts=(("ZERO", "0.0"), ("ONE", "1.0"), ("MIN_COST", "0.0000000001"))))
    parts.append(P.numtype("Distance"))
    parts.append(P.field_typed("StateVar"))
    edge = x.item_text(CORE + "model/network/edge.rs", "struct Edge")
    parts.append("#[derive(Copy, Clone)]\n" + edge + "\n")
    parts.append(SHIMS)
    cm_struct = x.item_text(CORE + "model/cost/cost_model.rs", "struct CostModel")
    cm_struct = cm_struct.replace("    feature_indices", "    pub feature_indices").replace("    weights", "    pub weights") \
        .replace("    vehicle_rates", "    pub vehicle_rates").replace("    network_rates", "    pub network_rates") \
        .replace("    cost_aggregation", "    pub cost_aggregation")
    x.note("R2", "struct CostModel: fields made pub")
    parts.append(cm_struct + "\n")
    # Cost floor / clip, verbatim
    fl = []
    for name, spec in [("enforce_strictly_positive", "ensures r@ == floor_pos(cost@), r@ > 0real,"),
                       ("enforce_non_negative", "ensures r@ == clip0(cost@), r@ >= 0real,")]:
        f = x.fn(CORE + "model/unit/cost.rs", "impl Cost :: fn " + name)
        f.name_return("r")
        f.add_spec("        " + spec)
        f.body_start("        broadcast use areal, lits; proof { areal_obeys(); }")
        fl.append(f.text)
        texts.append(f.text)
    parts.append("impl Cost {\n" + "\n".join(fl) + "\n}\n")
    # cost model methods, verbatim
    cmf = []
    for name, spec in [
        ("traversal_cost", "ensures r is Ok ==> r->Ok_0@ == trav_total(self, *edge, prev_state@, next_state@) && r->Ok_0@ > 0real,"),
        ("total_cost", "ensures r is Ok ==> r->Ok_0@ == edge_total(self, *edge, (match access_edges { Some(pr) => Some((*pr.0, *pr.1)), None => None::<(Edge, Edge)> }), prev_state@, next_state@) && r->Ok_0@ > 0real,"),
        ("access_cost", "ensures r is Ok ==> r->Ok_0@ == acc_total(self, *prev_edge, *next_edge, prev_state@, next_state@) && r->Ok_0@ > 0real,"),
        ("cost_estimate", "ensures r is Ok ==> r->Ok_0@ == est_total(self, src_state@, dst_state@) && r->Ok_0@ >= 0real,"),
    ]:
        f = x.fn(CORE + "model/cost/cost_model.rs", "impl CostModel :: fn " + name)
        f.name_return("r")
        f.add_spec("        " + spec)
        f.body_start("        broadcast use areal, lits; proof { areal_obeys(); }")
        cmf.append(f.text)
        texts.append(f.text)
    parts.append("impl CostModel {\n" + "\n".join(cmf) + "\n}\n")
    # edge traversal
    et_struct = x.item_text(CORE + "algorithm/search/edge_traversal.rs", "struct EdgeTraversal")
    parts.append(et_struct + "\n")
    parts.append(SI_SHIMS)
    tc = x.fn(CORE + "algorithm/search/edge_traversal.rs", "impl EdgeTraversal :: fn total_cost")
    tc.name_return("r")
    tc.add_spec("        ensures r@ == self.access_cost@ + self.traversal_cost@,")
    tc.body_start("        broadcast use areal; proof { areal_obeys(); }")
    etf = [tc.text]
    for name, idarg, optarg, isprev in [("forward_traversal", "next_edge_id", "prev_edge_id_opt", "false"),
                                        ("reverse_traversal", "prev_edge_id", "next_edge_id_opt", "true")]:
        f = x.fn(CORE + "algorithm/search/edge_traversal.rs", "impl EdgeTraversal :: fn " + name)
        f.name_return("r")
        f.add_spec("""        ensures r is Ok ==> traversal_post(si, %s,
            match %s { Some(o) => Some(g_edge(&si.directed_graph, o)), None => None }, %s, prev_state@, r->Ok_0),""" % (idarg, optarg, isprev))
        f.body_start("        broadcast use areal, lits; proof { areal_obeys(); }")
        n = f.rewrite(r"prev_state\.to_vec\(\)", "slice_to_vec(prev_state)", 1, 1)
        x.note("R-tovec", "%s: `prev_state.to_vec()` written as slice_to_vec(prev_state) (assumed: returns a Vec with the same elements)" % name)
        etf.append(f.text)
        texts.append(f.text)
    parts.append("impl EdgeTraversal {\n" + "\n".join(etf) + "\n}\n")
    est = x.fn(CORE + "algorithm/search/search_instance.rs", "impl SearchInstance :: fn estimate_traversal_cost")
    est.name_return("r")
    est.add_spec("""        ensures r is Ok ==> r->Ok_0@ >= 0real
            && (exists|s: &Vertex, d: &Vertex| r->Ok_0@ == est_total(&self.cost_model, state@, #[trigger] estimate_state(&self.traversal_model, s, d, state@))),""")
    est.body_start("        broadcast use areal; proof { areal_obeys(); }")
    est.rewrite(r"state\.to_vec\(\)", "slice_to_vec(state)", 1, 1)
    x.note("R-tovec", "estimate_traversal_cost: `state.to_vec()` written as slice_to_vec(state)")
    parts.append("impl SearchInstance {\n" + est.text + "\n}\n")
    texts.append(est.text)
    parts.append("""
// C07: whatever an EdgeTraversal produced by forward/reverse traversal reports as total cost is strictly positive
pub proof fn total_cost_positive(si: &SearchInstance, id: EdgeId, e1: Option<Edge>, rev: bool, prev_state: Seq<StateVar>, et: EdgeTraversal)
    requires traversal_post(si, id, e1, rev, prev_state, et)
    ensures et.access_cost@ + et.traversal_cost@ > 0real,
            e1 is None ==> et.access_cost@ + et.traversal_cost@ == trav_total(&si.cost_model, g_edge(&si.directed_graph, id), prev_state, et.result_state@),
            e1 is None ==> et.traversal_cost@ == trav_total(&si.cost_model, g_edge(&si.directed_graph, id), prev_state, et.result_state@),
{}
// vacuity guard: MUST FAIL
pub fn vacuity_probe(c: Cost) -> (r: Cost) ensures false {
    broadcast use areal, lits; proof { areal_obeys(); }
    let a = Cost::enforce_strictly_positive(c);
    if a <= Cost::ZERO { a } else { Cost::enforce_non_negative(a + c) }
}
""")
    parts.insert(0, P.literal_axioms(texts, extra=("0.0", "1.0", "0.0000000001")))
    parts.insert(0, P.f64_real())
    return P.wrap("\n".join(parts))
