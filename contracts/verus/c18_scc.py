"""C18 -- strongly connected components: partition + closure of each pass [V, unbounded].

Extracted verbatim from routee-compass-core/src/algorithm/component/scc.rs: depth_first_search,
reverse_depth_first_search, all_strongly_connected_componenets, largest_strongly_connected_component.
Rule R9 on the `for` loops (explicit iterator / index loops).  Graph accessors are assumed contracts
over an abstract edge relation [C15.2].  NOT proved: termination of the recursion; the finishing-order
argument (mutual reachability / maximality of the classes).
"""
import al_astar as AL
import genlib as G

F = "routee-compass-core/src/algorithm/component/scc.rs"
OBLIGATIONS = ["depth_first_search", "reverse_depth_first_search", "all_strongly_connected_componenets", "largest_strongly_connected_component"]
MUST_FAIL = ["vacuity_probe"]

HEAD = """#![allow(unused_imports, unused_variables, dead_code, unused_mut, unused_parens, unused_assignments)]
use vstd::prelude::*;
use std::collections::HashSet;
verus! {
#[derive(Copy, Clone, Eq, Hash, Debug)] pub struct VertexId(pub usize);
#[derive(Copy, Clone, Debug)] pub struct EdgeId(pub usize);
impl vstd::std_specs::cmp::PartialEqSpecImpl for VertexId { open spec fn obeys_eq_spec() -> bool { true } open spec fn eq_spec(&self, o: &VertexId) -> bool { self.0 == o.0 } }
impl core::cmp::PartialEq for VertexId { fn eq(&self, o: &VertexId) -> bool { self.0 == o.0 } }
#[verifier::external_body] pub proof fn vid_key_model() ensures vstd::std_specs::hash::obeys_key_model::<VertexId>() {}
#[verifier::external_body] pub struct NetworkError { _p: u8 }
#[verifier::external_body] pub struct Graph { _p: u8 }
// the abstract graph: number of vertices, and for every vertex its out- and in-edge lists with the far endpoints   [C15.2]
pub uninterp spec fn g_n(g: &Graph) -> nat;
pub uninterp spec fn g_out(g: &Graph, v: VertexId) -> Seq<EdgeId>;
pub uninterp spec fn g_in(g: &Graph, v: VertexId) -> Seq<EdgeId>;
pub uninterp spec fn g_dst(g: &Graph, e: EdgeId) -> VertexId;
pub uninterp spec fn g_src(g: &Graph, e: EdgeId) -> VertexId;
impl Graph {
    #[verifier::external_body] pub fn out_edges(&self, src: &VertexId) -> (r: Vec<EdgeId>) ensures r@ == g_out(self, *src) { unimplemented!() }
    #[verifier::external_body] pub fn in_edges(&self, dst: &VertexId) -> (r: Vec<EdgeId>) ensures r@ == g_in(self, *dst) { unimplemented!() }
    #[verifier::external_body] pub fn dst_vertex_id(&self, e: &EdgeId) -> (r: Result<VertexId, NetworkError>) ensures r matches Ok(v) ==> v == g_dst(self, *e) { unimplemented!() }
    #[verifier::external_body] pub fn src_vertex_id(&self, e: &EdgeId) -> (r: Result<VertexId, NetworkError>) ensures r matches Ok(v) ==> v == g_src(self, *e) { unimplemented!() }
    #[verifier::external_body] pub fn n_vertices(&self) -> (r: usize) ensures r == g_n(self) { unimplemented!() }
    #[verifier::external_body] pub fn out_edges_iter<'a>(&'a self, src: &VertexId) -> (r: GEdgeIter<'a>) ensures r.pos() == 0, r.seq() == g_out(self, *src) { unimplemented!() }
    #[verifier::external_body] pub fn in_edges_iter<'a>(&'a self, dst: &VertexId) -> (r: GEdgeIter<'a>) ensures r.pos() == 0, r.seq() == g_in(self, *dst) { unimplemented!() }
    // (0..n_vertices).map(VertexId), boxed                                                                          [assumed]
    #[verifier::external_body] pub fn vertex_ids(&self) -> (r: VidIter) ensures r.pos() == 0, r.n() == g_n(self) { unimplemented!() }
}
#[verifier::external_body] pub struct GEdgeIter<'a> { _p: core::marker::PhantomData<&'a u8> }
impl<'a> GEdgeIter<'a> {
    pub uninterp spec fn seq(&self) -> Seq<EdgeId>;
    pub uninterp spec fn pos(&self) -> int;
    #[verifier::external_body]
    pub fn next(&mut self) -> (r: Option<&'a EdgeId>)
        ensures final(self).seq() == old(self).seq(), 0 <= old(self).pos() <= old(self).seq().len(),
                old(self).pos() < old(self).seq().len() ==> r is Some && *r->Some_0 == old(self).seq()[old(self).pos()] && final(self).pos() == old(self).pos() + 1,
                old(self).pos() >= old(self).seq().len() ==> r is None && final(self).pos() == old(self).pos(),
    { unimplemented!() }
}
#[verifier::external_body] pub struct VidIter { _p: u8 }
impl VidIter {
    pub uninterp spec fn n(&self) -> nat;
    pub uninterp spec fn pos(&self) -> int;
    #[verifier::external_body]
    pub fn next(&mut self) -> (r: Option<VertexId>)
        ensures final(self).n() == old(self).n(), 0 <= old(self).pos() <= old(self).n(),
                old(self).pos() < old(self).n() ==> r == Some(VertexId(old(self).pos() as usize)) && final(self).pos() == old(self).pos() + 1 && old(self).pos() <= usize::MAX,
                old(self).pos() >= old(self).n() ==> r is None && final(self).pos() == old(self).pos(),
    { unimplemented!() }
}
/// successors of v in the pass direction
pub open spec fn succ(g: &Graph, fwd: bool, v: VertexId) -> Seq<VertexId> {
    if fwd { Seq::new(g_out(g, v).len(), |i: int| g_dst(g, g_out(g, v)[i])) } else { Seq::new(g_in(g, v).len(), |i: int| g_src(g, g_in(g, v)[i])) }
}
pub open spec fn no_dup(s: Seq<VertexId>) -> bool { forall|i: int, j: int| 0 <= i < j < s.len() ==> s[i] != s[j] }
/// what one (reverse_)depth_first_search call does: visited only grows; the stack is extended by exactly the newly visited vertices, each once;
/// the start vertex is visited; every successor of a newly visited vertex is visited afterwards
pub open spec fn dfs_post(g: &Graph, fwd: bool, vertex: VertexId, v0: Set<VertexId>, v1: Set<VertexId>, s0: Seq<VertexId>, s1: Seq<VertexId>) -> bool {
    &&& v0.subset_of(v1)
    &&& v1.contains(vertex)
    &&& s1.len() >= s0.len() && s1.subrange(0, s0.len() as int) == s0
    &&& forall|i: int| s0.len() <= i < s1.len() ==> v1.contains(#[trigger] s1[i]) && !v0.contains(s1[i])
    &&& forall|w: VertexId| v1.contains(w) && !v0.contains(w) ==> exists|i: int| s0.len() <= i < s1.len() && #[trigger] s1[i] == w
    &&& forall|i: int, j: int| s0.len() <= i < j < s1.len() ==> s1[i] != s1[j]
    &&& forall|w: VertexId, k: int| v1.contains(w) && !v0.contains(w) && 0 <= k < succ(g, fwd, w).len() ==> v1.contains(#[trigger] succ(g, fwd, w)[k])
}
/// C18 partition: every vertex id below n occurs in exactly one component, exactly once
pub open spec fn flat(c: Seq<Vec<VertexId>>) -> Seq<VertexId> decreases c.len()
{ if c.len() == 0 { Seq::empty() } else { flat(c.drop_last()) + c.last()@ } }
pub open spec fn partition(g: &Graph, c: Seq<Vec<VertexId>>) -> bool {
    &&& no_dup(flat(c))
    &&& forall|v: VertexId| v.0 < g_n(g) ==> #[trigger] flat(c).contains(v)
}
"""


def dfs(x, name, fwd, edges_call, end_fn):
    f = x.fn(F, "fn " + name)
    f.name_return("r")
    f.add_spec("""    requires vstd::std_specs::hash::obeys_key_model::<VertexId>(),
    ensures r is Ok ==> dfs_post(graph, %s, *vertex, old(visited)@, final(visited)@, old(stack)@, final(stack)@),
            // also on failure nothing already recorded is lost
            old(visited)@.subset_of(final(visited)@),""" % fwd)
    f.rewrite(r"\A", "#[verifier::exec_allows_no_decreases_clause]\n", 1, 1, rule="note")
    f.desugar_for(1, itname="verif_it")
    f.rewrite(r"let mut verif_it = \(edges\)\.into_iter\(\);\s*loop", "let mut verif_i: usize = 0;\n loop", 1, 1, rule="R9")
    f.rewrite(r"let edge = match verif_it\.next\(\) \{ Some\(verif_x\) => verif_x, None => break \};",
              "if verif_i >= edges.len() { break; } let edge = edges[verif_i]; verif_i += 1;", 1, 1, rule="R9")
    f.body_start("    let ghost v_in = visited@; let ghost s_in = stack@;")
    f.add_loop_spec(1, """        invariant
            vstd::std_specs::hash::obeys_key_model::<VertexId>(),
            v_in == old(visited)@, s_in == old(stack)@,
            edges@ == %(E)s(graph, *vertex), 0 <= verif_i <= edges@.len(),
            v_in.subset_of(visited@), visited@.contains(*vertex), !v_in.contains(*vertex),
            stack@.len() >= s_in.len() && stack@.subrange(0, s_in.len() as int) == s_in,
            forall|i: int| s_in.len() <= i < stack@.len() ==> visited@.contains(#[trigger] stack@[i]) && !v_in.contains(stack@[i]) && stack@[i] != *vertex,
            forall|w: VertexId| visited@.contains(w) && !v_in.contains(w) && w != *vertex ==> exists|i: int| s_in.len() <= i < stack@.len() && #[trigger] stack@[i] == w,
            forall|i: int, j: int| s_in.len() <= i < j < stack@.len() ==> stack@[i] != stack@[j],
            forall|w: VertexId, k: int| visited@.contains(w) && !v_in.contains(w) && w != *vertex && 0 <= k < succ(graph, %(F)s, w).len() ==> visited@.contains(#[trigger] succ(graph, %(F)s, w)[k]),
            // successors of the start vertex handled so far
            forall|k: int| 0 <= k < verif_i ==> visited@.contains(#[trigger] succ(graph, %(F)s, *vertex)[k]),
        ensures verif_i >= edges@.len(),""" % dict(E=("g_out" if fwd == "true" else "g_in"), F=fwd))
    return f


def build(x):
    parts = [HEAD]
    d1 = dfs(x, "depth_first_search", "true", "out_edges", "dst_vertex_id")
    d2 = dfs(x, "reverse_depth_first_search", "false", "in_edges", "src_vertex_id")
    for f, fwd, callee, far in [(d1, "true", "depth_first_search", "dst"), (d2, "false", "reverse_depth_first_search", "src")]:
        f.insert_before(r"%s\(graph, &%s, visited, stack\)\?;" % (callee, far), "        let ghost v_pre = visited@; let ghost s_pre = stack@;")
        f.insert_after(r"%s\(graph, &%s, visited, stack\)\?;" % (callee, far), """        proof {
            let k0 = verif_i as int - 1;
            assert(succ(graph, %(F)s, *vertex)[k0] == %(far)s);
            assert(visited@.contains(%(far)s));
            // the callee's post-condition, re-based on this call's entry state
            assert forall|i: int| s_in.len() <= i < stack@.len() implies visited@.contains(#[trigger] stack@[i]) && !v_in.contains(stack@[i]) && stack@[i] != *vertex by {
                if i < s_pre.len() { assert(stack@[i] == s_pre[i]); assert(stack@.subrange(0, s_pre.len() as int)[i] == s_pre[i]); } else { assert(!v_pre.contains(stack@[i])); }
            }
            assert forall|w: VertexId| visited@.contains(w) && !v_in.contains(w) && w != *vertex implies exists|i: int| s_in.len() <= i < stack@.len() && #[trigger] stack@[i] == w by {
                if v_pre.contains(w) { let i0 = choose|i: int| s_in.len() <= i < s_pre.len() && #[trigger] s_pre[i] == w; assert(stack@.subrange(0, s_pre.len() as int)[i0] == s_pre[i0]); assert(stack@[i0] == w); }
                else { let i1 = choose|i: int| s_pre.len() <= i < stack@.len() && #[trigger] stack@[i] == w; assert(stack@[i1] == w); }
            }
            assert forall|i: int, j: int| s_in.len() <= i < j < stack@.len() implies stack@[i] != stack@[j] by {
                if j < s_pre.len() { assert(stack@.subrange(0, s_pre.len() as int)[i] == s_pre[i]); assert(stack@.subrange(0, s_pre.len() as int)[j] == s_pre[j]); }
                else if i < s_pre.len() { assert(stack@.subrange(0, s_pre.len() as int)[i] == s_pre[i]); assert(v_pre.contains(s_pre[i]) || i < s_in.len()); assert(!v_pre.contains(stack@[j])); }
            }
            assert(stack@.subrange(0, s_in.len() as int) =~= s_in) by {
                assert forall|i: int| 0 <= i < s_in.len() implies stack@[i] == s_in[i] by { assert(stack@.subrange(0, s_pre.len() as int)[i] == s_pre[i]); assert(s_pre.subrange(0, s_in.len() as int)[i] == s_in[i]); }
            }
        }""" % dict(F=fwd, far=far))
        f.insert_after(r"visited\.insert\(\*vertex\);", "    proof { assert(stack@.subrange(0, s_in.len() as int) =~= s_in); }")
        f.insert_before(r"stack\.push\(\*vertex\);", "    let ghost s_loop = stack@;")
        f.insert_after(r"stack\.push\(\*vertex\);", """    proof {
        let n = stack@.len() as int;
        assert(stack@ =~= s_loop.push(*vertex));
        assert(stack@.subrange(0, s_in.len() as int) =~= s_in) by { assert forall|i: int| 0 <= i < s_in.len() implies stack@[i] == s_in[i] by { assert(s_loop.subrange(0, s_in.len() as int)[i] == s_in[i]); } }
        assert forall|w: VertexId| visited@.contains(w) && !v_in.contains(w) implies exists|i: int| s_in.len() <= i < stack@.len() && #[trigger] stack@[i] == w by {
            if w == *vertex { assert(stack@[n - 1] == w); }
            else { let i0 = choose|i: int| s_in.len() <= i < s_loop.len() && #[trigger] s_loop[i] == w; assert(stack@[i0] == w); }
        }
        assert forall|i: int| s_in.len() <= i < stack@.len() implies visited@.contains(#[trigger] stack@[i]) && !v_in.contains(stack@[i]) by { if i < n - 1 { assert(stack@[i] == s_loop[i]); } }
        assert forall|i: int, j: int| s_in.len() <= i < j < stack@.len() implies stack@[i] != stack@[j] by { assert(stack@[i] == s_loop[i]); if j < n - 1 { assert(stack@[j] == s_loop[j]); } }
        assert forall|w: VertexId, k: int| visited@.contains(w) && !v_in.contains(w) && 0 <= k < succ(graph, %(F)s, w).len() implies visited@.contains(#[trigger] succ(graph, %(F)s, w)[k]) by {
            if w == *vertex { assert(succ(graph, %(F)s, *vertex).len() == edges@.len()); }
        }
    }""" % dict(F=fwd))
        f.insert_before(r"return Ok\(\(\)\);", "        proof { assert(stack@.subrange(0, stack@.len() as int) =~= stack@); }")
    parts.append(d1.text + "\n\n" + d2.text + "\n")
    a = x.fn(F, "fn all_strongly_connected_componenets")
    a.name_return("r")
    a.add_spec("""    ensures r matches Ok(c) ==> partition(graph, c@),""")
    a.rewrite(r"\A", "#[verifier::exec_allows_no_decreases_clause]\n", 1, 1, rule="note")
    a.desugar_for(1, itname="verif_it")
    a.rewrite(r"let mut verif_it = \(graph\.vertex_ids\(\)\)\.into_iter\(\);", "let mut verif_it = graph.vertex_ids();", 1, 1, rule="R9")
    a.body_start("    proof { vid_key_model(); }")
    a.add_loop_spec(1, """        invariant
            vstd::std_specs::hash::obeys_key_model::<VertexId>(),
            verif_it.n() == g_n(graph), 0 <= verif_it.pos() <= verif_it.n(),
            no_dup(container@),
            forall|i: int| 0 <= i < container@.len() ==> visited@.contains(#[trigger] container@[i]),
            forall|w: VertexId| visited@.contains(w) ==> exists|i: int| 0 <= i < container@.len() && #[trigger] container@[i] == w,
            forall|v: VertexId| v.0 < verif_it.pos() ==> #[trigger] visited@.contains(v),
        ensures verif_it.pos() >= verif_it.n(),""")
    a.add_loop_spec(2, """        invariant
            vstd::std_specs::hash::obeys_key_model::<VertexId>(),
            no_dup(container@),
            no_dup(flat(result@)),
            forall|i: int| 0 <= i < flat(result@).len() ==> visited@.contains(#[trigger] flat(result@)[i]),
            forall|w: VertexId| visited@.contains(w) ==> flat(result@).contains(w),
            rem == container@,
            forall|v: VertexId| v.0 < g_n(graph) ==> #[trigger] visited@.contains(v) || exists|i: int| 0 <= i < container@.len() && #[trigger] container@[i] == v,
        ensures container@.len() == 0,""")
    a.insert_before(r"depth_first_search\(graph, &vertex_id, &mut visited, &mut container\)\?;", "        let ghost v_pre = visited@; let ghost s_pre = container@;")
    a.insert_after(r"depth_first_search\(graph, &vertex_id, &mut visited, &mut container\)\?;", """        proof {
            assert forall|i: int| 0 <= i < container@.len() implies visited@.contains(#[trigger] container@[i]) by {
                if i < s_pre.len() { assert(container@.subrange(0, s_pre.len() as int)[i] == s_pre[i]); assert(v_pre.contains(s_pre[i])); }
            }
            assert forall|w: VertexId| visited@.contains(w) implies exists|i: int| 0 <= i < container@.len() && #[trigger] container@[i] == w by {
                if v_pre.contains(w) { let i0 = choose|i: int| 0 <= i < s_pre.len() && #[trigger] s_pre[i] == w; assert(container@.subrange(0, s_pre.len() as int)[i0] == s_pre[i0]); assert(container@[i0] == w); }
                else { let i1 = choose|i: int| s_pre.len() <= i < container@.len() && #[trigger] container@[i] == w; }
            }
            assert forall|i: int, j: int| 0 <= i < j < container@.len() implies container@[i] != container@[j] by {
                if j < s_pre.len() { assert(container@.subrange(0, s_pre.len() as int)[i] == s_pre[i]); assert(container@.subrange(0, s_pre.len() as int)[j] == s_pre[j]); }
                else if i < s_pre.len() { assert(container@.subrange(0, s_pre.len() as int)[i] == s_pre[i]); assert(v_pre.contains(s_pre[i])); assert(!v_pre.contains(container@[j])); }
            }
            assert(visited@.contains(vertex_id));
            assert forall|v: VertexId| v.0 < verif_it.pos() implies #[trigger] visited@.contains(v) by { if v.0 == verif_it.pos() - 1 { assert(v == vertex_id); } else { assert(v_pre.contains(v)); } }
        }""")
    a.insert_before(r"visited\.clear\(\);", "    let ghost v1 = visited@;")
    a.insert_after(r"visited\.clear\(\);", """    let ghost mut rem = container@;
    proof {
        assert(flat(result@) =~= Seq::<VertexId>::empty());
        assert forall|v: VertexId| v.0 < g_n(graph) implies exists|i: int| 0 <= i < container@.len() && #[trigger] container@[i] == v by { assert(v1.contains(v)); }
    }""")
    a.insert_before(r"Ok\(result\)", """    proof {
        assert forall|v: VertexId| v.0 < g_n(graph) implies #[trigger] flat(result@).contains(v) by { assert(visited@.contains(v)); }
    }""")
    a.insert_before(r"if visited\.contains\(&vertex_id\) \{", """        proof {
            // the popped vertex leaves the container; every other id stays where it was
            assert(container@ =~= rem.drop_last() && vertex_id == rem.last());
            assert forall|v: VertexId| v.0 < g_n(graph) && !visited@.contains(v) && v != vertex_id implies exists|i: int| 0 <= i < container@.len() && #[trigger] container@[i] == v by {
                let i0 = choose|i: int| 0 <= i < rem.len() && #[trigger] rem[i] == v; assert(i0 < rem.len() - 1); assert(container@[i0] == v);
            }
            assert(no_dup(container@)) by { assert forall|i: int, j: int| 0 <= i < j < container@.len() implies container@[i] != container@[j] by { assert(container@[i] == rem[i]); assert(container@[j] == rem[j]); } }
            rem = container@;
        }""")
    a.insert_before(r"result\.push\(component\);", "        let ghost r_old = result@; let ghost comp = component@;")
    a.insert_after(r"result\.push\(component\);", """        proof {
            assert(result@.drop_last() =~= r_old); assert(result@.last()@ == comp);
            assert(flat(result@) =~= flat(r_old) + comp);
            let f0 = flat(r_old);
            assert forall|i: int, j: int| 0 <= i < j < flat(result@).len() implies flat(result@)[i] != flat(result@)[j] by {
                if j < f0.len() { } else if i < f0.len() { assert(flat(result@)[i] == f0[i]); assert(flat(result@)[j] == comp[j - f0.len()]); } else { assert(flat(result@)[i] == comp[i - f0.len()]); assert(flat(result@)[j] == comp[j - f0.len()]); }
            }
            assert forall|i: int| 0 <= i < flat(result@).len() implies visited@.contains(#[trigger] flat(result@)[i]) by {
                if i < f0.len() { assert(flat(result@)[i] == f0[i]); } else { assert(flat(result@)[i] == comp[i - f0.len()]); }
            }
            assert forall|w: VertexId| visited@.contains(w) implies flat(result@).contains(w) by {
                if f0.contains(w) { let i0 = choose|i: int| 0 <= i < f0.len() && f0[i] == w; assert(flat(result@)[i0] == w); }
                else { let i1 = choose|i: int| 0 <= i < comp.len() && #[trigger] comp[i] == w; assert(flat(result@)[f0.len() + i1] == w); }
            }
        }""")
    a.insert_before(r"reverse_depth_first_search\(graph, &vertex_id, &mut visited, &mut component\)\?;", "        let ghost v2_pre = visited@;")
    parts.append(a.text + "\n")
    lg = x.fn(F, "fn largest_strongly_connected_component")
    lg.name_return("r")
    lg.add_spec("""    ensures r matches Ok(l) ==> exists|c: Seq<Vec<VertexId>>| #[trigger] partition(graph, c)
                // the result is one of the components (or empty when there is none) and no component is longer
                && (forall|k: int| 0 <= k < c.len() ==> (#[trigger] c[k])@.len() <= l@.len())
                && (c.len() == 0 ==> l@.len() == 0) && (c.len() > 0 ==> exists|k: int| 0 <= k < c.len() && (#[trigger] c[k])@ == l@),""")
    lg.rewrite(r"for component in components \{", "let ghost comps = components@;\n    for component in verif_it: components\n        invariant verif_it.seq() == comps, forall|k: int| 0 <= k < verif_it.index@ ==> (#[trigger] comps[k])@.len() <= largest_component@.len(),\n            (verif_it.index@ == 0 ==> largest_component@.len() == 0), (largest_component@.len() > 0 ==> exists|k: int| 0 <= k < verif_it.index@ && (#[trigger] comps[k])@ == largest_component@),\n            (largest_component@.len() == 0 ==> forall|k: int| 0 <= k < verif_it.index@ ==> (#[trigger] comps[k])@.len() == 0),\n    {", 1, 1, rule="R9-named")
    x.note("R9-named", "largest_strongly_connected_component: `for component in components` written `for component in verif_it: components` (Verus' named ghost iterator) to state the loop invariant")
    lg.insert_before(r"Ok\(largest_component\)", """    proof {
        assert(partition(graph, comps));
        if comps.len() > 0 && largest_component@.len() == 0 { assert(comps[0]@.len() == 0); assert(comps[0]@ =~= largest_component@); }
    }""")
    parts.append(lg.text + "\n")
    parts.append("""
// vacuity guard: MUST FAIL
pub fn vacuity_probe(g: &Graph, v: &VertexId, visited: &mut HashSet<VertexId>, stack: &mut Vec<VertexId>) -> (r: bool)
    requires vstd::std_specs::hash::obeys_key_model::<VertexId>() ensures false
{ match depth_first_search(g, v, visited, stack) { Ok(_) => true, Err(_) => false } }
} // verus!
fn main() {}
""")
    return "\n".join(parts)
