"""rsx -- a small brace/string/comment-aware scanner for Rust source text.

Used by the Verus extractor (copy items verbatim out of /repo every run and
splice contract clauses between signature and body) and by the Kani overlay
(find the `fn` an attribute has to be put on).  It does NOT parse Rust; it
tokenises and matches delimiters, which is enough to find item boundaries.
Anything it cannot find or finds more than once raises RsxError, which the
driver turns into exit 2 (undecided), never into an alarm.
"""
import re


class RsxError(Exception):
    pass


class Tok:
    __slots__ = ("k", "s", "a", "b")

    def __init__(self, k, s, a, b):
        self.k, self.s, self.a, self.b = k, s, a, b

    def __repr__(self):
        return "%s:%r" % (self.k, self.s)


_ident = re.compile(r"[A-Za-z_][A-Za-z0-9_]*")
_num = re.compile(r"[0-9][0-9A-Za-z_]*(\.[0-9][0-9A-Za-z_]*)?([eE][+-]?[0-9_]+)?[A-Za-z0-9_]*")
_puncts = ["<<=", ">>=", "...", "..=", "::", "->", "=>", "==", "!=", "<=", ">=", "&&", "||", "+=", "-=", "*=", "/=",
           "%=", "^=", "&=", "|=", "<<", ">>", ".."]


def tokenize(src):
    """tokens of kinds: id, num, str, chr, life, p (punct), doc (doc comment);
    plain comments and whitespace are skipped"""
    toks = []
    i, n = 0, len(src)
    while i < n:
        c = src[i]
        if c.isspace():
            i += 1
            continue
        if src.startswith("//", i):
            j = src.find("\n", i)
            if j < 0:
                j = n
            if src.startswith("///", i) and not src.startswith("////", i) or src.startswith("//!", i):
                toks.append(Tok("doc", src[i:j], i, j))
            i = j
            continue
        if src.startswith("/*", i):
            depth, j = 1, i + 2
            while j < n and depth:
                if src.startswith("/*", j):
                    depth += 1
                    j += 2
                elif src.startswith("*/", j):
                    depth -= 1
                    j += 2
                else:
                    j += 1
            i = j
            continue
        # raw strings / byte strings
        m = re.match(r"b?r(#*)\"", src[i:i + 40])
        if m:
            hashes = m.group(1)
            end = src.find('"' + hashes, i + len(m.group(0)))
            if end < 0:
                raise RsxError("unterminated raw string")
            j = end + 1 + len(hashes)
            toks.append(Tok("str", src[i:j], i, j))
            i = j
            continue
        if c == '"' or (c == "b" and i + 1 < n and src[i + 1] == '"'):
            j = i + (2 if c == "b" else 1)
            while j < n and src[j] != '"':
                j += 2 if src[j] == "\\" else 1
            j += 1
            toks.append(Tok("str", src[i:j], i, j))
            i = j
            continue
        if c == "'":
            # lifetime or char literal
            m = re.match(r"'([A-Za-z_][A-Za-z0-9_]*)(?!')", src[i:i + 64])
            if m:
                j = i + len(m.group(0))
                toks.append(Tok("life", src[i:j], i, j))
                i = j
                continue
            j = i + 1
            while j < n and src[j] != "'":
                j += 2 if src[j] == "\\" else 1
            j += 1
            toks.append(Tok("chr", src[i:j], i, j))
            i = j
            continue
        m = _ident.match(src, i)
        if m:
            toks.append(Tok("id", m.group(0), i, m.end()))
            i = m.end()
            continue
        if c.isdigit():
            m = _num.match(src, i)
            # do not swallow `..` of a range: 0..n
            s = m.group(0)
            if ".." in src[i:i + len(s) + 1] and "." in s:
                s = s[:s.index(".")]
            # method call on integer literal e.g. 1.max(2): keep simple, rare
            toks.append(Tok("num", s, i, i + len(s)))
            i += len(s)
            continue
        for p in _puncts:
            if src.startswith(p, i):
                toks.append(Tok("p", p, i, i + len(p)))
                i += len(p)
                break
        else:
            toks.append(Tok("p", c, i, i + 1))
            i += 1
    return toks


_OPEN = {"(": ")", "[": "]", "{": "}"}
_CLOSE = {")", "]", "}"}


def match_close(toks, i):
    """index of the token closing the delimiter opened at toks[i]"""
    assert toks[i].s in _OPEN
    depth = 0
    for j in range(i, len(toks)):
        t = toks[j]
        if t.k != "p":
            continue
        if t.s in _OPEN:
            depth += 1
        elif t.s in _CLOSE:
            depth -= 1
            if depth == 0:
                return j
    raise RsxError("unbalanced delimiter at offset %d" % toks[i].a)


_ITEM_KW = {"fn", "struct", "enum", "impl", "const", "static", "type", "trait", "mod", "use", "union", "macro_rules"}
_PREFIX_KW = {"pub", "unsafe", "async", "extern", "default"}


class Item:
    def __init__(self):
        self.kind = None      # fn struct enum impl const ...
        self.name = None      # identifier, or normalised impl header
        self.attr_a = None    # offset where attributes/doc comments start
        self.a = None         # offset of first token after attributes (pub/keyword)
        self.b = None         # offset one past the end
        self.open = None      # token index of body `{` (None for `;` items)
        self.close = None     # token index of closing `}`
        self.kw = None        # token index of the item keyword
        self.attrs = []       # attribute texts

    def __repr__(self):
        return "<%s %s>" % (self.kind, self.name)


def norm(s):
    return re.sub(r"\s+", "", s)


def items(src, toks, lo=0, hi=None):
    """items directly inside toks[lo:hi] (one nesting level)"""
    hi = len(toks) if hi is None else hi
    out = []
    i = lo
    while i < hi:
        start = i
        attrs = []
        # attributes and doc comments
        while i < hi and (toks[i].k == "doc" or (toks[i].s == "#" and i + 1 < hi and toks[i + 1].s in ("[", "!"))):
            if toks[i].k == "doc":
                i += 1
                continue
            j = i + 1
            if toks[j].s == "!":
                j += 1
            c = match_close(toks, j)
            attrs.append(src[toks[i].a:toks[c].b])
            i = c + 1
        first = i
        # visibility / qualifiers
        while i < hi and toks[i].k == "id" and toks[i].s in _PREFIX_KW:
            i += 1
            if i < hi and toks[i].s == "(" and toks[i - 1].s == "pub":
                i = match_close(toks, i) + 1
            if i < hi and toks[i].k == "str" and toks[i - 1].s == "extern":
                i += 1
        if i >= hi:
            break
        t = toks[i]
        if t.k == "id" and t.s in _ITEM_KW:
            it = Item()
            it.kw = i
            it.kind = t.s
            if t.s == "const" and i + 1 < hi and toks[i + 1].s == "fn":
                it.kind = "fn"
                it.kw = i + 1
            it.attr_a = toks[start].a
            it.a = toks[first].a
            it.attrs = attrs
            # find end: first `{` or `;` at paren depth 0
            j = it.kw + 1
            body = None
            while j < hi:
                s = toks[j].s if toks[j].k == "p" else None
                if s in ("(", "["):
                    j = match_close(toks, j) + 1
                    continue
                if s == "{":
                    body = j
                    break
                if s == ";":
                    break
                j += 1
            if j >= hi:
                raise RsxError("item without end at offset %d" % t.a)
            if body is not None:
                it.open = body
                it.close = match_close(toks, body)
                it.b = toks[it.close].b
                endtok = it.close
                # struct X {..} has no `;`; `const X: T = T { .. };` has
                if it.kind in ("const", "static", "type", "use"):
                    k = it.close + 1
                    while k < hi and toks[k].s != ";":
                        if toks[k].s in _OPEN:
                            k = match_close(toks, k)
                        k += 1
                    it.b = toks[k].b
                    endtok = k
                    it.open = it.close = None
            else:
                it.b = toks[j].b
                endtok = j
            if it.kind == "impl":
                hdr_end = toks[it.open].a
                it.name = norm(src[toks[it.kw].a:hdr_end])
            elif it.kind == "use":
                it.name = norm(src[toks[it.kw].a:it.b])
            else:
                k = it.kw + 1
                it.name = toks[k].s if k < hi else None
            out.append(it)
            i = endtok + 1
        else:
            # macro invocation or stray token: skip to next `;` or balanced group
            if t.k == "p" and t.s in _OPEN:
                i = match_close(toks, i) + 1
            else:
                i += 1
    return out


class Source:
    def __init__(self, path, text=None):
        self.path = path
        self.text = open(path).read() if text is None else text
        self.toks = tokenize(self.text)
        self.top = items(self.text, self.toks)

    def children(self, it):
        if it.open is None:
            return []
        return items(self.text, self.toks, it.open + 1, it.close)

    def find(self, selector):
        """selector: 'fn name' | 'struct Name' | 'enum Name' | 'const NAME' |
        'impl <header>' | 'impl <header> :: fn name' | 'mod m :: ...'.
        Returns the unique Item or raises RsxError."""
        parts = [p.strip() for p in selector.split(" :: ")]
        scope = list(self.top)
        cands = []
        for n, p in enumerate(parts):
            kind, _, name = p.partition(" ")
            name = name.strip()
            if p.startswith("impl") and not p[4:5].isalnum() and p[4:5] != "_":
                kind, name = "impl", p[4:].strip()
            if kind == "impl":
                want = "impl" + norm(name)
                cands = [x for x in scope if x.kind == "impl" and x.name == want]
                if not cands:
                    cands = [x for x in scope if x.kind == "impl" and _impl_match(x.name, want)]
            else:
                cands = [x for x in scope if x.kind == kind and x.name == name]
            last = n == len(parts) - 1
            # several `impl T` blocks are fine as long as the full selector is unique
            if (last or kind != "impl") and len(cands) != 1 or not cands:
                raise RsxError("selector %r in %s: %d matches for %r" % (selector, self.path, len(cands), p))
            scope = [c for it in cands for c in self.children(it)]
        return cands[0]

    def text_of(self, it, with_attrs=False):
        return self.text[(it.attr_a if with_attrs else it.a):it.b]


def _impl_match(have, want):
    # have/want normalised (no whitespace): 'implFooforBar<T>' ...
    if have == want:
        return True
    # allow the selector to omit generic parameter lists: compare with <...> stripped
    def strip_generics(s):
        out, d = [], 0
        for ch in s:
            if ch == "<":
                d += 1
            elif ch == ">":
                d -= 1
            elif d == 0:
                out.append(ch)
        return "".join(out)
    h = strip_generics(have)
    # drop where clauses
    h = re.sub(r"where.*$", "", h)
    return h == strip_generics(want)


# ---------------------------------------------------------------------------
# function surgery (all on a standalone copy of the function's text)
# ---------------------------------------------------------------------------

class FnText:
    """a function's text, re-tokenised standalone so it can be edited"""

    def __init__(self, text):
        self.text = text
        self._scan()

    def _scan(self):
        self.toks = tokenize(self.text)
        its = items(self.text, self.toks)
        fns = [x for x in its if x.kind == "fn"]
        if len(fns) != 1:
            raise RsxError("FnText: expected exactly one fn, got %r" % its)
        self.it = fns[0]
        if self.it.open is None:
            raise RsxError("fn without body")

    # --- signature ---
    def _sig_tokens(self):
        return range(self.it.kw, self.it.open)

    def name_return(self, rname="r"):
        """`-> T` becomes `-> (r: T)`; returns False if the fn has no return type"""
        toks = self.toks
        depth = 0
        arrow = None
        i = self.it.kw
        while i < self.it.open:
            t = toks[i]
            if t.k == "p" and t.s in ("(", "["):
                i = match_close(toks, i) + 1
                continue
            if t.k == "p" and t.s == "->":
                arrow = i
                break
            i += 1
        if arrow is None:
            return False
        # return type ends at `where` (depth 0) or at body
        end = self.it.open
        j = arrow + 1
        while j < self.it.open:
            t = toks[j]
            if t.k == "p" and t.s in ("(", "["):
                j = match_close(toks, j) + 1
                continue
            if t.k == "id" and t.s == "where":
                end = j
                break
            j += 1
        a = toks[arrow + 1].a
        b = toks[end - 1].b
        ty = self.text[a:b]
        self.text = self.text[:a] + "(%s: %s)" % (rname, ty) + self.text[b:]
        self._scan()
        return True

    def add_spec(self, spec):
        """insert requires/ensures/decreases text right before the body"""
        a = self.toks[self.it.open].a
        self.text = self.text[:a] + "\n" + spec.rstrip() + "\n" + self.text[a:]
        self._scan()

    def body_start(self, text):
        """insert text right after the body's opening brace"""
        b = self.toks[self.it.open].b
        self.text = self.text[:b] + "\n" + text + "\n" + self.text[b:]
        self._scan()

    # --- loops ---
    def loops(self):
        """token indices of loop keywords inside the body, in source order,
        with the token index of each loop's body `{`"""
        out = []
        toks = self.toks
        i = self.it.open + 1
        while i < self.it.close:
            t = toks[i]
            if t.k == "id" and t.s in ("while", "loop", "for"):
                # `for` in `impl<..> X for Y` / HRTB cannot occur inside a body except `for<'a>`
                if t.s == "for" and toks[i + 1].s == "<":
                    i += 1
                    continue
                j = i + 1
                while j < self.it.close:
                    s = toks[j]
                    if s.k == "p" and s.s in ("(", "["):
                        j = match_close(toks, j) + 1
                        continue
                    if s.k == "p" and s.s == "{":
                        break
                    j += 1
                out.append((i, j))
            i += 1
        return out

    def add_loop_spec(self, ordinal, spec):
        ls = self.loops()
        if not (1 <= ordinal <= len(ls)):
            raise RsxError("loop ordinal %d: function has %d loops" % (ordinal, len(ls)))
        _, brace = ls[ordinal - 1]
        a = self.toks[brace].a
        self.text = self.text[:a] + "\n" + spec.rstrip() + "\n" + self.text[a:]
        self._scan()

    def loop_body_start(self, ordinal, text):
        """insert text right after the opening brace of the n-th loop's body"""
        ls = self.loops()
        if not (1 <= ordinal <= len(ls)):
            raise RsxError("loop ordinal %d: function has %d loops" % (ordinal, len(ls)))
        _, brace = ls[ordinal - 1]
        b = self.toks[brace].b
        self.text = self.text[:b] + "\n" + text + "\n" + self.text[b:]
        self._scan()

    def desugar_for(self, ordinal, itname=None):
        """rule R9: `for P in E { B }` -> `let mut it = (E).into_iter(); loop { let P = match it.next() { Some(x) => x, None => break }; B }`
        The loop keeps its ordinal."""
        ls = self.loops()
        kw, brace = ls[ordinal - 1]
        toks = self.toks
        if toks[kw].s != "for":
            raise RsxError("loop %d is not a for loop" % ordinal)
        # find `in` at depth 0 between kw and brace
        j = kw + 1
        pos_in = None
        while j < brace:
            s = toks[j]
            if s.k == "p" and s.s in ("(", "["):
                j = match_close(toks, j) + 1
                continue
            if s.k == "id" and s.s == "in":
                pos_in = j
                break
            j += 1
        if pos_in is None:
            raise RsxError("for without in")
        pat = self.text[toks[kw + 1].a:toks[pos_in - 1].b]
        expr = self.text[toks[pos_in + 1].a:toks[brace - 1].b]
        itn = itname or ("verif_it%d" % ordinal)
        head = "let mut %s = (%s).into_iter();\n loop " % (itn, expr)
        first = "{ /*verif:body%d*/ let %s = match %s.next() { Some(verif_x) => verif_x, None => break };" % (ordinal, pat, itn)
        a, b = toks[kw].a, toks[brace].b
        self.text = self.text[:a] + head + first + self.text[b:]
        self._scan()

    def index_for(self, ordinal, idx="verif_k", by_value=False, by_ref_binding=False):
        """rule R9-index: `for P in E.iter() { B }` / `for P in &E { B }` (E a Vec or slice; with by_ref_binding also `for P in E` where E is a variable bound to a `&Vec`) ->
        `let mut idx: usize = 0; while idx < E.len() { let P = &E[idx]; idx = idx + 1; B }`   (B verbatim; `continue`/`break` keep their meaning)
        The loop keeps its ordinal."""
        ls = self.loops()
        kw, brace = ls[ordinal - 1]
        toks = self.toks
        if toks[kw].s != "for":
            raise RsxError("loop %d is not a for loop" % ordinal)
        j = kw + 1
        pos_in = None
        while j < brace:
            s = toks[j]
            if s.k == "p" and s.s in ("(", "["):
                j = match_close(toks, j) + 1
                continue
            if s.k == "id" and s.s == "in":
                pos_in = j
                break
            j += 1
        if pos_in is None:
            raise RsxError("for without in")
        pat = self.text[toks[kw + 1].a:toks[pos_in - 1].b]
        expr = self.text[toks[pos_in + 1].a:toks[brace - 1].b].strip()
        m = re.fullmatch(r"(.+?)\s*\.iter\(\)", expr, re.S) or re.fullmatch(r"&\s*(.+)", expr, re.S) or (by_ref_binding and re.fullmatch(r"(\w+)", expr))
        if not m:
            raise RsxError("for loop %d does not iterate `E.iter()` or `&E`: %r" % (ordinal, expr))
        e = m.group(1).strip()
        if not re.fullmatch(r"[\w.]+", e):
            raise RsxError("for loop %d iterates a compound expression: %r" % (ordinal, e))
        head = "let mut %s: usize = 0;\n while %s < %s.len() " % (idx, idx, e)
        first = "{ /*verif:body%d*/ let %s = &%s[%s]; %s = %s + 1;" % (ordinal, pat, e, idx, idx, idx)
        a, b = toks[kw].a, toks[brace].b
        self.text = self.text[:a] + head + first + self.text[b:]
        self._scan()
        return e

    # --- textual rewrites ---
    def insert_before(self, regex, text, count=1):
        ms = list(re.finditer(regex, self.text))
        if len(ms) != count:
            raise RsxError("anchor %r: %d matches (expected %d)" % (regex, len(ms), count))
        for m in reversed(ms):
            self.text = self.text[:m.start()] + text + "\n" + self.text[m.start():]
        self._scan()

    def insert_after(self, regex, text, count=1):
        ms = list(re.finditer(regex, self.text))
        if len(ms) != count:
            raise RsxError("anchor %r: %d matches (expected %d)" % (regex, len(ms), count))
        for m in reversed(ms):
            self.text = self.text[:m.end()] + "\n" + text + "\n" + self.text[m.end():]
        self._scan()

    def rewrite(self, regex, repl, min_count=0, max_count=None, flags=0):
        new, n = re.subn(regex, repl, self.text, flags=flags)
        if n < min_count or (max_count is not None and n > max_count):
            raise RsxError("rewrite %r fired %d times (allowed %s..%s)" % (regex, n, min_count, max_count))
        self.text = new
        self._scan()
        return n

    def strip_macro_stmts(self, path_regex):
        """remove statements of the form `<path>!( ... );` (e.g. log::debug!) -- rule R7"""
        n = 0
        while True:
            toks = self.toks
            hit = None
            for i in range(self.it.open + 1, self.it.close):
                if toks[i].k == "p" and toks[i].s == "!" and toks[i + 1].s in _OPEN:
                    # walk back over the path
                    j = i - 1
                    while j - 2 > self.it.open and toks[j - 1].s == "::" and toks[j - 2].k == "id":
                        j -= 2
                    path = self.text[toks[j].a:toks[i].a]
                    if re.fullmatch(path_regex, norm(path)):
                        # must be a statement: previous token is `;` `{` or `}`
                        prev = toks[j - 1].s
                        c = match_close(toks, i + 1)
                        if prev in (";", "{", "}") and toks[c + 1].s == ";":
                            hit = (toks[j].a, toks[c + 1].b)
                            break
            if hit is None:
                break
            self.text = self.text[:hit[0]] + self.text[hit[1]:]
            self._scan()
            n += 1
        return n

    def replace_macro_calls(self, path_regex, repl):
        """replace every expression `<path>!( ... )` whose path matches by `repl` (e.g. format!(..) -> verif_format()) -- rule R-format"""
        n = 0
        while True:
            toks = self.toks
            hit = None
            for i in range(self.it.open + 1, self.it.close):
                if toks[i].k == "p" and toks[i].s == "!" and toks[i + 1].s in _OPEN and toks[i - 1].k == "id":
                    j = i - 1
                    while j - 2 > self.it.open and toks[j - 1].s == "::" and toks[j - 2].k == "id":
                        j -= 2
                    path = self.text[toks[j].a:toks[i].a]
                    if re.fullmatch(path_regex, norm(path)):
                        c = match_close(toks, i + 1)
                        hit = (toks[j].a, toks[c].b)
                        break
            if hit is None:
                break
            self.text = self.text[:hit[0]] + repl + self.text[hit[1]:]
            self._scan()
            n += 1
        return n

    def rewrite_casts(self, mapping):
        """rule R-cast: `OPERAND as T` -> `FN(OPERAND)` for every T in mapping (T -> FN); OPERAND is the preceding primary
        expression (a token, or a balanced (...) / [...] group together with the path / method-call chain in front of it)"""
        n = 0
        while True:
            toks = self.toks
            hit = None
            for i in range(self.it.open + 1, self.it.close):
                if toks[i].k == "id" and toks[i].s == "as" and toks[i + 1].k == "id" and toks[i + 1].s in mapping:
                    j = i - 1
                    # walk back over one postfix chain: groups, idents, `.`, `::`
                    def open_of(k):
                        depth = 0
                        for m in range(k, self.it.open, -1):
                            if toks[m].k == "p" and toks[m].s in (")", "]"):
                                depth += 1
                            elif toks[m].k == "p" and toks[m].s in ("(", "["):
                                depth -= 1
                                if depth == 0:
                                    return m
                        raise RsxError("unbalanced cast operand")
                    start = j
                    while True:
                        if toks[start].k == "p" and toks[start].s in (")", "]"):
                            start = open_of(start)
                            if toks[start - 1].k == "id" and toks[start - 1].s not in ("as", "in", "if", "while", "match", "return", "let"):
                                start -= 1
                            else:
                                break
                        if toks[start - 1].k == "p" and toks[start - 1].s in (".", "::") and toks[start - 2].k in ("id", "num") :
                            start -= 2
                            continue
                        if toks[start - 1].k == "p" and toks[start - 1].s in (".", "::") and toks[start - 2].s in (")", "]"):
                            start -= 2
                            continue
                        break
                    hit = (toks[start].a, toks[j].b, toks[i + 1].b, mapping[toks[i + 1].s])
                    break
            if hit is None:
                break
            a, b, e, fn = hit
            self.text = self.text[:a] + fn + "(" + self.text[a:b] + ")" + self.text[e:]
            self._scan()
            n += 1
        return n

    def strip_cfg_blocks(self, cfg_regex):
        """remove `#[cfg(..)] { ... }` statement blocks -- rule R8.  Refuses if the
        block assigns to anything (contains `=` that is not `==`,`<=`,`>=`,`!=`,`=>` outside a `let`)."""
        n = 0
        while True:
            toks = self.toks
            hit = None
            for i in range(self.it.open + 1, self.it.close):
                if toks[i].s == "#" and toks[i + 1].s == "[":
                    c = match_close(toks, i + 1)
                    attr = norm(self.text[toks[i].a:toks[c].b])
                    if re.fullmatch(cfg_regex, attr) and toks[c + 1].s == "{":
                        e = match_close(toks, c + 1)
                        hit = (i, c + 1, e)
                        break
            if hit is None:
                break
            i, o, e = hit
            # outer-assignment guard
            k = o + 1
            while k < e:
                t = toks[k]
                if t.k == "p" and t.s in ("=", "+=", "-=", "*=", "/="):
                    # find statement start
                    s = k
                    while s > o and toks[s - 1].s not in (";", "{", "}"):
                        s -= 1
                    if toks[s].s != "let":
                        raise RsxError("cfg block assigns to an outer variable; rule R8 does not apply")
                k += 1
            self.text = self.text[:toks[i].a] + self.text[toks[e].b:]
            self._scan()
            n += 1
        return n

    def body_text(self):
        return self.text[self.toks[self.it.open].a:self.toks[self.it.close].b]
