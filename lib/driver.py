"""driver -- scratch copies, Kani overlay back end, Verus extraction back end,
findings, evidence.  See /verif/DESIGN.md section 2."""
import json, os, re, shutil, subprocess, sys, time, threading, hashlib, importlib.util, signal

VERIF = os.path.dirname(os.path.dirname(os.path.abspath(__file__)))
REPO = os.environ.get("VERIF_REPO", "/repo")
SCRATCH_ROOT = os.environ.get("VERIF_SCRATCH", "/tmp/verif-scratch")
KANI_BASE = os.path.join(VERIF, ".cache", "kani-base")
sys.path.insert(0, os.path.join(VERIF, "lib"))
sys.path.insert(0, os.path.join(VERIF, "contracts", "verus"))
import rsx  # noqa

ENV = dict(os.environ, CARGO_NET_OFFLINE="true", CARGO_TERM_COLOR="never")
CRATES = ["routee-compass-core", "routee-compass-powertrain", "routee-compass"]


class Undecided(Exception):
    """machinery could not decide (exit 2) -- never an alarm"""


def log(*a):
    print(*a, file=sys.stderr, flush=True)


# ---------------------------------------------------------------------------
# scratch copy
# ---------------------------------------------------------------------------

class Scratch:
    def __init__(self, tag, want_kani=True):
        self.dir = os.path.join(SCRATCH_ROOT, "%s.%d" % (tag, os.getpid()))
        shutil.rmtree(self.dir, ignore_errors=True)
        os.makedirs(self.dir)
        self.rust = os.path.join(self.dir, "rust")
        subprocess.check_call(["rsync", "-a", "--exclude", "/target", "--exclude", "/.git",
                               os.path.join(REPO, "rust") + "/", self.rust + "/"])
        lock = os.path.join(REPO, "rust", "Cargo.lock")
        if os.path.exists(lock) and not os.path.exists(os.path.join(self.rust, "Cargo.lock")):
            shutil.copy(lock, self.rust)
        self.target = os.path.join(self.dir, "target")
        # debug builds of run_a_star write a flame graph under <workspace>/target/flamegraph and unwrap() the create_dir
        os.makedirs(os.path.join(self.rust, "target"), exist_ok=True)
        self.kani_ready = False
        self.overlay_added = 0
        self.want_kani = want_kani

    def ensure_kani_target(self):
        if self.kani_ready:
            return
        if os.path.isdir(KANI_BASE):
            subprocess.check_call(["cp", "-a", KANI_BASE, self.target])
        else:
            log("note: no dependency cache at %s (run setup); building dependencies from scratch" % KANI_BASE)
            os.makedirs(self.target, exist_ok=True)
        self.kani_ready = True

    def path(self, rel):
        return os.path.join(self.rust, rel)

    def read(self, rel):
        return open(self.path(rel)).read()

    def cleanup(self):
        shutil.rmtree(self.dir, ignore_errors=True)
        try:
            os.rmdir(SCRATCH_ROOT)
        except OSError:
            pass


# ---------------------------------------------------------------------------
# Kani back end
# ---------------------------------------------------------------------------

class Harness:
    def __init__(self, name, kind, what, tier="quick", bound=None, carries=True, expect="pass",
                 timeout=600, unwind=None, solver=None, optional=False):
        self.name = name          # harness fn name (unique per property)
        self.kind = kind          # 'complete' | 'bounded' | 'witness'
        self.what = what          # one line: the contract clause discharged
        self.tier = tier
        self.bound = bound        # text, for bounded
        self.carries = carries    # counts as obligation of the property
        self.expect = expect
        self.timeout = timeout
        self.solver = solver
        self.optional = optional  # an extra beyond the carrying proof: a time-out is recorded ("skipped: time budget") and does not make the run undecided


class KaniUnit:
    """contracts + harness module(s) overlaid on one crate of the scratch copy"""

    def __init__(self, name, crate, contracts=(), modules=(), harnesses=(), stubs_note=None, exprs=()):
        self.name = name
        self.crate = crate
        self.contracts = list(contracts)   # dict(file, anchor, attrs[])
        self.modules = list(modules)       # dict(file (source file to append to), src (path under contracts/kani))
        self.harnesses = list(harnesses)
        self.exprs = list(exprs)           # rule R10 expression extraction: dict(file, anchor, name, params, ret, into)
        self.backend = "kani"


def _insert_attrs(text, anchor, attrs, relfile):
    ms = list(re.finditer(anchor, text, flags=re.M))
    if len(ms) != 1:
        raise Undecided("lost anchor: %r matches %d times in %s" % (anchor, len(ms), relfile))
    m = ms[0]
    # go to the start of the line holding the match
    ls = text.rfind("\n", 0, m.start()) + 1
    indent = re.match(r"[ \t]*", text[ls:]).group(0)
    ins = "".join(indent + a + "\n" for a in attrs)
    return text[:ls] + ins + text[ls:], len(attrs)


def apply_kani_overlay(scr, unit):
    added = 0
    for c in unit.contracts:
        p = scr.path(c["file"])
        if not os.path.exists(p):
            raise Undecided("lost anchor: file %s does not exist" % c["file"])
        t = open(p).read()
        t, n = _insert_attrs(t, c["anchor"], c["attrs"], c["file"])
        added += n
        open(p, "w").write(t)
    for e in unit.exprs:
        # rule R10: copy an expression verbatim into a generated function
        p = scr.path(e["file"])
        if not os.path.exists(p):
            raise Undecided("lost anchor: file %s does not exist" % e["file"])
        t = open(p).read()
        ms = list(re.finditer(e["anchor"], t, flags=re.M | re.S))
        if len(ms) != 1:
            raise Undecided("lost anchor (expression): %r matches %d times in %s" % (e["anchor"], len(ms), e["file"]))
        expr = ms[0].group("expr")
        for a, b in e.get("subst", []):
            n_before = expr.count(a)
            if n_before < 1:
                raise Undecided("expression %s: free variable text %r not found in %r" % (e["name"], a, expr))
            expr = expr.replace(a, b)
        gen = "\n#[cfg(kani)]\n#[allow(unused, clippy::all)]\npub(crate) fn %s(%s) -> %s {\n    %s\n}\n" % (e["name"], e["params"], e["ret"], expr)
        e["_text"] = expr
        into = scr.path(e.get("into", e["file"]))
        with open(into, "a") as f:
            f.write(gen)
        added += gen.count("\n")
    for m in unit.modules:
        p = scr.path(m["file"])
        if not os.path.exists(p):
            raise Undecided("lost anchor: file %s does not exist" % m["file"])
        src = m["text"] if "text" in m else open(os.path.join(VERIF, "contracts", "kani", m["src"])).read()
        for k, v in m.get("subst", {}).items():
            src = src.replace(k, v)
        # the same module text is appended to a file only once per scratch copy (several units may share a fixture or a witness module)
        done = getattr(scr, "_modules_done", None)
        if done is None:
            done = scr._modules_done = set()
        key = (m["file"], hash(src))
        if key in done:
            continue
        done.add(key)
        with open(p, "a") as f:
            f.write("\n" + src)
        added += src.count("\n") + 1
    scr.overlay_added += added
    return added


class _Watchdog(threading.Thread):
    """kills cbmc processes of our process group that exceed the RSS cap"""

    def __init__(self, root_pid, cap_kb):
        super().__init__(daemon=True)
        self.root, self.cap, self.stop, self.killed = root_pid, cap_kb, False, []

    def run(self):
        while not self.stop:
            try:
                for pid in os.listdir("/proc"):
                    if not pid.isdigit():
                        continue
                    try:
                        st = open("/proc/%s/status" % pid).read()
                    except OSError:
                        continue
                    m = re.search(r"^Name:\s+(\S+)", st, re.M)
                    if not m or m.group(1) not in ("cbmc", "goto-instrument", "kissat", "cadical"):
                        continue
                    r = re.search(r"^VmRSS:\s+(\d+) kB", st, re.M)
                    if r and int(r.group(1)) > self.cap and self._is_descendant(pid):
                        os.kill(int(pid), signal.SIGKILL)
                        self.killed.append(int(pid))
            except Exception:
                pass
            time.sleep(2)

    def _is_descendant(self, pid):
        p = pid
        for _ in range(40):
            try:
                st = open("/proc/%s/status" % p).read()
            except OSError:
                return False
            pp = re.search(r"^PPid:\s+(\d+)", st, re.M).group(1)
            if int(pp) == self.root:
                return True
            if pp in ("0", "1"):
                return False
            p = pp
        return False


def run_kani(scr, crate, harnesses, jobs=None, mem_cap_gb=10, extra=()):
    """one `cargo kani` run over the named harnesses of one crate.
    returns dict name -> result dict(status, failed_checks, checks, covers_sat, covers_unsat, time)"""
    scr.ensure_kani_target()
    jobs = jobs or max(1, min(16, len(harnesses), int(48 // mem_cap_gb)))
    tmo = max(h.timeout for h in harnesses)
    outjson = os.path.join(scr.dir, "kani-%s.json" % crate)
    if os.path.exists(outjson):
        os.remove(outjson)
    cmd = ["cargo", "kani", "-p", crate, "--target-dir", scr.target,
           "-Z", "function-contracts", "-Z", "stubbing", "-Z", "unstable-options",
           "--harness-timeout", "%ds" % tmo, "--export-json", outjson,
           "--output-format", "terse", "-j", str(jobs)]
    for h in harnesses:
        cmd += ["--harness", h.name]
    cmd += list(extra)
    t0 = time.time()
    p = subprocess.Popen(cmd, cwd=scr.rust, env=ENV, stdout=subprocess.PIPE, stderr=subprocess.STDOUT, text=True,
                         start_new_session=True)
    wd = _Watchdog(p.pid, mem_cap_gb * 1024 * 1024)
    wd.start()
    try:
        out, _ = p.communicate(timeout=tmo * (1 + len(harnesses) // jobs) + 900)
    except subprocess.TimeoutExpired:
        os.killpg(p.pid, signal.SIGKILL)
        out, _ = p.communicate()
        out += "\n[driver] overall time-out\n"
    wd.stop = True
    wall = time.time() - t0
    open(os.path.join(scr.dir, "kani-%s.log" % crate), "w").write(out)
    # compile error?
    if re.search(r"^error(\[E\d+\])?:", out, re.M) and "Checking harness" not in out:
        raise Undecided("kani build of %s failed:\n%s" % (crate, _tail(out, 60)))
    res = {}
    # text blocks per thread
    cur = {}
    blocks = {}
    lines = out.splitlines()
    i = 0
    cur_single = None
    for ln in lines:
        m = re.match(r"(?:Thread (\d+): )?Checking harness (\S+?)\.\.\.", ln)
        if m:
            th = m.group(1) or "0"
            cur[th] = m.group(2)
            cur_single = th
            blocks.setdefault(m.group(2), [])
            continue
        m = re.match(r"Thread (\d+): ?(.*)", ln)
        if m and m.group(1) in cur:
            cur_single = m.group(1)
            blocks[cur[cur_single]].append(m.group(2))
            continue
        if cur_single is not None and cur_single in cur:
            blocks[cur[cur_single]].append(ln)
    js = {}
    if os.path.exists(outjson):
        try:
            js = json.load(open(outjson))
        except Exception:
            js = {}
    jerr = {e["harness_id"]: e for e in js.get("error_details", [])}
    jprop = {e["harness_id"]: e["property_details"] for e in js.get("property_details", [])}
    jcbmc = {e["harness_id"]: e for e in js.get("cbmc", [])}
    for h in harnesses:
        full = [k for k in set(list(blocks) + list(jerr)) if k.split("::")[-1] == h.name]
        if len(full) != 1:
            res[h.name] = dict(status="missing", detail="harness not found in kani output (%d matches)" % len(full),
                               failed_checks=[], checks=0)
            continue
        fq = full[0]
        txt = "\n".join(blocks.get(fq, []))
        failed = []
        for m in re.finditer(r"Failed Checks: (.*)\n\s*File: \"([^\"]+)\", line (\d+), in (\S+)", txt):
            failed.append(dict(desc=m.group(1), file=m.group(2), line=int(m.group(3)), fn=m.group(4)))
        for m in re.finditer(r"Failed Checks: (.*)\n(?!\s*File:)", txt):
            failed.append(dict(desc=m.group(1), file=None, line=None, fn=None))
        pd = jprop.get(fq, {})
        je = jerr.get(fq, {})
        st = "unknown"
        if "VERIFICATION:- SUCCESSFUL" in txt:
            st = "pass"
        elif "VERIFICATION:- FAILED" in txt:
            st = "fail"
        if re.search(r"timed out|TIMEOUT|CBMC timed out", txt, re.I) or je.get("error_type") in ("timeout",):
            st = "timeout"
        if st == "unknown":
            st = "error"
        unwinding = [f for f in failed if "unwinding assertion" in f["desc"]]
        if st == "fail" and unwinding:
            st = "unwind"       # bound too small: undecided, not a violation
        if st == "fail" and not failed:
            st = "error"        # e.g. cbmc crashed / killed
        tm = re.search(r"Verification Time: ([0-9.]+)s", txt)
        res[h.name] = dict(status=st, fq=fq, failed_checks=failed,
                           checks=pd.get("total_properties", 0), passed=pd.get("passed", 0),
                           undetermined=pd.get("undetermined", 0),
                           covers_sat=pd.get("satisfied", 0), covers_unsat=pd.get("unsatisfiable", 0),
                           time=float(tm.group(1)) if tm else None,
                           solver=(jcbmc.get(fq, {}).get("configuration", {}) or {}).get("solver"),
                           text=_tail(txt, 40) if st != "pass" else "")
        if st == "pass" and res[h.name]["covers_sat"] < 1:
            # try the text
            m = re.search(r"\*\* (\d+) of (\d+) cover properties satisfied", txt)
            if m:
                res[h.name]["covers_sat"] = int(m.group(1))
                res[h.name]["covers_unsat"] = int(m.group(2)) - int(m.group(1))
        if st == "pass" and not res[h.name]["checks"]:
            m = re.search(r"\*\* 0 of (\d+) failed", txt)
            if m:
                res[h.name]["checks"] = int(m.group(1))
    return res, wall, out


def kani_playback(scr, crate, harness_name):
    """re-run one failing harness with concrete playback; returns the generated unit test text or None"""
    cmd = ["cargo", "kani", "-p", crate, "--target-dir", scr.target,
           "-Z", "function-contracts", "-Z", "stubbing", "-Z", "unstable-options", "-Z", "concrete-playback",
           "--concrete-playback=print", "--harness-timeout", "600s", "--harness", harness_name]
    try:
        out = subprocess.run(cmd, cwd=scr.rust, env=ENV, stdout=subprocess.PIPE, stderr=subprocess.STDOUT, text=True,
                             timeout=900).stdout
    except subprocess.TimeoutExpired:
        return None
    blocks = re.findall(r"```\n(.*?)```", out, re.S)
    if not blocks:
        blocks = re.findall(r"(/// Test generated for harness.*?\n}\n)", out, re.S)
    keep = [b for b in blocks if not re.search(r"Check for `cover`", b)]
    if not keep:
        return None
    # de-duplicate by test name
    seen, outb = set(), []
    for b in keep:
        m = re.search(r"fn (kani_concrete_playback_\w+)", b)
        if m and m.group(1) not in seen:
            seen.add(m.group(1))
            outb.append(b)
    return "\n".join(outb[:4]) if outb else None


def run_native(scr, crate, names):
    """run #[test] functions of an overlaid harness module natively (outside the verifier) through
    `cargo kani playback` (which only supplies cfg(kani) and the kani crate); returns name -> (passed, output tail)"""
    scr.ensure_kani_target()
    out = {}
    for n in names:
        cmd = ["cargo", "kani", "playback", "-Z", "concrete-playback", "-p", crate, "--lib", "--", n]
        try:
            p = subprocess.run(cmd, cwd=scr.rust, env=dict(ENV, CARGO_TARGET_DIR=scr.target), stdout=subprocess.PIPE,
                               stderr=subprocess.STDOUT, text=True, timeout=1800)
        except subprocess.TimeoutExpired:
            out[n] = (None, "time-out")
            continue
        m = re.search(r"test result: (\w+)\. (\d+) passed; (\d+) failed", p.stdout)
        if not m or (int(m.group(2)) + int(m.group(3)) == 0):
            out[n] = (None, _tail(p.stdout, 30))
        else:
            out[n] = (m.group(1) == "ok", _tail(p.stdout, 40))
    return out


def _tail(s, n):
    return "\n".join(s.splitlines()[-n:])


# ---------------------------------------------------------------------------
# Verus back end
# ---------------------------------------------------------------------------

class Extractor:
    """handed to a verus unit's build(); every operation is logged"""

    def __init__(self, scr):
        self.scr = scr
        self.log = []          # (rule, detail)
        self.sources = {}
        self.functions = []    # names of real functions under contract

    def src(self, rel):
        if rel not in self.sources:
            p = self.scr.path(rel)
            if not os.path.exists(p):
                raise Undecided("lost anchor: %s does not exist" % rel)
            try:
                self.sources[rel] = rsx.Source(p)
            except rsx.RsxError as e:
                raise Undecided("scanner: %s: %s" % (rel, e))
        return self.sources[rel]

    def item_text(self, rel, selector, attrs=False):
        s = self.src(rel)
        try:
            it = s.find(selector)
        except rsx.RsxError as e:
            raise Undecided("lost anchor: %s" % e)
        if it.attrs and not attrs:
            self.note("R1", "dropped attributes of %s :: %s: %s" % (rel, selector, " ".join(rsx.norm(a)[:60] for a in it.attrs)))
        self.note("copy", "%s :: %s (%d bytes, sha1 %s)" % (rel, selector, it.b - it.a,
                                                             hashlib.sha1(s.text[it.a:it.b].encode()).hexdigest()[:10]))
        return s.text[it.a:it.b]

    def fn(self, rel, selector, under_contract=True):
        t = self.item_text(rel, selector)
        try:
            f = rsx.FnText(t)
        except rsx.RsxError as e:
            raise Undecided("scanner: %s :: %s: %s" % (rel, selector, e))
        f.origin = "%s :: %s" % (rel, selector)
        if under_contract:
            self.functions.append(f.origin)
        return _LoggedFn(f, self)

    def note(self, rule, detail):
        self.log.append((rule, detail))

    def prelude(self, name):
        return open(os.path.join(VERIF, "contracts", "verus", "prelude", name)).read()


class _LoggedFn:
    """FnText wrapper: turns scanner errors into Undecided and logs rewrites"""

    def __init__(self, f, x):
        self.f, self.x = f, x

    def __getattr__(self, k):
        a = getattr(self.f, k)
        if not callable(a):
            return a

        def w(*args, **kw):
            rule_kw = kw.pop("rule", None)
            try:
                r = a(*args, **kw)
            except rsx.RsxError as e:
                raise Undecided("extractor: %s: %s(%s): %s" % (self.f.origin, k, ", ".join(repr(z)[:50] for z in args), e))
            if k in ("rewrite", "strip_macro_stmts", "strip_cfg_blocks", "desugar_for", "index_for", "replace_macro_calls", "rewrite_casts"):
                rule = {"strip_macro_stmts": "R7", "strip_cfg_blocks": "R8", "desugar_for": "R9", "index_for": "R9-index", "replace_macro_calls": "R-format", "rewrite_casts": "R-cast"}.get(k, rule_kw or "rewrite")
                self.x.note(rule, "%s: %s%r fired %s" % (self.f.origin, k, tuple(str(z)[:60] for z in args), r))
            return r
        return w

    @property
    def text(self):
        return self.f.text


class VerusUnit:
    def __init__(self, name, module, tier="quick", rlimit=30, carries=None, paired_kani=None, kind="unbounded", clauses=None):
        self.name = name
        self.module = module        # contracts/verus/<module>.py
        self.tier = tier
        self.rlimit = rlimit
        self.backend = "verus"
        self.paired_kani = paired_kani
        self.kind = kind
        self.clauses = clauses      # regex: only failing clauses whose text matches belong to the property that registers the unit this way


VERIF_ERRS = [
    "postcondition not satisfied", "precondition not satisfied", "invariant not satisfied",
    "assertion failed", "possible arithmetic underflow/overflow", "possible division by zero",
    "decreases not satisfied", "possible bit shift underflow/overflow", "loop invariant not satisfied",
    "assertion not satisfied", "unreachable", "constructed value may fail to meet its declared type invariant",
    "could not prove termination", "failed precondition", "failed this postcondition",
    "precondition not met",      # e.g. "precondition not met: index in bounds for this access"
    "unable to prove post-condition of closure",   # a closure annotated (R-closure) with the value it must return
]


def load_verus_module(name):
    p = os.path.join(VERIF, "contracts", "verus", name + ".py")
    spec = importlib.util.spec_from_file_location("vunit_" + name, p)
    m = importlib.util.module_from_spec(spec)
    spec.loader.exec_module(m)
    return m


def scan_assumptions(text):
    out = []
    pats = [("assume", r"\bassume\s*\("), ("admit", r"\badmit\s*\("), ("external_body", r"external_body"),
            ("assume_specification", r"assume_specification"), ("axiom", r"\baxiom\s+fn\s+(\w+)"),
            ("uninterp", r"uninterp\s+spec\s+fn\s+(\w+)"), ("external_type_specification", r"external_type_specification"),
            ("exec_allows_no_decreases_clause", r"exec_allows_no_decreases_clause")]
    for name, p in pats:
        hits = re.findall(p, text)
        if hits:
            names = sorted(set(h for h in hits if isinstance(h, str) and h))
            if name == "external_body":
                # name the opaque items: functions with an ASSUMED contract (those with an `ensures`/`requires`), functions without one, opaque types
                fns_c, fns_n, types = set(), set(), set()
                for m in re.finditer(r"external_body\]\s*(?:#\[[^\]]*\]\s*)*(?:pub(?:\([a-z]+\))?\s+)?(?:(?:proof|exec)\s+)?(fn|struct)\s+(\w+)([^{;]*)", text):
                    kind, nm, sig = m.groups()
                    if kind == "struct":
                        types.add(nm)
                    elif re.search(r"\b(ensures|requires)\b", sig):
                        fns_c.add(nm)
                    else:
                        fns_n.add(nm)
                out.append("external_body x%d: assumed contracts on %s | opaque functions without a contract: %s | opaque types: %s" % (
                    len(hits), ", ".join(sorted(fns_c)[:60]) or "-", ", ".join(sorted(fns_n)[:40]) or "-", ", ".join(sorted(types)[:40]) or "-"))
                continue
            if name == "assume_specification":
                names = sorted(set(re.findall(r"assume_specification(?:<[^\[]*>)?\s*\[\s*([^\]]+?)\s*\]", text)))
            out.append("%s x%d%s" % (name, len(hits), (": " + ", ".join(names[:40])) if names else ""))
    return out


def run_verus(scr, unit, seed=0):
    mod = load_verus_module(unit.module)
    x = Extractor(scr)
    # the prelude keeps a per-unit registry (field-typing axioms for the broadcast group); a build that was abandoned half-way
    # (lost anchor) must not leak its entries into the next unit of the same run
    import prelude as _prelude
    del _prelude._field_axioms[:]
    text = mod.build(x)
    path = os.path.join(scr.dir, "%s.rs" % unit.name)
    open(path, "w").write(text)
    must_fail = list(getattr(mod, "MUST_FAIL", []))
    expected = list(getattr(mod, "OBLIGATIONS", []))
    t0 = time.time()
    cmd = ["verus", path, "--output-json", "--time", "--rlimit", str(unit.rlimit), "--multiple-errors", "5",
           "--no-report-long-running"]
    if seed:
        cmd += ["--smt-option", "smt.random_seed=%d" % (seed % 1000)]
    try:
        p = subprocess.run(cmd, cwd=scr.dir, stdout=subprocess.PIPE, stderr=subprocess.PIPE, text=True,
                           timeout=max(300, unit.rlimit * 40))
    except subprocess.TimeoutExpired:
        raise Undecided("verus timed out on unit %s" % unit.name)
    wall = time.time() - t0
    try:
        js = json.loads(p.stdout[p.stdout.index("{"):])
    except Exception:
        raise Undecided("verus produced no JSON for unit %s:\n%s" % (unit.name, _tail(p.stderr, 40)))
    vr = js.get("verification-results", {})
    if "panicked at" in p.stderr and "rust_verify" in p.stderr:
        raise Undecided("verus crashed on unit %s (tool limit, not a verification failure):\n%s" % (unit.name, _tail(p.stderr[:3000], 12)))
    if vr.get("encountered-vir-error") or ("verified" not in vr):
        raise Undecided("verus rejected unit %s (not a verification failure):\n%s" % (unit.name, _tail(p.stderr, 60)))
    funcs = {}
    for m in js.get("times-ms", {}).get("smt", {}).get("smt-run-module-times", []):
        for f in m.get("function-breakdown", []):
            nm = f["function"].split("::", 1)[-1]
            funcs[nm] = dict(ok=f["success"], us=f.get("time-micros", 0), rlimit=f.get("rlimit", 0), mode=f.get("mode:", ""))
    # error blocks from stderr
    errs = []
    for blk in re.split(r"\n(?=error)", p.stderr):
        m = re.match(r"error(?:\[\w+\])?: (.*)", blk)
        if not m or m.group(1).startswith("aborting due to"):
            continue
        loc = re.search(r"--> [^:\n]+:(\d+):(\d+)", blk)
        errs.append(dict(msg=m.group(1), line=int(loc.group(1)) if loc else None, text=blk.strip()[:1500]))
    lines = text.splitlines()
    # map error line -> enclosing fn (nearest preceding `fn name` at line start-ish)
    def enclosing(line):
        for i in range(min(line, len(lines)) - 1, -1, -1):
            m = re.match(r"(\s*)(?:#\[[^\]]*\]\s*)*(?:pub(?:\([a-z]+\))?\s+)?(?:open\s+|closed\s+)?(?:broadcast\s+)?(?:proof\s+|exec\s+|spec\s+)?(?:axiom\s+)?fn\s+(\w+)", lines[i])
            if m:
                name = m.group(2)
                # method? look for an enclosing impl header (stop at the end of a previous top-level item)
                for j in range(i - 1, -1, -1):
                    mi = re.match(r"impl(?:<[^>]*>)?\s+(?:[\w:<>, ()&']+\s+for\s+)?(\w+)", lines[j])
                    if mi:
                        return mi.group(1) + "::" + name
                    if lines[j].startswith("}"):
                        break
                return name
        return "?"
    def fn_start_and_mode(line):
        for i in range(min(line, len(lines)) - 1, -1, -1):
            m = re.match(r"(\s*)(?:#\[[^\]]*\]\s*)*(?:pub(?:\([a-z]+\))?\s+)?(?:open\s+|closed\s+)?(?:broadcast\s+)?(proof\s+|exec\s+|spec\s+)?(?:axiom\s+)?fn\s+(\w+)", lines[i])
            if m:
                return i, (m.group(2) or "exec").strip()
        return 0, "exec"

    def in_proof_block(line):
        """is the given (1-based) line inside a `proof { .. }` block of an exec function?  (brace walk from the function header; comments and strings are skipped approximately)"""
        start, mode = fn_start_and_mode(line)
        if mode != "exec":
            return False
        stack = []
        for i in range(start, min(line, len(lines))):
            txt = re.sub(r'"(?:[^"\\]|\\.)*"', '""', lines[i].split("//")[0])
            last = line - 1
            for mm in re.finditer(r"\bproof\s*\{|\{|\}", txt):
                tok = mm.group(0)
                if tok == "}":
                    if stack:
                        stack.pop()
                else:
                    stack.append(tok.startswith("proof"))
                if i == last and mm.end() > 0 and False:
                    break
            if i == last:
                break
        # the error points at the assert: it is a hint if some enclosing opener (before this line's own tokens are fully consumed) is a proof block
        # recompute the stack up to the START of the error line, then account for a `proof {` opened on the error line itself before the assert
        stack2 = []
        for i in range(start, min(line - 1, len(lines))):
            txt = re.sub(r'"(?:[^"\\]|\\.)*"', '""', lines[i].split("//")[0])
            for mm in re.finditer(r"\bproof\s*\{|\{|\}", txt):
                tok = mm.group(0)
                if tok == "}":
                    if stack2:
                        stack2.pop()
                else:
                    stack2.append(tok.startswith("proof"))
        if any(stack2):
            return True
        cur = lines[line - 1] if 0 < line <= len(lines) else ""
        pos = cur.find("assert")
        return bool(re.search(r"\bproof\s*\{", cur[:pos if pos >= 0 else len(cur)]))

    for e in errs:
        e["fn"] = enclosing(e["line"]) if e["line"] else "?"
        # an `assert` that fails inside a proof block inserted into an extracted (exec) function is a PROOF HINT of /verif, not a contract clause:
        # its failure means the proof script no longer fits the code (undecided), unless a contract clause of the same function fails too
        e["hint"] = bool(e["line"]) and e["msg"].startswith("assertion failed") and in_proof_block(e["line"]) \
            and "verif:obligation" not in (lines[e["line"] - 1] if 0 < e["line"] <= len(lines) else "")
    nonverif = [e for e in errs if not any(k in e["msg"] or k in e["text"] for k in VERIF_ERRS) and "rlimit" not in e["msg"].lower()]
    rlim = [e for e in errs if "rlimit" in e["msg"].lower() or "resource limit" in e["msg"].lower()]
    return dict(unit=unit, text=text, path=path, funcs=funcs, errs=errs, nonverif=nonverif, rlimit_errs=rlim,
                must_fail=must_fail, expected=expected, verified=vr.get("verified", 0), errors=vr.get("errors", 0),
                wall=wall, extraction=x.log, functions=x.functions, assumptions=scan_assumptions(text),
                smt_ms=js.get("times-ms", {}).get("smt", {}).get("smt-run", 0), stderr=p.stderr)


# ---------------------------------------------------------------------------
# findings
# ---------------------------------------------------------------------------

def load_findings():
    p = os.path.join(VERIF, "known_findings.json")
    if not os.path.exists(p):
        return []
    return json.load(open(p)).get("findings", [])


def match_finding(findings, pid, obligation, desc, where_text):
    for f in findings:
        if f.get("status") != "known" or f.get("property") != pid:
            continue
        if f.get("obligation") != obligation:
            continue
        if f.get("check") and f["check"] not in (desc or ""):
            continue
        wh = f.get("where")
        if wh:
            whs = wh if isinstance(wh, list) else [wh]
            if not all(rsx.norm(w) in rsx.norm(where_text or "") for w in whs):
                continue
        return f
    return None
