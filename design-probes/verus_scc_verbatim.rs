use vstd::prelude::*;
use std::collections::HashSet;
verus! {
#[derive(Copy, Clone, PartialEq, Eq, Hash, Debug)]
pub struct VertexId(pub usize);
#[derive(Copy, Clone, PartialEq, Eq, Hash, Debug)]
pub struct EdgeId(pub usize);
pub enum NetworkError { E }
#[verifier::external_body] pub struct Graph { x: usize }
impl Graph {
    #[verifier::external_body] pub fn out_edges(&self, v: &VertexId) -> Vec<EdgeId> { unimplemented!() }
    #[verifier::external_body] pub fn in_edges(&self, v: &VertexId) -> Vec<EdgeId> { unimplemented!() }
    #[verifier::external_body] pub fn dst_vertex_id(&self, e: &EdgeId) -> Result<VertexId, NetworkError> { unimplemented!() }
    #[verifier::external_body] pub fn src_vertex_id(&self, e: &EdgeId) -> Result<VertexId, NetworkError> { unimplemented!() }
    #[verifier::external_body] pub fn vertex_ids(&self) -> Vec<VertexId> { unimplemented!() }
}
#[verifier::exec_allows_no_decreases_clause]
pub fn depth_first_search(
    graph: &Graph,
    vertex: &VertexId,
    visited: &mut HashSet<VertexId>,
    stack: &mut Vec<VertexId>,
) -> Result<(), NetworkError> {
    if visited.contains(vertex) {
        return Ok(());
    }

    visited.insert(*vertex);

    let edges = graph.out_edges(vertex);
    for edge in edges {
        let dst = graph.dst_vertex_id(&edge)?;
        depth_first_search(graph, &dst, visited, stack)?;
    }

    stack.push(*vertex);

    Ok(())
}

#[verifier::exec_allows_no_decreases_clause]
pub fn reverse_depth_first_search(
    graph: &Graph,
    vertex: &VertexId,
    visited: &mut HashSet<VertexId>,
    stack: &mut Vec<VertexId>,
) -> Result<(), NetworkError> {
    if visited.contains(vertex) {
        return Ok(());
    }

    visited.insert(*vertex);

    let edges = graph.in_edges(vertex);
    for edge in edges {
        let src = graph.src_vertex_id(&edge)?;
        reverse_depth_first_search(graph, &src, visited, stack)?;
    }

    stack.push(*vertex);

    Ok(())
}

#[verifier::exec_allows_no_decreases_clause]
pub fn all_strongly_connected_componenets(
    graph: &Graph,
) -> Result<Vec<Vec<VertexId>>, NetworkError> {
    let mut visited: HashSet<VertexId> = HashSet::new();
    let mut container: Vec<VertexId> = Vec::new();
    let mut result: Vec<Vec<VertexId>> = Vec::new();

    for vertex_id in graph.vertex_ids() {
        depth_first_search(graph, &vertex_id, &mut visited, &mut container)?;
    }

    visited.clear();

    while let Some(vertex_id) = container.pop() {
        if visited.contains(&vertex_id) {
            continue;
        }

        let mut component: Vec<VertexId> = Vec::new();
        reverse_depth_first_search(graph, &vertex_id, &mut visited, &mut component)?;
        result.push(component);
    }

    Ok(result)
}

#[verifier::exec_allows_no_decreases_clause]
pub fn largest_strongly_connected_component(graph: &Graph) -> Result<Vec<VertexId>, NetworkError> {
    let components = all_strongly_connected_componenets(graph)?;

    let mut largest_component: Vec<VertexId> = Vec::new();

    for component in components {
        if component.len() > largest_component.len() {
            largest_component = component;
        }
    }

    Ok(largest_component)
}
} // verus!
fn main() {}
