use vstd::prelude::*;
use std::collections::{HashMap, HashSet};
verus! {

#[derive(Copy, Clone, PartialEq, Eq, Hash, Debug)]
pub struct VertexId(pub usize);
#[derive(Copy, Clone, PartialEq, Eq, Hash, Debug)]
pub struct EdgeId(pub usize);

#[derive(Clone, Debug)]
pub struct EdgeTraversal {
    pub edge_id: EdgeId,
    pub result_state: Vec<u64>,
}
#[derive(Clone, Debug)]
pub struct SearchTreeBranch {
    pub terminal_vertex: VertexId,
    pub edge_traversal: EdgeTraversal,
}
pub enum SearchError { InternalError(String) }

#[verifier::exec_allows_no_decreases_clause]
pub fn vertex_oriented_route(
    source_id: VertexId,
    target_id: VertexId,
    solution: &HashMap<VertexId, SearchTreeBranch>,
) -> Result<Vec<EdgeTraversal>, SearchError> {
    let mut result: Vec<EdgeTraversal> = vec![];
    let mut visited: HashSet<EdgeId> = HashSet::new();
    let mut this_vertex = target_id;
    loop {
        if this_vertex == source_id {
            break;
        }
        let traversal = solution
            .get(&this_vertex)
            .ok_or(SearchError::InternalError(format!(
                "resulting tree missing vertex {} expected via backtrack",
                this_vertex
            )))?;
        let first_visit = visited.insert(traversal.edge_traversal.edge_id);
        if !first_visit {
            return Err(SearchError::InternalError(format!(
                "loop in search result, edge {} visited more than once",
                traversal.edge_traversal.edge_id
            )));
        }
        result.push(traversal.edge_traversal.clone());
        this_vertex = traversal.terminal_vertex;
    }
    let reversed = result.into_iter().rev().collect();
    Ok(reversed)
}

} // verus!
impl std::fmt::Display for VertexId { fn fmt(&self, f: &mut std::fmt::Formatter<'_>) -> std::fmt::Result { write!(f, "{}", self.0) } }
impl std::fmt::Display for EdgeId { fn fmt(&self, f: &mut std::fmt::Formatter<'_>) -> std::fmt::Result { write!(f, "{}", self.0) } }

fn main() {}
