use vstd::prelude::*;
verus! {

#[derive(Copy, Clone)]
pub struct Cost(pub f64);
pub uninterp spec fn f64_real(x: f64) -> real;
impl Cost {
    pub open spec fn view(self) -> real { f64_real(self.0) }
    pub const ZERO: Cost = Cost(0.0);
    pub const MIN_COST: Cost = Cost(0.0000000001);
}
pub broadcast axiom fn lit_zero() ensures #[trigger] f64_real(0.0f64) == 0real;

impl core::ops::Add for Cost {
    type Output = Cost;
    #[verifier::external_body]
    fn add(self, rhs: Cost) -> (r: Cost)
        ensures r@ == self@ + rhs@
    { Cost(self.0 + rhs.0) }
}
impl core::cmp::PartialEq for Cost {
    #[verifier::external_body]
    fn eq(&self, other: &Cost) -> (r: bool)
        ensures r == (self@ == other@)
    { self.0 == other.0 }
}
impl core::cmp::PartialOrd for Cost {
    #[verifier::external_body]
    fn partial_cmp(&self, other: &Cost) -> (r: Option<core::cmp::Ordering>)
    { self.0.partial_cmp(&other.0) }
    #[verifier::external_body]
    fn le(&self, other: &Cost) -> (r: bool)
        ensures r == (self@ <= other@)
    { self.0 <= other.0 }
}

impl Cost {
    /// helper to enforce costs that are strictly positive
    pub fn enforce_strictly_positive(cost: Cost) -> (r: Cost)
        ensures r@ > 0real,
    {
        if cost <= Cost::ZERO {
            Cost::MIN_COST
        } else {
            cost
        }
    }
}

} // verus!
fn main() {}
