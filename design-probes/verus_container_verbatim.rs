use vstd::prelude::*;
use std::collections::HashMap;
use std::hash::Hash;
verus! {

#[derive(Clone, Debug)]
pub struct IndexedEntry<V> {
    pub v: V,
    pub index: usize,
}

impl<V> IndexedEntry<V> {
    pub fn new(v: V, index: usize) -> (r: IndexedEntry<V>)
        ensures r.v == v, r.index == index
    {
        IndexedEntry { v, index }
    }
}

#[derive(Clone, Debug)]
pub enum CompactOrderedHashMap<K: Hash + Ord + PartialEq + Clone, V> {
    OneEntry {
        k1: K,
        v1: V,
    },
    TwoEntries {
        k1: K,
        k2: K,
        v1: V,
        v2: V,
    },
    NEntries(HashMap<K, IndexedEntry<V>>),
}

impl<K: Hash + Ord + PartialEq + Clone, V: Clone> CompactOrderedHashMap<K, V> {
    pub fn len(&self) -> usize {
        match self {
            CompactOrderedHashMap::OneEntry { .. } => 1,
            CompactOrderedHashMap::TwoEntries { .. } => 2,
            CompactOrderedHashMap::NEntries(f) => f.len(),
        }
    }
    pub fn is_empty(&self) -> bool {
        self.len() == 0
    }

    pub fn get_index(&self, k: &K) -> Option<usize> {
        match self {
            CompactOrderedHashMap::OneEntry { k1, .. } => {
                if k == k1 {
                    Some(0)
                } else {
                    None
                }
            }
            CompactOrderedHashMap::TwoEntries { k1, k2, .. } => {
                if k == k1 {
                    Some(0)
                } else if k == k2 {
                    Some(1)
                } else {
                    None
                }
            }
            CompactOrderedHashMap::NEntries(indexed) => indexed.get(k).map(|f| f.index),
        }
    }

    pub fn insert(&mut self, k: K, v: V) -> Option<V> {
        let mut v_insert = v.clone();
        match self {
            CompactOrderedHashMap::NEntries(_) if self.is_empty() => {
                let mut one = CompactOrderedHashMap::OneEntry { k1: k, v1: v };
                std::mem::swap(self, &mut one);
                None
            }
            CompactOrderedHashMap::OneEntry { k1, v1 } => {
                if k1 == &k {
                    let out = v1.clone();
                    std::mem::swap(v1, &mut v_insert);
                    Some(out)
                } else {
                    let mut two = CompactOrderedHashMap::TwoEntries::<K, V> {
                        k1: k1.clone(),
                        k2: k,
                        v1: v1.clone(),
                        v2: v_insert,
                    };
                    std::mem::swap(self, &mut two);
                    None
                }
            }
            CompactOrderedHashMap::TwoEntries { k1, k2, v1, v2 } => {
                if k1 == &k {
                    let out = v1.clone();
                    std::mem::swap(v1, &mut v_insert);
                    Some(out)
                } else if k2 == &k {
                    let out = v2.clone();
                    std::mem::swap(v2, &mut v_insert);
                    Some(out)
                } else {
                    let five: HashMap<K, IndexedEntry<V>> = HashMap::from([
                        (k1.clone(), IndexedEntry::new(v1.clone(), 0)),
                        (k2.clone(), IndexedEntry::new(v2.clone(), 1)),
                        (k, IndexedEntry::new(v, 2)),
                    ]);

                    std::mem::swap(self, &mut CompactOrderedHashMap::NEntries(five));
                    None
                }
            }
            CompactOrderedHashMap::NEntries(map) => {
                let index = map.get(&k).map(|e| e.index).unwrap_or(map.len() + 1);
                let result = map.insert(k, IndexedEntry::new(v, index));
                result.map(|r| r.v)
            }
        }
    }
}

} // verus!
fn main() {}
