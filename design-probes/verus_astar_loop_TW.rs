
use vstd::prelude::*;
use std::collections::HashMap;
use std::time::Instant;
verus! {
#[verifier::external_type_specification]
#[verifier::external_body]
pub struct ExInstant(std::time::Instant);
pub assume_specification [ std::time::Instant::now ]() -> std::time::Instant;
pub assume_specification<T, U, F: FnOnce(T) -> U> [ Option::<T>::map_or ](o: Option<T>, default: U, f: F) -> (r: U);
pub assume_specification<T: Clone> [ <T as std::borrow::ToOwned>::to_owned ](c: &T) -> (r: T);

#[derive(Copy, Clone, PartialEq, Eq, Hash, Debug)]
pub struct VertexId(pub usize);
#[derive(Copy, Clone, PartialEq, Eq, Hash, Debug)]
pub struct EdgeId(pub usize);

#[derive(Copy, Clone)]
pub struct Cost(pub f64);
impl Cost {
    pub const ZERO: Cost = Cost(0.0);
    pub const ONE: Cost = Cost(1.0);
    pub const INFINITY: Cost = Cost(1.0e308);
    #[verifier::external_body]
    pub fn new(v: f64) -> Cost { Cost(v) }
    #[verifier::external_body]
    pub fn as_f64(&self) -> f64 { self.0 }
}
impl core::ops::Add for Cost { type Output = Cost;
    #[verifier::external_body] fn add(self, rhs: Cost) -> Cost { Cost(self.0 + rhs.0) } }
impl core::cmp::PartialEq for Cost { #[verifier::external_body] fn eq(&self, o: &Cost) -> bool { self.0 == o.0 } }
impl core::cmp::PartialOrd for Cost {
    #[verifier::external_body] fn partial_cmp(&self, o: &Cost) -> Option<core::cmp::Ordering> { self.0.partial_cmp(&o.0) }
    #[verifier::external_body] fn lt(&self, o: &Cost) -> bool { self.0 < o.0 } }
pub struct ReverseCost(pub Cost);
impl From<Cost> for ReverseCost { #[verifier::external_body] fn from(c: Cost) -> Self { ReverseCost(c) } }

pub struct Edge { pub edge_id: EdgeId, pub src_vertex_id: VertexId, pub dst_vertex_id: VertexId }
pub uninterp spec fn edge_of(g: Graph, id: EdgeId) -> Edge;
pub open spec fn key_spec(d: Direction, e: Edge) -> VertexId { match d { Direction::Forward => e.dst_vertex_id, Direction::Reverse => e.src_vertex_id } }
pub open spec fn term_spec(d: Direction, e: Edge) -> VertexId { match d { Direction::Forward => e.src_vertex_id, Direction::Reverse => e.dst_vertex_id } }
pub open spec fn tw(g: Graph, d: Direction, t: Map<VertexId, SearchTreeBranch>) -> bool {
    forall|k: VertexId| #[trigger] t.contains_key(k) ==> {
        let b = t[k];
        let e = edge_of(g, b.edge_traversal.edge_id);
        key_spec(d, e) == k && term_spec(d, e) == b.terminal_vertex
    }
}
#[verifier::external_body]
pub proof fn vid_key_model() ensures vstd::std_specs::hash::obeys_key_model::<VertexId>() {}

pub struct StateVar(pub f64);
impl Clone for StateVar { #[verifier::external_body] fn clone(&self) -> Self { StateVar(self.0) } }
pub struct EdgeTraversal { pub edge_id: EdgeId, pub access_cost: Cost, pub traversal_cost: Cost, pub result_state: Vec<StateVar> }
impl EdgeTraversal { #[verifier::external_body] pub fn total_cost(&self) -> Cost { Cost(self.access_cost.0 + self.traversal_cost.0) } }
pub struct SearchTreeBranch { pub terminal_vertex: VertexId, pub edge_traversal: EdgeTraversal }
pub enum SearchError { InternalError(String), NoPathExistsBetweenVertices(VertexId, VertexId), Other }
pub struct SearchResult { pub tree: HashMap<VertexId, SearchTreeBranch>, pub iterations: u64 }
impl SearchResult {
    pub fn new(tree: HashMap<VertexId, SearchTreeBranch>, iterations: u64) -> (r: SearchResult) ensures r.tree == tree, r.iterations == iterations { SearchResult { tree, iterations } }
    #[verifier::external_body] pub fn default() -> (r: SearchResult) ensures r.tree@ == Map::<VertexId, SearchTreeBranch>::empty() { SearchResult { tree: HashMap::new(), iterations: 0 } }
}
#[verifier::external_body]
#[verifier::reject_recursive_types(I)]
#[verifier::reject_recursive_types(P)]
pub struct InternalPriorityQueue<I, P> { i: core::marker::PhantomData<(I,P)> }
impl InternalPriorityQueue<VertexId, ReverseCost> {
    #[verifier::external_body] pub fn default() -> Self { unimplemented!() }
    #[verifier::external_body] pub fn push(&mut self, v: VertexId, c: ReverseCost) -> Option<ReverseCost> { unimplemented!() }
    #[verifier::external_body] pub fn push_increase(&mut self, v: VertexId, c: ReverseCost) -> Option<ReverseCost> { unimplemented!() }
    #[verifier::external_body] pub fn pop(&mut self) -> Option<(VertexId, ReverseCost)> { unimplemented!() }
}
#[verifier::external_body] pub struct Graph { x: usize }
impl Graph { #[verifier::external_body] pub fn get_edge(&self, e: &EdgeId) -> (r: Result<&Edge, SearchError>) ensures r matches Ok(x) ==> *x == edge_of(*self, *e) { unimplemented!() } }
#[verifier::external_body] pub struct StateModel { x: usize }
impl StateModel { #[verifier::external_body] pub fn initial_state(&self) -> Result<Vec<StateVar>, SearchError> { unimplemented!() } }
#[verifier::external_body] pub struct TerminationModel { x: usize }
impl TerminationModel { #[verifier::external_body] pub fn test(&self, t: &Instant, n: usize, it: u64) -> Result<(), SearchError> { unimplemented!() } }
#[verifier::external_body] pub struct FrontierModel { x: usize }
impl FrontierModel { #[verifier::external_body] pub fn valid_frontier(&self, e: &Edge, s: &Vec<StateVar>, last: Option<&Edge>, sm: &StateModel) -> Result<bool, SearchError> { unimplemented!() } }
pub struct SearchInstance { pub directed_graph: Graph, pub state_model: StateModel, pub termination_model: TerminationModel, pub frontier_model: FrontierModel }
impl SearchInstance { #[verifier::external_body] pub fn estimate_traversal_cost(&self, s: VertexId, d: VertexId, st: &Vec<StateVar>) -> Result<Cost, SearchError> { unimplemented!() } }
pub enum Direction { Forward, Reverse }
impl Direction {
    #[verifier::external_body] pub fn get_incident_edges<'a>(&'a self, v: &VertexId, si: &'a SearchInstance) -> Vec<&'a EdgeId> { unimplemented!() }
    pub fn tree_key_vertex_id(&self, edge: &Edge) -> (r: VertexId) ensures r == key_spec(*self, *edge) {
        match self {
            Direction::Forward => edge.dst_vertex_id,
            Direction::Reverse => edge.src_vertex_id,
        }
    }
    pub fn terminal_vertex_id(&self, edge: &Edge) -> (r: VertexId) ensures r == term_spec(*self, *edge) {
        match self {
            Direction::Forward => edge.src_vertex_id,
            Direction::Reverse => edge.dst_vertex_id,
        }
    }
    #[verifier::external_body] pub fn perform_edge_traversal(&self, e: EdgeId, last: Option<EdgeId>, st: &Vec<StateVar>, si: &SearchInstance) -> (r: Result<EdgeTraversal, SearchError>) ensures r matches Ok(et) ==> et.edge_id == e { unimplemented!() }
}

#[verifier::exec_allows_no_decreases_clause]
pub fn run_a_star(
    source: VertexId,
    target: Option<VertexId>,
    direction: &Direction,
    weight_factor: Option<Cost>,
    si: &SearchInstance,
) -> (res: Result<SearchResult, SearchError>)
    ensures res matches Ok(r) ==> tw(si.directed_graph, *direction, r.tree@),
{
    proof { vid_key_model(); }
    if target.map_or(false, |t| t == source) {
        return Ok(SearchResult::default());
    }

    // context for the search (graph, search functions, frontier priority queue)
    let mut costs: InternalPriorityQueue<VertexId, ReverseCost> = InternalPriorityQueue::default();
    let mut traversal_costs: HashMap<VertexId, Cost> = HashMap::new();
    let mut solution: HashMap<VertexId, SearchTreeBranch> = HashMap::new();

    // setup initial search state
    traversal_costs.insert(source, Cost::ZERO);
    let initial_state = si.state_model.initial_state()?;
    let origin_cost = match target {
        None => Cost::ZERO,
        Some(target) => {
            let cost_est = si.estimate_traversal_cost(source, target, &initial_state)?;
            Cost::new(cost_est.as_f64() * weight_factor.unwrap_or(Cost::ONE).as_f64())
        }
    };
    costs.push(source, origin_cost.into());

    let start_time = Instant::now();
    let mut iterations = 0;

    loop
        invariant tw(si.directed_graph, *direction, solution@), vstd::std_specs::hash::obeys_key_model::<VertexId>(),
    {
        si.termination_model
            .test(&start_time, solution.len(), iterations)?;

        let current_vertex_id = match advance_search(&mut costs, source, target)? {
            None => break,
            Some(id) => id,
        };

        let last_edge_id = get_last_traversed_edge_id(&current_vertex_id, &source, &solution)?;
        let last_edge = match last_edge_id {
            Some(id) => Some(si.directed_graph.get_edge(&id)?),
            None => None,
        };

        // grab the current state from the solution
        let current_state = if current_vertex_id == source {
            initial_state.clone()
        } else {
            solution
                .get(&current_vertex_id)
                .ok_or_else(|| {
                    SearchError::InternalError(format!(
                        "expected vertex id {} missing from solution",
                        current_vertex_id
                    ))
                })?
                .edge_traversal
                .result_state
                .clone()
        };

        // visit all neighbors of this source vertex
        let incident_edge_iterator = direction.get_incident_edges(&current_vertex_id, si);
        let mut __it = incident_edge_iterator.into_iter();
        loop
            invariant tw(si.directed_graph, *direction, solution@), vstd::std_specs::hash::obeys_key_model::<VertexId>(),
        {
            let edge_id = match __it.next() { Some(__x) => __x, None => break };

            let e = si.directed_graph.get_edge(edge_id)?;

            let terminal_vertex_id = direction.terminal_vertex_id(e);
            let key_vertex_id = direction.tree_key_vertex_id(e);

            let valid_frontier =
                si.frontier_model
                    .valid_frontier(e, &current_state, last_edge, &si.state_model)?;
            if !valid_frontier {
                continue;
            }
            let et =
                direction.perform_edge_traversal(*edge_id, last_edge_id, &current_state, si)?;
            let current_gscore = traversal_costs
                .get(&terminal_vertex_id)
                .unwrap_or(&Cost::INFINITY)
                .to_owned();
            let tentative_gscore = current_gscore + et.total_cost();
            let existing_gscore = traversal_costs
                .get(&key_vertex_id)
                .unwrap_or(&Cost::INFINITY)
                .to_owned();
            if tentative_gscore < existing_gscore {
                traversal_costs.insert(key_vertex_id, tentative_gscore);

                // update solution
                let traversal = SearchTreeBranch {
                    terminal_vertex: terminal_vertex_id,
                    edge_traversal: et,
                };
                solution.insert(key_vertex_id, traversal);

                let dst_h_cost = match target {
                    None => Cost::ZERO,
                    Some(target_v) => {
                        let cost_est =
                            si.estimate_traversal_cost(key_vertex_id, target_v, &current_state)?;
                        Cost::new(cost_est.as_f64() * weight_factor.unwrap_or(Cost::ONE).as_f64())
                    }
                };
                let f_score_value = tentative_gscore + dst_h_cost;
                costs.push_increase(key_vertex_id, f_score_value.into());
            }
                }
        iterations += 1;
    }
    

    

    let result = SearchResult::new(solution, iterations);
    Ok(result)
}

fn advance_search(
    cost: &mut InternalPriorityQueue<VertexId, ReverseCost>,
    source: VertexId,
    target: Option<VertexId>,
) -> Result<Option<VertexId>, SearchError> {
    match (cost.pop(), target) {
        (None, Some(target_vertex_id)) => Err(SearchError::NoPathExistsBetweenVertices(
            source,
            target_vertex_id,
        )),
        (None, None) => Ok(None),
        (Some((current_v, _)), Some(target_v)) if current_v == target_v => Ok(None),
        (Some((current_vertex_id, _)), _) => Ok(Some(current_vertex_id)),
    }
}

fn get_last_traversed_edge_id(
    this_vertex_id: &VertexId,
    first_vertex_id: &VertexId,
    tree: &HashMap<VertexId, SearchTreeBranch>,
) -> Result<Option<EdgeId>, SearchError> {
    if this_vertex_id == first_vertex_id {
        Ok(None)
    } else {
        let edge_id = tree
            .get(this_vertex_id)
            .ok_or_else(|| {
                SearchError::InternalError(format!(
                    "expected vertex id {} missing from solution",
                    this_vertex_id
                ))
            })?
            .edge_traversal
            .edge_id;
        Ok(Some(edge_id))
    }
}
} // verus!
fn main() {}

impl std::fmt::Display for VertexId { fn fmt(&self, f: &mut std::fmt::Formatter<'_>) -> std::fmt::Result { write!(f, "{}", self.0) } }
